"""C14 — framed blocking I/O round-trips under any fragmentation and detects truncation."""
from lib import *
from io_lib import *

RULE = ("IOR: the real minicbor_io::Reader over a scripted io::Read (per read call: deliver up to k bytes / Interrupted / hard error; "
        "end of stream when the data is exhausted) vs the extracted Coq model of Reader::read_with + std's read_exact, called until "
        "Ok(None) or a non-decode error; result = every value/outcome in order, bytes left in the source, number of read calls, final "
        "reader buffer. IOW: the real Writer into a recording io::Write (every write call recorded) vs the model. Payloads are CBOR byte "
        "strings decoded with the real minicbor::decode::<ByteVec>; undecodable payloads are an empty payload, an integer, a truncated "
        "string, a break, a text string. Exhaustive: every composition of the stream length into read sizes for all base streams of <= 14 "
        "bytes (<= 16 thorough); every single placement of Interrupted for streams <= 12 (<= 16) bytes, every subset of placements for streams <= 6 (<= 8) bytes; "
        "every truncation point of every base stream under byte-wise, whole and random fragmentation; max_len in {0, n-1, n, n+1} around "
        "each payload size n; hard errors at every position; raw prefixes (2^20, 2^32-1, declared > present). Seeded random walks over "
        "streams of up to 8 frames / 300-byte payloads. The harness oracle re-states the property on the implementation's own output: reads "
        "== written payloads (by decode verdict) then clean end; cut inside a frame -> UnexpectedEof; over-long -> InvalidLen; final reader "
        "buffer <= max_len; writer: one write call of be32(len)+payload per accepted value, returned length == payload length, refused "
        "values put nothing into the sink; IOW value lists may contain the caller operations F (Writer::flush, over an inner flush that succeeds "
        "or fails) and M<n> (set_max_len n) between the values: they write nothing, flush calls the inner flush once and returns its result, "
        "and every value is judged against the max_len in force (no theorem; correspondence and oracle only). Non-trivial = the schedule has >= 2 tokens, or the stream is cut, or (IOW) any case.")
ASSUMPTIONS = ["the inner reader honours io::Read (returns n <= buf.len(); Ok(0) only at end of stream) and uses std's default read_exact",
               "max_len < 2^32 (set_max_len takes a u32), hence accepted payloads < 2^32 bytes; payloads near 2^32 bytes are not run on the real code",
               "the value codec is abstract in the theorems (dec : bytes -> option V); the correspondence runs it with ByteVec / a byte-string value",
               "64-bit usize"]

def base_streams():
    """Small frame lists (payload, decodes?) with stream length <= 16."""
    g0, g1, g2, g3 = good(b""), good(b"\x01"), good(b"\x01\x02"), good(b"\xaa\xbb\xcc")
    return [
        [g0], [g1], [g2], [g3], [bad(0)], [bad(1)], [bad(2)],
        [g0, g0], [g1, g0], [bad(0), g1], [bad(1), g0], [g1, bad(0)], [bad(0), bad(0)], [bad(0), bad(0), bad(0)],
        [g2, g1], [g1, bad(1), g0], [bad(3), g2], [g3, g0], [g0, g0, g0],
    ]

def generate(tier, rng):
    big = tier == "thorough"
    LMAX = 16 if big else 14
    LSUB = 8 if big else 6
    out = []
    streams = base_streams()
    for fr in streams:
        L = stream_len(fr)
        mx = 16
        if L <= LMAX:
            for parts in compositions(L):
                out.append(reader_line("IOR", mx, fr, None, "sched", parts))
                # one Interrupted at every position
                if L <= 12 or big:
                    for i in range(len(parts) + 1):
                        out.append(reader_line("IOR", mx, fr, None, "sched", parts[:i] + ["I"] + parts[i:]))
                if L <= LSUB:
                    for mask in range(1, 1 << (len(parts) + 1)):
                        sch = []
                        for i in range(len(parts) + 1):
                            if mask >> i & 1: sch.append("I")
                            if i < len(parts): sch.append(parts[i])
                        out.append(reader_line("IOR", mx, fr, None, "sched", sch))
        # truncation at every point
        for cut in range(0, L + 1):
            for sch in ([], [1] * cut, ["I"] + [1] * cut + ["I"], rand_composition(rng, max(cut, 1)), rand_composition(rng, max(cut, 1), 3)):
                out.append(reader_line("IOR", mx, fr, cut, "sched", sch))
            if L <= 9:
                for parts in compositions(cut):
                    out.append(reader_line("IOR", mx, fr, cut, "sched", parts))
        # max_len around the payload sizes
        sizes = sorted({len(f[0]) for f in fr})
        for n in sizes:
            for m in {0, max(n - 1, 0), n, n + 1}:
                for sch in ([], [1] * L, rand_composition(rng, L)):
                    out.append(reader_line("IOR", m, fr, None, "sched", sch))
                for cut in range(0, L + 1, 1 if L <= 9 else 3):
                    out.append(reader_line("IOR", m, fr, cut, "sched", [2] * cut))
        # a hard error at every position of the byte-wise and a random schedule
        for base in ([1] * L, rand_composition(rng, L)):
            for i in range(len(base) + 1):
                out.append(reader_line("IOR", mx, fr, None, "sched", base[:i] + ["E"] + base[i:]))
    # raw prefixes: over-long declared lengths must be refused before any allocation
    # (a single 2^32-1 case: were the check to come after the resize, each one would zero 4 GiB)
    out.append(reader_line("IOR", 16, [("raw", bytes.fromhex("ffffffff"))], None, "sched", [2, "I", 2]))
    for raw, mx in ((bytes.fromhex("00100000"), 16), (bytes.fromhex("00000011"), 16), (bytes.fromhex("00010000"), 65535),
                    (bytes.fromhex("00000005") + b"\x41\x01", 16), (bytes.fromhex("0000000501"), 4), (bytes.fromhex("000000"), 16), (bytes.fromhex("00000100") + bytes(255), 256)):
        for sch in ([], [1] * len(raw), [1, "I", 1, 1, "I", 1, 1], [3, 1, 2], [4], [2, 2]):
            out.append(reader_line("IOR", mx, [("raw", raw)], None, "sched", sch))
            out.append(reader_line("IOR", mx, [good(b"\x07"), ("raw", raw)], None, "sched", sch))
    # random walks
    for _ in range(40000 if big else 6000):
        fr = []
        for _ in range(rng.randrange(0, 9)):
            if rng.random() < 0.75:
                n = rng.choice([0, 1, 2, 3, 5, 22, 23, 24, 25, 60, 255, 256, 300]) if rng.random() < 0.3 else rng.randrange(0, 12)
                fr.append(good(bytes(rng.getrandbits(8) for _ in range(n))))
            else: fr.append(bad(rng.randrange(0, 6)))
        L = stream_len(fr)
        sizes = [len(f[0]) for f in fr] or [0]
        mx = rng.choice([max(sizes), max(sizes), max(sizes) + 1, max(max(sizes) - 1, 0), rng.choice(sizes), 512 * 1024, 0])
        cut = rng.randrange(0, L + 1) if rng.random() < 0.3 else None
        tot = L if cut is None else cut
        sch = rand_composition(rng, max(tot, 1), rng.choice([None, 1, 2, 3, 4, 7]))
        if rng.random() < 0.5:
            sch2 = []
            for t in sch:
                while rng.random() < 0.2: sch2.append("I")
                if rng.random() < 0.02: sch2.append("E")
                sch2.append(t)
            sch = sch2
        if rng.random() < 0.2: sch = sch[: rng.randrange(0, len(sch) + 1)]
        out.append(reader_line("IOR", mx, fr, cut, "sched", sch))
    # ---- writer
    contents = [b"", b"\x01", b"\x01\x02", bytes(range(22)), bytes(range(23)), bytes(range(24)), bytes(range(255)), bytes(range(256)), bytes(300)]
    for c in contents:
        n = len(bstr(c))
        for m in {0, max(n - 1, 0), n, n + 1, 512 * 1024}:
            out.append("IOW max=%d vals=%s sink=-" % (m, item(c)))
            out.append("IOW max=%d vals=%s,%s,%s sink=-" % (m, item(c), item(b"\x09"), item(c)))
            out.append("IOW max=%d vals=%s sink=E" % (m, item(c)))
            out.append("IOW max=%d vals=!%s,%s sink=-" % (m, item(c), item(c)))
    for _ in range(6000 if big else 1500):
        vals, sk = [], ""
        for _ in range(rng.randrange(1, 7)):
            n = rng.choice([0, 1, 2, 3, 5, 22, 23, 24, 25, 254, 255, 256, 300]) if rng.random() < 0.3 else rng.randrange(0, 12)
            c = bytes(rng.getrandbits(8) for _ in range(n))
            vals.append(("!" if rng.random() < 0.15 else "") + item(c))
            sk += "E" if rng.random() < 0.1 else "A"
        sizes = [len(bstr(bytes.fromhex(v.lstrip("!").replace(".", "")))) for v in vals]
        mx = rng.choice([max(sizes), max(sizes) - 1, max(sizes) + 1, rng.choice(sizes), rng.choice(sizes) - 1, 512 * 1024, 0])
        out.append("IOW max=%d vals=%s sink=%s" % (max(mx, 0), ",".join(vals), sk))
    # caller operations between the values: F = Writer::flush (sink letter E: the inner flush fails), M<n> = set_max_len(n)
    for c in contents[:6]:
        n = len(bstr(c))
        for m in {0, max(n - 1, 0), n, n + 1}:
            for seq, sk in (([item(c), "F", item(c)], "-"), (["F", item(c)], "E"), ([item(c), "F", "F", item(c)], "AEA"), (["M%d" % m, item(c)], "-"),
                            ([item(c), "M%d" % m, item(c), "M%d" % (n + 5), item(c)], "-"), ([item(c), "M%d" % m, "F", item(c)], "AAEA"),
                            (["!" + item(c), "M%d" % m, "F", item(c)], "-"), ([item(c), "M0", "M%d" % n, item(c), "F"], "EAAAE")):
                out.append("IOW max=%d vals=%s sink=%s" % (n, ",".join(seq), sk))
    for _ in range(6000 if big else 1500):
        vals, sk = [], ""
        sizes = []
        for _ in range(rng.randrange(1, 8)):
            r = rng.random()
            if r < 0.2: vals.append("F")
            elif r < 0.4: vals.append("M%d" % max(0, rng.choice([0, 1, 2, 5, 24, 25, 300, 512 * 1024, 4294967295] + sizes + [x - 1 for x in sizes] + [x + 1 for x in sizes])))
            else:
                n = rng.choice([0, 1, 2, 3, 5, 22, 23, 24, 25, 254, 255, 256, 300]) if rng.random() < 0.3 else rng.randrange(0, 12)
                c = bytes(rng.getrandbits(8) for _ in range(n))
                vals.append(("!" if rng.random() < 0.15 else "") + item(c))
                sizes.append(len(bstr(c)))
            sk += "E" if rng.random() < 0.15 else "A"
        out.append("IOW max=%d vals=%s sink=%s" % (rng.choice([0, 5, 12, 300, 512 * 1024]), ",".join(vals), sk))
    # frames larger than 64 KiB (a reader that fills its buffer in steps has seams there): Interrupted and short reads around 2^16
    bigp = bytes((i * 7 + 3) & 0xff for i in range(70000))
    frb = [good(bigp), good(b"\x01\x02")]
    out.append(reader_line("IOR", 100000, frb, None, "sched", [4, 65536, "I", "I", 3000, "I", 100000]))
    out.append(reader_line("IOR", 100000, frb, None, "sched", [3, 1, 65535, 2, "I", 100000]))
    out.append(reader_line("IOR", 100000, frb, None, "sched", [100000]))
    out.append(reader_line("IOR", 100000, frb, 4 + 65536 + 10, "sched", [70000, "I", 100000]))
    huge = bytes((i * 11 + 5) & 0xff for i in range(200000))
    frh = [good(huge), good(b"\x07")]
    out.append(reader_line("IOR", 300000, frh, None, "sched", [300000]))
    out.append(reader_line("IOR", 300000, frh, None, "sched", [4, 131072, "I", 1, "I", 300000]))
    # values larger than 64 KiB through the blocking writer
    out.append("IOW max=%d vals=%s,%s,%s sink=-" % (300000, item(b"\x01"), item(bigp), item(b"\x02\x03")))
    out.append("IOW max=%d vals=%s,%s sink=-" % (300000, item(huge), item(b"\x02")))
    # payloads of exactly 65536 and 131072 bytes (a reader that fills its buffer in 64 KiB steps computes the last step from a remainder)
    for tot in (65536, 131072):
        inner = tot - (3 if tot - 3 < 65536 else 5)
        pl = bytes((i * 3 + 1) & 0xff for i in range(inner))
        fx = [good(pl), good(b"\x09")]
        assert len(fx[0][0]) == tot
        out.append(reader_line("IOR", 300000, fx, None, "sched", [300000]))
        out.append(reader_line("IOR", 300000, fx, None, "sched", [4, 65536, 1, 300000]))
    return out

def _kv(line, key):
    for t in line.split():
        if t.startswith(key + "="): return t[len(key) + 1:]
    return "-"

def nontrivial(line, impl):
    if line.startswith("IOW"): return True
    s = _kv(line, "sched")
    return _kv(line, "cut") != "-" or s.count(",") >= 1

def classify(line, impl):
    op = line.split()[0]
    if op == "IOW": return "IOW/" + ("refused" if "we:" in impl else "ok")
    s = _kv(line, "sched")
    tag = "IOR"
    if "r" in _kv(line, "frames"): tag += "/raw"
    if _kv(line, "cut") != "-": tag += "/cut"
    if "I" in s: tag += "/intr"
    if "E" in s: tag += "/err"
    first = impl.split(" ")[0]
    last = first.split(",")[-1]
    return tag + ":" + last
