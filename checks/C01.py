"""C01 — value round-trip for every built-in codec type."""
from lib import *
import typegen as tg

RULE = ("RT <type> <value>: a value of one of the ~115 registry instantiations of the built-in Encode/Decode/CborLen impls is encoded, "
        "the produced bytes are decoded as the same type, cbor_len is computed; the real crate vs the extracted Coq model (bytes, decoded "
        "value, end position, length). Values: every width boundary, empty/23/24/255/256-element containers, nested combinations, seeded "
        "random. O= (implementation only): decoding succeeds, value equal (floats bitwise, unordered collections as sorted text), all "
        "bytes consumed, len == bytes written, exact-size slice suffices and one byte less fails, encoding twice gives the same bytes. "
        "PFX: every strict prefix of the encoding fails with end of input. Non-trivial: the encoding is longer than 2 bytes.")
ASSUMPTIONS = ["transparent wrappers (Box, Cell, RefCell, Wrapping, Cow, atomics) are erased in the model",
               "hash-based collections are exercised with at most one element in RT (iteration order is not modelled) and with many in DT",
               "Token is covered by C11's TKE cases"]

def generate(tier, rng):
    per = 400 if tier == "thorough" else 60
    out = []
    for key in tg.REGISTRY:
        d = tg.parse_desc(key)
        seen = set()
        for _ in range(per):
            v = tg.gen_value(d, rng)
            v = tg.rust_order(d, v)
            t = tg.show(d, v)
            if t in seen: continue
            seen.add(t)
            out.append("RT %s %s" % (key, t))
            if len(seen) % 4 == 0: out.append("PFX %s %s" % (key, t))
    return out

def nontrivial(line, impl):
    return len(impl.split(";")[0]) > 4 or impl.startswith("n=")

def classify(line, impl):
    t = line.split()
    return t[0] + ":" + t[1].split("(")[0] + (":refused" if impl.startswith("refused") else "")
