"""C01 — value round-trip for every built-in codec type."""
from lib import *
import typegen as tg

RULE = ("RT <type> <value>: a value of one of the ~115 registry instantiations of the built-in Encode/Decode/CborLen impls is encoded, "
        "the produced bytes are decoded as the same type, cbor_len is computed; the real crate vs the extracted Coq model (bytes, decoded "
        "value, end position, length). Values: every width boundary, empty/23/24/255/256-element containers, nested combinations, seeded "
        "random. O= (implementation only): decoding succeeds, value equal (floats bitwise, unordered collections as sorted text), all "
        "bytes consumed, len == bytes written, exact-size slice suffices and one byte less fails, encoding twice gives the same bytes. "
        "PFX: every strict prefix of the encoding fails with end of input. Non-trivial: the encoding is longer than 2 bytes.")
ASSUMPTIONS = ["transparent wrappers (Box, Cell, RefCell, Wrapping, Cow, atomics) are erased in the model",
               "hash-based collections are exercised with at most one element in RT (iteration order is not modelled) and with many in DT",
               "Token is covered by C11's TKE cases"]

def generate(tier, rng):
    per = 400 if tier == "thorough" else 60
    out = []
    for key in tg.REGISTRY:
        d = tg.parse_desc(key)
        seen = set()
        for _ in range(per):
            v = tg.gen_value(d, rng)
            v = tg.rust_order(d, v)
            t = tg.show(d, v)
            if t in seen: continue
            seen.add(t)
            out.append("RT %s %s" % (key, t))
            if len(seen) % 4 == 0: out.append("PFX %s %s" % (key, t))
    d = tg.parse_desc("refcell(seq(u8))")
    for _ in range(20): out.append("RCB %s" % tg.show(d, tg.rust_order(d, tg.gen_value(d, rng))))
    for raw in (b"/srv/caf\xe9.txt", b"\xff", b"a\x80b", b"/ok/path", b"caf\xc3\xa9", b"\xed\xa0\x80", b"\xf4\x90\x80\x80", b"x" * 30 + b"\xc3"):
        out.append("PNU %s" % hexs(raw))
    # large values: element counts and byte lengths around 2^16 (3-byte -> 5-byte heads; counters that are narrower than usize)
    def big(key, v):
        d = tg.parse_desc(key)
        out.append("RT %s %s" % (key, tg.show(d, tg.rust_order(d, v))))
    for n in (65535, 65536, 70000):
        big("bytevec", bytes((i * 13) & 0xff for i in range(n)))
        big("string", (b"ab\xc3\xa9" * (n // 4 + 1))[: n - (n % 4)] + b"x" * (n % 4))
    # element counts: the extracted model is quadratic in the number of elements (83 s for 2^16), so the quick tier stays below
    # and the thorough tier crosses the 2^16 boundary once per shape
    for n in ((300, 5000) if tier != "thorough" else (300, 5000, 65535, 65536)):
        big("seq(u8)", [(i * 7) & 0xff for i in range(n)])
        big("deque(i32)", [i - 1000 for i in range(n)])
        big("seq(opt(u16))", [None if i % 5 == 0 else ("some", i & 0xffff) for i in range(n)])
        big("hmap(u16,bool)", [(i, i % 3 == 0) for i in range(n)])
        big("bset(i16)", [i - 32768 for i in range(n)])
    return out

def nontrivial(line, impl):
    return len(impl.split(";")[0]) > 4 or impl.startswith("n=")

def classify(line, impl):
    t = line.split()
    return t[0] + ":" + t[1].split("(")[0] + (":refused" if impl.startswith("refused") else "")
