"""C18 — the serde bridge and the native Encode / Decode impls interoperate on the shared data model."""
from lib import *
import typegen as tg

RULE = ("X18 <type> <value>: a value of one of ~60 instantiations of the shared data model (integers, bool, char, floats, strings, unit, "
        "options, sequences, fixed arrays, tuples up to 16, ordered maps, ~35 of them composite) is written with minicbor_serde::to_vec and "
        "with minicbor::to_vec; the native bytes are read through the bridge and the bridge's bytes natively; real crates vs the extracted "
        "Coq model (both byte strings, both outcomes). O= (implementation): identical bytes, both cross-decodings return the original "
        "value and consume everything. XR <type> <hex>: alternative encodings of the same value (wider heads, indefinite arrays and "
        "maps at every level, seeded) and mutated / truncated encodings read by both decoders; O=: when both succeed they return the same "
        "value at the same position. Values as in C01 (every width boundary, 0/23/24/255/256-element containers). Non-trivial: an encoding "
        "longer than one byte.")
ASSUMPTIONS = ["transparent wrappers are not part of the shared model; hash-based collections are excluded (iteration order)",
               "Option<Option<T>> is in the family but exempt from the equal-value clause (the documented exception of C17)",
               "64-bit target"]

SHARED = """u8 u16 u32 u64 usize i8 i16 i32 i64 isize bool char f32 f64 string unit
opt(u8) opt(string) opt(unit) opt(i64) opt(opt(u8)) opt(seq(u8))
seq(u8) seq(opt(u16)) seq(seq(i8)) seq(string) deque(i32) llist(bool) bset(i16)
arr0(u8) arr3(u16) arr2(opt(u8)) arr2(string) arr25(u8)
bmap(u8,string) bmap(string,seq(u8))
tup(u8) tup(u8,i8) tup(string,opt(u8),bool) tup(u8,u8,u8,u8) tup(u64,i64,f32,f64,char) tup16 seq(tup(u8,string))
bmap(i16,opt(seq(tup(u8,string)))) seq(bmap(u8,bool)) opt(tup(char,unit)) tup(seq(u8),bmap(string,i8),opt(f32))
arr2(seq(arr2(i8))) seq(unit) bmap(tup(u8,bool),string) opt(arr3(opt(char))) seq(opt(opt(u8))) bmap(char,f64) tup(unit,unit)
seq(seq(seq(u16))) bmap(u64,bmap(i8,string)) tup(opt(unit),seq(bool),i64) seq(tup(f64,f32)) opt(bmap(string,opt(u32)))""".split()

def map_key(d, v):
    """Rust's Ord for the key types used above"""
    if d[0] in ("tup", "fields"): return tuple(map_key(x, y) for x, y in zip(d[1], v))
    return v

def order(d, v):
    """BTreeMap / BTreeSet iteration order, recursively"""
    k = d[0]
    if k == "opt": return None if v is None else ("some", order(d[1], v[1]))
    if k == "seq":
        l = [order(d[1], x) for x in v]
        return sorted(l) if d[2] == "set" else l
    if k == "arr": return [order(d[2], x) for x in v]
    if k == "map": return sorted([(a, order(d[2], b)) for a, b in v], key=lambda p: map_key(d[1], p[0]))
    if k == "tup": return [order(x, y) for x, y in zip(d[1], v)]
    return v

def generate(tier, rng):
    per = 1500 if tier == "thorough" else 50
    out = []
    for key in SHARED:
        d = tg.parse_desc(key)
        seen = set()
        if d[0] in ("u", "i"):
            lo, hi = (0, (1 << d[1]) - 1) if d[0] == "u" else (-(1 << (d[1] - 1)), (1 << (d[1] - 1)) - 1)
            for v in boundaries(hi, lo): out.append("X18 %s %d" % (key, v))
            for v in boundaries(U64, -(1 << 64)):
                n = v if v >= 0 else -1 - v
                for w in widths_for(n): out.append("XR %s %s" % (key, hexs(head(0 if v >= 0 else 1, n, w))))
        for j in range(per):
            v = order(d, tg.gen_value(d, rng))
            t = tg.show(d, v)
            if t in seen: continue
            seen.add(t)
            out.append("X18 %s %s" % (key, t))
            for _ in range(2):
                out.append("XR %s %s" % (key, hexs(tg.encode(d, v, rng))))
            plain = tg.encode(d, v)
            if j % 3 == 0: out.append("XR %s %s" % (key, hexs(mutate(rng, plain))))
            if j % 8 == 1 and len(plain) <= 30:
                for cut in range(len(plain)): out.append("XR %s %s" % (key, hexs(plain[:cut])))
            if j % 5 == 2: out.append("XR %s %s" % (key, hexs(gen_item(rng, 2))))
    return out

def nontrivial(line, impl):
    t = line.split()
    if t[0] == "X18": return len(impl.split(";")[0]) > 2
    return not impl.startswith("err") or ";ok" in impl

def classify(line, impl):
    t = line.split()
    parts = impl.split(";")
    if t[0] == "XR":
        a = "ok" if parts[0].startswith("ok") else "err"
        b = "ok" if parts[-1].startswith("ok") else "err"
        return "XR:%s:%s/%s" % (t[1].split("(")[0], a, b)
    return "X18:" + t[1].split("(")[0]
