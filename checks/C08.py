"""C08 — derived Encode emits exactly the documented wire format."""
import derivegen as dg
from derivegen import prepare, route, oracle

RULE = ("DENC <sid> <schema> <def> <value>: a value of a type definition drawn from the schema grammar (checks/derivegen.py: n/b indices with gaps "
        "and permutations, array/map at type, enum and variant level, index_only, transparent, skip, tags at the four levels, with=minicbor::bytes, "
        "a custom nil-aware codec, aliases of Option (leaf aliases under a codec and codec-less `type A = Option<T>` fields around references, Vec of references and leaves), generics, unit/tuple/named shapes, lifetimes, nesting) is encoded by the real derive output "
        "(generated crate harness-derive) and by the Coq interpreter gen_encode; S= is ser(prefer(doc_tree)) from Spec/DeriveDoc.v. All Some/None "
        "combinations of the optional fields (up to 2^10 per definition) x boundary leaf values. DMETA: the same definition with shuffled "
        "declaration order, fresh names, n<->b and other attribute spellings must give identical bytes (O=) and the model of the twin gives S=. "
        "Every definition is additionally WRITTEN in a spelling drawn from the seed (model-neutral, the schema text does not record it): Option / core::option::Option / "
        "std::option::Option, #[n(i)] / #[cbor(n(i))] (b alike; n or b on variants), the #[cbor(..)] items of a level merged, split and reordered as far as attrs.rs accepts, "
        "with = \"m\" / encode_with + decode_with + cbor_len (+ is_nil + nil), pass-through encode_with / decode_with / cbor_len / with on codec-less fields. "
        "Non-trivial: more than 2 bytes are produced.")
ASSUMPTIONS = ["field types are drawn from a pool of ~55 leaf types plus references, Option and Vec of other definitions; nesting depth <= 4 definitions",
               "index literals above 2^31-1 do not compile with CborLen/indefinite arrays and are outside the grammar",
               "the custom codec is one fixed module (u64, 0 is nil, written as null) in its has_nil / is_nil+nil / plain spellings"]

def generate(tier, rng):
    w = dg.get_world(tier, rng)
    return dg.denc_cases(w, rng, tier) + dg.dmeta_cases(w, rng, tier) + dg.neg_cases()

def nontrivial(line, impl): return len(impl.split(";")[0]) > 4
def classify(line, impl):
    t = line.split(" ")
    return t[0] + (":" + [x for x in t if x.startswith("k=")][0] if any(x.startswith("k=") for x in t) else "")
def in_known_class(cls, line, impl): return dg.known_class(cls, line, impl)
