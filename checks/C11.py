"""C11 — token streams are faithful: tokenise and re-encode is the identity."""
from lib import *
from tokgen import *

SPEC_FLAT = True
RULE = ("TK <hex> [pref]: Tokenizer::new(bytes).collect() and Encoder::tokens over the Ok tokens on the real crate vs the extracted Coq "
        "model (token by token, chunk by chunk); S= is the spec-side token walk (Spec/Toks.v toks) of the tree the reference parser finds "
        "and the preferred re-serialisation of that tree; O= checks on the implementation: <= one token per input byte, at most one error "
        "token and it is last, nothing after the end, and for inputs the generator marks `pref` (well-formed, minimal heads, indefinite "
        "containers allowed, valid UTF-8, no signalling-NaN half) re-encoding equals the input. TKE <tokens>: every token encoded with the "
        "real Token::encode, minicbor::len of each token compared with the bytes written (C07 token clause), tokenised back and compared "
        "by value. Exhaustive: all inputs of <= 2 bytes, all 65536 half patterns, all simple values incl. f8 00..ff, all trees of <= 3 nodes "
        "over a leaf alphabet x all head widths, all token sequences of length <= 2 over a boundary alphabet; sampled: 3-byte inputs, "
        "grammar trees of depth 4, token sequences of length 3-4, mutated/truncated items, heads with extreme declared lengths. "
        "Non-trivial: at least two tokens, or a token with an argument/payload beyond the initial byte.")
ASSUMPTIONS = ["Token requires feature half; the harness is built with std+half", "usize is u64",
               "Encoder::tokens into a sink that accepts everything (bounded sinks: C13)"]

TOK_ALPHA = (["Bool(true)", "Bool(false)", "Null", "Undefined", "Break", "BeginBytes", "BeginString", "BeginArray", "BeginMap"]
  + ["U8(%d)" % v for v in (0, 23, 24, 255)] + ["U16(%d)" % v for v in (0, 24, 255, 256, 65535)]
  + ["U32(%d)" % v for v in (5, 65535, 65536, (1 << 32) - 1)] + ["U64(%d)" % v for v in (0, 255, (1 << 32) - 1, 1 << 32, U64)]
  + ["I8(%d)" % v for v in (-128, -25, -24, -1, 0, 127)] + ["I16(%d)" % v for v in (-32768, -257, -256, -129, -1, 300, 32767)]
  + ["I32(%d)" % v for v in (-(1 << 31), -65537, -65536, -1, 70000, (1 << 31) - 1)]
  + ["I64(%d)" % v for v in (-(1 << 63), -(1 << 32) - 1, -(1 << 32), -1, 1 << 40, (1 << 63) - 1)]
  + ["Int(%d)" % v for v in (-(1 << 64), -(1 << 63) - 1, -(1 << 63), -25, -1, 0, 23, 24, 1 << 63, U64)]
  + ["F16(%d)" % v for v in (0, 0x80000000, 0x3f800000, 0x7f800000, 0x7fc00000, 0x477fe000, 0x33800000, 0x38800000)]
  + ["F32(%d)" % v for v in (0, 0x3f800001, 0x7fa00000, 0xffffffff)] + ["F64(%d)" % v for v in (0, 0x3ff0000000000000, 0x7ff4000000000000, U64)]
  + ["Bytes(-)", "Bytes(00)", "Bytes(%s)" % ("ab" * 23), "Bytes(%s)" % ("cd" * 24), "Bytes(%s)" % ("ef" * 256)]
  + ["String(-)", "String(61)", "String(e282ac)", "String(%s)" % ("62" * 24), "String(%s)" % ("f09d849e" * 64)]
  + ["Array(%d)" % v for v in (0, 1, 23, 24, 256, 65536, 1 << 32, U64)] + ["Map(%d)" % v for v in (0, 1, 24, U64)]
  + ["Tag(%d)" % v for v in (0, 1, 23, 24, 255, 256, 65535, 65536, (1 << 32) - 1, 1 << 32, U64)]
  + ["Simple(%d)" % v for v in (0, 19, 20, 21, 22, 23, 24, 31, 32, 255)])   # 24..31: written as f8 xx and read back (not well-formed: finding F2b, C03)
TOK_BAD = ["F16(%d)" % 0x3f800001, "F16(%d)" % 0x7fa00000, "F16(%d)" % 0x47800000, "F16(%d)" % 1]

def generate(tier, rng):
    big = tier == "thorough"
    out = []
    # ---- TK: everything short
    out += ["TK %s" % hexs(b) for b in short_inputs()]
    out += ["TK %s" % hexs(b) for b in three_byte_sample(rng, tier)]
    # all half patterns, all simple values
    for x in range(65536):
        out.append("TK f9%04x%s" % (x, "" if snan16(x) else " pref"))
    out += ["TK %02x pref" % b for b in range(0xe0, 0xf8)] + ["TK f8%02x%s" % (x, " pref" if x >= 32 else "") for x in range(256)]
    # all small trees x head widths; the minimal-width ones carry the identity oracle
    for t in small_trees(rng, True, 40000 if big else 10000): out.append("TK %s" % hexs(t))
    for t in small_trees(rng, False, 20000 if big else 5000): out.append("TK %s%s" % (hexs(t), " pref" if round_trip_clean(t) else ""))
    # sequences of items, deep grammar trees (any widths; minimal widths with the identity oracle)
    for _ in range(20000 if big else 2500):
        b = b"".join(gen_item(rng, 4) for _ in range(rng.choice([1, 1, 2, 3])))
        out.append("TK %s" % hexs(b))
        b = b"".join(gen_item(rng, 4, True, True) for _ in range(rng.choice([1, 1, 2, 3])))
        out.append("TK %s%s" % (hexs(b), " pref" if round_trip_clean(b) else ""))
    # integer heads at every width boundary
    for mt in range(0, 7):
        for n in boundaries(U64):
            for w in widths_for(n):
                tail = b"\x00" * n if mt in (2, 3) and n <= 300 else b"\x01\x02"
                out.append("TK %s" % hexs(head(mt, n, w) + tail))
    # malformed: mutated / truncated items, extreme declared lengths
    out += ["TK %s" % hexs(b) for b in malformed(rng, 30000 if big else 4000)]
    for b in [gen_item(rng, 3) for _ in range(300 if not big else 2000)]:
        out += ["TK %s" % hexs(b[:k]) for k in range(len(b))]
    out += ["TK %s" % h for h in EXTREME]
    # ---- TKE: token sequences
    out.append("TKE -")
    out += ["TKE %s" % a for a in TOK_ALPHA + TOK_BAD]
    out += ["TKE %s,%s" % (a, b) for a in TOK_ALPHA + TOK_BAD for b in TOK_ALPHA + TOK_BAD if len(a) + len(b) < 700]
    short = [t for t in TOK_ALPHA if len(t) < 60]
    for _ in range(200000 if big else 12000):
        k = rng.choice([3, 3, 4])
        out.append("TKE " + ",".join(rng.choice(short) for _ in range(k)))
    # every payload value of the narrow token types
    out += ["TKE U8(%d)" % v for v in range(256)] + ["TKE I8(%d)" % v for v in range(-128, 128)] + ["TKE Simple(%d)" % v for v in range(256)]
    out += ["TKE U16(%d)" % v for v in range(0, 65536, 1 if big else 13)] + ["TKE I16(%d)" % v for v in range(-32768, 32768, 1 if big else 13)]
    for m, lo, hi in (("U32", 0, (1 << 32) - 1), ("U64", 0, U64), ("I32", -(1 << 31), (1 << 31) - 1), ("I64", -(1 << 63), (1 << 63) - 1),
                      ("Int", -(1 << 64), U64), ("Tag", 0, U64), ("Array", 0, U64), ("Map", 0, U64)):
        vals = set(boundaries(hi, lo)) | set(rand_ints(rng, 2000 if big else 200, lo, hi))
        out += ["TKE %s(%d)" % (m, v) for v in sorted(vals)]
    # F16 tokens: the f32 image of every half pattern (round-trips), and arbitrary f32 payloads (lossy, value not claimed)
    for x in range(0, 65536, 1 if big else 5):
        out.append("TKE F16(%d)" % half_to_f32_bits(x))
    out += ["TKE F16(%d)" % rng.getrandbits(32) for _ in range(3000)]
    # the self-described-CBOR tag 55799 in front (d9 d9 f7), also nested and repeated: a tag like any other
    for body in ("01", "80", "d9d9f701", "6161", "9f01ff", "a10102", "f93c00"):
        out.append("TK d9d9f7%s pref" % body)
        out.append("TK 82d9d9f7%s00 pref" % body)
    return out

def half_to_f32_bits(h):
    s, e, m = (h >> 15) & 1, (h >> 10) & 31, h & 1023
    if e == 31: return (s << 31) | 0x7f800000 | ((0x400000 | (m << 13)) if m else 0)
    if e == 0:
        if m == 0: return s << 31
        k = m.bit_length()
        return (s << 31) | ((k + 102) << 23) | ((m << (24 - k)) & 0x7fffff)
    return (s << 31) | ((e + 112) << 23) | (m << 13)

def nontrivial(line, impl):
    t = line.split()
    if t[0] == "TK": return impl.count(",") >= 1 or len(t[1]) > 2 and not impl.startswith("Err") and not impl.startswith("-")
    return impl != "err" and ("," in t[1] or any(c.isdigit() and len(t[1]) > 6 for c in t[1]))

def classify(line, impl):
    t = line.split()
    if t[0] == "TKE": return "TKE/" + ("err" if impl == "err" else "veq" if impl.endswith("veq=true") else "lossy")
    toks = impl.split(";")[0]
    kind = "empty" if toks == "-" else "err:" + toks.rsplit("Err(", 1)[1].split(":")[0].rstrip(")") if "Err(" in toks else "ok"
    return "TK/" + kind + ("/pref" if len(t) > 2 else "") + ("/indef" if "Begin" in toks else "")
