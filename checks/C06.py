"""C06 — skip() consumes exactly one data item, whatever its nesting (both builds: with and without `alloc`)."""
from lib import *
import functools, itertools

import os, shutil, subprocess

CFGS = ("ash", "h")          # alloc+std+half (main harness) / half only (harness-noalloc)

def route(line):
    """cases whose cfg has neither `a` (alloc) nor `s` (std) run on the second harness, built without alloc/std"""
    t = line.split()
    if len(t) >= 5 and t[0] == "D" and t[1] == "skip" and "a" not in t[4] and "s" not in t[4]: return "noalloc"
    return "main"

def prepare(tier, rng, root, cache):
    """Build harness-noalloc/ (minicbor without alloc/std) in its own target dir, the same way bin/check builds harness/."""
    crate = "harness-noalloc"
    hdir, target = os.path.join(root, crate), os.path.join(cache, crate + "-target")
    shutil.copyfile("/repo/Cargo.lock", os.path.join(hdir, "Cargo.lock"))
    env = dict(os.environ, CARGO_NET_OFFLINE="true", CARGO_TARGET_DIR=target, RUSTFLAGS=os.environ.get("RUSTFLAGS", "") + " --cfg minicbor_verif")
    try:
        p = subprocess.run(["timeout", "1700", "cargo", "build", "--offline"], cwd=hdir, env=env, stdout=subprocess.PIPE, stderr=subprocess.STDOUT, timeout=1800)
        rc, log = p.returncode, p.stdout.decode(errors="replace")
    except subprocess.TimeoutExpired:
        rc, log = 124, "[timeout]"
    binary = os.path.join(target, "debug", crate)
    ok = rc == 0 and os.path.exists(binary)
    return ok, "[%s does not build against /repo] " % crate + log[-1500:] if not ok else "", {"noalloc": binary}

RULE = ("D skip <hex> 0 <cfg>: Decoder::skip at position 0 of the input, every input once per build: cfg `ash` = crate built with "
        "alloc+std+half (stack variant, decoder.rs:483; main harness) and cfg `h` = crate built without alloc/std (counting-only "
        "variant, decoder.rs:598; separate crate harness-noalloc), against skip_alloc / skip_noalloc of Model/Decoder.v. "
        "Streams: (1) EXHAUSTIVE item trees by node count over {definite, indefinite} x {array, map} (any number of children; maps "
        "an even number), tag, and a leaf: every shape with <= 5 nodes (quick) / <= 6 nodes (thorough; plus every 7-node shape as the "
        "whole item and one random strict prefix) with the leaf kind of each leaf slot drawn from {scalar, text, bytes, chunked text with 0/1/2 chunks, chunked bytes with 0/1/2 chunks}; additionally "
        "every tree over the full 9-kind leaf alphabet with <= 3 nodes (quick) / <= 4 nodes (thorough); trees with <= 3 nodes "
        "additionally under ALL head-width assignments (immediate,1,2,4,8 bytes for every count/tag/length/integer head), larger "
        "ones in minimal widths plus one random width assignment; every encoding alone, followed by 00 and by ff, and cut at EVERY "
        "strict prefix; (2) random trees with a forced spine to depth 8 and lib.gen_item trees (valid UTF-8 only) with random "
        "suffixes and strict prefixes; (3) nesting chains at depths 1,2,3,9,10,11,100,1000 (quick) and additionally 9999, 10000 "
        "(thorough): 9f^d ff^d, (bf 00)^d, 81^d, (a1 00)^d, 82-chains nested first/last, tag chains c0^d / (d8 ff)^d, alternating "
        "9f 82, bf 00 9f, and patterns that force the switch from counting to stack mode at the top (82 9f ..), at depth "
        "(9f^k 82 9f ff 00 ff^k, 81^k 82 9f ff 00) and that keep nesting after the switch, plus flat containers of 10^3/10^4 "
        "elements and saturating count heads; each with suffixes and several cuts; (4) a separate malformed stream (lib.mutate of "
        "random trees, stray breaks, reserved heads, invalid UTF-8) where only model = implementation and O= apply. "
        "S= (independent specification): Spec/Acc.v spec_acc ASkip on the tree the reference parser finds: ok at |ser e| when all "
        "text is valid UTF-8; for cfg without alloc only when additionally Acc.noalloc_ok e (no indefinite array/map below a "
        "definite one), otherwise no expectation (the build may answer err:message). The reference parser is quadratic in the "
        "nesting depth, so S= is not computed for inputs longer than 4096 bytes (depth-10^4 chains); those are covered by "
        "model = implementation and by O=. O= (property predicate on the implementation): an independent walker in the harness steps "
        "over one item with the typed public accessors (datatype/u64/int/bytes/bytes_iter/str/str_iter/array/map/tag/simple/bool/"
        "null/undefined/f16/f32/f64) keeping one explicit frame per open container; walker ends at q => skip is ok at q (no-alloc "
        "build: or err:message); walker runs into the end of input (strict prefix) => skip is an error; ill-formed input: no claim. "
        "Non-trivial: the input's containers nest to depth >= 2, or an indefinite array/map occurs inside a definite one.")
ASSUMPTIONS = ["usize is u64 (64-bit target)",
               "the harness binary for the no-alloc build itself links std; only the minicbor dependency is compiled without alloc/std "
               "(feature `half` only), in its own cargo target directory so that feature unification cannot add them",
               "S= is not computed for inputs longer than 4096 bytes (reference parser cost); depth-10^4 inputs rely on model = "
               "implementation and the O= walker"]

# --------------------------------------------------------------------------------------------- trees
# tree := ("L", kind) | ("A", indef, children) | ("M", indef, children) | ("T", child)
LEAF9 = ("sc", "tx", "by", "tI0", "tI1", "tI2", "bI0", "bI1", "bI2")
SCALARS = [b"\x00", b"\x17", b"\x18\x18", b"\x19\x01\x00", b"\x1a\x00\x01\x00\x00", b"\x1b" + b"\xff" * 8, b"\x20", b"\x37", b"\x38\xff",
           b"\x3b" + b"\xff" * 8, b"\xe0", b"\xf3", b"\xf4", b"\xf5", b"\xf6", b"\xf7", b"\xf8\x20", b"\xf8\xff", b"\xf9\x3c\x00",
           b"\xfa\x7f\xc0\x00\x00", b"\xfb\x40\x09\x21\xfb\x54\x44\x2d\x18"]
TEXTS = [b"a", b"", "é".encode(), b"ab", "€".encode(), "𝄞".encode()]
BYTESS = [b"\x00", b"", b"\xff", b"\x9f\xff", b"\x01\x02\x03"]

@functools.lru_cache(maxsize=None)
def trees(n, leaves):
    """all trees with exactly n nodes; leaves = tuple of leaf kinds"""
    if n <= 0: return ()
    out = []
    if n == 1: out += [("L", k) for k in leaves]
    out += [("T", t) for t in trees(n - 1, leaves)]
    for f in forests(n - 1, leaves):
        out.append(("A", False, f)); out.append(("A", True, f))
        if len(f) % 2 == 0:
            out.append(("M", False, f)); out.append(("M", True, f))
    return tuple(out)

@functools.lru_cache(maxsize=None)
def forests(n, leaves):
    if n == 0: return ((),)
    out = []
    for k in range(1, n + 1):
        for t in trees(k, leaves):
            for rest in forests(n - k, leaves):
                out.append((t,) + rest)
    return tuple(out)

class Ser:
    """Serialiser. width(n) -> width for the next head carrying n (None = minimal); rot = rotating payload choice."""
    def __init__(self, width=None, rng=None, start=0):
        self.width = width or (lambda n: None)
        self.rng = rng
        self.ctr = start
    def pick(self, pool):
        self.ctr += 1
        return pool[self.ctr % len(pool)] if self.rng is None else self.rng.choice(pool)
    def hd(self, mt, n): return head(mt, n, self.width(n))
    def go(self, t):
        k = t[0]
        if k == "L":
            kind = t[1]
            if kind == "rnd": kind = (self.rng.choice(LEAF9) if self.rng else LEAF9[self.ctr % 9])
            if kind == "sc": return self.pick(SCALARS)
            if kind == "u0": return self.hd(0, 0)            # an integer head whose width is enumerated
            if kind == "tx": s = self.pick(TEXTS); return self.hd(3, len(s)) + s
            if kind == "by": s = self.pick(BYTESS); return self.hd(2, len(s)) + s
            mt, pool = (3, TEXTS) if kind[0] == "t" else (2, BYTESS)
            out = bytes([mt * 32 + 31])
            for _ in range(int(kind[2])):
                s = self.pick(pool); out += self.hd(mt, len(s)) + s
            return out + b"\xff"
        if k == "T": return self.hd(6, self.pick([0, 1, 2, 23, 24, 55799])) + self.go(t[1])
        body = b"".join(self.go(c) for c in t[2])
        mt, cnt = (4, len(t[2])) if k == "A" else (5, len(t[2]) // 2)
        if t[1]: return bytes([mt * 32 + 31]) + body + b"\xff"
        return self.hd(mt, cnt) + body

def all_widths(t):
    """every head-width assignment of tree t (payload choice fixed)"""
    vals = []
    def rec(n): vals.append(n); return None
    Ser(rec).go(t)
    outs = []
    for ws in itertools.product(*[widths_for(v) for v in vals]):
        it = iter(ws)
        outs.append(Ser(lambda n: next(it)).go(t))
    return outs

def with_leaf(t, kind_of):
    """replace every ('L','rnd') slot by a concrete kind"""
    if t[0] == "L": return ("L", kind_of()) if t[1] == "rnd" else t
    if t[0] == "T": return ("T", with_leaf(t[1], kind_of))
    return (t[0], t[1], tuple(with_leaf(c, kind_of) for c in t[2]))

SUFFIXES = (b"", b"\x00", b"\xff")

def emit(out, b, suffixes=SUFFIXES, prefixes=True):
    for s in suffixes: out[hexs(b + s)] = None
    if prefixes is True:
        for k in range(len(b)): out[hexs(b[:k])] = None
    elif prefixes:
        for k in prefixes:
            if 0 <= k < len(b): out[hexs(b[:k])] = None

# --------------------------------------------------------------------------------------------- deep chains
def chains(d):
    """(name, bytes) of well-formed items whose nesting depth grows with d"""
    k = max(1, d // 2)
    B = bytes.fromhex
    P = [
        ("indef-array", B("9f") * d + B("ff") * d),
        ("indef-map", B("bf00") * d + B("00") + B("ff") * d),
        ("def1-array", B("81") * d + B("00")),
        ("def1-map", B("a100") * d + B("00")),
        ("def2-last", B("8200") * d + B("00")),
        ("def2-first", B("82") * d + B("00") + B("00") * d),
        ("tags", B("c0") * d + B("00")),
        ("tags-wide", B("d8ff") * d + B("f6")),
        ("tags-indef", B("c1") * d + B("9fff")),
        ("alt-indef-def", B("9f82") * k + B("00") + B("00ff") * k),
        ("alt-def-indef-last", B("82009f") * k + B("00") + B("ff") * k),
        ("map-indef-array-indef", B("bf009f") * k + B("ffff") * k),
        # switch from counting mode to stack mode ...
        ("switch-top", B("829f") * k + B("00") + B("ff00") * k),                       # ... at the very first indefinite
        ("switch-at-depth-indef", B("9f") * d + B("829fff00") + B("ff") * d),            # ... with irounds = d (pushes d None frames)
        ("switch-at-depth-def", B("81") * d + B("829fff00")),                           # ... with nrounds = 2 after d definite levels
        ("switch-then-indef", B("829f") + B("9f") * d + B("ff") * d + B("ff00")),        # stack mode, d more None frames
        ("switch-then-def", B("829f") + B("81") * d + B("00") + B("ff00")),              # stack mode, d Some frames, lazily popped
        ("switch-then-def2", B("829f") + B("82") * d + B("00") + B("01") * d + B("ff00")),
        ("switch-map", B("a2009f") + B("bf00") * d + B("00") + B("ff") * d + B("ff0102")),
        ("switch-tagged", B("83c09f") + B("c1") * d + B("00") + B("ffc20001")),
        ("switch-deep-mixed", B("9f") * k + B("83009f") + B("9f82") * k + B("00") + B("00ff") * k + B("ff01") + B("ff") * k),
    ]
    return P

def flat(n):
    B = bytes.fromhex
    return [
        ("flat-indef", B("9f") + B("00") * n + B("ff")),
        ("flat-def", head(4, n) + B("00") * n),
        ("flat-map", head(5, n) + B("0001") * n),
        ("flat-in-switch", B("829f") + head(4, n) + B("f6") * n + B("ff") + head(5, n) + B("6161") * n + B("40") * n),
        ("flat-empty-indef", head(4, n) + B("9fff") * n),
    ] + ([] if n > 10000 else [   # the model's chunk iterators are quadratic in the number of chunks (2 s at 10^4, > 60 s at 65536)
        ("flat-chunks", B("9f") + B("7f") + B("6161") * n + B("ff") + B("5f") + B("40") * n + B("ff") + B("ff")),
    ])

# --------------------------------------------------------------------------------------------- random trees
def gen_spine(rng, depth):
    """random tree whose nesting reaches exactly `depth` containers/tags along one path; siblings from lib.gen_item"""
    if depth == 0: return gen_item(rng, 1)
    inner = gen_spine(rng, depth - 1)
    kind = rng.randrange(0, 5)
    if kind == 4: return head(6, rng.choice([0, 1, 24, 256, 55799]), None) + inner
    if kind in (0, 1):
        n = rng.randrange(1, 4)
        items = [gen_item(rng, rng.choice([0, 0, 1, 2])) for _ in range(n - 1)]
        items.insert(rng.randrange(0, n), inner)
        return (b"\x9f" + b"".join(items) + b"\xff") if kind else (head(4, n, rng.choice(widths_for(n))) + b"".join(items))
    n = rng.randrange(1, 3)
    items = [gen_item(rng, rng.choice([0, 0, 1, 2])) for _ in range(2 * n - 1)]
    items.insert(rng.randrange(0, 2 * n), inner)
    return (b"\xbf" + b"".join(items) + b"\xff") if kind == 3 else (head(5, n, rng.choice(widths_for(n))) + b"".join(items))

MALFORMED = ["ff", "82ff00", "9fc0ff", "c0ff", "81ff", "a100ff", "bf00ff", "9f8201ff", "1c", "1f", "3c", "5c", "7e", "9c", "bd", "dc", "fc", "fe",
             "f800", "f81f", "61ff", "62c328", "7f61ffff", "7f4100ff", "5f6161ff", "5f5fffff", "7f7fffff", "9f61ffff", "8261ff00",
             "9bffffffffffffffff00", "9bffffffffffffffff9bffffffffffffffff00", "bb800000000000000000", "bbffffffffffffffff0000",
             "9bffffffffffffffff9fff", "bb80000000000000009fff", "9b0000000000000001", "829f", "829fff", "829fffff", "82ffff", "9fffff"]

def generate(tier, rng):
    big = tier == "thorough"
    out = {}                       # hex -> None, insertion-ordered and duplicate-free
    # (1a) every tree over the full leaf alphabet, small: all widths for <= 3 nodes
    nfull = 4 if big else 3
    for n in range(1, nfull + 1):
        for i, t in enumerate(trees(n, LEAF9)):
            emit(out, Ser(start=i).go(t))
            if n <= 3:
                for b in all_widths(t): emit(out, b, prefixes=True if n <= 2 else (1, len(b) - 1, len(b) // 2))
    for n in range(1, 4):
        for t in trees(n, ("u0", "tx", "by")):
            for b in all_widths(t): emit(out, b, prefixes=True if n <= 2 else (1, len(b) - 1, len(b) // 2))
    # (1b) every shape up to the node bound, leaf kind per slot random; minimal widths + one random width assignment
    nmax = 6 if big else 5
    for n in range(1, nmax + 1):
        for i, t in enumerate(trees(n, ("rnd",))):
            emit(out, Ser(rng=rng).go(t))
            if n <= 5 or i % 4 == 0:
                b = Ser(width=lambda v: rng.choice(widths_for(v)), rng=rng).go(t)
                emit(out, b, prefixes=(rng.randrange(0, len(b)), len(b) - 1))
    if big:
        # every shape with exactly 7 nodes: the whole item (no suffix) and one random strict prefix
        for t in trees(7, ("rnd",)):
            b = Ser(rng=rng).go(t)
            emit(out, b, suffixes=(b"",), prefixes=(rng.randrange(0, len(b)),))
    # (2) random trees: forced spine to depth 8, and lib.gen_item
    nrand = 100000 if big else 4000
    for i in range(nrand):
        b = gen_spine(rng, 1 + i % 8) if i % 2 else gen_item(rng, 8)
        if len(b) > 3000: continue
        emit(out, b, suffixes=(b"", bytes([rng.getrandbits(8)]), gen_item(rng, 1)),
             prefixes=True if len(b) <= 24 else [rng.randrange(0, len(b)) for _ in range(6)] + [len(b) - 1])
    # (3) chains
    depths = [1, 2, 3, 9, 10, 11, 100, 1000] + ([9999, 10000] if big else [])
    for d in depths:
        for name, b in chains(d):
            cuts = {1, 2, len(b) // 2, len(b) // 2 + 1, len(b) - 2, len(b) - 1, d, d + 1, 2 * d, len(b) - d} if d > 3 else True
            emit(out, b, prefixes=cuts if cuts is True else sorted(cuts))
    # the width boundary of a 16-bit counter of open indefinite containers (skip counts them in a u64): 2^16 - 1, 2^16, 2^16 + 1 levels
    for d in (65535, 65536, 65537):
        for name, b in chains(d):
            if name in ("indef-array", "indef-map", "switch-at-depth-indef", "tags", "tags-wide"):
                emit(out, b, suffixes=(b"", b"\x01"), prefixes=(len(b) - 1,))
    for n in [23, 24, 255, 256, 1000] + ([10000, 65536] if big else []):
        for name, b in flat(n):
            emit(out, b, prefixes=(1, len(b) // 2, len(b) - 1))
    # (4) malformed stream
    for h in MALFORMED: out[h] = None
    for i in range(nrand):
        b = gen_spine(rng, 1 + i % 6) if i % 2 else gen_item(rng, 4)
        if len(b) > 2000: continue
        for _ in range(2): out[hexs(mutate(rng, b))] = None
    out.pop("-", None)
    cases = ["D skip - 0 %s" % c for c in CFGS]
    for h in out:
        for c in CFGS: cases.append("D skip %s 0 %s" % (h, c))
    return cases

# --------------------------------------------------------------------------------------------- statistics
@functools.lru_cache(maxsize=1 << 16)
def shape(hx):
    """(complete, max container depth, indefinite-inside-definite, any indefinite container) by an iterative scan of the bytes"""
    b = bytes.fromhex(hx) if hx != "-" else b""
    st = []            # frames: [remaining or None, is_container]
    i, n, depth, maxd, iid, anyi = 0, len(b), 0, 0, False, False
    def arg(i, ai):
        if ai < 24: return ai, i
        w = {24: 1, 25: 2, 26: 4, 27: 8}.get(ai)
        if w is None or i + w > n: return None, i
        return int.from_bytes(b[i:i + w], "big"), i + w
    while True:
        if i >= n: return (False, maxd, iid, anyi)
        x = b[i]; i += 1
        mt, ai = x >> 5, x & 31
        done = True
        if x == 0xff:
            if st and st[-1][0] is None: st.pop(); depth -= 1
            else: return (False, maxd, iid, anyi)
        elif mt in (0, 1, 7):
            if mt == 7 and ai == 31: return (False, maxd, iid, anyi)
            v, i = arg(i, ai)
            if v is None: return (False, maxd, iid, anyi)
        elif mt in (2, 3):
            if ai == 31:
                while True:
                    if i >= n: return (False, maxd, iid, anyi)
                    y = b[i]; i += 1
                    if y == 0xff: break
                    if y >> 5 != mt: return (False, maxd, iid, anyi)
                    v, i = arg(i, y & 31)
                    if v is None or i + v > n: return (False, maxd, iid, anyi)
                    i += v
            else:
                v, i = arg(i, ai)
                if v is None or i + v > n: return (False, maxd, iid, anyi)
                i += v
        elif mt == 6:
            v, i = arg(i, ai)
            if v is None: return (False, maxd, iid, anyi)
            st.append([1, False]); done = False
        else:
            if ai == 31:
                anyi = True
                if any(f[0] is not None and f[1] for f in st[-64:]): iid = True
                st.append([None, True]); depth += 1; maxd = max(maxd, depth); done = False
            else:
                v, i = arg(i, ai)
                if v is None: return (False, maxd, iid, anyi)
                v *= (2 if mt == 5 else 1)
                depth += 1; maxd = max(maxd, depth)
                if v > 0: st.append([v, True]); done = False
                else: depth -= 1
        if not done: continue
        while True:
            if not st: return (True, maxd, iid, anyi)
            f = st[-1]
            if f[0] is None: break
            f[0] -= 1
            if f[0] > 0: break
            st.pop()
            if f[1]: depth -= 1

def nontrivial(line, impl):
    t = line.split()
    if len(t) < 3: return False
    ok, maxd, iid, anyi = shape(t[2])
    return maxd >= 2 or iid

def classify(line, impl):
    t = line.split()
    cfg = "alloc" if len(t) < 5 or "a" in t[4] or "s" in t[4] else "noalloc"
    if impl.startswith("ok:"): oc = "ok"
    elif impl.startswith("err:eoi"): oc = "err:eoi"
    elif impl.startswith("err:message"): oc = "err:message"
    elif impl.startswith("err:"): oc = "err:other"
    else: oc = impl.split("@")[0][:12]
    ok, maxd, iid, anyi = shape(t[2]) if len(t) >= 3 else (False, 0, False, False)
    if not ok: sh = "incomplete-or-illformed" + ("/deep" if maxd >= 100 else "")
    elif maxd >= 100: sh = "deep" + ("/indef-in-def" if iid else "")
    elif iid: sh = "indef-in-def"
    elif maxd == 0: sh = "leaf"
    elif maxd == 1: sh = "flat" + ("/indef" if anyi else "")
    else: sh = "nested" + ("/indef" if anyi else "/def")
    return "%s:%s:%s" % (cfg, oc, sh)
