"""C10 — derived codecs are forward and backward compatible as documented."""
import derivegen as dg
from derivegen import prepare, route, oracle

RULE = ("DCOMPAT <sidW> <schemaW> <sidR> <schemaR> <def> <value> <expected>: pairs (old, new) of schema versions produced by random sequences of the "
        "documented-compatible edits (add / drop an optional field at a new or gap index in array or map encoding; add a variant to an enum that "
        "only occurs as Option<enum> field; unit variant -> variant with only optional fields) on a random base schema; every value of the writer "
        "version (presence combinations x leaf values) is encoded by the writer type and decoded by the reader type, in both directions, by the "
        "real derive output and by the Coq model. O=: the reader obtains exactly migrate(value) (shared fields equal, optionals unknown to the "
        "writer None, unknown fields ignored, unknown variant in an optional field None with every sibling intact) and consumes all bytes; for "
        "writers lacking a mandatory field the reader must fail (missing value where the position is absent). The fixed pairs f9o/f9n (index_only "
        "enum gains a variant), rgo/rgn (regular enum) and f10o/f10n (tagged optional at an index gap) are regression cases of the repaired "
        "findings F9 / F10; aoa*/aom*/aoq* hold the enums in alias-Option fields (`type A = Option<E>`, optional through Decode::nil() only: the third unknown-variant arm of decode.rs), array and map encoding, index_only and regular; random schemas contain such fields too; no known class remains in this stream besides alias (F14, k= token computed by the generator). S= (specification side): for every "
        "case of the compatible-edit stream the model side evaluates the extracted DeriveMigrate.migrate — the reader's view that theorem C10_compat "
        "(Props/C10.v, schema level: all nested definitions in two versions) promises — and expects the implementation to return exactly that value at "
        "the end of the writer's bytes; for migrate = None (a variant the reader does not know outside every optional field) only the bytes are pinned "
        "(the generator's !variant oracle checks the UnknownVariant class).")
ASSUMPTIONS = ["an index never changes its type across versions; encodings (array/map) are not changed by an edit", "same grammar limits as C08"]

def generate(tier, rng):
    w = dg.get_world(tier, rng)
    return dg.dcompat_cases(w, rng, tier)

def nontrivial(line, impl): return len(impl.split(";")[0]) > 4
def classify(line, impl):
    t = line.split(" ")
    kn = [x for x in t if x.startswith("k=")]
    return ("mandatory" if t[7].startswith("!") else "compat") + (":" + kn[0] if kn else "") + (":err" if ";err" in impl else "")
def in_known_class(cls, line, impl): return dg.known_class(cls, line, impl)
