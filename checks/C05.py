"""C05 — integer decoding is value-preserving across widths."""
from lib import *

RULE = ("D <accessor> <hex>: one integer item (sign x head width x argument) followed by two junk bytes, read through each of the "
        "accessors u8..u64, i8..i64, int, char and datatype. Exhaustive: all arguments < 2^16 at the 2-byte width, all < 256 at the "
        "1-byte width, all < 24 immediate; every 2^k+-3 boundary and seeded random arguments at the 4- and 8-byte widths; every "
        "argument also in non-minimal widths. S= is Spec/Acc.v spec_acc on the tree the reference parser finds; O= checks that the "
        "reported datatype names an accepting accessor. IC <z>: Int::try_from(i128) and all conversions into/out of Int at every boundary. Non-trivial: the argument does not fit the immediate form (>= 24).")
ASSUMPTIONS = ["usize/isize are u64/i64 (64-bit target)", "NonZero and Int conversions are covered through the type universe (C01)"]
ACCS = ["u8", "u16", "u32", "u64", "i8", "i16", "i32", "i64", "int", "char", "datatype"]

def generate(tier, rng):
    big = tier == "thorough"
    out = []
    vals2 = range(65536)
    items = []
    for mt in (0, 1):
        items += [head(mt, n, 0) for n in range(24)]
        items += [head(mt, n, 1) for n in range(256)]
        step = 1 if big else 7
        items += [head(mt, n, 2) for n in list(range(0, 65536, step)) + [65535, 32767, 32768, 255, 256]]
        b32 = set(boundaries((1 << 32) - 1)) | set(rand_ints(rng, 4000 if big else 400, 0, (1 << 32) - 1))
        b64 = set(boundaries(U64)) | set(rand_ints(rng, 4000 if big else 400, 0, U64))
        items += [head(mt, n, 4) for n in sorted(b32)]
        items += [head(mt, n, 8) for n in sorted(b64 | b32)]
    for it in items:
        h = hexs(it + b"\x01\xff")
        for a in ACCS:
            out.append("D %s %s" % (a, h))
    # surrogates and the char boundary through the char accessor
    for n in [0xd7ff, 0xd800, 0xdbff, 0xdfff, 0xe000, 0x10ffff, 0x110000, (1 << 32) - 1]:
        for w in widths_for(n):
            out.append("D char %s" % hexs(head(0, n, w)))
    # truncated heads: every strict prefix
    for it in items[:: 97]:
        for k in range(len(it)):
            for a in ("u8", "i64", "int", "datatype"):
                out.append("D %s %s" % (a, hexs(it[:k])))
    # data::Int conversions: every boundary of every target type and beyond the Int range
    zs = set(boundaries(U64, -(1 << 64))) | set(rand_ints(rng, 2000 if big else 300, -(1 << 64), U64))
    zs |= {-(1 << 64) - 1, 1 << 64, (1 << 64) + 1, -(1 << 65), 1 << 100, -(1 << 100), (1 << 127) - 1, -(1 << 127)}
    out += ["IC %d" % z for z in sorted(zs)]
    return out

def nontrivial(line, impl):
    t = line.split()
    if t[0] == "IC": return abs(int(t[1])) > 23
    return len(t) >= 3 and len(t[2]) > 6

def classify(line, impl):
    if line.startswith("IC"): return "IC:" + ("none" if impl.startswith("int=none") else "int")
    return line.split()[1] + ":" + impl.split("@")[0].split(":")[0] + (":" + impl.split(":")[1] if impl.startswith("err") else "")
