"""C12_flocq — optional cross-check: the integer specification Spec/Float16.v agrees with Flocq 4.1 (Props/C12_flocq.v).
The theorems are the point of this check (their Print Assumptions lists Flocq's classical-reals axioms, all on the
allowlist of bin/check); the cases re-run the part of C12's correspondence whose S= column the cross-checked
specification functions produce (fdecode/widen for F16D, rne16 for F16E)."""
from C12 import *          # same ops, same classification
import C12 as _c12

RULE = ("theorems of Props/C12_flocq.v (fdecode = Flocq binary_float_of_bits on all 2^16 binary16 patterns and a 78336-pattern "
        "binary32/binary64 boundary set; rne16 = Flocq binary_normalize mode_NE on that set) + the F16D (all 65536) and boundary F16E "
        "cases of C12, whose S= column those specification functions compute")
ASSUMPTIONS = _c12.ASSUMPTIONS + ["Flocq 4.1.0 as installed; axioms: ClassicalDedekindReals.sig_not_dec, ClassicalDedekindReals.sig_forall_dec, "
                                  "FunctionalExtensionality.functional_extensionality_dep, Classical_Prop.classic"]

def generate(tier, rng):
    out = ["F16D %d" % h for h in range(65536)]
    for x in f32_boundaries():
        out.append("F16E %d" % x)
        out.append("F16E %d" % (x | 0x80000000))
    return out
