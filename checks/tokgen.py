"""Generators shared by C11 (tokens) and C19 (display)."""
from lib import *
import itertools, struct

def heads_scan(b):
    """Walk the heads of b the way a tokenizer does. Returns list of (initial byte, argument, payload) or None if truncated/ill-formed."""
    out, i = [], 0
    while i < len(b):
        ib = b[i]; mt, ai = ib >> 5, ib & 31
        i += 1
        if ai < 24: arg = ai
        elif ai in (24, 25, 26, 27):
            w = 1 << (ai - 24)
            if i + w > len(b): return None
            arg = int.from_bytes(b[i:i + w], "big"); i += w
        elif ai == 31 and mt in (2, 3, 4, 5, 7): arg = None
        else: return None
        pay = b""
        if mt in (2, 3) and arg is not None:
            if i + arg > len(b): return None
            pay = b[i:i + arg]; i += arg
        out.append((ib, arg, pay))
    return out

def snan16(x): return (x & 0x7c00) == 0x7c00 and (x & 0x03ff) != 0 and (x & 0x0200) == 0

def round_trip_clean(b):
    """No signalling-NaN half and no f8-with-argument-below-32 in b (b well-formed)."""
    hs = heads_scan(b)
    if hs is None: return False
    for ib, arg, _ in hs:
        if ib == 0xf9 and snan16(arg): return False
    return True

# ---- exhaustive small trees x head widths ----
LEAVES = [head(0, 0, 0), head(0, 23, 0), head(0, 24, 1), head(0, 5, 2), head(0, 65536, 4), head(0, 7, 8), head(0, U64, 8),
          head(1, 0, 0), head(1, 127, 1), head(1, 128, 1), head(1, 32768, 2), head(1, 1 << 31, 4), head(1, (1 << 63) - 1, 8), head(1, 1 << 63, 8),
          head(2, 0, 0), head(2, 2, 0) + b"\x01\xfe", head(2, 1, 1) + b"\x18",
          head(3, 0, 0), head(3, 1, 0) + b"a", head(3, 3, 2) + "€".encode(),
          b"\xf4", b"\xf5", b"\xf6", b"\xf7", b"\xe0", b"\xf3", b"\xf8\x20", b"\xf8\xff",
          b"\xf9\x3c\x00", b"\xf9\x7e\x00", b"\xfa\x3f\x80\x00\x00", b"\xfb\x3f\xf0\x00\x00\x00\x00\x00\x00",
          b"\x5f\xff", b"\x7f\xff", b"\x5f\x41\x01\x40\xff", b"\x7f\x61\x61\x62\x62\x63\xff"]
LEAVES_MIN = [l for l in LEAVES if l in (head(0, 0, 0), head(0, 23, 0), head(0, 24, 1), head(0, U64, 8), head(1, 0, 0), head(1, 127, 1), head(1, 128, 1),
                                          head(1, 1 << 63, 8), head(2, 0, 0), head(2, 2, 0) + b"\x01\xfe", head(3, 0, 0), head(3, 1, 0) + b"a",
                                          b"\xf4", b"\xf6", b"\xf7", b"\xe0", b"\xf8\x20", b"\xf9\x3c\x00", b"\xfa\x3f\x80\x00\x00",
                                          b"\x5f\xff", b"\x7f\xff", b"\x5f\x41\x01\x40\xff", b"\x7f\x61\x61\x62\x62\x63\xff")]

def wrap1(x, all_widths=True):
    ws = WIDTHS if all_widths else (None,)
    out = [head(6, 1, w) + x for w in ws] + [head(6, 0xffff, w) + x for w in ws if w is None or w >= 2]
    out += [head(4, 1, w) + x for w in ws] + [b"\x9f" + x + b"\xff"]
    return out

def wrap2(x, y, all_widths=True):
    ws = WIDTHS if all_widths else (None,)
    out = [head(4, 2, w) + x + y for w in ws] + [b"\x9f" + x + y + b"\xff"]
    out += [head(5, 1, w) + x + y for w in ws] + [b"\xbf" + x + y + b"\xff"]
    return out

def empties(all_widths=True):
    ws = WIDTHS if all_widths else (None,)
    return [head(4, 0, w) for w in ws] + [head(5, 0, w) for w in ws] + [b"\x9f\xff", b"\xbf\xff"]

def small_trees(rng, all_widths=True, budget=12000):
    """All trees with <= 3 nodes over the leaf alphabet (3-node level sampled down to the budget)."""
    leaves = (LEAVES if all_widths else LEAVES_MIN) + empties(all_widths)
    out = list(leaves)
    two = [t for x in leaves for t in wrap1(x, all_widths)]
    out += two
    three = [t for x in two for t in wrap1(x, all_widths)]
    small = leaves[:: 3]
    three += [t for x in small for y in small for t in wrap2(x, y, all_widths)]
    three += [head(4, 3, None) + x + y + x for x in small[:: 2] for y in small[:: 3]]
    three += [head(5, 2, None) + x + y + y + x for x in small[:: 2] for y in small[:: 3]]
    if len(three) > budget: three = rng.sample(three, budget)
    return out + three

EXTREME = ["9bffffffffffffffff", "9b7fffffffffffffff", "9a000186a0", "9affffffff", "99ffff", "98ff",
           "bbffffffffffffffff", "bb8000000000000000", "ba000186a0", "b9ffff", "b8ff",
           "5bffffffffffffffff", "5affffffff", "59ffff", "58ff", "7bffffffffffffffff", "7affffffff", "78ff",
           "dbffffffffffffffff", "daffffffff", "d9ffff", "d8ff",
           "9bffffffffffffffff01", "9a000186a00102", "bbffffffffffffffff0102", "ba000186a001", "9a000186a09a000186a0",
           "9bffffffffffffffff9bffffffffffffffff", "bbffffffffffffffffbbffffffffffffffff", "9bffffffffffffffffbf", "9bffffffffffffffff9f",
           "9a000186a0" + "81" * 40, "ba000186a0" + "a1" * 40, "9a000186a0" + "c1" * 40, "dbffffffffffffffff9a000186a0",
           "9a000186a05f", "9a000186a07f", "9a000186a0f97e00", "9a000186a01c", "ba000186a0ff", "9a000186a0ff",
           "9bffffffffffffffff" + "00" * 30, "bbffffffffffffffff" + "6161" * 15, "9f" * 60, "bf" * 60, "5f" * 10, "7f" * 10, "c0" * 80, "81" * 100, "a1" * 100]

def malformed(rng, n, depth=3):
    out = []
    for _ in range(n):
        b = gen_item(rng, depth)
        for _ in range(rng.randrange(1, 3)): b = mutate(rng, b)
        out.append(b)
    return out

def short_inputs():
    out = [b""] + [bytes([a]) for a in range(256)] + [bytes([a, b]) for a in range(256) for b in range(256)]
    return out

def three_byte_sample(rng, tier):
    if tier == "thorough":
        tails = [0x00, 0x17, 0x18, 0x7f, 0x80, 0xbf, 0xc0, 0xf4, 0xf8, 0xf9, 0xff, 0x1c, 0x5f, 0x9f, 0x41, 0x61]
        return [bytes([a, b, c]) for a in range(256) for b in range(256) for c in tails]
    return [bytes([rng.getrandbits(8), rng.getrandbits(8), rng.getrandbits(8)]) for _ in range(20000)]
