"""Schema grammar for the derive macros (C07d, C08, C09, C10).

A schema is a list of definitions; definition k may refer to definitions < k.  From one schema the module emits
  (a) Rust source (type definitions with #[derive(Encode, Decode, CborLen)] + Canon impls) for harness-derive/src/gen.rs,
  (b) the schema text the OCaml driver parses into the Coq schema AST (ocaml/ops_derive.ml),
  (c) values (all presence combinations of optional fields x boundary leaf values), their text, a reference
      encoder (preferred or re-framed), default_skipped and migrate (C10).
Every random choice comes from the rng passed in."""
import os, subprocess, shutil, hashlib, time, random
from lib import *
import typegen as tg

TAGS = [0, 1, 23, 24, 255, 256, 65535, 65536, 1 << 32, U64]

# ---------------------------------------------------------------- leaf field types
# plain leaves: (descriptor, rust type, has Default)
PLAIN = [
    ("u8", "u8", 1), ("u16", "u16", 1), ("u32", "u32", 1), ("u64", "u64", 1),
    ("i8", "i8", 1), ("i16", "i16", 1), ("i32", "i32", 1), ("i64", "i64", 1),
    ("bool", "bool", 1), ("char", "char", 0), ("f32", "f32", 1), ("f64", "f64", 1),
    ("string", "String", 1), ("bytevec", "minicbor::bytes::ByteVec", 0), ("bytearr4", "minicbor::bytes::ByteArray<4>", 0),
    ("unit", "()", 1), ("int", "minicbor::data::Int", 0),
    ("opt(u8)", "Option<u8>", 1), ("opt(string)", "Option<String>", 1), ("opt(i64)", "Option<i64>", 1),
    ("opt(seq(u8))", "Option<Vec<u8>>", 1), ("opt(unit)", "Option<()>", 1), ("opt(bool)", "Option<bool>", 1),
    ("opt(u64)", "Option<u64>", 1), ("opt(f64)", "Option<f64>", 1),
    ("seq(u8)", "Vec<u8>", 1), ("seq(string)", "Vec<String>", 1), ("seq(opt(u16))", "Vec<Option<u16>>", 1),
    ("arr3(u16)", "[u16; 3]", 0), ("bmap(u8,string)", "std::collections::BTreeMap<u8, String>", 1),
    ("tup(u8,i8)", "(u8, i8)", 0), ("tup(string,opt(u8),bool)", "(String, Option<u8>, bool)", 0),
    ("result(u8,string)", "Result<u8, String>", 0), ("opt(result(u8,string))", "Option<Result<u8, String>>", 1),
    ("duration", "core::time::Duration", 0), ("tagged7(u8)", "minicbor::data::Tagged<7, u8>", 0),
    ("box(u32)", "Box<u32>", 0), ("bound(i32)", "core::ops::Bound<i32>", 0), ("range(u8)", "core::ops::Range<u8>", 0),
    ("ip", "std::net::IpAddr", 0),
]
PLAIN_BY_DESC = {d: (r, df) for d, r, df in PLAIN}
OPT_PLAIN = [d for d, _, _ in PLAIN if d.startswith("opt(")]
MAND_PLAIN = [d for d, _, _ in PLAIN if not d.startswith("opt(")]
GENERIC_ARGS = [("u8", "u8"), ("string", "String"), ("i64", "i64"), ("seq(u8)", "Vec<u8>"), ("bool", "bool")]

# special leaves: borrowed types and types that need a codec.  model = descriptor the model uses.
#   parse / show are Rust expression templates ({p} parser, {x} a reference to the value)
SPECIAL = {
    "strref":   dict(model="string", rust="&'a str", lt=1, codec="d", synopt=0, parse="leak_str({p})", show="hb({x}.as_bytes())", borrow="in_buf({x}.as_bytes(), lo, hi)", implicit=1),
    "optstrref": dict(model="opt(string)", rust="Option<&'a str>", lt=1, codec="d", synopt=1, parse="parse_opt({p}, |p| leak_str(p))", show="show_opt({x}, |y| hb(y.as_bytes()))", borrow="{x}.map_or(true, |y| in_buf(y.as_bytes(), lo, hi))", implicit=1),
    "bytesref": dict(model="bytevec", rust="&'a minicbor::bytes::ByteSlice", lt=1, codec="d", synopt=0, parse="leak_bs({p})", show="hb({x})", borrow="in_buf({x}, lo, hi)", implicit=1),
    "cowstr":   dict(model="string", rust="std::borrow::Cow<'a, str>", lt=1, codec="d", synopt=0, parse="std::borrow::Cow::Owned(<String as Canon>::parse({p}))", show="hb({x}.as_bytes())", borrow="COW", implicit=0),
    "vecu8":    dict(model="bytevec", rust="Vec<u8>", lt=0, codec="y", synopt=0, parse="{p}.hexbytes()", show="hb({x})", borrow=None, implicit=0),
    "arr4u8":   dict(model="bytearr4", rust="[u8; 4]", lt=0, codec="y", synopt=0, parse="parse_arr4({p})", show="hb(&{x}[..])", borrow=None, implicit=0),
    "optvecu8": dict(model="opt(bytevec)", rust="Option<Vec<u8>>", lt=0, codec="y", synopt=1, parse="parse_opt({p}, |p| p.hexbytes())", show="show_opt({x}, |y| hb(y))", borrow=None, implicit=0),
    "aliasoptvec": dict(model="opt(bytevec)", rust="OptVecAlias", lt=0, codec="y", synopt=0, parse="parse_opt({p}, |p| p.hexbytes())", show="show_opt({x}, |y| hb(y))", borrow=None, implicit=0),
    "aliasoptu8": dict(model="opt(u8)", rust="OptU8Alias", lt=0, codec="d", synopt=0, parse="<Option<u8> as Canon>::parse({p})", show="Canon::show({x})", borrow=None, implicit=0),
    "sliceu8":  dict(model="bytevec", rust="&'a [u8]", lt=1, codec="y", synopt=0, parse="leak_slice({p})", show="hb({x})", borrow="in_buf({x}, lo, hi)", implicit=1),
    "optsliceu8": dict(model="opt(bytevec)", rust="Option<&'a [u8]>", lt=1, codec="y", synopt=1, parse="parse_opt({p}, |p| leak_slice(p))", show="show_opt({x}, |y| hb(y))", borrow="{x}.map_or(true, |y| in_buf(y, lo, hi))", implicit=1),
    "cowu8":    dict(model="bytevec", rust="std::borrow::Cow<'a, [u8]>", lt=1, codec="y", synopt=0, parse="std::borrow::Cow::Owned({p}.hexbytes())", show="hb(&{x}[..])", borrow="COW", implicit=0),
    "nz":       dict(model="u64", rust="u64", lt=0, codec="c1", synopt=0, parse="<u64 as Canon>::parse({p})", show="Canon::show({x})", borrow=None, implicit=0),
    "nz0":      dict(model="u64", rust="u64", lt=0, codec="c0", synopt=0, parse="<u64 as Canon>::parse({p})", show="Canon::show({x})", borrow=None, implicit=0),
}
SP_OPTIONAL = ["optstrref", "optvecu8", "optsliceu8", "nz", "aliasoptu8"]       # the macro treats these as optional (nil() is Some)

class Field:
    def __init__(s, ft, idx=None, b=False, tag=None, skip=False, gparam=False):
        s.ft, s.idx, s.b, s.tag, s.skip, s.gparam = ft, idx, b, tag, skip, gparam
        s.name = None; s.gshape = "T"; s.alias = None
        s.spell = None          # seed of the spelling of this field in the emitted Rust (None: the canonical spelling); see field_spelling
        s.force = None          # fixed regression schemas: spelling decisions set by hand
    def sp(s): return SPECIAL[s.ft[1]] if s.ft[0] == "sp" else None
    def codec(s): return s.sp()["codec"] if s.sp() else "d"
    def synopt(s):
        # ("aopt", ft): Option behind a type alias — the macro's syntactic test (lib.rs is_option) says no
        if s.sp(): return s.sp()["synopt"]
        return 1 if s.ft[0] == "opt" or (s.ft[0] == "ty" and s.ft[1].startswith("opt(")) else 0
    def clone(s):
        f = Field(s.ft, s.idx, s.b, s.tag, s.skip, s.gparam); f.name, f.gshape, f.alias, f.spell, f.force = s.name, s.gshape, s.alias, s.spell, s.force; return f

class Variant:
    def __init__(s, idx, shape, fields, enc=None, tag=None):
        s.idx, s.shape, s.fields, s.enc, s.tag = idx, shape, fields, enc, tag
        s.name = None; s.spell = None
    def clone(s):
        v = Variant(s.idx, s.shape, [f.clone() for f in s.fields], s.enc, s.tag); v.name, v.spell = s.name, s.spell; return v

class Def:
    """kind 'S': enc, tag, transparent, shape, fields.  kind 'E': enc, tag, index_only, variants."""
    def __init__(s, kind, enc=None, tag=None, transparent=False, shape="n", fields=None, index_only=False, variants=None, generic=None):
        s.kind, s.enc, s.tag, s.transparent, s.shape, s.fields = kind, enc, tag, transparent, shape, fields or []
        s.index_only, s.variants, s.generic = index_only, variants or [], generic    # generic = (desc, rust) of the type argument
        s.name = None; s.spell = None
    def clone(s):
        d = Def(s.kind, s.enc, s.tag, s.transparent, s.shape, [f.clone() for f in s.fields], s.index_only, [v.clone() for v in s.variants], s.generic)
        d.name, d.spell = s.name, s.spell; return d

class Schema:
    def __init__(s, sid, defs): s.sid, s.defs = sid, defs
    def clone(s, sid): return Schema(sid, [d.clone() for d in s.defs])

# ---------------------------------------------------------------- model-side view of a field type
def model_ft(ft):
    """-> ('ty', desc) | ('ref', k) | ('opt', ft) | ('seq', ft) with special leaves replaced by their model descriptor"""
    if ft[0] == "sp": return ("ty", SPECIAL[ft[1]]["model"])
    if ft[0] == "aopt":
        m = model_ft(ft[1])
        return ("ty", "opt(%s)" % m[1]) if m[0] == "ty" else ("opt", m)
    if ft[0] in ("opt", "seq"): return (ft[0], model_ft(ft[1]))
    return ft

# ("aopt", ft): `type AOpt… = Option<ft>` with the field declared at the alias (no codec).  The macro sees no `Option`
# syntax (synopt = 0: slot initialised with None, no syntactic unknown-variant arm) but `<T as Decode>::nil()` is Some(None) and
# `Encode::is_nil` is None-ness, so the field is optional through the traits.  ft: a reference, Vec of a reference, a plain
# mandatory leaf or a borrowed leaf of AOPT_SP.  Values, text and bytes are those of ("opt", ft).
AOPT_LEAF = ["u8", "u16", "u32", "u64", "i8", "i64", "bool", "char", "f64", "string", "bytevec", "bytearr4", "unit", "int",
             "seq(u8)", "arr3(u16)", "tup(u8,i8)", "result(u8,string)", "duration", "ip"]
AOPT_SP = ["strref", "bytesref"]

def vview(ft):
    """value-level view of a field type: an alias-Option is the Option it names"""
    if ft[0] == "aopt":
        i = ft[1]
        if i[0] in ("ty", "sp"): return ("ty", "opt(%s)" % model_ft(i)[1])
        return ("opt", i)
    return ft

def ft_text(ft):
    ft = model_ft(ft)
    if ft[0] == "ty": return "T{%s}" % ft[1]
    if ft[0] == "ref": return "R%d" % ft[1]
    if ft[0] == "opt": return "O(%s)" % ft_text(ft[1])
    return "Q(%s)" % ft_text(ft[1])

def opt_s(x): return "-" if x is None else str(x)

def field_text(f):
    if f.skip: return "k(%s)" % ft_text(f.ft)
    return "f(%d,%d,%s,%s,%d,%s)" % (f.idx, 1 if f.b else 0, opt_s(f.tag), f.codec(), f.synopt(), ft_text(f.ft))

def def_text(d):
    if d.kind == "S":
        return "S(%s,%s,%d,%s,[%s])" % (opt_s(d.enc), opt_s(d.tag), 1 if d.transparent else 0, d.shape, ",".join(field_text(f) for f in d.fields))
    return "E(%s,%s,%d,[%s])" % (opt_s(d.enc), opt_s(d.tag), 1 if d.index_only else 0,
        ",".join("v(%d,%s,%s,%s,[%s])" % (v.idx, opt_s(v.enc), opt_s(v.tag), v.shape, ",".join(field_text(f) for f in v.fields)) for v in d.variants))

def schema_text(sc): return ";".join(def_text(d) for d in sc.defs)

# ---------------------------------------------------------------- properties of definitions
def ft_has_lt(sc, ft):
    if ft[0] == "sp": return bool(SPECIAL[ft[1]]["lt"])
    if ft[0] == "ref": return def_has_lt(sc, sc.defs[ft[1]])
    if ft[0] in ("opt", "seq", "aopt"): return ft_has_lt(sc, ft[1])
    return False

def all_fields(d):
    return d.fields if d.kind == "S" else [f for v in d.variants for f in v.fields]

def def_has_lt(sc, d): return any(ft_has_lt(sc, f.ft) for f in all_fields(d))

def is_optional(f):
    """the macro's view: an unfilled slot resolves to a nil value (decode.rs:459)"""
    if f.skip: return False
    if f.ft[0] == "sp": return f.ft[1] in SP_OPTIONAL
    if f.ft[0] in ("opt", "aopt"): return True        # aopt: <T as Decode>::nil().is_some() (decode.rs:124)
    if f.ft[0] == "ty": return f.ft[1].startswith("opt(")
    return False

def nil_value(f):
    if f.ft == ("sp", "nz"): return 0
    return None

def eff_enc(d, v=None):
    if v is not None and v.enc: return v.enc
    return d.enc or "a"

# ---------------------------------------------------------------- random schemas
def pick_tag(rng, p):
    return rng.choice(TAGS) if rng.random() < p else None

def gen_indices(rng, n, array):
    """n distinct indices: dense, with gaps, occasionally large; in random declaration order"""
    mode = rng.random()
    if mode < 0.4: idxs = list(range(n))
    elif mode < 0.8:
        idxs, cur = [], 0
        for _ in range(n):
            cur += rng.choice([0, 0, 0, 1, 1, 2, 3])
            idxs.append(cur); cur += 1
    else:
        pool = [0, 1, 2, 5, 22, 23, 24, 25, 30] + ([255, 256, 257, 65535, 65536, 70000, (1 << 31) - 1] if not array else [40, 60])
        idxs = sorted(rng.sample(pool, min(n, len(pool))))
        while len(idxs) < n: idxs.append(idxs[-1] + 1)
    rng.shuffle(idxs)
    return idxs

def gen_leaf_ft(rng, optional=None, allow_lt=True, for_skip=False):
    if for_skip:
        return ("ty", rng.choice([d for d, _, df in PLAIN if df]))
    r = rng.random()
    if optional is not False and rng.random() < 0.08:
        if allow_lt and rng.random() < 0.25: return ("aopt", ("sp", rng.choice(AOPT_SP)))
        return ("aopt", ("ty", rng.choice(AOPT_LEAF)))
    if r < 0.22:
        kinds = [k for k, s in SPECIAL.items() if (allow_lt or not s["lt"])]
        if optional is True: kinds = [k for k in kinds if k in SP_OPTIONAL]
        if optional is False: kinds = [k for k in kinds if k not in SP_OPTIONAL and not k.startswith("alias")]
        return ("sp", rng.choice(kinds))
    if optional is True: return ("ty", rng.choice(OPT_PLAIN))
    if optional is False: return ("ty", rng.choice(MAND_PLAIN))
    return ("ty", rng.choice(OPT_PLAIN if rng.random() < 0.45 else MAND_PLAIN))

def def_nullable(defs, j):
    """the definition can encode as a bare null (transparent over something nullable): Option<it> is lossy, as Option<Option<_>> is"""
    d = defs[j]
    if d.kind != "S" or not d.transparent: return False
    f = d.fields[0]
    if f.ft[0] == "ref": return def_nullable(defs, f.ft[1])
    if f.ft[0] in ("opt", "aopt"): return True
    if f.ft[0] == "sp": return SPECIAL[f.ft[1]]["model"].startswith("opt(") or f.ft[1] in ("nz", "nz0")
    return f.ft[0] == "ty" and f.ft[1].startswith("opt(")

def gen_field_ft(rng, sc_defs, k, optional=None, allow_lt=True):
    """field type for a field of definition k: a leaf, or a reference to an earlier definition"""
    if k > 0 and rng.random() < 0.4:
        j = rng.randrange(0, k)
        r = rng.random()
        if def_nullable(sc_defs, j): return ("ref", j) if optional is not True else gen_leaf_ft(rng, optional, allow_lt)
        if optional is True or (optional is None and r < 0.5):
            a = rng.random()
            if a < 0.3: return ("aopt", ("ref", j))
            if a < 0.36: return ("aopt", ("seq", ("ref", j)))
            return ("opt", ("ref", j))
        if r < 0.8 or optional is False: return ("ref", j)
        return ("seq", ("ref", j))
    return gen_leaf_ft(rng, optional, allow_lt)

def gen_fields(rng, sc_defs, k, n, array, allow_skip=True, popt=0.5, allow_lt=True):
    idxs = gen_indices(rng, n, array)
    fs = []
    for i in range(n):
        optional = True if rng.random() < popt else None
        ft = gen_field_ft(rng, sc_defs, k, optional, allow_lt)
        f = Field(ft, idxs[i], b=False, tag=pick_tag(rng, 0.15))
        fs.append(f)
    if allow_skip and rng.random() < 0.25:
        for _ in range(rng.choice([1, 1, 2])):
            fs.insert(rng.randrange(0, len(fs) + 1), Field(gen_leaf_ft(rng, for_skip=True), skip=True))
    return fs

def gen_def(rng, sc_defs, k, want=None):
    kind = want or rng.choice(["S", "S", "S", "E"])
    enc = rng.choice([None, None, "a", "m", "m"])
    if kind == "S":
        r = rng.random()
        if r < 0.06:
            return Def("S", enc=enc, tag=pick_tag(rng, 0.3), shape="u")
        if r < 0.14:
            f = Field(gen_field_ft(rng, sc_defs, k), rng.choice([0, 0, 3]), tag=pick_tag(rng, 0.2))
            return Def("S", enc=enc, transparent=True, shape=rng.choice("nt"), fields=[f])
        if r < 0.20:      # many fields: the 24-entry header boundary (F6) and 2^10 presence combinations
            n = rng.choice([10, 23, 24, 25, 30])
            idxs = list(range(n)); rng.shuffle(idxs)
            nopt = n if n != 10 else 10
            fs = [Field(("ty", rng.choice(["opt(u8)", "opt(u8)", "opt(bool)", "opt(string)"])), idxs[i], tag=pick_tag(rng, 0.03)) for i in range(n)]
            if n > 10 and rng.random() < 0.5: fs[rng.randrange(n)].ft = ("ty", "u8")
            return Def("S", enc=rng.choice(["m", "m", "a", None]), tag=pick_tag(rng, 0.2), shape=rng.choice("nt"), fields=fs)
        n = rng.choice([1, 2, 2, 3, 3, 4, 5, 6])
        array = (enc or "a") == "a"
        generic = None
        fs = gen_fields(rng, sc_defs, k, n, array)
        cand = [f for f in fs if not f.skip]
        if rng.random() < 0.12 and cand:
            generic = rng.choice(GENERIC_ARGS)
            for f in rng.sample(cand, min(len(cand), rng.choice([1, 2]))):
                f.gparam = True; f.tag = f.tag
                f.gshape = rng.choice(["T", "Option<T>", "Vec<T>"])
                f.ft = ("ty", {"T": "%s", "Option<T>": "opt(%s)", "Vec<T>": "seq(%s)"}[f.gshape] % generic[0])
        return Def("S", enc=enc, tag=pick_tag(rng, 0.2), shape=rng.choice("nnt"), fields=fs, generic=generic)
    # enum
    if rng.random() < 0.3:
        nv = rng.choice([1, 2, 3, 4])
        idxs = gen_indices(rng, nv, False)
        vs = [Variant(idxs[i], "u", [], enc=rng.choice([None, None, "m"]), tag=pick_tag(rng, 0.1)) for i in range(nv)]
        return Def("E", enc=enc, index_only=True, variants=vs)
    nv = rng.choice([1, 2, 3, 3, 4])
    idxs = gen_indices(rng, nv, False)
    vs = []
    for i in range(nv):
        venc = rng.choice([None, None, None, "a", "m"])
        r = rng.random()
        if r < 0.3: vs.append(Variant(idxs[i], "u", [], enc=venc, tag=pick_tag(rng, 0.2)))
        else:
            n = rng.choice([0, 1, 1, 2, 3, 4]) if r < 0.9 else rng.choice([24, 25])
            array = (venc or enc or "a") == "a"
            if n >= 24:
                ix = list(range(n)); rng.shuffle(ix)
                fs = [Field(("ty", "opt(u8)"), ix[j]) for j in range(n)]
            else:
                fs = gen_fields(rng, sc_defs, k, n, array)
            vs.append(Variant(idxs[i], rng.choice("nt"), fs, enc=venc, tag=pick_tag(rng, 0.2)))
    return Def("E", enc=enc, tag=pick_tag(rng, 0.2), variants=vs)

def fix_borrow_flags(sc):
    for d in sc.defs:
        if d.generic and not any(f.gparam for f in all_fields(d)): d.generic = None
    _fix_borrow_flags(sc)

def _fix_borrow_flags(sc):
    """#[b] where the macro needs it: fields whose type carries a lifetime that is not implicitly borrowed"""
    for d in sc.defs:
        for f in all_fields(d):
            if f.skip: continue
            if f.ft[0] == "sp":
                s = SPECIAL[f.ft[1]]
                if s["lt"] and not s["implicit"]:
                    if f.b is None: f.b = False
                continue
            if ft_has_lt(sc, f.ft): f.b = True

def name_schema(sc, prefix, rng=None):
    for k, d in enumerate(sc.defs):
        d.name = "%s%sx%d" % (prefix, sc.sid, k)
        for n, f in enumerate(all_fields(d)):
            f.alias = "AOpt_%s_%d" % (d.name, n) if f.ft[0] == "aopt" else None
        if d.kind == "S":
            for p, f in enumerate(d.fields): f.name = ("f%d" % p) if rng is None else "q%d_%d" % (rng.randrange(1000), p)
        else:
            for j, v in enumerate(d.variants):
                v.name = ("V%d" % j) if rng is None else "W%d_%d" % (rng.randrange(1000), j)
                for p, f in enumerate(v.fields): f.name = ("f%d" % p) if rng is None else "q%d_%d" % (rng.randrange(1000), p)

def gen_schema(rng, sid):
    nd = rng.choice([1, 2, 2, 3, 3, 4])
    defs = []
    for k in range(nd):
        defs.append(gen_def(rng, defs, k))
    sc = Schema(sid, defs)
    for d in sc.defs:
        for f in all_fields(d):
            if f.ft[0] == "sp" and SPECIAL[f.ft[1]]["borrow"] == "COW": f.b = rng.random() < 0.6
            elif not f.skip: f.b = rng.random() < 0.15
    respell(sc, rng)
    fix_borrow_flags(sc)
    name_schema(sc, "T")
    return sc

# ---------------------------------------------------------------- Rust emission
BASE_RUST = {"u8": "u8", "u16": "u16", "u32": "u32", "u64": "u64", "i8": "i8", "i16": "i16", "i32": "i32", "i64": "i64",
             "bool": "bool", "char": "char", "f32": "f32", "f64": "f64", "string": "String", "bytevec": "minicbor::bytes::ByteVec",
             "bytearr4": "minicbor::bytes::ByteArray<4>", "unit": "()", "int": "minicbor::data::Int", "duration": "core::time::Duration",
             "ip": "std::net::IpAddr"}

def rust_of_desc(s):
    if "(" not in s: return BASE_RUST[s]
    i = s.index("(")
    name, args = s[:i], [rust_of_desc(a) for a in tg.split_args(s[i + 1:-1])]
    if name == "opt": return "Option<%s>" % args[0]
    if name == "seq": return "Vec<%s>" % args[0]
    if name == "bmap": return "std::collections::BTreeMap<%s, %s>" % (args[0], args[1])
    if name == "tup": return "(%s,)" % ", ".join(args) if len(args) == 1 else "(%s)" % ", ".join(args)
    if name == "result": return "Result<%s, %s>" % (args[0], args[1])
    if name == "box": return "Box<%s>" % args[0]
    if name == "bound": return "core::ops::Bound<%s>" % args[0]
    if name == "range": return "core::ops::Range<%s>" % args[0]
    if name.startswith("arr"): return "[%s; %s]" % (args[0], name[3:])
    if name.startswith("tagged"): return "minicbor::data::Tagged<%s, %s>" % (name[6:], args[0])
    raise ValueError(s)

def def_rust_name(sc, k, static=False, decl=False):
    d = sc.defs[k]
    params = []
    if def_has_lt(sc, d): params.append("'static" if static else "'a")
    if d.generic: params.append("T" if decl else d.generic[1])
    return d.name + ("<%s>" % ", ".join(params) if params else "")

def rust_ft(sc, ft, static=False):
    if ft[0] == "ty": return rust_of_desc(ft[1])
    if ft[0] == "sp":
        r = SPECIAL[ft[1]]["rust"]
        return r.replace("'a", "'static") if static else r
    if ft[0] == "ref": return def_rust_name(sc, ft[1], static)
    if ft[0] in ("opt", "aopt"): return "Option<%s>" % rust_ft(sc, ft[1], static)     # aopt: what the alias expands to
    return "Vec<%s>" % rust_ft(sc, ft[1], static)

def field_decl_type(sc, d, f):
    """the type as written in the field declaration.  A syntactic `Option<..>` (never the alias forms) is spelled with one of
    OPTION_PATHS: the macros test the LAST path segment (lib.rs is_option, lifetimes.rs option_lifetime)"""
    if f.ft[0] == "aopt": return f.alias + ("<'a>" if ft_has_lt(sc, f.ft[1]) else "")
    t = f.gshape if f.gparam else rust_ft(sc, f.ft)
    if t.startswith("Option<"):
        sp = field_spelling(f)
        k = sp["optpath"]
        if k == 3:
            # parenthesised: `(Option<T>)` reaches the macro as Type::Paren, not Type::Path — like an alias it is optional through the
            # trait methods only (Encode::is_nil / Decode::nil()), so it is written only where no codec item is present (a codec on a
            # non-syntactic Option is finding F14) and no lifetime has to be found inside it
            if f.codec() == "d" and sp["pas"] is None and not f.gparam and not ft_has_lt(sc, f.ft) and not f.b:
                _count("optpath:paren")
                return "(" + t + ")"
            k = 0
        _count("optpath:" + OPTION_PATHS[k])
        t = OPTION_PATHS[k] + t[len("Option"):]
    return t

def alias_decls(sc, d):
    """one `type` alias per aopt field: the macro sees a plain path type, rustc sees Option<..>"""
    return ["pub type %s%s = %s;" % (f.alias, "<'a>" if ft_has_lt(sc, f.ft[1]) else "", rust_ft(sc, f.ft))
            for f in all_fields(d) if f.ft[0] == "aopt" and not f.gparam]

# ---- spellings.  Everything below changes how a definition is WRITTEN, never what it means: the schema text sent to the model, the
# values, the Canon / Bchk code (field names and positions only) do not depend on it.  Each field / variant / definition carries a
# seed (`spell`, drawn from the run's rng by respell / new_optional_field / compat_edit; None = the canonical spelling) from which
# the decisions are derived at emission time; fixed regression schemas set decisions by hand (`force`).
#   * Option path: Option<..> | core::option::Option<..> | std::option::Option<..>                     (field_decl_type)
#   * index attribute: #[n(i)] | #[cbor(n(i))], #[b(i)] | #[cbor(b(i))]; on variants n and b alike (the macros use the number only)
#   * grouping and order: the #[cbor(..)] items of one level merged into one attribute or split over several, in any order the
#     macros accept (attrs_ok mirrors attrs.rs try_insert / try_from_iter, including the order-dependent merging of
#     is_nil / nil / has_nil into the codec and the unspecified HashMap order in which one attribute's items reach the total)
#   * codec: `with = "m"` | the separate items encode_with / decode_with / cbor_len (+ is_nil / nil where `has_nil` supplied them)
#   * pass-through codecs on fields WITHOUT a codec in the model (pass_eligible): functions that call the trait impls
#     (support.rs pass_enc / pass_dec / pass_len, module `pass`).  With any codec item present the macros decide optionality by
#     syntax (encode.rs:543 is_nil, decode.rs:270/330/487): for a syntactic Option that is Option::is_none / Some(None) / the
#     unguarded unknown-variant arm, for a mandatory type `|_| false` / None / no arm — exactly what Encode::is_nil /
#     Decode::nil() give for these types (only Option overrides them), so the spelling is behaviour-neutral
#     (checked on the real macros with /tmp/w_spell/probe, 2026-10-01: 176 comparisons, array and map, absent / None / gap null /
#     tagged null / unknown variant of a regular and an index_only enum / borrowed leaves / #[b] Cow / variants / transparent).
#     Never on alias Options (known finding F14) and never on generic-parameter fields (a codec removes the trait bound on T).
import itertools, copy, collections
OPTION_PATHS = ["Option", "core::option::Option", "std::option::Option"]
PASS_SETS = [("dec",), ("dec",), ("enc",), ("enc", "dec"), ("enc", "dec"), ("enc", "dec", "len"), ("enc", "len"), ("dec", "len"), ("len",)]
PASS_KEY = {"enc": "encode_with", "dec": "decode_with", "len": "cbor_len"}
CANON_SPELL = dict(optpath=0, nested=False, sep=False, pas=None, short=False, group="one", shuffle=False, seed=0)
SPELL_STATS = None          # a collections.Counter while spelling_stats() counts

def _count(k):
    if SPELL_STATS is not None: SPELL_STATS[k] += 1

def respell(sc, rng):
    """fresh spelling seeds for every definition, variant and field of the schema"""
    for d in sc.defs:
        d.spell = rng.getrandbits(48)
        for v in d.variants: v.spell = rng.getrandbits(48)
        for f in all_fields(d): f.spell = rng.getrandbits(48)

def pass_eligible(f):
    if f.skip or f.gparam or f.codec() != "d": return False
    if f.ft[0] == "aopt": return False
    if f.ft[0] == "sp" and f.ft[1].startswith("alias"): return False
    return True

def field_spelling(f):
    if f.spell is None: sp = dict(CANON_SPELL)
    else:
        R = random.Random(f.spell)
        sp = dict(optpath=R.choice((0, 0, 1, 2, 3)), nested=R.random() < 0.4, sep=R.random() < 0.5, pas=None, short=R.random() < 0.5, group=None, shuffle=True)
        if R.random() < 0.3: sp["pas"] = "with" if R.random() < 0.25 else R.choice(PASS_SETS)
        sp["seed"] = R.getrandbits(32)
    if f.force: sp.update(f.force)
    return sp

_KIND = {"n": "Index", "b": "Index", "tag": "Tag", "with": "Codec", "encode_with": "Codec", "decode_with": "Codec", "is_nil": "IsNil", "nil": "Nil",
         "has_nil": "HasNil", "cbor_len": "CborLen", "skip": "Skip", "map": "Encoding", "array": "Encoding", "index_only": "IndexOnly", "transparent": "Transparent"}
def _item_key(item): return item.lstrip("@").split("(")[0].split(" =")[0].strip()

def _ins(st, kind, val):
    """attrs.rs:292 try_insert restricted to what the generator writes.  Codec values: ["E"|"D"|"B", has is_nil, has nil] | ["M", has_nil]"""
    if kind in st:
        if kind == "Codec":
            cc = st["Codec"]
            if val[0] == "E" and cc[0] == "D": st["Codec"] = ["B", val[1], cc[2]]; return True
            if val[0] == "D" and cc[0] == "E": st["Codec"] = ["B", cc[1], val[2]]; return True
        return False                                                # duplicate attribute
    cc = st.get("Codec")
    if kind == "IsNil":
        if cc and cc[0] in "EB":
            if cc[1]: return False
            cc[1] = True; return True
    elif kind == "Nil":
        if cc and cc[0] in "DB":
            if cc[2]: return False
            cc[2] = True; return True
    elif kind == "HasNil":
        if cc and cc[0] == "M":
            if cc[1]: return False
            cc[1] = True; return True
    elif kind == "Codec":
        val = list(val)
        if val[0] in "EB" and "IsNil" in st:
            del st["IsNil"]
            if val[1]: return False
            val[1] = True
        if val[0] in "DB" and "Nil" in st:
            del st["Nil"]
            if val[2]: return False
            val[2] = True
        if val[0] == "M":
            if "HasNil" in st:
                del st["HasNil"]
                if val[1]: return False
                val[1] = True
            if "CborLen" in st: return False                        # `with` and `cbor_len` are mutually exclusive
    elif kind == "CborLen":
        if cc and cc[0] == "M": return False
    st[kind] = val
    return True

_OK_CACHE = {}
def attrs_ok(groups):
    """do the unmodified macros accept these attributes (a list of attributes, each a list of items) on one field / variant / type?
    attrs.rs:84 try_from_iter: every attribute is parsed into its own table (items in order), whose entries are then moved into the
    total in HashMap order — so it must hold for every order of the entries that interact"""
    key = tuple(tuple(_item_key(x) for x in g) for g in groups)
    if key in _OK_CACHE: return _OK_CACHE[key]
    def run():
        states = [{}]
        for g in key:
            m = {}
            for k in g:
                val = {"encode_with": ["E", False, False], "decode_with": ["D", False, False], "with": ["M", False]}.get(k, True)
                if not _ins(m, _KIND[k], val): return False
            inter = [k for k in m if k in ("Codec", "IsNil", "Nil", "HasNil", "CborLen")]
            rest = [k for k in m if k not in inter]
            new = []
            for st in states:
                for perm in itertools.permutations(inter):
                    s2 = copy.deepcopy(st)
                    for k in rest + list(perm):
                        if not _ins(s2, k, copy.deepcopy(m[k])): return False
                    if s2 not in new: new.append(s2)
            states = new
        for st in states:
            if "IsNil" in st or "Nil" in st or "HasNil" in st: return False          # `is_nil` requires `encode_with`, …
            if "Skip" in st and len(st) > 1: return False
            if "Tag" in st and ("IndexOnly" in st or "Transparent" in st): return False
        return True
    _OK_CACHE[key] = run()
    return _OK_CACHE[key]

def arrange(R, index, items, nested, group=None, shuffle=True):
    """-> list of attributes (lists of items; "@n(3)" stands for the short form #[n(3)]).  items is in canonical order (accepted as
    one attribute); a random order and grouping is kept only if the macros accept it"""
    for _ in range(12 if shuffle else 1):
        its = list(items)
        if nested and index: its.insert(0, index)
        if shuffle: R.shuffle(its)
        g = group or R.choice(("one", "each", "cut", "cut"))
        if g == "one": groups = [its] if its else []
        elif g == "each": groups = [[x] for x in its]
        else:
            groups, cur = [], []
            for x in its:
                cur.append(x)
                if R.random() < 0.45: groups.append(cur); cur = []
            if cur: groups.append(cur)
        if index and not nested: groups.insert(R.randrange(len(groups) + 1) if shuffle else 0, ["@" + index])
        if attrs_ok(groups):
            if shuffle and [x for g in groups for x in g if not x.startswith("@")] != ([index] if nested and index else []) + list(items): _count("order:shuffled")
            return groups
        _count("arrange:rejected")
    groups = ([["@" + index]] if index else []) + ([list(items)] if items else [])
    assert attrs_ok(groups), groups
    return groups

def render_attrs(groups):
    return " ".join("#[%s]" % g[0][1:] if g[0].startswith("@") else "#[cbor(%s)]" % ", ".join(g) for g in groups)

def field_items(f, sp):
    """the #[cbor(..)] items of a field besides its index, canonical order"""
    items = []
    if f.tag is not None: items.append("tag(%d)" % f.tag)
    c = f.codec()
    sep3 = lambda m: ['encode_with = "%s::encode"' % m, 'decode_with = "%s::decode"' % m, 'cbor_len = "%s::cbor_len"' % m]
    if c == "y":
        items += sep3("minicbor::bytes") if sp["sep"] else ['with = "minicbor::bytes"']
    elif c == "c1":
        if sp["sep"]: items += ['encode_with = "crate::nz::encode"', 'is_nil = "crate::nz::is_nil"', 'decode_with = "crate::nz::decode"', 'nil = "crate::nz::nil"', 'cbor_len = "crate::nz::cbor_len"']
        else: items += ['with = "crate::nz"', "has_nil"]
    elif c == "c0":
        items += sep3("crate::nz") if sp["sep"] else ['with = "crate::nz"']
    if c != "d": _count("codec:separate items" if sp["sep"] else "codec:with")
    if c == "d" and sp["pas"] and pass_eligible(f):
        pre = "" if sp["short"] else "crate::support::"
        if sp["pas"] == "with": items.append('with = "%spass"' % pre)
        else: items += ['%s = "%spass_%s"' % (PASS_KEY[k], pre, k) for k in sp["pas"]]
        _count("pass:" + (sp["pas"] if sp["pas"] == "with" else "+".join(sp["pas"])))
        _count("pass (any) on " + ("a syntactic Option" if f.synopt() else "a mandatory type"))
    return items

def field_attrs(f):
    """spelling variants never change the bytes"""
    if f.skip: return "#[cbor(skip)]"           # `skip` does not allow other attributes (attrs.rs:113)
    sp = field_spelling(f)
    index = "%s(%d)" % ("b" if f.b else "n", f.idx)
    groups = arrange(random.Random(sp["seed"]), index, field_items(f, sp), sp["nested"], sp["group"], sp["shuffle"])
    _count("field"); _count("field index:#[cbor(%s(i))]" % index[0] if sp["nested"] else "field index:#[%s(i)]" % index[0])
    _count("field attributes:%d" % min(len(groups), 4)); _count("field items in one attribute (max):%d" % min(max(len(g) for g in groups), 4))
    return render_attrs(groups)

def level_attrs(enc, tag, extra=None, spell=None, index=None, what="type"):
    """type level (array | map, tag, transparent | index_only) and variant level (index, array | map, tag)"""
    items = []
    if enc: items.append("array" if enc == "a" else "map")
    if tag is not None: items.append("tag(%d)" % tag)
    if extra: items.append(extra)
    if spell is None:
        groups = arrange(None, "n(%d)" % index if index is not None else None, items, False, "one", False)
    else:
        R = random.Random(spell)
        ix, nested = None, False
        if index is not None:
            ix = "%s(%d)" % (R.choice("nnb"), index); nested = R.random() < 0.4
            _count("variant index:#[cbor(%s(i))]" % ix[0] if nested else "variant index:#[%s(i)]" % ix[0])
        groups = arrange(R, ix, items, nested)
    _count(what); _count("%s attributes:%d" % (what, min(len(groups), 4)))
    return render_attrs(groups) + " " if groups else ""

def spelling_stats(schemas):
    """how often each spelling occurs in the Rust emitted for these schemas"""
    global SPELL_STATS
    SPELL_STATS = collections.Counter()
    try:
        for sc in schemas:
            for k in range(len(sc.defs)): emit_def(sc, k)
        return dict(SPELL_STATS)
    finally: SPELL_STATS = None

def parse_expr(sc, ft, p="p"):
    if ft[0] == "sp": return SPECIAL[ft[1]]["parse"].format(p=p)
    if ft[0] == "aopt" and ft[1][0] == "sp": return "parse_opt(%s, |p| %s)" % (p, SPECIAL[ft[1][1]]["parse"].format(p="p"))
    return "<%s as Canon>::parse(%s)" % (rust_ft(sc, ft, True), p)

def show_expr(sc, ft, x):
    if ft[0] == "sp": return SPECIAL[ft[1]]["show"].format(x=x)
    if ft[0] == "aopt" and ft[1][0] == "sp": return "show_opt(%s, |y| %s)" % (x, SPECIAL[ft[1][1]]["show"].format(x="y"))
    return "Canon::show(%s)" % x

def borrow_expr(sc, f, x):
    """Rust bool expression: borrowed leaves point into [lo, hi); Cow is Borrowed exactly when #[b]"""
    ft = f.ft
    if ft[0] == "sp":
        b = SPECIAL[ft[1]]["borrow"]
        if b is None: return None
        if b == "COW":
            if f.b: return "match %s { std::borrow::Cow::Borrowed(y) => in_buf(y.as_ref(), lo, hi), _ => false }" % x
            return "matches!(%s, std::borrow::Cow::Owned(_))" % x
        return b.format(x="(*%s)" % x)
    if not ft_has_lt(sc, ft): return None
    if ft[0] == "ref": return "%s.bchk(lo, hi)" % x
    if ft[0] in ("opt", "aopt") and ft[1][0] == "ref": return "%s.as_ref().map_or(true, |y| y.bchk(lo, hi))" % x
    if ft[0] == "aopt" and ft[1][0] == "seq" and ft[1][1][0] == "ref": return "%s.as_ref().map_or(true, |l| l.iter().all(|y| y.bchk(lo, hi)))" % x
    if ft[0] == "aopt" and ft[1][0] == "sp": return "%s.as_ref().map_or(true, |y| %s)" % (x, SPECIAL[ft[1][1]]["borrow"].format(x="(*y)"))
    if ft[0] == "seq" and ft[1][0] == "ref": return "%s.iter().all(|y| y.bchk(lo, hi))" % x
    return None

def fields_rust(sc, d, fields, shape, public):
    pub = "pub " if public else ""
    if shape == "u": return ""
    if shape == "n":
        return " { " + ", ".join("%s %s%s: %s" % (field_attrs(f), pub, f.name, field_decl_type(sc, d, f)) for f in fields) + " }"
    return "(" + ", ".join("%s %s%s" % (field_attrs(f), pub, field_decl_type(sc, d, f)) for f in fields) + ")"

def binders(fields, shape):
    """pattern binding every field to a local x<p>"""
    if shape == "u": return ""
    if shape == "n": return " { " + ", ".join("%s: x%d" % (f.name, p) for p, f in enumerate(fields)) + " }"
    return "(" + ", ".join("x%d" % p for p in range(len(fields))) + ")"

def parse_fields_code(sc, fields):
    out = ["p.eat(b'[');"]
    for p, f in enumerate(fields):
        if p > 0: out.append("p.eat(b',');")
        out.append("let x%d = %s;" % (p, parse_expr(sc, f.ft)))
    out.append("p.eat(b']');")
    return " ".join(out)

def emit_def(sc, k):
    d = sc.defs[k]
    lt = def_has_lt(sc, d)
    gen = []
    if lt: gen.append("'a")
    if d.generic: gen.append("T")
    g = "<%s>" % ", ".join(gen) if gen else ""
    st_name = def_rust_name(sc, k, static=True)
    out = alias_decls(sc, d) + ["#[derive(Encode, Decode, CborLen)]"]
    if d.kind == "S":
        attrs = level_attrs(d.enc, d.tag, "transparent" if d.transparent else None, d.spell)
        out.append("%spub struct %s%s%s%s" % (attrs, d.name, g, fields_rust(sc, d, d.fields, d.shape, True), "" if d.shape == "n" else ";"))
        ctor = d.name + binders(d.fields, d.shape)
        shows = ", ".join(show_expr(sc, f.ft, "x%d" % p) for p, f in enumerate(d.fields))
        bor = [b for b in (borrow_expr(sc, f, "x%d" % p) for p, f in enumerate(d.fields) if not f.skip) if b]
        out.append("impl Canon for %s { fn parse(p: &mut P) -> Self { %s %s } fn show(&self) -> String { let %s = self; show_list(vec![%s], false) } }"
                   % (st_name, parse_fields_code(sc, d.fields), ctor, ctor, shows))
        out.append("impl Bchk for %s { #[allow(unused_variables)] fn bchk(&self, lo: usize, hi: usize) -> bool { let %s = self; %s } }"
                   % (st_name, ctor, " && ".join(["true"] + bor)))
    else:
        attrs = level_attrs(d.enc, d.tag, "index_only" if d.index_only else None, d.spell)
        vs = ", ".join("%s%s%s" % (level_attrs(v.enc, v.tag, None, v.spell, v.idx, "variant"), v.name, fields_rust(sc, d, v.fields, v.shape, False)) for v in d.variants)
        out.append("%spub enum %s%s { %s }" % (attrs, d.name, g, vs))
        parms, shows, bors = [], [], []
        for v in d.variants:
            ctor = "%s::%s%s" % (d.name, v.name, binders(v.fields, v.shape))
            parms.append("%d => { %s %s }" % (v.idx, parse_fields_code(sc, v.fields), ctor))
            shows.append('%s => format!("v%d({})", show_list(vec![%s], false))' % (ctor, v.idx, ", ".join(show_expr(sc, f.ft, "x%d" % p) for p, f in enumerate(v.fields))))
            bor = [b for b in (borrow_expr(sc, f, "x%d" % p) for p, f in enumerate(v.fields) if not f.skip) if b]
            bors.append("%s => { %s }" % (ctor, " && ".join(["true"] + bor)))
        out.append("impl Canon for %s { fn parse(p: &mut P) -> Self { p.eat(b'v'); let i = p.num(); p.eat(b'('); let r = match i { %s, _ => panic!(\"variant\") }; p.eat(b')'); r } fn show(&self) -> String { match self { %s } } }"
                   % (st_name, ", ".join(parms), ", ".join(shows)))
        out.append("impl Bchk for %s { #[allow(unused_variables)] fn bchk(&self, lo: usize, hi: usize) -> bool { match self { %s } } }" % (st_name, ", ".join(bors)))
    return "\n".join(out)

def emit_gen_rs(schemas, exclude=(), spans=None):
    """exclude: schema ids left out (their cases are answered `?no-type`); spans: list receiving (first line, last line, sid)"""
    out = ["// generated by checks/derivegen.py — do not edit", "#![allow(dead_code, unused_parens, non_camel_case_types, unused_mut)]",
           "use crate::canon::*;", "use crate::support::*;", "use minicbor::{Encode, Decode, CborLen};", ""]
    table = []
    line = len(out) + 1
    for sc in schemas:
        if sc.sid in exclude: continue
        for k in range(len(sc.defs)):
            txt = emit_def(sc, k)
            n = txt.count("\n") + 1
            if spans is not None: spans.append((line, line + n - 1, sc.sid))
            line += n
            out.append(txt)
            table.append('("%s:%d", ops::<%s> as fn() -> Ops)' % (sc.sid, k, def_rust_name(sc, k, static=True)))
    out.append("pub static TABLE: &[(&str, fn() -> Ops)] = &[\n%s\n];" % ",\n".join(table))
    return "\n".join(out) + "\n"

# ---------------------------------------------------------------- values
_DESC = {}
def pdesc(s):
    if s not in _DESC: _DESC[s] = tg.parse_desc(s)
    return _DESC[s]

def leaf_desc(ft): return pdesc(model_ft(ft)[1])

def gen_ft_value(sc, ft, rng, present=None, depth=0):
    ft = vview(ft)
    if ft[0] == "sp" and ft[1] in ("nz", "nz0"):
        if present is False: return 0
        v = rng.choice([1, 23, 24, 255, 256, 65535, 65536, (1 << 32) - 1, 1 << 32, U64, rng.getrandbits(rng.randrange(1, 65)) or 1])
        return v if (present or ft[1] == "nz" or rng.random() < 0.8) else 0
    if ft[0] in ("ty", "sp"):
        d = leaf_desc(ft)
        if d[0] == "opt" and present is not None:
            if not present: return None
            return ("some", tg.rust_order(d[1], tg.gen_value(d[1], rng, depth + 1)))
        return tg.rust_order(d, tg.gen_value(d, rng, depth + 1))
    if ft[0] == "ref": return gen_def_value(sc, ft[1], rng, depth=depth + 1)
    if ft[0] == "opt":
        if present is None: present = rng.random() < 0.65
        return ("some", gen_ft_value(sc, ft[1], rng, None, depth + 1)) if present else None
    return [gen_ft_value(sc, ft[1], rng, None, depth + 1) for _ in range(rng.choice([0, 1, 1, 2, 3]))]

def gen_fields_value(sc, fields, rng, presence=None, depth=0):
    """presence: dict position -> bool for optional fields (others random)"""
    out = []
    for p, f in enumerate(fields):
        pr = presence.get(p) if presence else None
        if pr is None and is_optional(f) and depth > 0: pr = rng.random() < 0.6
        out.append(gen_ft_value(sc, f.ft, rng, pr if value_optional(f) else None, depth))
    return out

def gen_def_value(sc, k, rng, presence=None, variant=None, depth=0):
    d = sc.defs[k]
    if d.kind == "S": return gen_fields_value(sc, d.fields, rng, presence, depth)
    v = d.variants[variant if variant is not None else rng.randrange(len(d.variants))]
    return ("var", v.idx, gen_fields_value(sc, v.fields, rng, presence, depth))

def show_leaf(d, v, canon):
    if canon and d[0] == "map":          # the printers of both executables sort map entries by key text
        return "[" + ",".join(a + "," + b for a, b in sorted((tg.show(d[1], k), tg.show(d[2], x)) for k, x in v)) + "]"
    return tg.show(d, v)

def show_ft(sc, ft, v, canon=False):
    ft = vview(ft)
    if ft[0] in ("ty", "sp"): return show_leaf(leaf_desc(ft), v, canon)
    if ft[0] == "ref": return show_def(sc, ft[1], v, canon)
    if ft[0] == "opt": return "null" if v is None else "some(%s)" % show_ft(sc, ft[1], v[1], canon)
    return "[" + ",".join(show_ft(sc, ft[1], x, canon) for x in v) + "]"

def show_fields(sc, fields, vs, canon=False): return "[" + ",".join(show_ft(sc, f.ft, x, canon) for f, x in zip(fields, vs)) + "]"

def find_variant(d, idx): return next((v for v in d.variants if v.idx == idx), None)

def show_def(sc, k, v, canon=False):
    """canon=True: the text both executables print for a decoded value (expectations)"""
    d = sc.defs[k]
    if d.kind == "S": return show_fields(sc, d.fields, v, canon)
    return "v%d(%s)" % (v[1], show_fields(sc, find_variant(d, v[1]).fields, v[2], canon))

def default_ft(ft):
    ft = vview(ft)
    if ft[0] == "opt": return None
    if ft[0] == "seq": return []
    d = leaf_desc(ft)
    k = d[0]
    if k in ("u", "i"): return 0
    if k == "bool": return False
    if k in ("f32", "f64"): return 0
    if k in ("str", "bytes"): return b""
    if k == "unit": return ()
    if k == "opt": return None
    if k in ("seq", "map"): return []
    raise ValueError(ft)

def dflt_ft(sc, ft, v):
    ft = vview(ft)
    if ft[0] == "ref": return dflt_def(sc, ft[1], v)
    if ft[0] == "opt": return None if v is None else ("some", dflt_ft(sc, ft[1], v[1]))
    if ft[0] == "seq": return [dflt_ft(sc, ft[1], x) for x in v]
    return v

def dflt_fields(sc, fields, vs): return [default_ft(f.ft) if f.skip else dflt_ft(sc, f.ft, x) for f, x in zip(fields, vs)]

def dflt_def(sc, k, v):
    """the value the decoder returns for the encoding of v: skipped fields take Default::default()"""
    d = sc.defs[k]
    if d.kind == "S": return dflt_fields(sc, d.fields, v)
    return ("var", v[1], dflt_fields(sc, find_variant(d, v[1]).fields, v[2]))

# ---------------------------------------------------------------- reference encoder (documented format; rng => re-framed)
INT_KINDS = ("u", "i", "nzu", "nzi", "int", "char")

def field_is_nil(f, v):
    """the macro's presence test (encode.rs:543)"""
    c = f.codec()
    if c == "d":                                 # Encode::is_nil of the type: None-ness of an Option, also behind an alias (aopt)
        ft = vview(f.ft)
        if ft[0] == "opt": return v is None
        if ft[0] in ("ty", "sp"): return leaf_desc(ft)[0] == "opt" and v is None
        return False
    if c == "c1": return v == 0
    if c == "y": return bool(f.synopt()) and v is None
    return False

def hd(mt, n, rng):
    if rng is None or rng.random() < 0.5: return head(mt, n)
    return head(mt, n, rng.choice(widths_for(n)))

def enc_ft(sc, ft, v, rng):
    ft = vview(ft)
    if ft[0] == "sp" and ft[1] in ("nz", "nz0"): return b"\xf6" if v == 0 else hd(0, v, rng)
    if ft[0] in ("ty", "sp"):
        d = leaf_desc(ft)
        if rng is not None and d[0] in INT_KINDS: return hd(0, v, rng) if v >= 0 else hd(1, -1 - v, rng)
        return tg.encode(d, v, None)
    if ft[0] == "ref": return enc_def(sc, ft[1], v, rng)
    if ft[0] == "opt": return b"\xf6" if v is None else enc_ft(sc, ft[1], v[1], rng)
    items = [enc_ft(sc, ft[1], x, rng) for x in v]
    if rng is not None and rng.random() < 0.3: return b"\x9f" + b"".join(items) + b"\xff"
    return hd(4, len(items), rng) + b"".join(items)

def enc_tag(t, rng): return b"" if t is None else hd(6, t, rng)

def enc_fields(sc, enc, fields, vs, rng):
    fv = sorted([(f, x) for f, x in zip(fields, vs) if not f.skip], key=lambda p: p[0].idx)
    if enc == "a":
        present = [f.idx for f, x in fv if not field_is_nil(f, x)]
        n = max(present) + 1 if present else 0
        by = {f.idx: (f, x) for f, x in fv}
        items = []
        for i in range(n):
            if i in by: items.append(enc_tag(by[i][0].tag, rng) + enc_ft(sc, by[i][0].ft, by[i][1], rng))
            else: items.append(b"\xf6")
        if rng is not None and rng.random() < 0.4: return b"\x9f" + b"".join(items) + b"\xff"
        return hd(4, n, rng) + b"".join(items)
    items = [hd(0, f.idx, rng) + enc_tag(f.tag, rng) + enc_ft(sc, f.ft, x, rng) for f, x in fv if not field_is_nil(f, x)]
    if rng is not None and rng.random() < 0.4: return b"\xbf" + b"".join(items) + b"\xff"
    return hd(5, len(items), rng) + b"".join(items)

def enc_def(sc, k, v, rng=None):
    d = sc.defs[k]
    if d.kind == "S":
        if d.transparent:
            f = d.fields[0]
            return enc_ft(sc, f.ft, v[0], rng)
        return enc_tag(d.tag, rng) + enc_fields(sc, eff_enc(d), d.fields, v, rng)
    va = find_variant(d, v[1])
    if d.index_only: return enc_tag(d.tag, rng) + hd(0, va.idx, rng)
    if va.shape == "u":
        body = (hd(4, 0, rng) if eff_enc(d, va) == "a" else hd(5, 0, rng))
    else:
        body = enc_fields(sc, eff_enc(d, va), va.fields, v[2], rng)
    return enc_tag(d.tag, rng) + hd(4, 2, rng) + hd(0, va.idx, rng) + enc_tag(va.tag, rng) + body

# ---------------------------------------------------------------- the re-framer of Model/DeriveReframe.v (theorem C09_roundtrip_reframed)
# A mirror of DeriveReframe.reframe_with: one choice per head of the derive layer, drawn in the order the bytes are written
# (body container before its items; key, tag, value per entry).  0 = minimal / definite, 1..4 = argument in 1/2/4/8 bytes if it
# fits (else minimal), >= 5 = indefinite on a body container, minimal on any other head.  Leaves, gap / Option nulls and Vec
# headers stay as the encoder writes them; the enum's [index, body] array stays definite (the generated decoder demands Some(2)).
# The OCaml driver recomputes the bytes from the recorded choices with the extracted Coq function and both sides echo them.
class Chooser:
    def __init__(s, rng, mode="mix"): s.rng, s.mode, s.log = rng, mode, []
    def head(s):
        k = 4 if s.mode == "wide" else 0 if s.mode == "indef" else s.rng.choice((0, 0, 1, 2, 3, 4, 4, 6))
        s.log.append(k); return k
    def body(s):
        k = 5 if s.mode in ("wide", "indef") else s.rng.choice((5, 5, 5, 7, 0, 1, 2, 3, 4))
        s.log.append(k); return k
    def text(s): return "c=" + (",".join(map(str, s.log)) if s.log else "-")

RF_WIDTH = {1: 1, 2: 2, 3: 4, 4: 8}
def rf_head(mt, n, k):
    w = RF_WIDTH.get(k, 0)
    fits = n < 24 if w == 0 else n < (1 << (8 * w))
    return head(mt, n, w if fits else None)

def rf_frame(mt, k, items):
    if k >= 5: return bytes([mt * 32 + 31]) + b"".join(items) + b"\xff"
    return rf_head(mt, len(items), k) + b"".join(items)

def rf_tag(t, ch): return b"" if t is None else rf_head(6, t, ch.head())

def rf_ft(sc, ft, v, ch):
    ft = vview(ft)
    if ft[0] in ("ty", "sp"): return enc_ft(sc, ft, v, None)
    if ft[0] == "ref": return rf_def(sc, ft[1], v, ch)
    if ft[0] == "opt": return b"\xf6" if v is None else rf_ft(sc, ft[1], v[1], ch)
    items = [rf_ft(sc, ft[1], x, ch) for x in v]
    return head(4, len(items)) + b"".join(items)

def rf_fields(sc, enc, fields, vs, ch):
    fv = sorted([(f, x) for f, x in zip(fields, vs) if not f.skip], key=lambda p: p[0].idx)
    k = ch.body()
    items = []
    if enc == "a":
        present = [f.idx for f, x in fv if not field_is_nil(f, x)]
        n = max(present) + 1 if present else 0
        by = {f.idx: (f, x) for f, x in fv}
        for i in range(n):
            if i in by:
                t = rf_tag(by[i][0].tag, ch)
                items.append(t + rf_ft(sc, by[i][0].ft, by[i][1], ch))
            else: items.append(b"\xf6")
        return rf_frame(4, k, items)
    for f, x in fv:
        if field_is_nil(f, x): continue
        kb = rf_head(0, f.idx, ch.head())
        t = rf_tag(f.tag, ch)
        items.append(kb + t + rf_ft(sc, f.ft, x, ch))
    return rf_frame(5, k, items)

def rf_def(sc, k, v, ch):
    d = sc.defs[k]
    if d.kind == "S":
        if d.transparent: return rf_ft(sc, d.fields[0].ft, v[0], ch)
        t = rf_tag(d.tag, ch)
        return t + rf_fields(sc, eff_enc(d), d.fields, v, ch)
    va = find_variant(d, v[1])
    t = rf_tag(d.tag, ch)
    if d.index_only: return t + rf_head(0, va.idx, ch.head())
    h2 = rf_head(4, 2, ch.head())
    hi = rf_head(0, va.idx, ch.head())
    vt = rf_tag(va.tag, ch)
    if va.shape == "u": body = rf_frame(4 if eff_enc(d, va) == "a" else 5, ch.body(), [])
    else: body = rf_fields(sc, eff_enc(d, va), va.fields, v[2], ch)
    return t + h2 + hi + vt + body

# ---------------------------------------------------------------- presence combinations
def value_optional(f):
    """the value can be None / nil (the macro may or may not treat the field as optional: aliases under a codec)"""
    return is_optional(f) or (not f.skip and f.ft[0] == "sp" and SPECIAL[f.ft[1]]["model"].startswith("opt("))

def optional_positions(fields): return [p for p, f in enumerate(fields) if value_optional(f)]

def presence_sets(fields, rng, cap):
    """all Some/None combinations of the optional fields (at most cap of them, seeded sample beyond)"""
    ps = optional_positions(fields)
    n = len(ps)
    if (1 << n) <= cap: masks = range(1 << n)
    else:
        masks = {0, (1 << n) - 1} | {1 << i for i in range(n)} | {((1 << n) - 1) ^ (1 << i) for i in range(n)}
        while len(masks) < cap: masks.add(rng.getrandbits(n))
        masks = sorted(masks)
    return [{p: bool(m >> i & 1) for i, p in enumerate(ps)} for m in masks]

def def_values(sc, k, rng, cap, per=1):
    """values of definition k: every variant x presence combinations x `per` draws of the leaf values"""
    d = sc.defs[k]
    out = []
    if d.kind == "S":
        for pres in presence_sets(d.fields, rng, cap):
            for _ in range(per): out.append(gen_def_value(sc, k, rng, pres))
    else:
        for vi, va in enumerate(d.variants):
            for pres in presence_sets(va.fields, rng, max(4, cap // len(d.variants))):
                for _ in range(per): out.append(gen_def_value(sc, k, rng, pres, vi))
    return out

# ---------------------------------------------------------------- the renamed / reordered twin (C08 invariance)
def twin(sc, rng):
    """same definitions with shuffled declaration order of fields and variants, fresh names, n <-> b where it
    cannot matter, other attribute spellings.  Returns (schema, value mapper)."""
    t = sc.clone(sc.sid + "t")
    perms = {}
    for k, d in enumerate(t.defs):
        groups = [(("S", k), d.fields)] if d.kind == "S" else [(("V", k, v.idx), v.fields) for v in d.variants]
        for key, fs in groups:
            perm = list(range(len(fs))); rng.shuffle(perm)
            perms[key] = perm
            fs[:] = [fs[i] for i in perm]
            for f in fs:
                if not f.skip and not (f.ft[0] == "sp" and SPECIAL[f.ft[1]]["borrow"] == "COW") and not ft_has_lt(sc, f.ft):
                    f.b = not f.b
        if d.kind == "E": rng.shuffle(d.variants)
    respell(t, rng)
    fix_borrow_flags(t)
    name_schema(t, "U", rng)
    def conv_ft(ft, v):
        ft = vview(ft)
        if ft[0] == "ref": return conv(ft[1], v)
        if ft[0] == "opt": return None if v is None else ("some", conv_ft(ft[1], v[1]))
        if ft[0] == "seq": return [conv_ft(ft[1], x) for x in v]
        return v
    def conv(k, v):
        d = sc.defs[k]
        if d.kind == "S":
            vs = [conv_ft(f.ft, x) for f, x in zip(d.fields, v)]
            return [vs[i] for i in perms[("S", k)]]
        va = find_variant(d, v[1])
        vs = [conv_ft(f.ft, x) for f, x in zip(va.fields, v[2])]
        return ("var", v[1], [vs[i] for i in perms[("V", k, v[1])]])
    return t, conv

# ---------------------------------------------------------------- documented-compatible edits (C10)
def enum_only_optional(sc, e):
    """every occurrence of definition e as a field type is exactly Option<e> — spelled so or through an alias (aopt) —, and there is at least one"""
    n = 0
    for d in sc.defs:
        for f in all_fields(d):
            def occ(ft, top):
                nonlocal n
                if ft == ("ref", e): return False
                if ft[0] in ("opt", "seq", "aopt"):
                    if ft[1] == ("ref", e):
                        if ft[0] in ("opt", "aopt") and top: n += 1; return True
                        return False
                    return occ(ft[1], False)
                return True
            if not occ(f.ft, True): return False
    return n > 0

def field_groups(sc):
    """(def index, variant or None, field list, effective encoding) of every place fields can be added to / dropped from"""
    out = []
    for k, d in enumerate(sc.defs):
        if d.kind == "S":
            if not d.transparent and d.shape != "u": out.append((k, None, d.fields, eff_enc(d)))
        elif not d.index_only:
            for v in d.variants:
                if v.shape != "u": out.append((k, v, v.fields, eff_enc(d, v)))
    return out

def new_optional_field(rng, sc, k, fields, enc, tagged=None, reserved=()):
    used = {f.idx for f in fields if not f.skip} | set(reserved)
    top = max(used) if used else -1
    gaps = [i for i in range(min(top, 400)) if i not in used]
    if gaps and (rng.random() < 0.6 or top > 100000 or (enc == "a" and top > 300)): idx = rng.choice(gaps)
    else: idx = top + rng.choice([1, 1, 2, 3])
    if idx > 2147483000 or (enc == "a" and idx > 400): idx = next(i for i in range(1000) if i not in used)
    r = rng.random()
    j = rng.randrange(0, k) if k > 0 else 0
    if k > 0 and r < 0.25 and not def_nullable(sc.defs, j): ft = ("aopt" if rng.random() < 0.35 else "opt", ("ref", j))
    elif r < 0.33: ft = ("aopt", ("ty", rng.choice(AOPT_LEAF)))
    elif r < 0.45: ft = ("sp", rng.choice(["optvecu8", "nz", "aliasoptu8"]))
    else: ft = ("ty", rng.choice(OPT_PLAIN))
    tag = pick_tag(rng, 0.25 if tagged is None else (1.0 if tagged else 0.0))
    f = Field(ft, idx, b=ft_has_lt(sc, ft), tag=tag)
    f.spell = rng.getrandbits(48)
    return f

def compat_edit(sc, rng, sid):
    """one or more documented-compatible edits; returns the new schema (definitions keep their positions)"""
    t = sc.clone(sid)
    done = []
    reserved = {(k, v.idx if v else None): {f.idx for f in fs if not f.skip} for k, v, fs, enc in field_groups(t)}   # an index never changes its type
    for _ in range(rng.choice([1, 1, 2, 3])):
        r = rng.random()
        groups = field_groups(t)
        if r < 0.4 and groups:
            k, v, fs, enc = rng.choice(groups)
            f = new_optional_field(rng, t, k, fs, enc, reserved=reserved.get((k, v.idx if v else None), ()))
            fs.insert(rng.randrange(0, len(fs) + 1), f); done.append("add")
        elif r < 0.6 and groups:
            k, v, fs, enc = rng.choice(groups)
            cand = [f for f in fs if is_optional(f)]
            if cand: fs.remove(rng.choice(cand)); done.append("drop")
        elif r < 0.85:
            es = [e for e, d in enumerate(t.defs) if d.kind == "E" and enum_only_optional(t, e)]
            if es:
                e = rng.choice(es); d = t.defs[e]
                used = {v.idx for v in d.variants}
                idx = next(i for i in [rng.choice([0, 1, 2, 3, 7, 23, 24, 255, 256, 70000])] + list(range(1000)) if i not in used)
                if d.index_only or rng.random() < 0.3: nv = Variant(idx, "u", [], enc=rng.choice([None, "m"]), tag=pick_tag(rng, 0.2))
                else:
                    venc = rng.choice([None, "a", "m"])
                    n = rng.choice([1, 1, 2, 3])
                    nv = Variant(idx, rng.choice("nt"), gen_fields(rng, t.defs, e, n, (venc or d.enc or "a") == "a", allow_skip=False, allow_lt=def_has_lt(t, d)), enc=venc, tag=pick_tag(rng, 0.2))
                nv.spell = rng.getrandbits(48)
                for f in nv.fields: f.spell = rng.getrandbits(48)
                d.variants.insert(rng.randrange(0, len(d.variants) + 1), nv); done.append("variant")
        else:
            cand = [(k, v) for k, d in enumerate(t.defs) if d.kind == "E" and not d.index_only for v in d.variants if v.shape == "u"]
            if cand:
                k, v = rng.choice(cand)
                v.shape = rng.choice("nt"); v.fields = []
                for _ in range(rng.choice([1, 2, 3])):
                    v.fields.append(new_optional_field(rng, t, k, v.fields, eff_enc(t.defs[k], v), tagged=False if rng.random() < 0.8 else None))
                done.append("unit2fields")
    for d in t.defs:
        for f in all_fields(d):
            if f.b is None: f.b = False
    fix_borrow_flags(t)
    name_schema(t, "T")
    return t, done

def by_idx(fields): return {f.idx: (p, f) for p, f in enumerate(fields) if not f.skip}

class Unknown(Exception): pass           # an enum value whose variant the reader does not know, outside an Option field

def migrate_ft(w, r, ftw, ftr, v, flags):
    ftw, ftr = vview(ftw), vview(ftr)            # an alias-Option field is optional through nil(): same guarantee 4
    if ftr[0] == "ref": return migrate_def(w, r, ftr[1], v, flags)
    if ftr[0] == "opt":
        if v is None: return None
        if ftr[1][0] == "ref":
            d = r.defs[ftr[1][1]]
            if d.kind == "E" and find_variant(d, v[1][1]) is None:
                return None                                  # guarantee 4: unknown variant in an optional field -> None
        return ("some", migrate_ft(w, r, ftw[1], ftr[1], v[1], flags))
    if ftr[0] == "seq": return [migrate_ft(w, r, ftw[1], ftr[1], x, flags) for x in v]
    return v

def migrate_fields(w, r, fw, fr, encw, encr, vs, flags):
    wi = by_idx(fw)
    if encw == "a":
        present = [f.idx for p, f in wi.values() if not field_is_nil(f, vs[p])]
        wlen = max(present) + 1 if present else 0
    out = []
    for f in fr:
        if f.skip: out.append(default_ft(f.ft)); continue
        if f.idx in wi:
            p, g = wi[f.idx]
            out.append(migrate_ft(w, r, g.ft, f.ft, vs[p], flags))
        else:
            out.append(nil_value(f))                         # guarantee 3: absent optional -> None
    return out

def migrate_def(w, r, k, v, flags):
    dw, dr = w.defs[k], r.defs[k]
    if dw.kind == "S":
        if dw.transparent: return [migrate_ft(w, r, dw.fields[0].ft, dr.fields[0].ft, v[0], flags)]
        return migrate_fields(w, r, dw.fields, dr.fields, eff_enc(dw), eff_enc(dr), v, flags)
    vw, vr = find_variant(dw, v[1]), find_variant(dr, v[1])
    if vr is None: raise Unknown()
    if vr.shape == "u" or vw.shape == "u":
        return ("var", v[1], [default_ft(f.ft) if f.skip else nil_value(f) for f in vr.fields])
    return ("var", v[1], migrate_fields(w, r, vw.fields, vr.fields, eff_enc(dw, vw), eff_enc(dr, vr), v[2], flags))

def drop_mandatory(sc, rng, sid):
    """writer version lacking one mandatory field (not a documented-compatible edit): C10 'always an error'"""
    t = sc.clone(sid)
    cand = []
    for k, v, fs, enc in field_groups(t):
        for f in fs:
            if not f.skip and not is_optional(f) and f.ft not in (("sp", "nz0"), ("sp", "aliasoptvec")) and not (f.ft[0] == "ty" and f.ft[1].startswith("opt(")) \
               and not (f.ft[0] == "ref" and def_nullable(t.defs, f.ft[1])):      # a type that reads a gap null is not "missing"
                cand.append((k, v, fs, enc, f))
    if not cand: return None
    k, v, fs, enc, f = rng.choice(cand)
    fs.remove(f)
    fix_borrow_flags(t); name_schema(t, "T")
    return t, (k, v.idx if v else None, f.idx)

def has_lt_change(a, b):
    return any(def_has_lt(a, da) != def_has_lt(b, db) for da, db in zip(a.defs, b.defs))

# ---------------------------------------------------------------- the world of one run: schemas, twins, version pairs
def mk(sid, defs):
    sc = Schema(sid, defs)
    for d in sc.defs:
        for f in all_fields(d):
            if f.b is None: f.b = False
    fix_borrow_flags(sc); name_schema(sc, "T")
    return sc

def fixed_schemas():
    """hand-written schemas: the witnesses of the findings of DESIGN.md section 5 and a few documented examples"""
    F = Field
    out = {}
    out["f6"] = mk("f6", [Def("S", enc="m", fields=[F(("ty", "opt(u8)"), i) for i in range(24)])])
    out["f7"] = mk("f7", [Def("S", fields=[F(("ty", "opt(u8)"), 0, tag=5), F(("ty", "u8"), 1)])])
    io_old = Def("E", index_only=True, variants=[Variant(0, "u", []), Variant(1, "u", [])])
    io_new = Def("E", index_only=True, variants=[Variant(0, "u", []), Variant(1, "u", []), Variant(7, "u", [])])
    holder = lambda: Def("S", fields=[F(("ty", "u8"), 0), F(("opt", ("ref", 0)), 1), F(("ty", "u8"), 2)])
    out["f9o"] = mk("f9o", [io_old, holder()]); out["f9n"] = mk("f9n", [io_new, holder()])
    rg_old = Def("E", variants=[Variant(0, "u", [])])
    rg_new = Def("E", variants=[Variant(0, "u", []), Variant(7, "n", [F(("ty", "u8"), 0)])])
    out["rgo"] = mk("rgo", [rg_old, holder()]); out["rgn"] = mk("rgn", [rg_new, holder()])
    out["f10o"] = mk("f10o", [Def("S", fields=[F(("ty", "u8"), 0), F(("ty", "u8"), 2)])])
    out["f10n"] = mk("f10n", [Def("S", fields=[F(("ty", "u8"), 0), F(("ty", "opt(u8)"), 1, tag=9), F(("ty", "u8"), 2)])])
    # the same with a field that is optional only through a nil-aware codec (nz: u64, 0 = nil) and through an alias Option
    out["f10co"] = mk("f10co", [Def("S", fields=[F(("ty", "u8"), 0), F(("ty", "u8"), 3)])])
    out["f10cn"] = mk("f10cn", [Def("S", fields=[F(("ty", "u8"), 0), F(("sp", "nz"), 1, tag=9), F(("sp", "aliasoptu8"), 2, tag=1001), F(("ty", "u8"), 3)])])
    out["alias"] = mk("alias", [Def("S", enc="m", fields=[F(("sp", "aliasoptvec"), 0), F(("ty", "u8"), 1)]),
                                Def("S", fields=[F(("ty", "u8"), 0), F(("sp", "aliasoptvec"), 1)])])
    # transparent newtypes over a field with a codec (the three impls must all honour it: seed C07-3 drops it in CborLen only)
    out["trc"] = mk("trc", [Def("S", transparent=True, shape="t", fields=[F(("sp", "vecu8"), 0)]),
                            Def("S", transparent=True, shape="n", fields=[F(("sp", "arr4u8"), 0)]),
                            Def("S", transparent=True, shape="t", fields=[F(("sp", "optvecu8"), 0, tag=5)]),
                            Def("S", transparent=True, shape="n", fields=[F(("sp", "sliceu8"), 3)])])
    # Option behind a type alias, no codec (`type Maybe<T> = Option<T>; #[n(0)] e: Maybe<E>, #[n(1)] z: u8`): optional through
    # Decode::nil() only, so the unknown-variant arm is the `<T as Decode>::nil().is_some()` one (decode.rs:290).  index_only and
    # regular enum gaining variant 7, array and map encoding; aoq: both enums side by side, one field spelled Option<..>
    aholder = lambda enc: Def("S", enc=enc, fields=[F(("aopt", ("ref", 0)), 0), F(("ty", "u8"), 1)])
    for sid, enc in (("aoa", None), ("aom", "m")):
        out[sid + "o"] = mk(sid + "o", [io_old.clone(), aholder(enc)]); out[sid + "n"] = mk(sid + "n", [io_new.clone(), aholder(enc)])
        out[sid + "ro"] = mk(sid + "ro", [rg_old.clone(), aholder(enc)]); out[sid + "rn"] = mk(sid + "rn", [rg_new.clone(), aholder(enc)])
    qholder = lambda: Def("S", fields=[F(("opt", ("ref", 0)), 0), F(("aopt", ("ref", 1)), 1), F(("aopt", ("ty", "string")), 2, tag=9), F(("ty", "u8"), 3)])
    out["aoqo"] = mk("aoqo", [io_old.clone(), rg_old.clone(), qholder()]); out["aoqn"] = mk("aoqn", [io_new.clone(), rg_new.clone(), qholder()])
    # ---- spellings (reviewer round R5B): definitions whose meaning is the default one but which are WRITTEN another way
    def FS(ft, idx, tag=None, **force):
        f = F(ft, idx, tag=tag); f.force = force; return f
    # qop: Option by a qualified path + the bytes codec; None must be omitted under map encoding / dropped at the end of an array,
    # an absent entry must read as None (is_option must look at the LAST path segment)
    out["qop"] = mk("qop", [
        Def("S", enc="m", fields=[FS(("sp", "optvecu8"), 0, optpath=1), F(("ty", "u8"), 1)]),
        Def("S", enc="m", fields=[FS(("sp", "optvecu8"), 0, optpath=2, sep=True), FS(("sp", "optsliceu8"), 2, optpath=1, sep=True, nested=True), F(("ty", "u8"), 1)]),
        Def("S", fields=[F(("ty", "u8"), 0), FS(("sp", "optvecu8"), 1, optpath=1), FS(("sp", "optvecu8"), 2, tag=9, optpath=2)]),
        Def("E", enc="m", variants=[Variant(0, "n", [FS(("sp", "optvecu8"), 0, optpath=1), FS(("ty", "opt(u8)"), 1, optpath=2, pas=("enc", "dec")), F(("ty", "u8"), 2)])])])
    # hk: Option<Enum> with a pass-through decode function and no `nil` (old / new enum pair, array and map, regular and index_only
    # enum, one holder with `with`): the unknown-variant arm for a codec without nil path on a syntactic Option (decode.rs:278)
    hk = lambda enc, e, **force: Def("S", enc=enc, fields=[FS(("opt", ("ref", e)), 0, **force), F(("ty", "u8"), 1)])
    hk_defs = lambda a, b: [a.clone(), b.clone(), hk(None, 0, pas=("dec",), short=True), hk("m", 0, pas=("dec",)), hk(None, 1, pas=("dec",), optpath=1),
                            hk("m", 1, pas=("enc", "dec", "len"), nested=True), hk(None, 0, pas="with"), hk("m", 0, pas=("dec", "len"), optpath=2)]
    rk_old = Def("E", variants=[Variant(0, "u", [])])
    rk_new = Def("E", variants=[Variant(0, "u", []), Variant(1, "t", [F(("ty", "u32"), 0)])])
    out["hko"] = mk("hko", hk_defs(rk_old, io_old)); out["hkn"] = mk("hkn", hk_defs(rk_new, io_new))
    # trs: transparent newtypes whose field has encode_with and decode_with given SEPARATELY (CustomCodec::Both), in both orders, in
    # one attribute and split: Encode, Decode and CborLen must all use the codec
    trs = lambda ft, shape, **force: Def("S", transparent=True, shape=shape, fields=[FS(ft, 0, sep=True, **force)])
    out["trs"] = mk("trs", [trs(("sp", "vecu8"), "t"), trs(("sp", "arr4u8"), "n", group="each"), trs(("sp", "vecu8"), "n", shuffle=True, seed=3),
                            trs(("sp", "optvecu8"), "t", shuffle=True, seed=1, group="each", optpath=1), trs(("sp", "nz0"), "t"), trs(("sp", "cowu8"), "n", nested=True)])
    # trb: transparent newtypes over a #[b] Cow with a decode-capable codec: the decoded value must still borrow from the input
    def trb(ft, shape, **force):
        f = F(ft, 0, b=True); f.force = force
        return Def("S", transparent=True, shape=shape, fields=[f])
    out["trb"] = mk("trb", [trb(("sp", "cowu8"), "t"), trb(("sp", "cowu8"), "n", sep=True), trb(("sp", "cowu8"), "t", sep=True, nested=True, shuffle=True, seed=5),
                            trb(("sp", "cowstr"), "t"), trb(("sp", "cowstr"), "n", pas=("dec",)), trb(("sp", "cowstr"), "t", pas="with")])
    # the example of the crate documentation (lib.rs:47-71)
    point = Def("S", fields=[F(("ty", "f64"), 0), F(("ty", "f64"), 1)])
    state = Def("E", variants=[Variant(0, "u", []), Variant(1, "n", [F(("ty", "u64"), 0)])])
    hull = Def("S", fields=[F(("ref", 0), 0), F(("ref", 0), 1), F(("seq", ("ref", 0)), 2), F(("opt", ("ref", 1)), 3)])
    out["doc"] = mk("doc", [point, state, hull])
    return out

class World:
    pass

_WORLDS = {}
def get_world(tier, rng):
    """deterministic in (tier, first 64 bits of rng): prepare() and generate() of every derive plugin see the same world"""
    key = (tier, rng.getrandbits(64))
    if key in _WORLDS: return _WORLDS[key]
    r = random.Random(key[1])
    w = World()
    nbase = int(os.environ.get("VERIF_DERIVE_SCHEMAS", "700" if tier == "thorough" else "100"))
    w.fixed = fixed_schemas()
    w.base = [gen_schema(r, "s%d" % i) for i in range(nbase)]
    w.twins = {}
    for sc in w.base + [w.fixed["doc"], w.fixed["f7"]]:
        w.twins[sc.sid] = twin(sc, r)
    w.compat = []            # (old, new, edits)
    for sc in w.base[: max(10, nbase * 6 // 10)]:
        t, done = compat_edit(sc, r, sc.sid + "c")
        if done and not has_lt_change(sc, t): w.compat.append((sc, t, done))
    w.compat += [(w.fixed["f9o"], w.fixed["f9n"], ["variant"]), (w.fixed["rgo"], w.fixed["rgn"], ["variant"]), (w.fixed["f10o"], w.fixed["f10n"], ["add"]), (w.fixed["f10co"], w.fixed["f10cn"], ["add"])]
    w.compat += [(w.fixed[p + "o"], w.fixed[p + "n"], ["variant"]) for p in ("aoa", "aom", "aoar", "aomr", "aoq", "hk")]
    w.mandatory = []         # (reader, writer lacking a mandatory field, (def, variant, idx))
    for sc in w.base[: max(10, nbase * 3 // 10)]:
        m = drop_mandatory(sc, r, sc.sid + "m")
        if m and not has_lt_change(sc, m[0]): w.mandatory.append((sc, m[0], m[1]))
    seen, allsc = set(), []
    for sc in list(w.fixed.values()) + w.base + [t for t, _ in w.twins.values()] + [t for _, t, _ in w.compat] + [t for _, t, _ in w.mandatory]:
        if sc.sid not in seen: seen.add(sc.sid); allsc.append(sc)
    w.all = allsc
    w.text = {sc.sid: schema_text(sc) for sc in allsc}
    _WORLDS[key] = w
    return w


# ---------------------------------------------------------------- definitions the macros must reject (DNEG)
# "For every struct or enum definition ACCEPTED by the derive macros …" (C08–C10): the model's acceptance predicate is
# DeriveSchema.schema_ok.  Its negative side is tied to the macros by a crate of hand-written one-definition binaries
# (harness-derive-neg/src/bin/neg_<name>.rs) built with --keep-going: a definition schema_ok refuses must not compile (and the
# compiler must give the macro's own message), the two positive controls must.  A change that drops one of the macro's
# validations makes such a definition "accepted", and no round-trip / format statement can hold for it.
NEG = {'dupidx': ('S(-,-,0,n,[f(0,0,-,d,0,T{u8}),f(0,0,-,d,0,T{u8})])', 'duplicate index numbers'),
       'dupidx_nb': ('S(m,-,0,n,[f(1,0,-,d,0,T{u8}),f(1,1,-,d,0,T{u8})])', 'duplicate index numbers'),
       'dupvar': ('E(-,-,0,[v(1,-,-,u,[]),v(1,-,-,u,[])])', 'duplicate index numbers'),
       'dupvarfield': ('E(-,-,0,[v(0,-,-,n,[f(2,0,-,d,0,T{u8}),f(2,0,-,d,0,T{u8})])])', 'duplicate index numbers'),
       'transp2': ('S(-,-,1,t,[f(0,0,-,d,0,T{u8}),f(1,0,-,d,0,T{u8})])', 'requires a struct with one field'),
       'transp_tag': ('S(-,5,1,t,[f(0,0,-,d,0,T{u8})])', 'mutually exclusive'),
       'io_fields': ('E(-,-,1,[v(0,-,-,u,[]),v(1,-,-,t,[f(0,0,-,d,0,T{u8})])])', 'index_only enums must not have fields'),
       'io_tag': ('E(-,7,1,[v(0,-,-,u,[])])', 'mutually exclusive'),
       'pos_struct': ('S(-,-,0,n,[f(0,0,-,d,0,T{u8}),f(2,0,-,d,1,T{opt(u8)})])', None),
       'pos_enum': ('E(-,-,1,[v(0,-,-,u,[]),v(3,-,-,u,[])])', None)}

def neg_cases():
    big = ["DBIG m %d %s %s" % (v, e, o) for v in (0, 1, 200) for e in ("-", "5", "255") for o in ("-", "7")] + ["DBIG e 0 0", "DBIG e 1 9", "DBIG e 1 250"]
    return ["DNEG %s %s" % (k, NEG[k][0]) for k in sorted(NEG)] + big

def prepare_neg(root, cache, dep):
    """build harness-derive-neg with --keep-going and write an executable that answers DNEG cases from the result"""
    import re, json
    crate = os.path.join(root, "harness-derive-neg")
    h = hashlib.sha1()
    _hash_tree(h, crate); _hash_tree(h, dep); _hash_tree(h, os.path.join(os.path.dirname(dep), "minicbor-derive"))
    bindir = os.path.join(cache, "derive-bin"); os.makedirs(bindir, exist_ok=True)
    script = os.path.join(bindir, "derive-neg-" + h.hexdigest()[:16] + ".py")
    if os.path.exists(script): return True, "neg cached", script
    shutil.copyfile(os.path.join(os.path.dirname(dep), "Cargo.lock"), os.path.join(crate, "Cargo.lock"))
    target = os.path.join(cache, "derive-neg-target")
    env = dict(os.environ, CARGO_NET_OFFLINE="true", CARGO_TARGET_DIR=target)
    subprocess.run("cargo clean --offline -p minicbor-derive -p harness-derive-neg", shell=True, cwd=crate, env=env, stdout=subprocess.DEVNULL, stderr=subprocess.DEVNULL)
    try:
        p = subprocess.run("timeout 1700 cargo build --offline --bins --keep-going --message-format=short 2>&1", shell=True, cwd=crate, env=env,
                           stdout=subprocess.PIPE, stderr=subprocess.STDOUT, timeout=1800)
    except subprocess.TimeoutExpired:
        return False, "cargo build of harness-derive-neg timed out", None
    out = p.stdout.decode(errors="replace")
    if "Compiling harness-derive-neg" not in out and "Finished" not in out:
        return False, "harness-derive-neg: its dependencies do not build: " + out[-800:], None
    res = {}
    for k, (_, msg) in NEG.items():
        failed = re.search(r'could not compile `harness-derive-neg` \(bin "neg_%s"\)' % k, out) is not None
        errs = [l for l in out.splitlines() if l.startswith("src/bin/neg_%s.rs:" % k) and ": error" in l]
        built = os.path.exists(os.path.join(target, "debug", "neg_" + k))
        if not failed and built: res[k] = "accepted"
        elif msg is not None and any(msg in l for l in errs): res[k] = "rejected"
        else: res[k] = "rejected-for-another-reason:" + (errs[0].split(": error", 1)[1].strip().replace(" ", "_")[:80] if errs else "no_message")
    open(script, "w").write("#!/usr/bin/env python3\nimport sys\nR = %s\nout = open(sys.argv[2], 'w')\nfor l in open(sys.argv[1]):\n    t = l.split()\n    out.write((R.get(t[1], '?no-such-definition') if len(t) > 1 and t[0] == 'DNEG' else '?bad-op') + '\\n')\nout.close()\n" % json.dumps(res))
    os.chmod(script, 0o755)
    return True, "neg: " + ",".join("%s=%s" % kv for kv in sorted(res.items())), script

# ---------------------------------------------------------------- building the generated crate
def _hash_tree(h, path):
    for d, _, fs in sorted(os.walk(path)):
        for f in sorted(fs):
            if f.endswith((".rs", ".toml")):
                p = os.path.join(d, f)
                h.update(p.encode()); h.update(open(p, "rb").read())

def _build_derive(crate, env, target, src):
    gp = os.path.join(crate, "src", "gen.rs")
    if not os.path.exists(gp) or open(gp).read() != src: open(gp, "w").write(src)
    try:
        p = subprocess.run("timeout 1700 cargo build --offline --message-format=short 2>&1 | grep -v '^warning\\|^$' | tail -4000", shell=True, cwd=crate, env=env,
                           stdout=subprocess.PIPE, stderr=subprocess.STDOUT, timeout=1800)
        out = p.stdout.decode(errors="replace")
    except subprocess.TimeoutExpired:
        return False, "cargo build of harness-derive timed out"
    built = os.path.join(target, "debug", "harness-derive")
    return ("Finished" in out and os.path.exists(built)), out

def prepare(tier, rng, root, cache):
    """generate harness-derive/src/gen.rs from the seed and build it against /repo (cached by content hash).
    If the generated crate does not compile (every generated definition is one the documented grammar accepts and the unchanged
    macros compile), the schemas the compiler errors point into are left out and the rest is built: their cases are then
    answered `?no-type`, which the plugins' oracle reports as a violation with that schema as the failing input, and the
    remaining schemas still run (a same-typed instance of the miscompiled shape usually shows the wrong behaviour directly)."""
    import re
    w = get_world(tier, rng)
    crate = os.path.join(root, "harness-derive")
    src = emit_gen_rs(w.all)
    h = hashlib.sha1(src.encode())
    for f in ("Cargo.toml", "src/main.rs", "src/support.rs"): h.update(open(os.path.join(crate, f), "rb").read())
    for f in ("util.rs", "canon.rs"): h.update(open(os.path.join(root, "harness", "src", f), "rb").read())
    m = re.search(r'minicbor\s*=\s*\{\s*path\s*=\s*"([^"]+)"', open(os.path.join(crate, "Cargo.toml")).read())
    dep = m.group(1)
    _hash_tree(h, dep); _hash_tree(h, os.path.join(os.path.dirname(dep), "minicbor-derive"))
    bindir = os.path.join(cache, "derive-bin")
    os.makedirs(bindir, exist_ok=True)
    binary = os.path.join(bindir, "harness-derive-" + h.hexdigest()[:16])
    okn, logn, negbin = prepare_neg(root, cache, dep)
    if not okn: return False, logn, {}
    if os.path.exists(binary): return True, "cached; " + logn, {"derive": binary, "neg": negbin}
    shutil.copyfile(os.path.join(os.path.dirname(dep), "Cargo.lock"), os.path.join(crate, "Cargo.lock"))
    target = os.path.join(cache, "derive-target")
    env = dict(os.environ, CARGO_NET_OFFLINE="true", CARGO_TARGET_DIR=target)
    # cargo decides freshness by mtime; a dependency restored with an old mtime (rsync -a, git stash with preserved times)
    # would keep a stale build.  The content hash of the dependency sources is authoritative: if it changed, rebuild them.
    hd = hashlib.sha1()
    _hash_tree(hd, dep); _hash_tree(hd, os.path.join(os.path.dirname(dep), "minicbor-derive"))
    stamp = os.path.join(target, "dep.hash")
    if os.path.isdir(target) and (not os.path.exists(stamp) or open(stamp).read() != hd.hexdigest()):
        subprocess.run("cargo clean --offline -p minicbor -p minicbor-derive", shell=True, cwd=crate, env=env, stdout=subprocess.DEVNULL, stderr=subprocess.DEVNULL)
    os.makedirs(target, exist_ok=True)
    open(stamp, "w").write(hd.hexdigest())
    t0 = time.time()
    ok, out = _build_derive(crate, env, target, src)
    note = ""
    if not ok:
        spans = []
        emit_gen_rs(w.all, spans=spans)
        bad = set()
        for ln in re.findall(r"^src/gen\.rs:(\d+):\d+: error", out, re.M):
            ln = int(ln)
            for a, b, sid in spans:
                if a <= ln <= b: bad.add(sid); break
        if not bad or len(bad) > len(w.all) // 2:
            return False, "harness-derive does not build: " + out[-1500:], {}
        src2 = emit_gen_rs(w.all, exclude=bad)
        ok, out2 = _build_derive(crate, env, target, src2)
        if not ok: return False, "harness-derive does not build (even without the %d schemas the first errors point into): %s" % (len(bad), out2[-1500:]), {}
        first = [l for l in out.splitlines() if ": error" in l][:3]
        note = "; %d schemas left out because they do not compile with the macros (%s) e.g. %s" % (len(bad), ",".join(sorted(bad)[:8]), " | ".join(first)[:400])
    built = os.path.join(target, "debug", "harness-derive")
    if ok and not note:
        shutil.copyfile(built, binary); os.chmod(binary, 0o755)
    else:
        binary = binary + "-partial"
        shutil.copyfile(built, binary); os.chmod(binary, 0o755)
    for old in sorted(os.listdir(bindir), key=lambda f: os.path.getmtime(os.path.join(bindir, f)))[:-6]:
        try: os.remove(os.path.join(bindir, old))
        except OSError: pass
    return True, "built %d types in %.0fs%s; %s" % (sum(len(s.defs) for s in w.all), time.time() - t0, note, logn), {"derive": binary, "neg": negbin}

def oracle(line, impl):
    """a generated definition (accepted by the documented grammar; compiled by the unchanged macros) that the macros no longer compile"""
    if line.startswith("DNEG "):
        k = line.split()[1]
        if NEG[k][1] is not None and impl == "accepted":
            return "the derive macros accept a definition the documentation excludes (%s: %s) — no wire-format / round-trip statement can hold for it" % (k, NEG[k][1])
        if NEG[k][1] is None and impl != "accepted": return "a positive control of the rejection test does not compile: " + impl
        return None
    if impl.startswith("?no-type"):
        return "this type definition no longer compiles with the derive macros (schema %s)" % " ".join(line.split(" ")[1:3])[:300]
    return None

def route(line):
    op = line.split(" ", 1)[0]
    if op == "DNEG": return "neg"
    if op == "DBIG": return "derive"
    return "derive" if op in ("DENC", "DLEN", "DDEC", "DRT", "DCOMPAT", "DMETA") else "main"

# ---------------------------------------------------------------- case streams
def cap_for(tier, fields):
    n = len(optional_positions(fields))
    if tier == "thorough": return 1024
    return 1024 if n == 10 else 48

def values_for(sc, k, rng, tier, per=1):
    d = sc.defs[k]
    cap = cap_for(tier, d.fields) if d.kind == "S" else (1024 if tier == "thorough" else 32)
    return def_values(sc, k, rng, cap, per)

def group_flags(fields, enc, vs, flags):
    fv = [(f, x) for f, x in zip(fields, vs) if not f.skip]
    if any(f.ft == ("sp", "aliasoptvec") and x is None for f, x in fv): flags.add("alias")

def ft_flags(sc, ft, v, flags):
    ft = vview(ft)
    if ft[0] == "ref": def_flags(sc, ft[1], v, flags)
    elif ft[0] == "opt":
        if v is not None: ft_flags(sc, ft[1], v[1], flags)
    elif ft[0] == "seq":
        for x in v: ft_flags(sc, ft[1], x, flags)

def def_flags(sc, k, v, flags):
    """which known defect classes the encoding of v passes through (recomputed from schema and value only)"""
    d = sc.defs[k]
    if d.kind == "S":
        fields, vs, enc = d.fields, v, eff_enc(d)
        if not d.transparent: group_flags(fields, enc, vs, flags)
    else:
        va = find_variant(d, v[1]); fields, vs, enc = va.fields, v[2], eff_enc(d, va)
        if not d.index_only and va.shape != "u": group_flags(fields, enc, vs, flags)
    for f, x in zip(fields, vs):
        if not f.skip: ft_flags(sc, f.ft, x, flags)
    return flags

def kn(flags): return (" k=" + ",".join(sorted(flags))) if flags else ""

def denc_cases(w, rng, tier, schemas=None, per=1, op="DENC"):
    out = []
    for sc in (schemas if schemas is not None else list(w.fixed.values()) + w.base):
        for k in range(len(sc.defs)):
            for v in values_for(sc, k, rng, tier, per):
                out.append("%s %s %s %d %s%s" % (op, sc.sid, w.text[sc.sid], k, show_def(sc, k, v), kn(def_flags(sc, k, v, set()))))
    return out

def dmeta_cases(w, rng, tier):
    out = []
    by = {sc.sid: sc for sc in w.all}
    for sid, (t, conv) in w.twins.items():
        sc = by[sid]
        for k in range(len(sc.defs)):
            d = sc.defs[k]
            vals = def_values(sc, k, rng, 16 if tier == "quick" else 128)
            for v in vals:
                out.append("DMETA %s %s %s %s %d %s %s" % (sc.sid, w.text[sc.sid], t.sid, w.text[t.sid], k, show_def(sc, k, v), show_def(t, k, conv(k, v))))
    return out

def drt_cases(w, rng, tier):
    out = []
    n = 0
    for sc in list(w.fixed.values()) + w.base:
        for k in range(len(sc.defs)):
            for v in values_for(sc, k, rng, tier):
                exp = show_def(sc, k, dflt_def(sc, k, v), True)
                # first: a re-framing in the sense of Model/DeriveReframe.v, with its choice list (theorem C09_roundtrip_reframed);
                # second: a freer one (also wide integer leaves, indefinite / wide Vec headers) — correspondence only
                n += 1
                ch = Chooser(rng, ("wide", "indef", "mix", "mix", "mix")[n % 5])
                ref = [rf_def(sc, k, v, ch).hex(), enc_def(sc, k, v, rng).hex()]
                out.append("DRT %s %s %d %s %s %s %s" % (sc.sid, w.text[sc.sid], k, show_def(sc, k, v), exp, " ".join(ref), ch.text()))
    return out

def retag(sc, rng, sid):
    """a copy with one tag changed or removed (wrong-tag / missing-tag error cases) -> (schema, def, variant index or None);
    None if there is no tag that matters"""
    t = sc.clone(sid)
    sites = []
    for k, d in enumerate(t.defs):
        if d.tag is not None: sites.append((k, None, d))
        if d.kind == "E" and not d.index_only:
            for v in d.variants:
                if v.tag is not None: sites.append((k, v.idx, v))
                for f in v.fields:
                    if not f.skip and f.tag is not None: sites.append((k, v.idx, f))
        if d.kind == "S" and not d.transparent:
            for f in d.fields:
                if not f.skip and f.tag is not None: sites.append((k, None, f))
    if not sites: return None
    k, vidx, o = rng.choice(sites)
    o.tag = None if rng.random() < 0.5 else rng.choice([x for x in TAGS + [2, 3] if x != o.tag])
    return t, k, vidx

def uses(sc, k, j):
    """does definition k (transitively) contain definition j"""
    def in_ft(ft):
        if ft[0] == "ref": return ft[1] == j or uses(sc, ft[1], j)
        if ft[0] in ("opt", "seq", "aopt"): return in_ft(ft[1])
        return False
    return k == j or any(in_ft(f.ft) for f in all_fields(sc.defs[k]))

def ddec_cases(w, rng, tier):
    """decoder-only cases: byte-level mutations of valid encodings (malformed stream), wrong / missing tags, unknown
    top-level variants, truncations"""
    out = []
    nmut = 6 if tier == "quick" else 30
    for sc in list(w.fixed.values()) + w.base:
        for k in range(len(sc.defs)):
            d = sc.defs[k]
            vals = def_values(sc, k, rng, 4)
            for v in vals[: 6 if tier == "quick" else 40]:
                b = enc_def(sc, k, v, rng if rng.random() < 0.5 else None)
                for _ in range(nmut):
                    out.append("DDEC %s %s %d %s" % (sc.sid, w.text[sc.sid], k, hexs(mutate(rng, b))))
                cut = rng.randrange(0, len(b)) if b else 0
                out.append("DDEC %s %s %d %s !eoi" % (sc.sid, w.text[sc.sid], k, hexs(b[:cut])))
            if d.kind == "E" and vals:
                used = {v.idx for v in d.variants}
                n = next(i for i in [rng.choice([0, 1, 5, 23, 24, 255, 256, 65536, (1 << 32) - 1])] + list(range(300)) if i not in used)
                body = b"" if d.index_only else rng.choice([b"\x80", b"\xa0", b"\x01", b"\x82\x01\x02"])
                b = enc_tag(d.tag, None) + (b"" if d.index_only else b"\x82") + head(0, n) + body
                out.append("DDEC %s %s %d %s !variant:%d" % (sc.sid, w.text[sc.sid], k, hexs(b), n))
                if not d.index_only:
                    # class enum_pair_indefinite (Props/C09.v): the same item with the [index, body] array in indefinite form is
                    # refused with a message error — the one container of the derive layer that is not free in `reframe`
                    for v in vals[:3]:
                        va = find_variant(d, v[1])
                        inner = enc_def(sc, k, v, None)[len(enc_tag(d.tag, None)) + 1:]
                        out.append("DDEC %s %s %d %s !message" % (sc.sid, w.text[sc.sid], k, hexs(enc_tag(d.tag, None) + b"\x9f" + inner + b"\xff")))
        rt = retag(sc, rng, sc.sid + "r")
        if rt:
            t, kdef, vidx = rt
            for k in range(len(sc.defs)):
                if not uses(sc, k, kdef): continue
                for v in def_values(t, k, rng, 4)[:4]:
                    out.append("DDEC %s %s %d %s" % (sc.sid, w.text[sc.sid], k, hexs(enc_def(t, k, v))))
            # decoding the definition that carries the changed tag, every optional present: the tag is certainly met
            d = t.defs[kdef]
            vi = None if vidx is None else next(i for i, x in enumerate(d.variants) if x.idx == vidx)
            v = gen_def_value(t, kdef, rng, {p: True for p in range(64)}, vi)
            out.append("DDEC %s %s %d %s !err" % (sc.sid, w.text[sc.sid], kdef, hexs(enc_def(t, kdef, v))))
    return out

def dcompat_cases(w, rng, tier):
    out = []
    per = 24 if tier == "quick" else 400
    for old, new, edits in w.compat:
        for wr, rd in ((old, new), (new, old)):
            for k in range(len(wr.defs)):
                for v in def_values(wr, k, rng, per, 10 if old.sid in w.fixed else 2):
                    flags = set()
                    try: exp = show_def(rd, k, migrate_def(wr, rd, k, v, flags), True)
                    except Unknown: exp = "!variant"                     # an enum decoded directly: unknown variant is an error
                    out.append("DCOMPAT %s %s %s %s %d %s %s%s" % (wr.sid, w.text[wr.sid], rd.sid, w.text[rd.sid], k, show_def(wr, k, v), exp, kn(flags)))
    for rd, wr, (kd, vidx, idx) in w.mandatory:
        k = kd                                   # the definition that lost the field, decoded directly
        d = wr.defs[k]
        for v in def_values(wr, k, rng, 16 if tier == "quick" else 128):
            if d.kind == "E" and v[1] != vidx: continue
            fields, vs = (d.fields, v) if d.kind == "S" else (find_variant(d, vidx).fields, v[2])
            enc = eff_enc(d) if d.kind == "S" else eff_enc(d, find_variant(d, vidx))
            if enc == "m": exp = "!missing:%d" % idx
            else:
                present = [f.idx for f, x in zip(fields, vs) if not f.skip and not field_is_nil(f, x)]
                exp = "!missing:%d" % idx if (max(present) + 1 if present else 0) <= idx else "!err"
            out.append("DCOMPAT %s %s %s %s %d %s %s" % (wr.sid, w.text[wr.sid], rd.sid, w.text[rd.sid], k, show_def(wr, k, v), exp))
    return out

# ---------------------------------------------------------------- known defect classes (delimited on the case line)
def known_class(cls, line, impl):
    """The classes are recognised from the case line alone (the k= token the generator computes from schema and value
    with def_flags / migrate), never from the implementation's answer."""
    t = line.split(" ")
    return any(x.startswith("k=") and cls in x[2:].split(",") for x in t[4:])
