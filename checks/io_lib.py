"""Schedule enumeration shared by C14 / C15 / C16 (the minicbor-io machines). Every random choice comes from the rng passed in."""
import itertools

def compositions(n):
    """All ways of writing n >= 1 as an ordered sum of positive parts (2^(n-1) of them)."""
    if n == 0:
        yield []
        return
    for mask in range(1 << (n - 1)):
        parts, cur = [], 1
        for i in range(n - 1):
            if mask >> i & 1:
                parts.append(cur); cur = 1
            else:
                cur += 1
        parts.append(cur)
        yield parts

def rand_composition(rng, n, maxpart=None):
    parts = []
    while n > 0:
        k = rng.randrange(1, (min(n, maxpart) if maxpart else n) + 1)
        if rng.random() < 0.5: k = min(k, rng.choice([1, 1, 2, 3, 4]))
        parts.append(k); n -= k
    return parts

def bstr(content):
    """Canonical CBOR definite byte string (what ByteVec / Encoder::bytes produce)."""
    n = len(content)
    if n < 24: h = bytes([0x40 + n])
    elif n < 256: h = bytes([0x58, n])
    elif n < 65536: h = bytes([0x59]) + n.to_bytes(2, "big")
    else: h = bytes([0x5a]) + n.to_bytes(4, "big")
    return h + content

def item(p):
    """Frame item text for a payload."""
    return p.hex() if p else "."

def frame_len(p): return 4 + len(p)

# payloads that do not decode as a byte string: empty, an integer, a truncated string, a break, a text string
BAD_PAYLOADS = [b"", b"\x01", b"\x41", b"\xff", b"\x61\x61", b"\x42\x01"]

def reader_line(op, maxlen, frames, cut, sched_key, sched, calls=None):
    """frames: list of (payload bytes, decodes?) or ('raw', bytes)."""
    its, bits = [], []
    for f in frames:
        if f[0] == "raw": its.append("r" + f[1].hex())
        else:
            its.append(item(f[0])); bits.append("1" if f[1] else "0")
    s = "%s max=%d frames=%s dec=%s cut=%s %s=%s" % (op, maxlen, ",".join(its) or "-", "".join(bits) or "-",
                                                     "-" if cut is None else str(cut), sched_key, ",".join(str(t) for t in sched) or "-")
    if calls is not None: s += " calls=%s" % (calls or "-")
    return s

def stream_len(frames):
    return sum(len(f[1]) if f[0] == "raw" else 4 + len(f[0]) for f in frames)

def good(content): return (bstr(content), True)
def bad(i): return (BAD_PAYLOADS[i % len(BAD_PAYLOADS)], False)

def pend_placements(nparts, max_total, max_consec):
    """All ways of putting Pendings into the nparts+1 gaps around the data tokens with at most max_total in all and
    at most max_consec in one gap; yields a tuple of counts per gap."""
    gaps = nparts + 1
    def rec(i, left):
        if i == gaps:
            yield (); return
        for c in range(0, min(left, max_consec) + 1):
            for rest in rec(i + 1, left - c):
                yield (c,) + rest
    return rec(0, max_total)

def weave(parts, pcounts, pend_tok="P"):
    """Source / sink script: the data tokens of a composition with pcounts[i] Pendings before the i-th token
    (and pcounts[-1] after the last)."""
    out = []
    for i, k in enumerate(parts):
        out += [pend_tok] * pcounts[i]
        out.append(k)
    out += [pend_tok] * pcounts[len(parts)]
    return out

def decisions(n):
    """All caller decision strings for n Pendings."""
    for t in itertools.product("PX", repeat=n):
        yield "".join(t)

def rand_script(rng, total, pend_p, err_p, tok_extra=(), maxpart=None):
    """A random script delivering about `total` bytes with Pendings / errors sprinkled in."""
    out = []
    for k in rand_composition(rng, total, maxpart):
        while rng.random() < pend_p: out.append("P")
        if rng.random() < err_p: out.append("E")
        for t in tok_extra:
            if rng.random() < 0.05: out.append(t)
        out.append(k)
    while rng.random() < pend_p: out.append("P")
    return out
