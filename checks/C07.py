"""C07 — CborLen is exact: built-in impls (RT over the type registry), tokens (C11's TKE stream carries the token clause),
and impls derived for structs and enums (DLEN over generated schemas, real derive macros)."""
from lib import *
import typegen as tg
import C01 as _c01
import C07d as _d
import random

EXTRA_PROPS = ["C07d", "C11"]     # derived-type theorems; Token::cbor_len (C11_len) is pinned in Props/C11.v
prepare = _d.prepare

def route(line):
    return _d.route(line) if line.startswith("DLEN") else "main"

RULE = ("(1) RT <type> <value> over the ~115 registry instantiations of the built-in Encode/CborLen impls (same generator as C01, own seed "
        "stream): cbor_len vs bytes written on the real crate and on the model, exact-size slice suffices, one byte less fails. "
        "(2) " + _d.RULE + " (3) Token::cbor_len: checked by C11's TKE cases (every token variant with boundary payloads).")
ASSUMPTIONS = ["transparent wrappers (Box, Cell, RefCell, Wrapping, Cow, atomics) are erased in the model"] + _d.ASSUMPTIONS

def generate(tier, rng):
    derived = _d.generate(tier, rng)           # first: the schema world is keyed by the first bits of the rng (as in prepare)
    builtin = [l for l in _c01.generate(tier, random.Random(rng.getrandbits(32))) if l.startswith("RT ")]
    return builtin + derived + ["IANA %d" % i for i in range(41)]      # CborLen for IanaTag (C07_iana)

def nontrivial(line, impl):
    return _d.nontrivial(line, impl) if line.startswith("DLEN") else (len(impl.split(";")[0]) > 4)

def classify(line, impl):
    if line.startswith("DLEN"): return _d.classify(line, impl)
    t = line.split()
    return t[0] + ":" + t[1].split("(")[0] + (":refused" if impl.startswith("refused") else "")

def in_known_class(cls, line, impl):
    return line.startswith("DLEN") and _d.in_known_class(cls, line, impl)

def oracle(line, impl):
    return _d.oracle(line, impl) if line.startswith("DLEN") else None
