"""C07 — CborLen is exact (built-in impls part; token and derived-type cases are added by their slices)."""
from lib import *
import typegen as tg

RULE = ("RT <type> <value> over the ~115 registry instantiations of the built-in Encode/CborLen impls (same generator as C01, own seed "
        "stream): the value is encoded and cbor_len computed; the real crate vs the extracted Coq model (bytes and len=). O= (implementation "
        "only): len == bytes written, a slice of exactly len bytes suffices and one byte less fails. Values: every width boundary, "
        "empty/23/24/255/256-element containers, nested combinations, seeded random. Non-trivial: the encoding is longer than 2 bytes.")
ASSUMPTIONS = ["transparent wrappers (Box, Cell, RefCell, Wrapping, Cow, atomics) are erased in the model",
               "Token lengths (F3-F5) and derived lengths (F6, F7) are covered by their own slices, not by these cases"]

def generate(tier, rng):
    per = 300 if tier == "thorough" else 40
    out = []
    for key in tg.REGISTRY:
        d = tg.parse_desc(key)
        seen = set()
        for _ in range(per):
            v = tg.rust_order(d, tg.gen_value(d, rng))
            t = tg.show(d, v)
            if t in seen: continue
            seen.add(t)
            out.append("RT %s %s" % (key, t))
    return out

def nontrivial(line, impl):
    return len(impl.split(";")[0]) > 4

def classify(line, impl):
    t = line.split()
    return t[0] + ":" + t[1].split("(")[0] + (":refused" if impl.startswith("refused") else "")
