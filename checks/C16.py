"""C16 — AsyncWriter delivers whole frames in order under short writes and cancel+sync."""
from lib import *
from io_lib import *

RULE = ("AIOW: the real minicbor_io::AsyncWriter driven by a hand-rolled deterministic executor over a scripted futures_io::AsyncWrite (per "
        "inner poll_write: accept up to k >= 1 of the offered bytes / accept 0 / Pending / error; every accepted slice recorded) and a caller "
        "script (after every Pending: poll again, or drop the future; a dropped or failed write is followed by sync, driven - and re-created "
        "when dropped or failed - until it returns Ok; then the next value; finally one sync on the idle writer) vs the extracted Coq model; "
        "result = the events of every value (write / sync results), the final idle sync, every slice the sink accepted, number of inner polls, "
        "final writer buffer. Values are byte strings encoded by the real Encoder, or values whose Encode impl fails after writing some bytes. "
        "Exhaustive: for every base value list of <= 11 frame bytes (<= 13 thorough) every composition of the total x every placement of up to "
        "2 (3) Pendings x every poll/drop decision string; accept-0 and error at every gap, alone and next to Pending+drop; max_len in "
        "{0, n-1, n, n+1} around each payload. Seeded random walks beyond. The harness oracle re-states the property: after every value the "
        "sink is exactly the concatenation of the complete frames of the accepted values; a completed write returns the payload length; "
        "refused values (encode failure, over-long) make no sink call; number of write-zero errors == number of 0-accepts; the idle sync makes "
        "no sink call. "
        "Interleaved operations (ops= / fl=): AsyncWriter::flush (over a scripted poll_flush: Ready / Pending / error; polled to completion or "
        "dropped while pending) and set_max_len at every point where the caller holds no pending future - before a write, after a completed "
        "write, between a cancelled or failed write and its sync, between re-issued syncs, before the final sync: exhaustively one operation "
        "(11 kinds incl. set_max_len 0 / n-1 / n / 1000) at every gap of every small schedule with <= 2 (3) sink parts and 1-2 Pendings with at "
        "least one drop, or an error / 0-accept; two operations at every pair of gaps on a thinner set; limits below and above frames of 30, "
        "200, 70000 bytes in flight; random walks. Added oracle: no operation calls poll_write or changes the sink, and accepted is judged "
        "against the max_len in force when the write was issued. Non-trivial = the sink script is not empty.")
ASSUMPTIONS = ["wake-ups and real executors are not modelled",
               "the inner AsyncWrite honours its contract (n <= buf.len(); nothing accepted on Pending / Err)",
               "callers follow the protocol of the property: after a dropped or failed write, sync is driven to completion before the next write",
               "max_len < 2^32 (set_max_len takes a u32); 64-bit usize"]

def base_vals():
    return [["01"], ["."], ["0102"], [".", "."], ["01", "."], [".", "01"], ["!aa", "."], [".", "!aa"], ["!.", "01"], ["010203"], [".", ".", "!bb"]]

def total_bytes(vals, mx):
    t = 0
    for v in vals:
        if v.startswith("!"): continue
        n = len(bstr(bytes.fromhex(v.replace(".", ""))))
        if n <= mx: t += 4 + n
    return t

def line(mx, vals, sink, calls, ops=None, fl=None):
    s = "AIOW max=%d vals=%s sink=%s calls=%s" % (mx, ",".join(vals) or "-", ",".join(str(t) for t in sink) or "-", calls or "-")
    if ops is not None: s += " ops=%s fl=%s" % (ops_text(ops), ",".join(fl or []) or "-")
    return s

def ops_text(gaps):
    """gaps: list of lists of op tokens (F, FX, FPX, M<n>); one gap per point where the caller holds no future."""
    while gaps and not gaps[-1]: gaps = gaps[:-1]
    return "/".join(",".join(g) or "-" for g in gaps) or "-"

def gap_bound(vals, sink):
    """An upper bound on the number of gaps a run consumes: one before every write, one before every (re-)issued sync
    (each needs a Pending, an error, a 0-accept or a refusal), one before the final sync."""
    return 2 * len(vals) + sum(1 for t in sink if t in ("P", "E", 0)) + 1

def place(G, pos_ops):
    gaps = [[] for _ in range(G)]
    for p, op in pos_ops: gaps[p].append(op)
    return gaps

# single operations with the poll_flush script that makes them interesting
def single_ops(n):
    return [("F", []), ("F", ["P"]), ("F", ["E"]), ("F", ["P", "P", "E"]), ("FX", ["P"]), ("FPX", ["P", "P"]), ("FX", ["R"]),
            ("M0", []), ("M%d" % max(n - 1, 0), []), ("M%d" % n, []), ("M1000", [])]

def ops_cases(tier, rng):
    """One or two interleaved flush / set_max_len operations at every gap of small schedules - before a write, after a
    completed write, between a cancelled (or failed) write and its sync, between re-issued syncs, before the final sync."""
    big = tier == "thorough"
    out = []
    mx = 16
    # the two scenarios in small: a write cancelled after 2 bytes, then a flush that is itself cancelled at the next Pending of the sink /
    # the limit lowered below the frame in flight; then sync, then the next value
    for ops, fl in (([[], ["FX"]], ["P"]), ([[], ["FX"]], []), ([[], ["M0"]], []), ([[], ["M0", "FX"]], ["P"]), ([[], ["FX"], ["FX"]], ["P", "P"])):
        out.append(line(mx, ["010203", "07"], [2, "P", 1, "P", 2, "P"], "X", ops, fl))
        out.append(line(mx, ["010203", "07"], [2, "P", 1, "P", 2, "P"], "XX", ops, fl))
    for vals in [["01"], ["0102"], ["01", "."], [".", "01"], ["01", "0203"], ["!aa", "01"], ["0102", "!bb"], ["010203"], ["01", ".", "02"]]:
        L = total_bytes(vals, mx)
        n = len(bstr(bytes.fromhex(vals[-1].lstrip("!").replace(".", ""))))
        scripts = []
        for parts in compositions(L):
            if len(parts) > (3 if big else 2): continue
            for pc in pend_placements(len(parts), 2, 2 if big else 1):
                if sum(pc) == 0: continue
                sc = weave(parts, pc)
                for cs in decisions(sum(pc)):
                    if "X" in cs: scripts.append((sc, cs))
            for i in range(len(parts) + 1):
                for ins, cs in ((["E"], ""), ([0], ""), (["P", "E"], "X"), (["E", "P"], "X")):
                    scripts.append((parts[:i] + ins + parts[i:], cs))
        scripts.append(([], ""))
        for sc, cs in scripts:
            G = gap_bound(vals, sc)
            for p in range(G):
                for op, fl in single_ops(n):
                    out.append(line(mx, vals, sc, cs, place(G, [(p, op)]), fl))
        # two operations: same gap (both orders) or two different gaps, on a thinner set of schedules
        two = [("F", "P"), ("FX", "P"), ("M0", None), ("M1000", None), ("M%d" % max(n - 1, 0), None)]
        thin = [x for x in scripts if len(x[0]) <= (4 if big else 3)]
        thin = thin[:: 2] if big else thin[:: 5]
        for sc, cs in thin:
            G = gap_bound(vals, sc)
            for p in range(G):
                for q in range(p, G):
                    for a, fa in two:
                        for b, fb in two:
                            out.append(line(mx, vals, sc, cs, place(G, [(p, a), (q, b)]), [f for f in (fa, fb) if f]))
    # the limit lowered / raised while a larger frame is in flight (buffers with spare capacity: vals of length 2 mod 3 get 100 000 bytes)
    for n in (30, 200, 70000):
        v = bytes((i * 5 + 1) & 0xff for i in range(n)).hex()
        for m in (0, 8, n - 1, n + 10, 4000000000):
            for ops in ([[], ["M%d" % m]], [[], ["M%d" % m, "F"]], [[], ["FX", "M%d" % m, "FX"]], [["M%d" % m]], [[], [], ["M%d" % m]], [[], ["F"], ["M%d" % m], ["FX"]]):
                out.append(line(300000, [v, "07"], [10, "P", 7, "P"], "XX", ops, ["P"]))
                out.append(line(300000, [v, "07", v], [10, "P", 7, "E"], "X", ops, ["P", "P"]))
                out.append(line(300000, ["07", v], [5, 1, "P"], "X", ops, []))
    return out

def generate(tier, rng):
    big = tier == "thorough"
    LMAX, PT, PC = (13, 3, 3) if big else (11, 2, 2)
    out = []
    for vals in base_vals():
        mx = 16
        L = total_bytes(vals, mx)
        if L <= LMAX:
            for parts in compositions(L):
                pt = PT if (L <= 10 or len(parts) <= 6) else 2
                for pc in pend_placements(len(parts), pt, PC):
                    sc = weave(parts, pc)
                    for cs in decisions(sum(pc)):
                        out.append(line(mx, vals, sc, cs))
                if L <= 8:
                    for i in range(len(parts) + 1):
                        for ins, cs in (([0], ""), (["E"], ""), (["P", 0], "X"), ([0, "P"], "X"), (["P", "E"], "X"), (["E", "P"], "X"), (["P", "E"], "P"),
                                        ([0, 0], ""), (["E", 0, "P"], "X"), (["P", "P", 0], "XX")):
                            out.append(line(mx, vals, parts[:i] + ins + parts[i:], cs))
        sizes = sorted({len(bstr(bytes.fromhex(v.lstrip("!").replace(".", "")))) for v in vals})
        for n in sizes:
            for m in {0, max(n - 1, 0), n, n + 1}:
                Lm = total_bytes(vals, m)
                bw = []
                for _ in range(Lm): bw += ["P", 1]
                for sc, cs in (([], ""), ([1] * Lm, ""), (bw, "X" * Lm), (bw, "PX" * Lm), (rand_script(rng, max(Lm, 1), 0.3, 0.1, tok_extra=(0,)), "".join(rng.choice("PX") for _ in range(2 * Lm + 2)))):
                    out.append(line(m, vals, sc, cs))
    for _ in range(40000 if big else 8000):
        vals = []
        for _ in range(rng.randrange(0, 7)):
            n = rng.choice([0, 1, 2, 3, 5, 22, 23, 24, 25, 254, 255, 256, 300]) if rng.random() < 0.25 else rng.randrange(0, 10)
            c = bytes(rng.getrandbits(8) for _ in range(n))
            vals.append(("!" if rng.random() < 0.15 else "") + item(c))
        sizes = [len(bstr(bytes.fromhex(v.lstrip("!").replace(".", "")))) for v in vals] or [0]
        mx = max(0, rng.choice([max(sizes), max(sizes) - 1, max(sizes) + 1, rng.choice(sizes), rng.choice(sizes) - 1, 512 * 1024]))
        L = total_bytes(vals, mx)
        sc = rand_script(rng, max(L, 1), rng.choice([0.1, 0.3, 0.6]), rng.choice([0, 0.05, 0.2]), tok_extra=(0,), maxpart=rng.choice([None, 1, 2, 3, 5]))
        if rng.random() < 0.2: sc = sc[: rng.randrange(0, len(sc) + 1)]
        px = rng.choice([0.1, 0.5, 0.9])
        cs = "".join("X" if rng.random() < px else "P" for _ in range(sum(1 for t in sc if t == "P") + 2))
        out.append(line(mx, vals, sc, cs))
    out += ops_cases(tier, rng)
    # random walks with operations in random gaps
    for _ in range(40000 if big else 8000):
        vals = []
        for _ in range(rng.randrange(1, 6)):
            n = rng.choice([0, 1, 2, 3, 5, 22, 23, 24, 25, 254, 255, 256, 300]) if rng.random() < 0.25 else rng.randrange(0, 10)
            c = bytes(rng.getrandbits(8) for _ in range(n))
            vals.append(("!" if rng.random() < 0.1 else "") + item(c))
        sizes = [len(bstr(bytes.fromhex(v.lstrip("!").replace(".", "")))) for v in vals]
        mx = max(0, rng.choice([max(sizes), max(sizes) + 1, rng.choice(sizes), 512 * 1024]))
        L = sum(4 + x for x in sizes)
        sc = rand_script(rng, max(L, 1), rng.choice([0.1, 0.3, 0.6]), rng.choice([0, 0.05, 0.2]), tok_extra=(0,), maxpart=rng.choice([None, 1, 2, 3, 5]))
        cs = "".join("X" if rng.random() < rng.choice([0.1, 0.5, 0.9]) else "P" for _ in range(sum(1 for t in sc if t == "P") + 2))
        G = gap_bound(vals, sc)
        gaps = []
        for _ in range(G):
            g = []
            while rng.random() < 0.35:
                r = rng.random()
                if r < 0.5: g.append("F" + "".join(rng.choice("PX") for _ in range(rng.randrange(0, 3))))
                else: g.append("M%d" % max(0, rng.choice([0, 1, rng.choice(sizes), rng.choice(sizes) - 1, rng.choice(sizes) + 1, max(sizes), 512 * 1024, 4294967295])))
            gaps.append(g)
        fl = [rng.choice("RPPPE") for _ in range(rng.randrange(0, 6))]
        out.append(line(mx, vals, sc, cs, gaps, fl))
    # values larger than 64 KiB (a writer that releases or regrows large buffers has seams there): the returned length, the frames
    bigv = bytes((i * 7 + 3) & 0xff for i in range(70000)).hex()
    out.append(line(300000, ["01", bigv, "0203"], [], ""))
    out.append(line(300000, [bigv, "05"], [4, 65536, "P", 100000, 2, "P", 100], "PP"))
    out.append(line(300000, [bigv, bigv], [100000, "E", 100000], ""))
    out.append(line(300000, ["07", bigv], [3, "P", 70010, 100000], "X"))
    return out

def _kv(line, key):
    for t in line.split():
        if t.startswith(key + "="): return t[len(key) + 1:]
    return "-"

def nontrivial(line, impl):
    return _kv(line, "sink") != "-"

def classify(line, impl):
    s, c = _kv(line, "sink"), _kv(line, "calls")
    toks = s.split(",")
    tag = "AIOW"
    if "P" in toks: tag += "/pend"
    if "X" in c: tag += "/drop"
    if "E" in toks: tag += "/err"
    if "0" in toks: tag += "/zero"
    if "we:len" in impl or "we:enc" in impl: tag += "/refused"
    o = _kv(line, "ops")
    if o != "-":
        if "F" in o: tag += "/flush"
        if "M" in o: tag += "/setmax"
    return tag
