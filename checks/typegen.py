"""Type-descriptor driven value generation / printing / CBOR encoding for the registry of built-in types
(keys of harness/src/ops_types.rs).  Mirrors ocaml/ops_types.ml's descriptor and value grammar."""
from lib import *

REGISTRY = """u8 u16 u32 u64 usize i8 i16 i32 i64 isize int bool char f32 f64
nzu8 nzu16 nzu32 nzu64 nzusize nzi8 nzi16 nzi32 nzi64 nzisize
abool au8 au16 au32 au64 ausize ai8 ai16 ai32 ai64 aisize
string boxstr cowstr pathbuf boxpath bytevec bytearr0 bytearr4 bytearr24 cstring unit phantom
opt(u8) opt(string) opt(unit) opt(i64) opt(opt(u8)) opt(box(opt(bool))) opt(seq(u8))
result(u8,string) result(unit,opt(i32))
seq(u8) seq(opt(u16)) seq(seq(i8)) seq(string) deque(i32) llist(bool) heap(u32) bset(i16) hset(u8) hset(string)
arr0(u8) arr3(u16) arr2(opt(u8)) arr2(string) arr25(u8)
bmap(u8,string) hmap(u16,bool) bmap(string,seq(u8))
tup(u8) tup(u8,i8) tup(string,opt(u8),bool) tup(u8,u8,u8,u8) tup(u64,i64,f32,f64,char) tup(u8,u8,u8,u8,u8,u8)
tup(u8,u8,u8,u8,u8,u8,u8) tup(u8,u8,u8,u8,u8,u8,u8,u8) tup16
tup(u8,u8,u8,u8,u8,u8,u8,u8,u8) tup(u8,u8,u8,u8,u8,u8,u8,u8,u8,u8) tup(u8,u8,u8,u8,u8,u8,u8,u8,u8,u8,u8) tup(u8,u8,u8,u8,u8,u8,u8,u8,u8,u8,u8,u8) tup(u8,u8,u8,u8,u8,u8,u8,u8,u8,u8,u8,u8,u8) tup(u8,u8,u8,u8,u8,u8,u8,u8,u8,u8,u8,u8,u8,u8) tup(u8,u8,u8,u8,u8,u8,u8,u8,u8,u8,u8,u8,u8,u8,u8)
range(u8) rangeincl(i16) rangefrom(u32) rangeto(string) rangetoincl(u64) bound(i32) bound(opt(u8))
duration systemtime ipv4 ipv6 ip sockv4 sockv6 sock
box(u32) wrapping(u8) cell(u16) refcell(seq(u8))
tag tagged7(u8) tagged100000(string) tagged24(opt(u8))
seq(tup(u8,string)) bmap(u8,opt(seq(bound(i32)))) seq(result(u8,string)) tup(range(u8),duration)""".split()
BORROWED = ["strref", "bytesref", "cstrref", "pathref"]
LOSSY = {"opt(opt(u8))", "opt(box(opt(bool)))"}

UW = {"u8": 8, "u16": 16, "u32": 32, "u64": 64, "usize": 64}
IW = {"i8": 8, "i16": 16, "i32": 32, "i64": 64, "isize": 64}

def split_args(s):
    out, depth, st = [], 0, 0
    for i, c in enumerate(s):
        if c == "(": depth += 1
        elif c == ")": depth -= 1
        elif c == "," and depth == 0:
            out.append(s[st:i]); st = i + 1
    out.append(s[st:])
    return out

def parse_desc(s):
    """-> nested tuples: (kind, ...)"""
    if "(" not in s:
        if s.startswith("a") and s[1:] in UW: return ("u", UW[s[1:]])
        if s.startswith("a") and s[1:] in IW: return ("i", IW[s[1:]])
        if s in UW: return ("u", UW[s])
        if s in IW: return ("i", IW[s])
        if s.startswith("nzu"): return ("nzu", UW["u" + s[3:]])
        if s.startswith("nzi"): return ("nzi", IW["i" + s[3:]])
        if s in ("bool", "abool"): return ("bool",)
        if s in ("int", "char", "f32", "f64", "unit", "duration", "systemtime", "tag"): return (s,)
        if s == "phantom": return ("unit",)
        if s in ("string", "boxstr", "cowstr", "pathbuf", "boxpath", "strref", "pathref"): return ("str",)
        if s in ("bytevec", "bytesref"): return ("bytes",)
        if s in ("cstring", "cstrref"): return ("cstr",)
        if s.startswith("bytearr"): return ("bytearr", int(s[7:]))
        if s == "ipv4": return ("bytearr", 4)
        if s == "ipv6": return ("bytearr", 16)
        if s == "ip": return ("enum", [("bytearr", 4), ("bytearr", 16)])
        if s == "sockv4": return ("fields", [("bytearr", 4), ("u", 16)])
        if s == "sockv6": return ("fields", [("bytearr", 16), ("u", 16)])
        if s == "sock": return ("enum", [parse_desc("sockv4"), parse_desc("sockv6")])
        if s == "tup16": return ("tup", [parse_desc(x) for x in "u8 u16 u32 u64 i8 i16 i32 i64 bool char string opt(u8) u8 u8 u8 u8".split()])
        raise ValueError(s)
    i = s.index("(")
    name, args = s[:i], [parse_desc(a) for a in split_args(s[i + 1:-1])]
    if name == "opt": return ("opt", args[0])
    if name == "result": return ("enum", args)
    if name in ("seq", "deque", "llist"): return ("seq", args[0], "ordered")
    if name == "heap": return ("seq", args[0], "multiset")
    if name == "bset": return ("seq", args[0], "set")
    if name == "hset": return ("seq", args[0], "hset")
    if name == "bmap": return ("map", args[0], args[1], "sorted")
    if name == "hmap": return ("map", args[0], args[1], "hash")
    if name == "tup": return ("tup", args)
    if name in ("range", "rangeincl"): return ("fields", [args[0], args[0]])
    if name in ("rangefrom", "rangeto", "rangetoincl"): return ("fields", [args[0]])
    if name == "bound": return ("bound", args[0])
    if name in ("box", "wrapping", "cell", "refcell"): return args[0]
    if name.startswith("arr"): return ("arr", int(name[3:]), args[0])
    if name.startswith("tagged"): return ("tagged", int(name[6:]), args[0])
    raise ValueError(s)

SPECIAL_F32 = [0, 0x80000000, 0x7f800000, 0xff800000, 0x7fc00000, 0x7f800001, 1, 0x007fffff, 0x00800000, 0x3f800000, 0x7f7fffff, 0xffc12345]
SPECIAL_F64 = [0, 1 << 63, 0x7ff0000000000000, 0xfff0000000000000, 0x7ff8000000000000, 0x7ff0000000000001, 1, 0x000fffffffffffff, 0x0010000000000000, 0x3ff0000000000000, 0x7fefffffffffffff]

def small_len(rng, big_ok=True):
    r = rng.random()
    if r < 0.15: return 0
    if r < 0.6: return rng.randrange(1, 4)
    if r < 0.8: return rng.choice([22, 23, 24, 25])
    if r < 0.9 or not big_ok: return rng.randrange(4, 12)
    return rng.choice([255, 256, 257])

def gen_value(d, rng, depth=0):
    k = d[0]
    if k == "u":
        hi = (1 << d[1]) - 1
        return rng.choice(boundaries(hi)) if rng.random() < 0.6 else rand_ints(rng, 1, 0, hi)[0]
    if k == "i":
        hi = (1 << (d[1] - 1)) - 1
        return rng.choice(boundaries(hi, -hi - 1)) if rng.random() < 0.6 else rand_ints(rng, 1, -hi - 1, hi)[0]
    if k == "nzu":
        v = gen_value(("u", d[1]), rng); return v if v != 0 else 1
    if k == "nzi":
        v = gen_value(("i", d[1]), rng); return v if v != 0 else -1
    if k == "int": return rng.choice(boundaries(U64, -(1 << 64))) if rng.random() < 0.6 else rand_ints(rng, 1, -(1 << 64), U64)[0]
    if k == "bool": return rng.random() < 0.5
    if k == "char":
        while True:
            c = rng.choice([0, 23, 24, 65, 127, 128, 255, 256, 0x7ff, 0x800, 0xd7ff, 0xe000, 0xffff, 0x10000, 0x10ffff, rng.randrange(0, 0x110000)])
            if not (0xd800 <= c <= 0xdfff): return c
    if k == "f32": return rng.choice(SPECIAL_F32) if rng.random() < 0.3 else rng.getrandbits(32)
    if k == "f64": return rng.choice(SPECIAL_F64) if rng.random() < 0.3 else rng.getrandbits(64)
    if k == "str":
        n = small_len(rng)
        s = (utf8_samples(rng, 1)[0] or b"a")
        return (s * (n // len(s) + 1))[:n] if n > 30 and all(c < 128 for c in s) else (b"x" * n if n > 30 else utf8_samples(rng, 1)[0])
    if k == "bytes": return bytes(rng.getrandbits(8) for _ in range(small_len(rng)))
    if k == "bytearr":
        if d[1] == 16 and rng.random() < 0.4:    # IPv6 special forms: unspecified, loopback, IPv4-mapped, IPv4-compatible, link-local, multicast
            v4 = bytes(rng.getrandbits(8) for _ in range(4))
            return rng.choice([bytes(16), bytes(15) + b"\x01", bytes(10) + b"\xff\xff" + v4, bytes(12) + v4, b"\xfe\x80" + bytes(13) + b"\x01",
                               b"\xff\x02" + bytes(13) + b"\x01", bytes(10) + b"\xff\xff" + bytes(4), b"\x00\x64\xff\x9b" + bytes(8) + v4])
        if d[1] == 4 and rng.random() < 0.3: return rng.choice([bytes(4), b"\x7f\x00\x00\x01", b"\xff\xff\xff\xff", b"\xc0\x00\x02\x01", b"\xa9\xfe\x00\x01"])
        return bytes(rng.getrandbits(8) for _ in range(d[1]))
    if k == "cstr": return bytes(rng.randrange(1, 256) for _ in range(small_len(rng)))
    if k == "unit": return ()
    if k == "opt": return None if rng.random() < 0.35 else ("some", gen_value(d[1], rng, depth + 1))
    if k == "seq":
        n = small_len(rng, big_ok=(d[1][0] in ("u", "i", "bool") and depth == 0))
        l = [gen_value(d[1], rng, depth + 1) for _ in range(n)]
        if d[2] in ("set", "hset"):
            seen, out = set(), []
            for x in l:
                t = show(d[1], x)
                if t not in seen: seen.add(t); out.append(x)
            l = out
        return l
    if k == "arr": return [gen_value(d[2], rng, depth + 1) for _ in range(d[1])]
    if k == "map":
        n = small_len(rng, big_ok=False)
        seen, out = set(), []
        for _ in range(n):
            kk = gen_value(d[1], rng, depth + 1)
            t = show(d[1], kk)
            if t in seen: continue
            seen.add(t); out.append((kk, gen_value(d[2], rng, depth + 1)))
        return out
    if k in ("tup", "fields"): return [gen_value(x, rng, depth + 1) for x in d[1]]
    if k == "enum":
        i = rng.randrange(0, len(d[1])); return ("var", i, gen_value(d[1][i], rng, depth + 1))
    if k == "bound":
        i = rng.randrange(0, 3); return ("var", i, gen_value(d[1], rng, depth + 1) if i < 2 else ())
    if k == "tagged": return gen_value(d[2], rng, depth + 1)
    if k == "tag": return gen_value(("u", 64), rng)
    if k == "duration": return [gen_value(("u", 64), rng), rng.choice([0, 1, 23, 24, 999999999, rng.randrange(0, 1000000000)])]
    if k == "systemtime":
        pre = rng.random() < 0.15
        return ("var", 1 if pre else 0, [rng.choice([0, 1, 23, 24, 1 << 32, (1 << 40) - 1, rng.getrandbits(40)]) + (1 if pre else 0), rng.randrange(0, 1000000000)])
    raise ValueError(d)

def show(d, v):
    k = d[0]
    if k in ("u", "i", "nzu", "nzi", "int", "char", "tag"): return str(v)
    if k == "bool": return "true" if v else "false"
    if k in ("f32", "f64"): return "f%d" % v
    if k in ("str", "bytes", "bytearr", "cstr"): return "h" + hexs(v)
    if k == "unit": return "()"
    if k == "opt": return "null" if v is None else "some(%s)" % show(d[1], v[1])
    if k == "seq": return "[" + ",".join(show(d[1], x) for x in v) + "]"
    if k == "arr": return "[" + ",".join(show(d[2], x) for x in v) + "]"
    if k == "map": return "[" + ",".join(show(d[1], a) + "," + show(d[2], b) for a, b in v) + "]"
    if k in ("tup", "fields"): return "[" + ",".join(show(x, y) for x, y in zip(d[1], v)) + "]"
    if k == "enum": return "v%d(%s)" % (v[1], show(d[1][v[1]], v[2]))
    if k == "bound": return "v%d(%s)" % (v[1], show(d[1], v[2]) if v[1] < 2 else "()")
    if k == "tagged": return show(d[2], v)
    if k == "duration": return "[%d,%d]" % (v[0], v[1])
    if k == "systemtime": return "v%d([%d,%d])" % (v[1], v[2][0], v[2][1])
    raise ValueError(d)

def encode(d, v, rng=None):
    """CBOR bytes of the value as the built-in impls write it; with rng: random (non-minimal) head
    widths and indefinite-length containers (re-framing)."""
    def hd(mt, n):
        return head(mt, n) if rng is None else head(mt, n, rng.choice(widths_for(n)) if rng.random() < 0.5 else None)
    def arr(items, n=None):
        n = len(items) if n is None else n
        if rng is not None and rng.random() < 0.3: return b"\x9f" + b"".join(items) + b"\xff"
        return hd(4, n) + b"".join(items)
    def integer(x): return hd(0, x) if x >= 0 else hd(1, -1 - x)
    k = d[0]
    if k in ("u", "i", "nzu", "nzi", "int", "char"): return integer(v)
    if k == "bool": return b"\xf5" if v else b"\xf4"
    if k == "f32": return b"\xfa" + v.to_bytes(4, "big")
    if k == "f64": return b"\xfb" + v.to_bytes(8, "big")
    if k == "str": return hd(3, len(v)) + v
    if k in ("bytes", "bytearr"): return hd(2, len(v)) + v
    if k == "cstr": return hd(2, len(v) + 1) + v + b"\x00"
    if k == "unit": return hd(4, 0)
    if k == "opt": return b"\xf6" if v is None else encode(d[1], v[1], rng)
    if k == "seq": return arr([encode(d[1], x, rng) for x in v])
    if k == "arr": return arr([encode(d[2], x, rng) for x in v])
    if k == "map":
        items = [encode(d[1], a, rng) + encode(d[2], b, rng) for a, b in v]
        if rng is not None and rng.random() < 0.3: return b"\xbf" + b"".join(items) + b"\xff"
        return hd(5, len(items)) + b"".join(items)
    if k in ("tup", "fields"): return arr([encode(x, y, rng) for x, y in zip(d[1], v)])
    if k == "enum": return arr([integer(v[1]), encode(d[1][v[1]], v[2], rng)])
    if k == "bound": return arr([integer(v[1]), encode(d[1], v[2], rng) if v[1] < 2 else hd(4, 0)])
    if k == "tagged": return hd(6, d[1]) + encode(d[2], v, rng)
    if k == "tag": return hd(6, v)
    if k == "duration": return arr([integer(v[0]), integer(v[1])])
    if k == "systemtime": return arr([integer(v[2][0]), integer(v[2][1])])
    raise ValueError(d)


def rust_order(d, v):
    """Reorders BTreeSet / BTreeMap values into Rust iteration order (Ord on ints / byte strings) and trims
    collections whose iteration order is not modelled (HashSet, HashMap, BinaryHeap) to one element."""
    k = d[0]
    if k == "opt": return None if v is None else ("some", rust_order(d[1], v[1]))
    if k == "seq":
        l = [rust_order(d[1], x) for x in v]
        if d[2] == "set": l = sorted(l)
        if d[2] in ("hset", "multiset"): l = l[:1]
        return l
    if k == "arr": return [rust_order(d[2], x) for x in v]
    if k == "map":
        l = [(a, rust_order(d[2], b)) for a, b in v]
        if d[3] == "sorted": l = sorted(l, key=lambda p: p[0])
        else: l = l[:1]
        return l
    if k in ("tup", "fields"): return [rust_order(x, y) for x, y in zip(d[1], v)]
    if k == "enum": return ("var", v[1], rust_order(d[1][v[1]], v[2]))
    if k == "bound": return ("var", v[1], rust_order(d[1], v[2]) if v[1] < 2 else ())
    if k == "tagged": return rust_order(d[2], v)
    return v


def canon_show(d, v):
    """Value text as the harness prints a *decoded* value: unordered collections sorted by element text (sets deduplicated),
    maps sorted by key text."""
    k = d[0]
    if k == "opt": return "null" if v is None else "some(%s)" % canon_show(d[1], v[1])
    if k == "seq":
        ts = [canon_show(d[1], x) for x in v]
        if d[2] in ("set", "hset"): ts = sorted(set(ts))
        elif d[2] == "multiset": ts = sorted(ts)
        return "[" + ",".join(ts) + "]"
    if k == "arr": return "[" + ",".join(canon_show(d[2], x) for x in v) + "]"
    if k == "map":
        ps = sorted((canon_show(d[1], a), canon_show(d[2], b)) for a, b in v)
        return "[" + ",".join(a + "," + b for a, b in ps) + "]"
    if k in ("tup", "fields"): return "[" + ",".join(canon_show(x, y) for x, y in zip(d[1], v)) + "]"
    if k == "enum": return "v%d(%s)" % (v[1], canon_show(d[1][v[1]], v[2]))
    if k == "bound": return "v%d(%s)" % (v[1], canon_show(d[1], v[2]) if v[1] < 2 else "()")
    if k == "tagged": return canon_show(d[2], v)
    return show(d, v)

def unordered(key):
    return any(x in key for x in ("set(", "heap(", "map("))


def shape_encode(d, v, rng, rate=0.12):
    """A well-formed item derived from value v of descriptor d: always a well-formed encoding, mostly of the same data-model
    value in a *non-preferred* form (wider heads, indefinite arrays / maps), and with probability `rate` per node one shape
    edit: chunked string, surplus / missing / replaced element, an extra tag, definite <-> indefinite where the impl cares,
    undefined for null, a narrower float.  What the built-in type must answer is decided by Spec/TypeSem.v (S= of DT)."""
    def hd(mt, n):
        ws = widths_for(n)
        return head(mt, n, rng.choice(ws[1:] or ws) if rng.random() < 0.7 else None)
    def edit(): return rng.random() < rate
    def junk(): return gen_item(rng, 2)
    def arr(items, indef_p=0.5):
        items = list(items)
        if edit(): items.append(junk())                               # surplus element
        elif edit() and items: items.pop()                            # missing element
        elif edit() and items: items[rng.randrange(len(items))] = junk()   # wrong shape inside
        if rng.random() < indef_p: return b"\x9f" + b"".join(items) + b"\xff"
        return hd(4, len(items)) + b"".join(items)
    def integer(x): return hd(0, x) if x >= 0 else hd(1, -1 - x)
    def string(mt, b):
        if edit():                                                    # chunked
            k = rng.randrange(0, len(b) + 1)
            parts = [b[:k], b[k:]] if rng.random() < 0.7 else [b]
            return bytes([mt * 32 + 31]) + b"".join(hd(mt, len(p)) + p for p in parts) + b"\xff"
        if edit(): mt = 5 - mt                                        # bytes <-> text
        return hd(mt, len(b)) + b
    def go(d, v):
        k = d[0]
        if edit() and rng.random() < 0.3: return hd(6, rng.choice([0, 1, 7, 24, 55799])) + go(d, v)      # extra tag
        if k in ("u", "i", "nzu", "nzi", "int", "char"):
            if edit(): v = rng.choice([0, -1, 255, 256, -129, 65536, 1 << 32, -(1 << 63) - 1, (1 << 64) - 1, 0xd800, 0x110000])
            return integer(v)
        if k == "bool": return rng.choice([b"\xf4", b"\xf5", b"\xf6", b"\xf7", b"\xe0", b"\xf8\x20", b"\x01"]) if edit() else (b"\xf5" if v else b"\xf4")
        if k == "f32":
            if edit(): return rng.choice([b"\xf9\x3c\x00", b"\xfb" + (v << 29).to_bytes(8, "big"), integer(1)])
            return b"\xfa" + v.to_bytes(4, "big")
        if k == "f64":
            if edit(): return rng.choice([b"\xf9\x7c\x00", b"\xfa\x3f\x80\x00\x00", integer(1)])
            return b"\xfb" + v.to_bytes(8, "big")
        if k == "str": return string(3, v if not edit() else v + b"\xff")
        if k in ("bytes", "bytearr"): return string(2, v if not edit() else v + b"\x00")
        if k == "cstr": return string(2, (v + b"\x00") if not edit() else rng.choice([v, v + b"\x00\x00", b"\x00" + v + b"\x00"]))
        if k == "unit": return rng.choice([b"\x9f\xff", hd(4, 1) + junk(), b"\xa0", b"\xf6"]) if edit() else hd(4, 0)
        if k == "opt":
            if v is None: return rng.choice([b"\xf7", b"\xf8\x20", hd(4, 0)]) if edit() else b"\xf6"
            return go(d[1], v[1])
        if k == "seq": return arr([go(d[1], x) for x in v])
        if k == "arr": return arr([go(d[2], x) for x in v])
        if k == "map":
            kvs = [(go(d[1], a), go(d[2], b)) for a, b in v]
            if edit() and kvs: kvs.append((kvs[0][0], kvs[-1][1]))    # duplicate key: the later entry wins
            if edit(): return arr([x for kv in kvs for x in kv])      # array instead of map
            items = [a + b for a, b in kvs]
            if rng.random() < 0.5: return b"\xbf" + b"".join(items) + b"\xff"
            return hd(5, len(items)) + b"".join(items)
        if k in ("tup", "fields"): return arr([go(x, y) for x, y in zip(d[1], v)], 0.25)
        if k == "enum":
            idx = v[1] if not edit() else rng.choice([len(d[1]), 1 << 32, 1 - v[1] if len(d[1]) == 2 else 0])
            return arr([integer(idx), go(d[1][v[1]], v[2])], 0.15)
        if k == "bound":
            idx = v[1] if not edit() else rng.choice([3, 2, 0])
            return arr([integer(idx), go(d[1], v[2]) if v[1] < 2 else (junk() if rng.random() < 0.5 else hd(4, 0))], 0.15)
        if k == "tagged": return hd(6, d[1] if not edit() else d[1] + 1) + go(d[2], v)
        if k == "tag": return hd(6, v) + junk()
        if k == "duration":
            ns = v[1] if not edit() else rng.choice([1000000000, (1 << 32) - 1, 1 << 32])
            s = v[0] if not edit() else rng.choice([(1 << 64) - 1, (1 << 64) - 4])
            return arr([integer(s), integer(ns)])
        if k == "systemtime":
            s = v[2][0] if not edit() else rng.choice([(1 << 63) - 1, 1 << 63, (1 << 64) - 1])
            return arr([integer(s), integer(v[2][1])])
        raise ValueError(d)
    return go(d, v)
