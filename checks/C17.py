"""C17 — the serde bridge round-trips the serde data model with the documented representation."""
from lib import *
import serdegen as sg

RULE = ("SER <type> <value>: a value of one of ~110 serde types (a fixed family of derived types spanning every Serializer / Deserializer "
        "method and every serde enum representation, plus std compositions) is serialised with minicbor_serde::to_vec and the bytes are "
        "deserialised as the same type; real crates vs the extracted Coq model (bytes, outcome, value, end position). S= (specification): "
        "the bytes are the preferred serialisation of the documented tree (Spec/SerdeDoc.v; it must parse as exactly one well-formed item "
        "with the reference parser of Spec/Cbor.v) and reading them back gives the same value with every byte consumed. O= (implementation): "
        "the output is one item for Decoder::skip, serialising twice gives the same bytes, the value read back prints the same (floats bitwise) "
        "and all bytes are consumed. DE <type> <hex>: deserialisation of other inputs (wider heads, indefinite containers and strings, "
        "unknown extra struct fields, reordered / missing / duplicate fields, enum wrappers in the other form, every strict prefix, "
        "byte mutations, random well-formed items for deserialize_any): outcome class, value and end position against the model. "
        "Values: every width boundary of every integer type, containers of 0..8 / 23 / 24 / 255 / 256 elements, unknown-length sequences "
        "and maps, seeded random. Non-trivial: a SER case whose encoding is longer than one byte, or a DE case that is not rejected at "
        "the first byte.")
ASSUMPTIONS = ["what serde 1.0.229's derived visitors and Content buffer do (Model/Serde.v part C) is modelled from serde's source and "
               "validated by this correspondence only",
               "under serde's Content buffer, float fields fed from integers or from the other float width are not modelled "
               "(the family has no float below an untagged / internally tagged / flattened node)",
               "untagged enums of the family have pairwise disjoint variants; a flattened map is the last field of its struct",
               "64-bit target (usize = u64)"]

KEYS = """bool u8 u16 u32 u64 usize i8 i16 i32 i64 isize f32 f64 char string strref bytebuf bytesref unit disp any ign
US NT NTO TS P2 Prims WithOpt WithOpt2 Nested Wide Ext Ext2 Ext1 ExtU InnerU InnerC InnerUS InnerE Int IntF Adj Unt UntF
Fl Fl2 FlM FlU FlF FlFC FlK FlMK FlMC InnerB IntB AdjB UntB FlB Hr arr4(u8) SkipS SkipE opt(SkipS) seq(SkipS) HandS ExtK FlEK MapEK
opt(u8) opt(string) opt(unit) opt(opt(u8)) opt(NTO) opt(P2) opt(Ext) opt(US)
seq(u8) seq(opt(u16)) seq(P2) seq(Ext) seq(seq(i8)) seq(unit) seq(US) seq(Unt) seq(Int) seq(Fl) seq(Adj) seq(string) seq(bytebuf) seq(char)
iseq(u8) iseq(P2) iseq(iseq(u8)) iseq(opt(string)) cseq(u8) cseq(P2) cseq(cseq(u8)) cmap(u8,bool) cmap(string,cseq(u8))
tup(u8) tup(u8,string) tup(u64,i64,f32,f64,char) tup(P2,Ext,unit) tup(strref,bytesref)
arr0(u8) arr3(u16) arr2(P2) arr24(bool)
bmap(u8,string) bmap(string,u8) bmap(tup(u8,u8),bool) bmap(char,i8) bmap(i16,P2) bmap(string,Adj) bmap(bool,seq(u8)) bmap(u64,unit)
imap(u8,bool) imap(string,seq(u8)) imap(i8,iseq(i8))""".split()

BUFFERED = ("internal", "untagged", "flat", "adjacent")

def uses_buffer(d):
    k = d[0]
    if k in BUFFERED or k == "any": return True
    if k in ("opt", "newtype"): return uses_buffer(d[1])
    if k == "seq": return uses_buffer(d[2])
    if k in ("tup", "tupstruct"): return any(uses_buffer(x) for x in d[1])
    if k == "map": return uses_buffer(d[2]) or uses_buffer(d[3])
    if k == "struct": return any(uses_buffer(x) for _, x in d[1])
    if k == "enum": return any(uses_buffer(x) for _, _, x in d[1])
    return False

HAND = [
    # enum wrappers in the other form, trailing material, wrong lengths
    "DE Ext a1614105", "DE Ext 614201", "DE Ext a2614201614201", "DE Ext bf614201ff", "DE Ext 6158", "DE Ext a0", "DE Ext 80", "DE Ext a161438101",
    "DE Ext a1614382010203", "DE Ext a161439f0101ff", "DE Ext a16144a0", "DE Ext a16144a26178016178 02", "DE Ext a16144bf617801ff",
    "DE Ext1 6141", "DE Ext1 a16142181a", "DE Ext1 a1614219ffff", "DE Ext1 7f6141ff", "DE Ext1 4141",
    # structs: unknown / duplicate / missing fields, integer and byte-string keys, arrays
    "DE P2 a2617801617902", "DE P2 a2617902617801", "DE P2 a3617801617902617a05", "DE P2 a3617801617801617902", "DE P2 a1617801", "DE P2 820102",
    "DE P2 a20001617902", "DE P2 a24178016179 02", "DE P2 bf617801617902ff", "DE P2 bf617801617902", "DE P2 a3617801617902617a9f9f9fffffff",
    "DE P2 a2617801617902ff", "DE P2 a26178f6617902", "DE WithOpt a1616205", "DE WithOpt a0", "DE WithOpt a2616205616180", "DE WithOpt a26162056161f6",
    # tuples, arrays, units, options
    "DE tup(u8,string) 8201", "DE tup(u8,string) 83016161 00", "DE tup(u8,string) 9f016161ff", "DE arr3(u16) 83010203", "DE arr3(u16) 8201 02",
    "DE arr0(u8) 80", "DE arr0(u8) 9fff", "DE unit 80", "DE unit 9fff", "DE unit 8100", "DE unit f6", "DE US 80", "DE US a0", "DE opt(unit) f6", "DE opt(unit) 80",
    "DE opt(opt(u8)) f6", "DE opt(opt(u8)) 05", "DE opt(u8) f7", "DE opt(u8) -", "DE NTO f6", "DE opt(NTO) f6",
    # strings and bytes
    "DE string 7f616161 62ff", "DE string 62c328", "DE string 4161", "DE strref 6161", "DE bytebuf 4161", "DE bytebuf 5f4161ff", "DE bytebuf 6161", "DE bytebuf 8101",
    "DE bytesref 4161", "DE char 1a0010ffff", "DE char 1a00110000", "DE char 19d800", "DE char 6161", "DE char 20",
    # floats through the narrower forms
    "DE f32 f93c00", "DE f32 fa3f800000", "DE f32 fb3ff0000000000000", "DE f64 f93c00", "DE f64 fa3f800000", "DE f64 fb3ff0000000000000", "DE f64 01",
    # maps
    "DE bmap(u8,string) a2016161016162", "DE bmap(u8,string) bf016161ff", "DE bmap(u8,string) a20161 61", "DE bmap(u8,string) a1", "DE imap(u8,bool) a101f5",
    # deserialize_any: every arm of the dispatch
    "DE any f4", "DE any 18ff", "DE any 190100", "DE any 1a00010000", "DE any 1b0000000100000000", "DE any 20", "DE any 3880", "DE any 387f", "DE any 398000",
    "DE any 3a80000000", "DE any 3b8000000000000000", "DE any 3b7fffffffffffffff", "DE any f93c00", "DE any fa3f800000", "DE any fb3ff0000000000000",
    "DE any 4161", "DE any 5f41614162ff", "DE any 6161", "DE any 7f61616162ff", "DE any f6", "DE any f7", "DE any c001", "DE any e0", "DE any f820", "DE any ff",
    "DE any 1c", "DE any 38", "DE any 9f01820203ff", "DE any bf6161a1616201ff", "DE any 8301", "DE any a101",
    # tagged representations on hand-made inputs
    "DE Int a161746141", "DE Int a0", "DE Int 80", "DE Int 8161 41", "DE Int 826142 01", "DE Int a1617401", "DE Int a2617461416174 6141",
    "DE Int a161746158", "DE Int 05", "DE Int a2617801617461 42", "DE Int a36174614261780161796161", "DE Int a3617801617961616174 6142",
    "DE Int a261746155 6178 01", "DE Int a2617462556e617801", "DE Int bf61746141ff", "DE Int a1417461 41",
    "DE Adj a161746141", "DE Adj a2617461426163 01", "DE Adj a2616301617461 42", "DE Adj a16163 01", "DE Adj a0", "DE Adj a261746141 6163f6",
    "DE Adj a261746141616380", "DE Adj a3617461426163016174 6142", "DE Adj a361746142616301616301", "DE Adj a161746142", "DE Adj a16174614f", "DE Adj a161746143",
    "DE Adj a2617461446163a1617801", "DE Adj a26174614461638101", "DE Adj a26163a16178016174 6144", "DE Adj a2616381016174 6144", "DE Adj a36161016174614261 63 02",
    "DE Adj a26174a1614201 616301", "DE Adj 826142 01",
    "DE Unt 80", "DE Unt f6", "DE Unt 05", "DE Unt 190100", "DE Unt 8201 6161", "DE Unt 820161 61 00", "DE Unt a1617801", "DE Unt a2617801617902", "DE Unt 6161", "DE Unt 4161",
    "DE Unt 820102", "DE Unt f5", "DE Unt f7", "DE Unt 8101", "DE Unt 9f01ff", "DE Unt a1000 5", "DE UntF 6161", "DE UntF 62c3a9", "DE UntF 626161", "DE UntF f6", "DE UntF 80", "DE UntF a1616b80",
    "DE Fl a3616101617802617903", "DE Fl bf616101617802617903617af5ff", "DE Fl a4616101617802617903617af5", "DE Fl a46161016178026179 03617af5",
    "DE Fl a5616101617802617903617af5617802", "DE Fl a5616101617802617903617af5616102", "DE Fl a5616101617802617903617af5617105", "DE Fl a40001617802617903617af5",
    "DE FlM a1616101", "DE FlM a2616101616b05", "DE FlM a3616101616b05616b06", "DE FlM a2616101616b6161", "DE FlU a4616101616280616318 61",
]

def generate(tier, rng):
    per = 2000 if tier == "thorough" else 100
    out = []
    for h in HAND:
        a = h.split(" ", 2)
        out.append("%s %s %s" % (a[0], a[1], a[2].replace(" ", "")))
    for key in KEYS:
        d = sg.parse_expr(key)
        buffered = uses_buffer(d)
        seen = set()
        # boundary integers exhaustively for the integer leaves
        if d[0] in ("u", "i"):
            lo, hi = (0, (1 << d[1]) - 1) if d[0] == "u" else (-(1 << (d[1] - 1)), (1 << (d[1] - 1)) - 1)
            for v in boundaries(hi, lo):
                out.append("SER %s %d" % (key, v))
            for v in boundaries(U64, -(1 << 64)):
                n = v if v >= 0 else -1 - v
                for w in widths_for(n):
                    out.append("DE %s %s" % (key, hexs(head(0 if v >= 0 else 1, n, w))))
        for j in range(per):
            v = sg.gen_value(d, rng)
            t = sg.show(d, v)
            if t in seen: continue
            seen.add(t)
            out.append("SER %s %s" % (key, t))
            plain = sg.encode(d, v, sg.PLAIN)
            if j % 3 == 0:
                fr = sg.Framing(rng, wide=0.4, indef=0.3, extra=0.4, shuffle=0.3, drop_opt=0.5, chunk=0.1)
                out.append("DE %s %s" % (key, hexs(sg.encode(d, v, fr))))
            if j % 3 == 1:
                out.append("DE %s %s" % (key, hexs(mutate(rng, plain))))
            if j % 6 == 2 and len(plain) <= 40:
                for cut in range(len(plain)):
                    out.append("DE %s %s" % (key, hexs(plain[:cut])))
            if j % 6 == 5:
                out.append("DE %s %s" % (key, hexs(plain + bytes([rng.getrandbits(8)]))))
    # deep nesting (no depth limit is documented: a value nested 300 or 1000 levels deep round-trips like any other)
    for dpt in (100, 255, 256, 257, 300, 1000):
        out.append("DE any %s" % hexs(b"\x81" * dpt + b"\x00"))
        out.append("DE any %s" % hexs(b"\x9f" * dpt + b"\xff" * dpt))
        out.append("DE any %s" % hexs(b"\xa1\x00" * dpt + b"\x00"))
        out.append("DE ign %s" % hexs(b"\x81" * dpt + b"\x00" + b"\x01"))
        out.append("DE seq(seq(i8)) %s" % hexs(b"\x81" * dpt + b"\x00"))
    for n in (100, 127, 128, 129, 130, 200, 1000): out.append("SER disp h%s" % (("ab" * n)[:n].encode().hex()))
    for kind in ("chain", "nest", "list"):
        for dpt in (1, 100, 255, 256, 257, 300, 1000): out.append("SERD %s %d" % (kind, dpt))
    n_any = 20000 if tier == "thorough" else 600
    for _ in range(n_any):
        b = gen_item(rng, 3)
        out.append("DE any %s" % hexs(b))
        if rng.random() < 0.3: out.append("DE any %s" % hexs(mutate(rng, b)))
        if rng.random() < 0.2: out.append("DE ign %s" % hexs(b + b"\x01"))
        if rng.random() < 0.2: out.append("DE Unt %s" % hexs(b))
        if rng.random() < 0.1: out.append("DE Int %s" % hexs(b))
    return out

def cross_check(cases, impl_out, model_out):
    """The side conditions of the round-trip theorem (Props/C17.v C17_roundtrip_any) on the family:
    F= the Coq predicate f12_free (Spec/SerdeAny.v) evaluated by the driver agrees with f12_hit on every SER case;
    D= shape_ok_any and untagged_disjoint hold for every family shape;
    H= where every hypothesis of the theorem holds, the model read the value back (the theorem, replayed) and every
    generated value outside F12 and outside Option-in-Option satisfies the hypotheses (the theorem is not vacuous on the family)."""
    bad = []
    seen_d = {}
    for line, mo in zip(cases, model_out):
        t = line.split()
        if t[0] != "SER": continue
        parts = mo.split("\t")
        aux = dict(p.split("=", 1) for p in parts[1:] if "=" in p)
        if "F" not in aux or "Skip" in t[1]: continue     # Skip*: call trees with skipped fields are outside the theorem's typing (conf_any)
        d = sg.parse_expr(t[1])
        try: v = parse_value(d, t[2])
        except Exception: continue
        hit = sg.f12_hit(d, v)
        if (aux["F"] == "hit") != hit:
            bad.append((line, "F12 class: Coq f12_free says %s, checks/serdegen.py f12_hit says %s" % (aux["F"], "hit" if hit else "free")))
        if aux.get("D") != "1" and t[1] not in seen_d:
            seen_d[t[1]] = 1
            bad.append((line, "side condition shape_ok_any / untagged_disjoint does not hold for family type %s" % t[1]))
        if aux.get("H") == "1":
            spec = aux.get("S", "-")
            if spec not in ("-", None) and parts[0] != spec:
                bad.append((line, "every hypothesis of C17_roundtrip_any holds but the model does not read the value back: %s vs %s" % (parts[0], spec)))
        elif not hit and not sg.opt_in_opt(d) and not uses_ign(d) and "Skip" not in t[1]:     # Skip*: call trees with skipped fields are outside the theorem's typing
            bad.append((line, "a generated value outside F12 does not satisfy the hypotheses of C17_roundtrip_any (conf_any / sval_ok)"))
    return bad[:50]

def uses_ign(d):
    return "ign" in repr(d)

def nontrivial(line, impl):
    t = line.split()
    if t[0] == "SERD": return True
    if t[0] == "SER": return len(impl.split(";")[0]) > 2
    return not impl.endswith("@0")

def classify(line, impl):
    t = line.split()
    if t[0] == "SERD": return "SERD:" + t[1]
    d = sg.parse_expr(t[1])
    res = "ok" if (";ok:" in impl or impl.startswith("ok:")) else ":".join(impl.split("@")[0].split(";")[-1].split(":")[:2])
    return "%s:%s:%s" % (t[0], d[0], res)

def in_known_class(cls, line, impl):
    """F12: a SER case whose value has a unit / char (through ContentRefDeserializer also a unit struct, and an
    untagged unit variant) in a position that serde reads back from its Content buffer (Spec/SerdeDoc.v
    opaque_under_any, evaluated on the value).  Nothing else is suppressed."""
    if cls != "F12": return False
    t = line.split()
    if t[0] != "SER": return False
    d = sg.parse_expr(t[1])
    try:
        v = parse_value(d, t[2])
    except Exception:
        return False
    return sg.f12_hit(d, v)

# ---- value text parser (only what in_known_class needs: the generator's own output) ----
def parse_value(d, text):
    pos = [0]
    def peek(): return text[pos[0]] if pos[0] < len(text) else ""
    def eat(c):
        assert text[pos[0]] == c, (text, pos[0], c); pos[0] += 1
    def lit(s):
        if text.startswith(s, pos[0]): pos[0] += len(s); return True
        return False
    def num():
        st = pos[0]
        if peek() == "-": pos[0] += 1
        while peek().isdigit(): pos[0] += 1
        return int(text[st:pos[0]])
    def hexb():
        eat("h")
        if peek() == "-": pos[0] += 1; return b""
        st = pos[0]
        while peek() != "" and peek() in "0123456789abcdef": pos[0] += 1
        return bytes.fromhex(text[st:pos[0]])
    def lst(f):
        eat("["); out = []
        if peek() == "]": pos[0] += 1; return out
        while True:
            out.append(f())
            if peek() == ",": pos[0] += 1
            else: eat("]"); return out
    def fixed(ds):
        eat("["); out = []
        for i, x in enumerate(ds):
            if i > 0: eat(",")
            out.append(go(x))
        eat("]"); return out
    def anyv():
        eat("v"); i = num(); eat("(")
        n = sg.ANY_KINDS[i]
        if n == "bool": p = lit("true") or (lit("false") and False)
        elif n in ("f32", "f64"): eat("f"); p = num()
        elif n in ("str", "bytes"): p = hexb()
        elif n in ("none", "unit"): lit("()"); p = ()
        elif n in ("seq", "map"): p = lst(anyv)
        elif n in ("some", "newtype"): p = anyv()
        else: p = num()
        eat(")"); return ("any", i, p)
    def go(d):
        k = d[0]
        if k == "bool": return lit("true") or (lit("false") and False)
        if k in ("u", "i", "char"): return num()
        if k in ("f32", "f64"): eat("f"); return num()
        if k in ("str", "disp", "bytes"): return hexb()
        if k in ("unit", "unitstruct", "ign"): lit("()"); return ()
        if k == "opt":
            if lit("null"): return None
            lit("some("); v = go(d[1]); eat(")"); return ("some", v)
        if k == "newtype": return go(d[1])
        if k == "seq": return lst(lambda: go(d[2]))
        if k in ("tup", "tupstruct"): return fixed(d[1])
        if k == "map":
            flat = lst(lambda: None) if False else None
            eat("["); out = []
            if peek() == "]": pos[0] += 1; return out
            while True:
                a = go(d[2]); eat(","); b = go(d[3]); out.append((a, b))
                if peek() == ",": pos[0] += 1
                else: eat("]"); return out
        if k == "struct": return fixed([x for _, x in d[1]])
        if k in ("enum", "internal", "adjacent", "untagged"):
            eat("v"); i = num(); eat("(")
            _, kind, pd = d[-1][i]
            if kind == "unit": lit("()"); p = ()
            else: p = go(pd)
            eat(")"); return ("var", i, p)
        if k == "flat": return fixed([x for _, _, x in d[1]])
        if k == "any": return anyv()
        raise ValueError(d)
    return go(d)
