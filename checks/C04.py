"""C04 — typed decoding agrees with the RFC 8949 data model on every well-formed encoding."""
from lib import *
import typegen as tg

ACCS = ["u8", "u16", "u32", "u64", "i8", "i16", "i32", "i64", "int", "char", "bool", "null", "undefined", "simple",
        "f16", "f32", "f64", "bytes", "str", "bytes_iter", "str_iter", "array", "map", "tag", "skip", "datatype"]
RULE = ("D <accessor> <hex>: every item tree with at most 3 (quick) / 4 (thorough) nodes over {uint, nint, bytes, text, chunked bytes/text, "
        "simple, f16/f32/f64, definite/indefinite array and map, tag}, serialised with every head-width assignment that is uniform per "
        "tree (minimal, 1, 2, 4, 8 bytes) plus random mixed widths, followed by a junk suffix, read through each of the 26 accessors; "
        "grammar-generated deep trees likewise. S= is spec_acc (Spec/Acc.v) on the tree the reference parser finds. DT <type> <hex>: "
        "typed decoding of re-framed encodings (random head widths, indefinite containers) of registry values, and of shape-edited "
        "well-formed items derived from registry values (wider heads, indefinite arrays/maps, chunked strings, surplus/missing/replaced "
        "elements, duplicate map keys, extra tags, narrower floats, null/undefined); S= is spec_ty_lenient (Spec/TypeSem.v, the specification: open records) on the tree the "
        "reference parser finds whenever the input is one well-formed item plus a suffix (theorem C04_types). Type confusion: encodings of values of other registry types and byte/text strings of lengths around 4/16/24 read as each type. PFX: every strict "
        "prefix of every value's encoding must fail with end of input. Non-trivial: the item is longer than one byte.")
ASSUMPTIONS = ["pointer ranges of borrowed results are checked by the harness for the four borrowed targets (&str, &ByteSlice, &CStr, &Path)",
               "narrower-float-through-wider-accessor values are checked under C12"]

def generate(tier, rng):
    big = tier == "thorough"
    out = []
    trees = []
    for n in range(1, 5 if big else 4):
        trees += list(enum_trees(n))
    if not big: trees = trees[:60] + trees[60:: 5]
    for t in trees:
        encs = {ser_tree(t)}
        for w in (1, 2, 4, 8):
            encs.add(ser_tree(t, lambda n, w=w: w))
        encs.add(ser_tree(t, lambda n: rng.choice(widths_for(n))))
        for e in encs:
            h = hexs(e + b"\x00\xff")
            for a in ACCS: out.append("D %s %s" % (a, h))
    for _ in range(3000 if big else 400):
        e = gen_item(rng, 4)
        h = hexs(e + b"\x17")
        for a in rng.sample(ACCS, 6) + ["skip", "datatype"]: out.append("D %s %s" % (a, h))
    # invalid UTF-8 in definite and chunked text (malformed stream: must be an error, C04_utf8)
    for bad in (b"\xff", b"\xc3", b"\xe2\x82", b"\xed\xa0\x80", b"\xf4\x90\x80\x80", b"\xc0\x80", b"a\x80"):
        for e in (head(3, len(bad)) + bad, b"\x7f" + head(3, 1) + b"a" + head(3, len(bad)) + bad + b"\xff"):
            for a in ("str", "str_iter", "skip"): out.append("D %s %s" % (a, hexs(e)))
    # typed decoding of re-framed encodings + prefixes
    keys = tg.REGISTRY + tg.BORROWED
    for key in keys:
        d = tg.parse_desc(key)
        for _ in range(40 if big else 8):
            v = tg.rust_order(d, tg.gen_value(d, rng))
            e1, e2 = tg.encode(d, v, rng), tg.encode(d, v)
            # a re-framed encoding of a known value: that value at the end of the item, or an error — never something else
            exp = "" if key == "systemtime" and v[1] == 1 else " =%s@%d" % (tg.canon_show(d, v), len(e1))
            out.append("DT %s %s%s" % (key, hexs(e1 + b"\x01"), exp if exp and key not in tg.LOSSY else " =?"))
            out.append("DT %s %s%s" % (key, hexs(e2), (" =%s@%d" % (tg.canon_show(d, v), len(e2))) if exp and key not in tg.LOSSY else " =?"))
        # every well-formed encoding of an item, not only the encoder's: non-preferred heads, indefinite containers, chunked
        # strings, surplus / missing / replaced elements, extra tags, wrong shapes.  S= is Spec/TypeSem.v spec_ty on the tree
        # the reference parser finds (theorem C04_types): exactly that value at the end of the item, or an error.
        for _ in range(60 if big else 12):
            v = tg.rust_order(d, tg.gen_value(d, rng))
            out.append("DT %s %s =?" % (key, hexs(tg.shape_encode(d, v, rng) + rng.choice([b"", b"\x01", b"\xff\x00"]))))
        for _ in range(12 if big else 3):
            v = tg.rust_order(d, tg.gen_value(d, rng))
            out.append("DT %s %s =?" % (key, hexs(tg.shape_encode(d, v, rng, 0.0))))    # same value, non-preferred form only
        if key in tg.REGISTRY:
            for _ in range(10 if big else 2):
                v = tg.rust_order(d, tg.gen_value(d, rng))
                out.append("PFX %s %s" % (key, tg.show(d, v)))
    # type confusion: encodings of values of one type read as another type (a non-matching type errors or, where the
    # shapes coincide, returns the same data-model value — never a different one); byte strings around the fixed lengths
    pool = []
    for key in tg.REGISTRY:
        d = tg.parse_desc(key)
        for _ in range(3 if big else 1):
            pool.append(tg.encode(d, tg.rust_order(d, tg.gen_value(d, rng)), rng if rng.random() < 0.3 else None))
    for n in (0, 1, 3, 4, 5, 15, 16, 17, 23, 24, 25, 32):
        pool.append(head(2, n) + bytes(rng.getrandbits(8) for _ in range(n)))
        pool.append(head(3, n) + b"a" * n)
    for key in tg.REGISTRY + tg.BORROWED:
        for e in rng.sample(pool, 40 if big else 12) + pool[-24:]:
            out.append("DT %s %s =?" % (key, hexs(e)))
    tw = iter_twins(out)          # Decoder::array_iter / map_iter (context-free twins of the iterators the Vec / map impls use)
    out += tw
    # … and on every strict prefix of a sample of those inputs ("every strict prefix fails with the end-of-input class")
    seen = set()
    for l in tw[:: 7 if not big else 2]:
        t = l.split()
        hi = 2 if t[0] == "AIT" else 3
        if len(t) > hi + 1 or t[hi] == "-" or len(t[hi]) > 80 or t[hi] in seen: continue
        seen.add(t[hi])
        for k in range(len(t[hi]) // 2):
            out.append(" ".join(t[:hi] + [t[hi][: 2 * k] or "-"]))
    return out

def nontrivial(line, impl):
    t = line.split()
    return len(t) >= 3 and len(t[2]) > 2

def classify(line, impl):
    t = line.split()
    return t[0] + ":" + t[1].split("(")[0] + ":" + impl.split("@")[0].split(";")[0][:12]


def _scalarish(d):
    """type descriptors for which decode-then-encode must preserve the data-model item exactly"""
    k = d[0]
    if k in ("u", "i", "nzu", "nzi", "int", "bool", "char", "f32", "f64", "str", "bytes", "bytearr", "cstr", "unit"): return True
    if k == "opt": return _scalarish(d[1])
    if k == "seq": return d[2] == "ordered" and _scalarish(d[1])
    if k == "arr": return _scalarish(d[2])
    if k == "tup": return all(_scalarish(x) for x in d[1])
    if k == "enum": return all(_scalarish(x) for x in d[1])
    # Bound is not in this list: Unbounded ignores its body ([2, any item], open records), so re-encoding normalises it;
    # Bound is decided exactly by the S= expectation (Spec/TypeSem.v)
    if k == "tagged": return _scalarish(d[2])
    return False

def oracle(line, impl):
    """C04 on typed decoding: if decoding an input as T succeeds, the bytes it consumed are exactly one well-formed item and
    (for types whose encoding is a function of the data-model value) that item has the same data-model value as the decoded
    value written back by the encoder — a matching type never returns a *different* value."""
    t = line.split()
    if t[0] != "DT" or not impl.startswith("ok:") or ";re=" not in impl: return None
    key = t[1]
    if key in ("tag",) + tuple(tg.BORROWED): return None
    pos = int(impl.split("@")[1].split(";")[0])
    start = int(t[3]) if len(t) > 3 and not t[3].startswith("=") else 0
    inp = bytes.fromhex(t[2]) if t[2] != "-" else b""
    consumed = inp[start:pos]
    a = parse_item(consumed)
    if a is None or a[1] != b"": return "decode succeeded but the %d bytes it consumed (%s) are not exactly one well-formed item" % (len(consumed), consumed.hex())
    if not _scalarish(tg.parse_desc(key)): return None
    re_hex = impl.split(";re=")[1]
    if re_hex == "refused": return None
    b = parse_item(bytes.fromhex(re_hex) if re_hex != "-" else b"")
    if b is None: return "the encoder's output for the decoded value is not a well-formed item: " + re_hex
    if a[0] != b[0]: return "decoded value re-encodes to a different data-model item: input item %r, re-encoded %r" % (a[0], b[0])
    return None
