"""C04 — typed decoding agrees with the RFC 8949 data model on every well-formed encoding."""
from lib import *
import typegen as tg

ACCS = ["u8", "u16", "u32", "u64", "i8", "i16", "i32", "i64", "int", "char", "bool", "null", "undefined", "simple",
        "f16", "f32", "f64", "bytes", "str", "bytes_iter", "str_iter", "array", "map", "tag", "skip", "datatype"]
RULE = ("D <accessor> <hex>: every item tree with at most 3 (quick) / 4 (thorough) nodes over {uint, nint, bytes, text, chunked bytes/text, "
        "simple, f16/f32/f64, definite/indefinite array and map, tag}, serialised with every head-width assignment that is uniform per "
        "tree (minimal, 1, 2, 4, 8 bytes) plus random mixed widths, followed by a junk suffix, read through each of the 26 accessors; "
        "grammar-generated deep trees likewise. S= is spec_acc (Spec/Acc.v) on the tree the reference parser finds. DT <type> <hex>: "
        "typed decoding of re-framed encodings (random head widths, indefinite containers) of registry values; PFX: every strict "
        "prefix of every value's encoding must fail with end of input. Non-trivial: the item is longer than one byte.")
ASSUMPTIONS = ["pointer ranges of borrowed results are checked by the harness for the four borrowed targets (&str, &ByteSlice, &CStr, &Path)",
               "narrower-float-through-wider-accessor values are checked under C12"]

def generate(tier, rng):
    big = tier == "thorough"
    out = []
    trees = []
    for n in range(1, 5 if big else 4):
        trees += list(enum_trees(n))
    if not big: trees = trees[:60] + trees[60:: 5]
    for t in trees:
        encs = {ser_tree(t)}
        for w in (1, 2, 4, 8):
            encs.add(ser_tree(t, lambda n, w=w: w))
        encs.add(ser_tree(t, lambda n: rng.choice(widths_for(n))))
        for e in encs:
            h = hexs(e + b"\x00\xff")
            for a in ACCS: out.append("D %s %s" % (a, h))
    for _ in range(3000 if big else 400):
        e = gen_item(rng, 4)
        h = hexs(e + b"\x17")
        for a in rng.sample(ACCS, 6) + ["skip", "datatype"]: out.append("D %s %s" % (a, h))
    # invalid UTF-8 in definite and chunked text (malformed stream: must be an error, C04_utf8)
    for bad in (b"\xff", b"\xc3", b"\xe2\x82", b"\xed\xa0\x80", b"\xf4\x90\x80\x80", b"\xc0\x80", b"a\x80"):
        for e in (head(3, len(bad)) + bad, b"\x7f" + head(3, 1) + b"a" + head(3, len(bad)) + bad + b"\xff"):
            for a in ("str", "str_iter", "skip"): out.append("D %s %s" % (a, hexs(e)))
    # typed decoding of re-framed encodings + prefixes
    keys = tg.REGISTRY + tg.BORROWED
    for key in keys:
        d = tg.parse_desc(key)
        for _ in range(40 if big else 8):
            v = tg.rust_order(d, tg.gen_value(d, rng))
            out.append("DT %s %s" % (key, hexs(tg.encode(d, v, rng) + b"\x01")))
            out.append("DT %s %s" % (key, hexs(tg.encode(d, v))))
        if key in tg.REGISTRY:
            for _ in range(10 if big else 2):
                v = tg.rust_order(d, tg.gen_value(d, rng))
                out.append("PFX %s %s" % (key, tg.show(d, v)))
    return out

def nontrivial(line, impl):
    t = line.split()
    return len(t) >= 3 and len(t[2]) > 2

def classify(line, impl):
    t = line.split()
    return t[0] + ":" + t[1].split("(")[0] + ":" + impl.split("@")[0].split(";")[0][:12]
