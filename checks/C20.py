"""C20 — same behaviour in every feature configuration, up to the documented differences."""
import os, subprocess, shutil
from lib import *
import typegen as tg

CONFIGS = {"-": "", "a": "alloc", "s": "std", "h": "half", "ah": "alloc,half", "sh": "std,half"}
ACCS = ["u8", "u16", "u32", "u64", "i8", "i16", "i32", "i64", "int", "char", "bool", "null", "undefined", "simple",
        "f16", "f32", "f64", "bytes", "str", "bytes_iter", "str_iter", "array", "map", "tag", "skip", "datatype"]
TYPES = ["u8", "u64", "i16", "i64", "usize", "isize", "int", "bool", "char", "f32", "f64", "nzu8", "nzi64", "strref", "bytesref", "bytearr4", "cstrref",
         "unit", "opt(u8)", "opt(opt(u8))", "result(u8,i8)", "arr0(u8)", "arr3(u16)", "arr2(opt(u8))", "tup(u8,i8)", "tup(u8,u8,u8,u8)", "range(u8)",
         "rangefrom(u32)", "rangeincl(i16)", "bound(i32)", "duration", "tag", "tagged7(u8)", "tagged24(opt(u8))", "cell(u16)", "wrapping(u8)",
         "seq(u8)", "string", "seq(range(u8))"]
LEN_TYPES = ["u8", "u64", "i64", "int", "char", "bool", "f32", "f64", "opt(u8)", "arr3(u16)", "tup(u8,i8)", "range(u8)", "bound(i32)", "duration",
             "tagged7(u8)", "unit", "tag", "strref", "bytesref"]
RULE = ("The same deterministic corpus (well-formed items with all head widths and indefinite forms, mutated and truncated items, short random "
        "inputs) is fed to six separately built binaries, minicbor with {no features, alloc, std} x {half, -}: every Decoder accessor (CD), "
        "typed decodes of the types present in every configuration (CT), Encoder methods into a slice (CE), decode + cbor_len + re-encode "
        "(CL), and the serde bridge's serialise / deserialise on C17's type family (CSER, CDES; minicbor-serde built with the same feature sets). Each binary is compared with the extracted model *evaluated at that configuration* (so the never-compiled "
        "#[cfg(not(feature = \"alloc\"))] code is executed and tied to its model), and the six transcripts are compared with each other "
        "line by line: equal, or one of the documented differences (no-alloc skip / unknown-field skip refusing an indefinite container "
        "nested in a definite one with a message error; no-half f16 items a type error; operations absent from a configuration). "
        "Non-trivial: input longer than one byte.")
ASSUMPTIONS = ["the harness binaries themselves use std (and serde with std) for value parsing/printing; only the features of minicbor and minicbor-serde vary",
               "message texts are not compared (static vs formatted messages are a documented difference)"]
_BIN = {}

def prepare(tier, rng, root, cache):
    src = os.path.join(root, "harness-cfg")
    shutil.copyfile("/repo/Cargo.lock", os.path.join(src, "Cargo.lock"))
    logs, ok, bins = [], True, {}
    env = dict(os.environ, CARGO_NET_OFFLINE="true")
    procs = []
    for key, feats in CONFIGS.items():
        tdir = os.path.join(cache, "cfg-target", "cfg_" + feats.replace(",", "_"))
        env2 = dict(env, CARGO_TARGET_DIR=tdir)
        procs.append((key, tdir, subprocess.Popen(["timeout", "1500", "cargo", "build", "--offline", "--features", feats], cwd=src, env=env2,
                                                  stdout=subprocess.PIPE, stderr=subprocess.STDOUT)))
    for key, tdir, p in procs:
        out, _ = p.communicate()
        b = os.path.join(tdir, "debug", "harness-cfg")
        if p.returncode != 0 or not os.path.exists(b):
            ok = False; logs.append("configuration %r does not build: %s" % (key, out.decode(errors="replace")[-600:]))
        bins["cfg:" + key] = b
    return ok, "\n".join(logs), bins

def route(line):
    return "cfg:" + line.split()[-1]

def corpus(tier, rng):
    big = tier == "thorough"
    items = []
    for n in range(1, 4):
        for t in list(enum_trees(n))[:: (1 if big else 3)]:
            items.append(ser_tree(t))
            items.append(ser_tree(t, lambda n: rng.choice(widths_for(n))))
    for _ in range(2000 if big else 300):
        e = gen_item(rng, 3)
        items.append(e)
        items.append(mutate(rng, e))
        items.append(e[: rng.randrange(0, len(e) + 1)])
    # indefinite containers nested in definite ones (the documented no-alloc difference)
    for inner in (b"\x9f\xff", b"\xbf\xff", b"\x9f\x01\x02\xff", b"\xbf\x01\x9f\xff\xff"):
        for outer in (lambda x: b"\x82\x01" + x, lambda x: b"\x81" + x, lambda x: b"\xa1\x01" + x, lambda x: b"\x83" + x + b"\x01\x02", lambda x: b"\x9f" + x + b"\xff",
                      lambda x: b"\x82" + x + x, lambda x: b"\xc1\x81" + x):
            items.append(outer(inner))
    items += [bytes([a]) for a in range(256)] + [bytes([a, b]) for a in range(0, 256, 5) for b in (0, 0x17, 0x18, 0x7f, 0x80, 0xf9, 0xff)]
    return items

def generate(tier, rng):
    out = []
    items = corpus(tier, rng)
    for i, e in enumerate(items):
        h = hexs(e + b"\x00")
        accs = ["skip", "datatype", "f16", "f32", "f64"] + [ACCS[(i + k) % len(ACCS)] for k in range(3)]
        tys = [TYPES[(i * 5 + k) % len(TYPES)] for k in range(3)] + ["opt(u8)", "range(u8)", "seq(range(u8))"]
        for c in CONFIGS:
            for a in accs: out.append("CD %s %s 0 %s" % (a, h, c))
            for t in tys: out.append("CT %s %s 0 %s" % (t, h, c))
            out.append("CL %s %s %s" % (LEN_TYPES[i % len(LEN_TYPES)], hexs(e), c))
    # matching (type, encoding) pairs, preferred and re-framed, so that the typed decodes mostly succeed
    for key in TYPES + LEN_TYPES:
        if key in ("strref", "bytesref", "cstrref"): d = tg.parse_desc({"strref": "string", "bytesref": "bytevec", "cstrref": "cstring"}[key])
        else: d = tg.parse_desc(key)
        for _ in range(40 if tier == "thorough" else 8):
            v = tg.gen_value(d, rng)
            for e in (tg.encode(d, v), tg.encode(d, v, rng)):
                h = hexs(e)
                for c in CONFIGS:
                    if key in TYPES: out.append("CT %s %s 0 %s" % (key, hexs(e + b"\x00"), c))
                    if key in LEN_TYPES: out.append("CL %s %s %s" % (key, h, c))
    # counters of the two skip twins at the 2^16 boundary (the no-alloc twin counts open indefinite containers itself)
    for d in (65535, 65536, 65537):
        for e in (b"\x9f" * d + b"\xff" * d, b"\xbf\x00" * d + b"\x00" + b"\xff" * d):
            for c in CONFIGS: out.append("CD skip %s 0 %s" % (hexs(e + b"\x00"), c))
    # unknown fields inside field structs: skip of an indefinite item in position >= arity
    for extra in (b"\x9f\xff", b"\xbf\xff", b"\x5f\x41\x01\xff", b"\x7f\xff", b"\x80", b"\x9f\x9f\xff\xff"):
        for enc in (b"\x83\x01\x02" + extra, b"\x9f\x01\x02" + extra + b"\xff", b"\x84\x01\x02" + extra + extra):
            for c in CONFIGS:
                out.append("CT range(u8) %s 0 %s" % (hexs(enc), c))
                out.append("CT duration %s 0 %s" % (hexs(enc), c))
    # the serde bridge (minicbor-serde built with the same feature sets): C17's stream, every configuration
    import C17 as c17
    lines = c17.generate("quick", rng)
    step = 2 if tier == "thorough" else 9
    for l in lines[:: step] + [x for x in lines if x.startswith(("SER disp", "DE any", "SER iseq", "SER imap"))][:: 3]:
        t = l.split()
        if t[0] not in ("SER", "DE") or len(t) != 3: continue
        for c in CONFIGS:
            out.append("%s %s %s %s" % ("CSER" if t[0] == "SER" else "CDES", t[1], t[2], c))
    for b in ("5f4101ff", "7f6161ff", "7fff", "5fff", "f93c00", "f97e00", "817f6161ff", "a17f6161ff01", "82f93c00f6"):
        for key in ("any", "string", "bytebuf", "f32", "f64", "ign", "opt(string)"):
            for c in CONFIGS: out.append("CDES %s %s %s" % (key, b, c))
    for m, vals in (("u8", [0, 23, 24, 255]), ("u16", [255, 256, 65535]), ("u32", [65535, 65536, (1 << 32) - 1]), ("u64", [1 << 32, U64]),
                    ("i8", [-128, -25, -24, -1, 127]), ("i64", [-(1 << 63), -(1 << 32) - 1]), ("int", [-(1 << 64), U64]), ("simple", [0, 19, 20, 23, 24, 31, 32, 255]),
                    ("char", [0x41, 0x10ffff]), ("f32", [0, 0x7fc00000, 0x3f800000]), ("f64", [0, 1 << 63]), ("f16", [0x3f800000, 0x7f800000, 0x33800000, 0x477ff000]),
                    ("tag", [0, 24, U64]), ("array", [0, 23, 24, U64]), ("map", [0, 255, 256])):
        for v in vals:
            for c in CONFIGS: out.append("CE %s %d %s" % (m, v, c))
    for c in CONFIGS:
        out.append("CE bool true %s" % c); out.append("CE bytes 010203 %s" % c); out.append("CE str c3a9 %s" % c)
    return out

def nontrivial(line, impl):
    t = line.split()
    return len(t) >= 4 and len(t[2]) > 4 and impl != "absent"

def classify(line, impl):
    t = line.split()
    main = impl.split(";")[1] if t[0] == "CSER" and ";" in impl else impl
    return t[0] + ":" + t[-1] + ":" + main.split("@")[0].split(":")[0][:10]

def cross_check(cases, impl, model):
    """Transcripts of the six configurations, line by line: equal, or a documented difference.  A difference counts as
    documented only where the model evaluated at that configuration predicts it as well (the model's cross-configuration
    differences are exactly the documented ones: Props/C20.v), and has the documented form."""
    groups = {}
    for line, res, mod in zip(cases, impl, model):
        t = line.split()
        ep = [x[3:] for x in res.split("\t")[1:] if x.startswith("EP=")]
        groups.setdefault(" ".join(t[:-1]), {})[t[-1]] = (res.split("\t")[0], mod.split("\t")[0], ep[0] if ep else None)
    bad = []
    for key, per in groups.items():
        present = {c: r for c, r in per.items() if r[0] != "absent"}
        if len(present) < 2: continue
        ref_c = "sh" if "sh" in present else sorted(present)[0]
        ref, ref_m, ref_ep = present[ref_c]
        for c, (r, m, ep) in present.items():
            if r == ref:
                # same outcome: an error must also report the same position for itself (Error::position) in every configuration
                if ep is not None and ref_ep is not None and ep != ref_ep:
                    bad.append((key + " " + c, "configuration %r reports error position %s but %r reports %s (same error class %s)" % (c, ep, ref_c, ref_ep, r)))
                continue
            def documented(cfg, res, mod):
                if res != mod: return False          # not what the proved model predicts at this configuration
                if "a" not in cfg and "s" not in cfg and res.startswith("err:message"): return True
                # the bridge without alloc rejects indefinite-length strings under deserialize_any and refuses collect_str
                if "a" not in cfg and "s" not in cfg and (res.startswith("err:type:indefinite_") or res.startswith("refused")): return True
                if "h" not in cfg and res.startswith("err:type:f16"): return True
                return False
            if documented(c, r, m) or documented(ref_c, ref, ref_m): continue
            bad.append((key + " " + c, "configuration %r gives %s but %r gives %s" % (c, r, ref_c, ref)))
    return bad
