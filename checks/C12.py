"""C12 — floating-point values survive bit-exactly; half precision converts per IEEE 754."""
import struct
from lib import *

SPEC_FLAT = True
# thorough tier: also the Flocq cross-check of the specification (depends on the stdlib's classical real-number axioms, allowlisted)
THOROUGH_EXTRA_PROPS = ["C12_flocq"]

RULE = ("F16D h: the item f9 hh hh read through Decoder::f16/f32/f64 and the f16 result re-encoded with Encoder::f16 — all 65536 half "
        "patterns on every run. F16E x: Encoder::f16 on an f32 pattern — for both signs and every one of the 256 exponents the mantissas "
        "0,1,0xfff,0x1000,0x1001,0x1fff,0x2000,0x3000,0x7fffff and the rounding ties +-1 (normal results: bit 12 set above an even/odd "
        "kept mantissa; subnormal results: the tie of every shift 14..24; the 65504/65520/65536 overflow edge). F16EBLK start count: FNV-1a "
        "hash over count consecutive f32 patterns (stratified: every sign x exponent, runs of 256 mantissas straddling multiples of 0x1000 and "
        "at seeded random offsets; 2^20 patterns quick, 2^24 thorough); a block whose hash differs from the model's or the specification's is "
        "expanded into per-value F16E cases. F16EORA start count (thorough only): the harness' reference oracle alone over all 2^32 operands. FRT32/FRT64 x [rest]: Encoder::f32/f64 then the same-width, the wider and the narrower "
        "accessors — every exponent x boundary mantissas, NaN payloads (quiet and signalling), every f32 boundary value widened to f64, the "
        "f32-representability edge of the f64 mantissa (bits 28/29), seeded random patterns; a third of the cases carry trailing bytes. "
        "Model results are compared textually; S= is computed from Spec/Float16.v (exact-value widening, rne16) and Spec/Cbor.v (framing); "
        "O= is the harness' own reference arithmetic (exact f64 products built from the IEEE fields; nearest-even by comparing with both "
        "neighbours). Non-trivial: everything except +0 (F16D/FRT) and, for F16E, inputs whose conversion is exact and in the normal range.")
ASSUMPTIONS = ["x86-64: f32/f64 values pass through function arguments and Result<f32,_> without NaN canonicalisation (SSE registers)",
               "half 2.7.1 is built with default-features = false (no std => no runtime f16c detection) and without -C target-feature=+f16c, "
               "so the software fall-backs transliterated in Model/Half.v are the code that runs; the exhaustive F16D sweep and the f32 "
               "sweeps validate the model against whatever path the build actually uses",
               "the payload of a NaN widened by f64::from(f32) is platform-defined: both sides print widened NaNs as 'nan'",
               "f64 arithmetic of the host (products of an integer < 2^53 and a power of two, subtraction of nearby values) is exact; "
               "it carries the harness oracle only, not the proofs"]

MANT = [0, 1, 0x0fff, 0x1000, 0x1001, 0x1fff, 0x2000, 0x3000, 0x7fffff, 0x7fe000, 0x7fefff, 0x7ff000, 0x7ff001, 0x400000, 0x3fffff, 0x7fdfff]

def f32_boundaries():
    """f32 magnitudes (sign clear) dense on everything Encoder::f16 distinguishes."""
    out = set()
    for e in range(256):
        for m in MANT: out.add((e << 23) | m)
        # ties of a normal result: kept mantissa k (even / odd), bit 12 set, rest zero; and +-1
        for k in (0, 1, 2, 0x1ff, 0x200, 0x3fe, 0x3ff):
            for d in (-1, 0, 1):
                m = (k << 13) + 0x1000 + d
                if 0 <= m < (1 << 23): out.add((e << 23) | m)
    # ties of a subnormal result: exponent field 102..112 shifts the 24-bit significand by s = 126 - e
    for e in range(100, 114):
        s = 126 - e
        lo, hi = (1 << 23) >> s, (1 << 24) >> s
        for q in {lo, lo + 1, lo + 2, (lo + hi) // 2, hi - 2, hi - 1}:
            for d in (-1, 0, 1):
                M = (q << s) + (1 << (s - 1)) + d
                if (1 << 23) <= M < (1 << 24): out.add((e << 23) | (M - (1 << 23)))
    # the overflow edge: 65504, just below 65520, 65520, just above, 65536
    out |= {0x477fe000, 0x477fefff, 0x477ff000, 0x477ff001, 0x47800000, 0x477fffff, 0x477fdfff}
    # smallest subnormal half 2^-24, half of it (tie to zero), just above, smallest normal half 2^-14 and its predecessor
    out |= {0x33800000, 0x33000000, 0x33000001, 0x32ffffff, 0x38800000, 0x387fffff, 0x387fe000, 0x387ff000}
    return sorted(out)

def nan32(rng, n):
    pay = [1, 2, 0x1fff, 0x2000, 0x3fffff, 0x400000, 0x400001, 0x7fffff, 0x200000, 0x555555, 0x2aaaaa]
    pay += [rng.randrange(1, 1 << 23) for _ in range(n)]
    return [0x7f800000 | p for p in pay]

def widen32(x):
    """the f64 pattern of a non-NaN f32 pattern (exact)"""
    return struct.unpack(">Q", struct.pack(">d", struct.unpack(">f", struct.pack(">I", x))[0]))[0]

RESTS = ["", "", "00", "ff", "f97e00", "fa7fc00000"]

def blocks(tier, rng):
    """stratified F16EBLK lines: every sign x exponent, runs of 256 consecutive mantissas"""
    per = 8 if tier == "quick" else 128
    out = []
    for hi in range(512):                      # sign and exponent
        base = hi << 23
        starts = set()
        while len(starts) < per // 2:          # straddling a multiple of 0x1000 (where bit 12 / the tie changes)
            starts.add(max(0, min((1 << 23) - 256, rng.randrange(0, 1 << 11) * 0x1000 - 128)))
        starts |= {0, (1 << 23) - 256}
        while len(starts) < per:
            starts.add(rng.randrange(0, (1 << 23) - 256))
        for st in sorted(starts): out.append("F16EBLK %d 256" % (base + st))
    return out

def generate(tier, rng):
    big = tier == "thorough"
    out = ["F16D %d" % h for h in range(65536)]
    mags = f32_boundaries()
    nans = nan32(rng, 200 if big else 40)
    for x in mags + nans:
        out.append("F16E %d" % x)
        out.append("F16E %d" % (x | 0x80000000))
    nr = 100000 if big else 20000
    out += ["F16E %d" % rng.getrandbits(32) for _ in range(nr // 4)]
    # most random operands in the exponent range where the result is neither 0 nor infinity
    out += ["F16E %d" % ((rng.getrandbits(1) << 31) | (rng.randrange(100, 145) << 23) | rng.getrandbits(23)) for _ in range(nr - nr // 4)]
    out += blocks(tier, rng)
    # f32 round trips
    frt = set()
    for x in mags + nans: frt |= {x, x | 0x80000000}
    frt |= {rng.getrandbits(32) for _ in range(60000 if big else 15000)}
    for i, x in enumerate(sorted(frt)):
        r = RESTS[i % len(RESTS)]
        out.append("FRT32 %d%s" % (x, " " + r if r else ""))
    # f64 round trips
    f64 = set()
    for x in mags:
        w = widen32(x)
        f64 |= {w, w | (1 << 63)}
        if 0 < (x >> 23) < 255 and len(f64) < 40000:    # neighbours that are no longer f32-representable
            f64 |= {w + 1, w | (1 << 28), (w - 1) if w & 0xfffffff == 0 and w > 0 else w}
    M64 = [0, 1, (1 << 28), (1 << 29) - 1, (1 << 29), (1 << 51), (1 << 52) - 1, (1 << 51) + 1, 0x000fffffe0000000]
    for e in range(2048):
        for m in M64:
            for s in (0, 1): f64.add((s << 63) | (e << 52) | m)
    for p in (1, 1 << 51, (1 << 51) - 1, (1 << 52) - 1, 0x5555555555555, 0x8000000000001):
        for s in (0, 1): f64.add((s << 63) | (0x7ff << 52) | p)
    f64 |= {rng.getrandbits(64) for _ in range(60000 if big else 15000)}
    for i, x in enumerate(sorted(f64)):
        r = RESTS[i % len(RESTS)]
        out.append("FRT64 %d%s" % (x, " " + r if r else ""))
    if big:
        # the harness' reference oracle over all 2^32 operands, in 4096 ranges of 2^20 spread evenly through the
        # case list so that bin/check's contiguous shards share the work
        step = max(1, len(out) // 4096)
        mixed = []
        k = 0
        for i, l in enumerate(out):
            if i % step == 0 and k < 4096:
                mixed.append("F16EORA %d %d" % (k << 20, 1 << 20)); k += 1
            mixed.append(l)
        while k < 4096:
            mixed.append("F16EORA %d %d" % (k << 20, 1 << 20)); k += 1
        out = mixed
    return out

def expand(line, impl, model, spec):
    t = line.split()
    if t[0] == "F16EORA": return ["F16E " + impl.split(":")[1]] if impl.startswith("failed:") else None
    if t[0] != "F16EBLK": return None
    st, n = int(t[1]), int(t[2])
    return ["F16E %d" % x for x in range(st, st + n)]

def _cls(e, m, emax):
    return "nan" if e == emax and m else "inf" if e == emax else "zero" if e == 0 and m == 0 else "subnormal" if e == 0 else "normal"

def nontrivial(line, impl):
    t = line.split()
    if t[0] in ("F16EBLK", "F16EORA"): return True
    x = int(t[1])
    if t[0] == "F16E":
        e = (x >> 23) & 255
        return (x & 0x1fff) != 0 or not (113 <= e <= 142)
    return x != 0

def classify(line, impl):
    t = line.split()
    if t[0] in ("F16EBLK", "F16EORA"): return t[0]
    x = int(t[1])
    if t[0] == "F16D": return "F16D/" + _cls((x >> 10) & 31, x & 1023, 31)
    if t[0] == "F16E":
        src = _cls((x >> 23) & 255, x & 0x7fffff, 255)
        try:
            h = int(impl.split("|")[1], 16)
            dst = _cls((h >> 10) & 31, h & 1023, 31)
        except (IndexError, ValueError):
            dst = "?"
        return "F16E/%s->%s" % (src, dst)
    if t[0] == "FRT32": return "FRT32/" + _cls((x >> 23) & 255, x & 0x7fffff, 255) + ("+rest" if len(t) > 2 else "")
    if t[0] == "FRT64": return "FRT64/" + _cls((x >> 52) & 2047, x & ((1 << 52) - 1), 2047) + ("+rest" if len(t) > 2 else "")
    return t[0]
