"""Shared case generators (see DESIGN.md 4.1). Every random choice comes from the rng passed in."""
U64 = (1 << 64) - 1

def boundaries(maxv=U64, minv=0):
    s = set()
    for k in range(0, 65):
        for d in range(-3, 4):
            v = (1 << k) + d
            if minv <= v <= maxv: s.add(v)
            if minv <= -v <= maxv: s.add(-v)
    for v in (0, 1, 22, 23, 24, 25, 254, 255, 256, 257, minv, maxv, minv + 1, maxv - 1):
        if minv <= v <= maxv: s.add(v)
    return sorted(s)

def rand_ints(rng, n, minv, maxv):
    out = []
    for _ in range(n):
        k = rng.randrange(1, 66)
        v = rng.getrandbits(k)
        if rng.random() < 0.5 and minv < 0: v = -v - 1
        out.append(max(minv, min(maxv, v)))
    return out

def hexs(b): return b.hex() if b else "-"

def head(mt, n, width=None):
    """CBOR head for major type mt with argument n; width in {0,1,2,4,8} or None for minimal."""
    if width is None:
        width = 0 if n < 24 else 1 if n < 256 else 2 if n < 65536 else 4 if n < (1 << 32) else 8
    if width == 0:
        assert n < 24; return bytes([mt * 32 + n])
    code = {1: 24, 2: 25, 4: 26, 8: 27}[width]
    return bytes([mt * 32 + code]) + n.to_bytes(width, "big")

WIDTHS = (0, 1, 2, 4, 8)
def widths_for(n):
    return [w for w in WIDTHS if (w == 0 and n < 24) or (w > 0 and n < (1 << (8 * w)))]

def utf8_samples(rng, n):
    alphabet = ["a", "Z", "0", " ", "é", "ß", "€", "한", "𝄞", "\u0000", "\u007f", "\u0080", "߿", "ࠀ", "￿", "\U00010000", "\U0010ffff"]
    out = []
    for _ in range(n):
        k = rng.choice([0, 1, 2, 3, 5, 8, 23, 24, 30])
        out.append("".join(rng.choice(alphabet) for _ in range(k)).encode("utf-8"))
    return out

# ---- random well-formed item trees as bytes (structure-aware generator) ----
def gen_item(rng, depth, allow_indef=True, minimal=False):
    """Returns bytes of one well-formed item. minimal=True: preferred widths only."""
    def hd(mt, n):
        if minimal: return head(mt, n)
        return head(mt, n, rng.choice(widths_for(n)))
    kind = rng.randrange(0, 12 if depth > 0 else 7)
    if kind == 0: return hd(0, rng.choice([0, 1, 23, 24, 255, 256, 65535, 65536, (1 << 32) - 1, 1 << 32, U64, rng.getrandbits(rng.randrange(1, 65))]))
    if kind == 1: return hd(1, rng.choice([0, 23, 24, 127, 128, 255, 256, 32767, 32768, 65535, (1 << 31) - 1, 1 << 31, (1 << 63) - 1, 1 << 63, U64, rng.getrandbits(rng.randrange(1, 65))]))
    if kind == 2:
        b = bytes(rng.getrandbits(8) for _ in range(rng.choice([0, 1, 2, 5, 23, 24])))
        if allow_indef and rng.random() < 0.25:
            parts = [bytes(rng.getrandbits(8) for _ in range(rng.randrange(0, 4))) for _ in range(rng.randrange(0, 4))]
            return b"\x5f" + b"".join(hd(2, len(p)) + p for p in parts) + b"\xff"
        return hd(2, len(b)) + b
    if kind == 3:
        if allow_indef and rng.random() < 0.25:
            parts = utf8_samples(rng, rng.randrange(0, 4))
            return b"\x7f" + b"".join(hd(3, len(p)) + p for p in parts) + b"\xff"
        s = utf8_samples(rng, 1)[0]
        return hd(3, len(s)) + s
    if kind == 4: return bytes([0xe0 + rng.choice(list(range(0, 24)))]) if rng.random() < 0.8 else bytes([0xf8, rng.randrange(32, 256)])
    if kind == 5: return bytes([0xf4 + rng.randrange(0, 4)])
    if kind == 6:
        w = rng.choice([2, 4, 8])
        return bytes([{2: 0xf9, 4: 0xfa, 8: 0xfb}[w]]) + bytes(rng.getrandbits(8) for _ in range(w))
    if kind in (7, 8):
        n = rng.choice([0, 1, 2, 3, 4])
        items = [gen_item(rng, depth - 1, allow_indef, minimal) for _ in range(n)]
        if allow_indef and rng.random() < 0.35: return b"\x9f" + b"".join(items) + b"\xff"
        return hd(4, n) + b"".join(items)
    if kind in (9, 10):
        n = rng.choice([0, 1, 2, 3])
        items = [gen_item(rng, depth - 1, allow_indef, minimal) for _ in range(2 * n)]
        if allow_indef and rng.random() < 0.35: return b"\xbf" + b"".join(items) + b"\xff"
        return hd(5, n) + b"".join(items)
    return hd(6, rng.choice([0, 1, 23, 24, 255, 256, 65536, 1 << 32, U64, rng.getrandbits(16)])) + gen_item(rng, depth - 1, allow_indef, minimal)

def mutate(rng, b):
    """Type-directed-ish mutation of a valid encoding (malformed stream)."""
    b = bytearray(b)
    if not b: return bytes([rng.getrandbits(8)])
    k = rng.randrange(0, 6)
    i = rng.randrange(0, len(b))
    if k == 0: b[i] = rng.getrandbits(8)
    elif k == 1: b[i] ^= 1 << rng.randrange(0, 8)
    elif k == 2: del b[i]
    elif k == 3: b.insert(i, rng.choice([0xff, 0x9f, 0xbf, 0x5f, 0x7f, 0x1b, 0x3b, 0x5b, 0x9b, 0xbb, 0xdb, rng.getrandbits(8)]))
    elif k == 4: b = b[:i]
    else: b[i] = (b[i] & 0xe0) | rng.choice([24, 25, 26, 27, 28, 31, 0, 23])
    return bytes(b)

# ---- exhaustive small item trees (abstract syntax) ----
# tree := ("u", n) | ("n", n) | ("b", bytes) | ("t", bytes) | ("bi", [bytes..]) | ("ti", [bytes..]) | ("s", n) | ("f", width, bits)
#       | ("a", [tree..]) | ("ai", [tree..]) | ("m", [tree..]) (even) | ("mi", [tree..]) | ("g", tagno, tree)
LEAVES = [("u", 0), ("u", 24), ("n", 0), ("n", 255), ("b", b""), ("b", b"\x01"), ("t", b"a"), ("t", b"\xc3\xa9"),
          ("bi", []), ("bi", [b"\x01", b""]), ("ti", [b"a", b"bc"]), ("s", 20), ("s", 22), ("s", 16), ("s", 255),
          ("f", 2, 0x3c00), ("f", 4, 0x3f800000), ("f", 8, 0x3ff0000000000000)]

def enum_trees(nodes, leaves=LEAVES):
    """All trees with exactly `nodes` nodes (containers and tags count 1, leaves 1)."""
    if nodes == 1:
        for l in leaves: yield l
        for k in ("a", "ai", "m", "mi"): yield (k, [])
        return
    def seqs(total, parts):
        if parts == 0:
            if total == 0: yield []
            return
        for first in range(1, total - parts + 2):
            for t in enum_trees(first, leaves):
                for rest in seqs(total - first, parts - 1):
                    yield [t] + rest
    for t in enum_trees(nodes - 1, leaves): yield ("g", 1, t)
    for parts in range(1, nodes):
        for s in seqs(nodes - 1, parts):
            yield ("a", s); yield ("ai", s)
            if parts % 2 == 0: yield ("m", s); yield ("mi", s)

def ser_tree(t, pick=None):
    """pick(n) -> width for a head with argument n (None = minimal)."""
    def hd(mt, n): return head(mt, n, pick(n) if pick else None)
    k = t[0]
    if k == "u": return hd(0, t[1])
    if k == "n": return hd(1, t[1])
    if k == "b": return hd(2, len(t[1])) + t[1]
    if k == "t": return hd(3, len(t[1])) + t[1]
    if k == "bi": return b"\x5f" + b"".join(hd(2, len(c)) + c for c in t[1]) + b"\xff"
    if k == "ti": return b"\x7f" + b"".join(hd(3, len(c)) + c for c in t[1]) + b"\xff"
    if k == "s":
        # RFC 8949 3.3: simple values 24..31 do not exist (f8 00..f8 1f is not well-formed); the reference has nothing to write
        if 24 <= t[1] < 32: raise ValueError("simple(%d) has no well-formed encoding" % t[1])
        return bytes([0xe0 + t[1]]) if t[1] < 24 else bytes([0xf8, t[1]])
    if k == "f": return bytes([{2: 0xf9, 4: 0xfa, 8: 0xfb}[t[1]]]) + t[2].to_bytes(t[1], "big")
    if k == "a": return hd(4, len(t[1])) + b"".join(ser_tree(x, pick) for x in t[1])
    if k == "ai": return b"\x9f" + b"".join(ser_tree(x, pick) for x in t[1]) + b"\xff"
    if k == "m": return hd(5, len(t[1]) // 2) + b"".join(ser_tree(x, pick) for x in t[1])
    if k == "mi": return b"\xbf" + b"".join(ser_tree(x, pick) for x in t[1]) + b"\xff"
    if k == "g": return hd(6, t[1]) + ser_tree(t[2], pick)
    raise ValueError(t)


# ---- a small CBOR data-model parser (for plugin-side oracles): bytes -> (item, rest) or None ----
import struct
def parse_item(b, depth=0):
    """Data-model value of the first well-formed item of b: ints by value, strings with chunks concatenated, arrays and
    maps regardless of definiteness, floats by numeric value (NaN collapsed). Returns (item, remaining bytes) or None."""
    if not b or depth > 200: return None
    ib, mt, ai = b[0], b[0] >> 5, b[0] & 31
    r = b[1:]
    def arg():
        nonlocal r
        if ai < 24: return ai
        w = {24: 1, 25: 2, 26: 4, 27: 8}.get(ai)
        if w is None or len(r) < w: return None
        n = int.from_bytes(r[:w], "big"); r = r[w:]; return n
    if mt == 7:
        if ai < 24: return (("s", ai), r)
        if ai == 24: return ((("s", r[0]), r[1:]) if r and r[0] >= 32 else None)
        if ai in (25, 26, 27):
            w = {25: 2, 26: 4, 27: 8}[ai]
            if len(r) < w: return None
            v = struct.unpack({2: ">e", 4: ">f", 8: ">d"}[w], r[:w])[0]
            return (("f", "nan" if v != v else struct.pack(">d", v)), r[w:])
        return None
    if ai == 31:
        if mt in (2, 3):
            acc = b""
            while True:
                if not r: return None
                if r[0] == 0xff: return (("b" if mt == 2 else "t", acc), r[1:])
                if r[0] >> 5 != mt or r[0] & 31 == 31: return None
                x = parse_item(r, depth + 1)
                if x is None: return None
                acc += x[0][1]; r = x[1]
        if mt in (4, 5):
            items = []
            while True:
                if not r: return None
                if r[0] == 0xff:
                    if mt == 5 and len(items) % 2: return None
                    return (("a" if mt == 4 else "m", items), r[1:])
                x = parse_item(r, depth + 1)
                if x is None: return None
                items.append(x[0]); r = x[1]
        return None
    n = arg()
    if n is None: return None
    if mt == 0: return (("i", n), r)
    if mt == 1: return (("i", -1 - n), r)
    if mt in (2, 3):
        if len(r) < n: return None
        return (("b" if mt == 2 else "t", bytes(r[:n])), r[n:])
    if mt in (4, 5):
        cnt = n if mt == 4 else 2 * n
        if cnt > len(r): return None
        items = []
        for _ in range(cnt):
            x = parse_item(r, depth + 1)
            if x is None: return None
            items.append(x[0]); r = x[1]
        return (("a" if mt == 4 else "m", items), r)
    x = parse_item(r, depth + 1)
    if x is None: return None
    return (("g", n, x[0]), x[1])


# ---- twins of DT cases for the context-free typed iterators Decoder::array_iter / map_iter (AIT / MIT ops)
AIT_ELEMS = {"seq(u8)": "u8", "seq(opt(u16))": "opt(u16)", "seq(seq(i8))": "seq(i8)", "seq(string)": "string",
             "seq(tup(u8,string))": "tup(u8,string)", "seq(result(u8,string))": "result(u8,string)"}
MIT_PAIRS = {"bmap(u8,string)": ("u8", "string"), "bmap(string,seq(u8))": ("string", "seq(u8)")}
def iter_twins(lines):
    out = []
    for l in lines:
        t = l.split()
        if t[0] != "DT": continue
        rest = [x for x in t[3:] if not x.startswith("=")]
        if t[1] in AIT_ELEMS: out.append(" ".join(["AIT", AIT_ELEMS[t[1]], t[2]] + rest))
        elif t[1] in MIT_PAIRS: out.append(" ".join(["MIT", MIT_PAIRS[t[1]][0], MIT_PAIRS[t[1]][1], t[2]] + rest))
    return out
