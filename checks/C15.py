"""C15 — AsyncReader is cancellation-safe: no frame lost, duplicated or torn."""
from lib import *
from io_lib import *

RULE = ("AIOR: the real minicbor_io::AsyncReader driven by a hand-rolled deterministic executor (no-op waker, manual Future::poll) over a "
        "scripted futures_io::AsyncRead (per inner poll_read: deliver up to k bytes / Pending / error; Ok(0) when the data is exhausted) and a "
        "caller script (after every Pending: poll the same future again, or drop it and call read again) vs the extracted Coq model; read is "
        "called until Ok(None) or an error other than a decode / inner I/O error; result = every outcome in order, bytes left in the source, "
        "number of inner polls, final reader buffer. Exhaustive: for every base stream of <= 10 bytes (<= 12 thorough) every composition of "
        "the stream length x every placement of up to 2 (3) Pendings with up to 2 (3) consecutive x every poll/drop decision string; an inner "
        "error at every gap, alone and next to a Pending+drop; every truncation point under byte-wise drop-everything, whole, and (streams <= 8) "
        "every composition with one Pending+drop at every gap; max_len in {0, n-1, n, n+1}. Seeded random walks over longer streams. The harness "
        "oracle re-states the property: outcomes minus inner errors == payloads (by the real decoder's verdict) then clean end, whatever the "
        "drops; number of reported inner errors == number injected; cut inside a frame -> UnexpectedEof, never a value; over-long -> InvalidLen; "
        "reader buffer <= max_len. Non-trivial = the source script contains a Pending or an error, or the stream is cut.")
ASSUMPTIONS = ["wake-ups and real executors are not modelled: the executor polls again after Pending without waiting for a wake",
               "the inner AsyncRead honours its contract (n <= buf.len(); Ok(0) only at end of stream; nothing written on Pending / Err)",
               "the value codec is abstract in the theorems; the correspondence runs it with ByteVec",
               "64-bit usize"]

def base_streams():
    g0, g1, g2, g3 = good(b""), good(b"\x01"), good(b"\x01\x02"), good(b"\xaa\xbb\xcc")
    return [[g0], [g1], [g2], [bad(0)], [bad(1)], [g0, g0], [bad(0), g0], [g0, bad(0)], [bad(0), g1], [g1, bad(0)], [bad(0), bad(0)],
            [g1, g0], [g3], [bad(1), g1], [g1, g1], [g0, g0, bad(0)]]

def with_calls(script, ptok="P"):
    n = sum(1 for t in script if t == ptok)
    return decisions(n)

def generate(tier, rng):
    big = tier == "thorough"
    LMAX, PT, PC = (12, 3, 3) if big else (10, 2, 2)
    out = []
    for fr in base_streams():
        L = stream_len(fr)
        mx = 16
        if L <= LMAX:
            for parts in compositions(L):
                pt = PT if (L <= 10 or len(parts) <= 6) else 2
                for pc in pend_placements(len(parts), pt, PC):
                    sc = weave(parts, pc)
                    for cs in decisions(sum(pc)):
                        out.append(reader_line("AIOR", mx, fr, None, "src", sc, cs))
                if L <= 8:
                    # an inner error at every gap, alone and with a Pending+drop / Pending+poll before or after it
                    for i in range(len(parts) + 1):
                        for ins, cs in ((["E"], ""), (["P", "E"], "X"), (["E", "P"], "X"), (["P", "E"], "P"), (["E", "E"], ""), (["P", "E", "P"], "XX")):
                            out.append(reader_line("AIOR", mx, fr, None, "src", parts[:i] + ins + parts[i:], cs))
        for cut in range(0, L + 1):
            bw = []
            for _ in range(cut): bw += ["P", 1]
            out.append(reader_line("AIOR", mx, fr, cut, "src", bw + ["P"], "X" * (cut + 1)))
            out.append(reader_line("AIOR", mx, fr, cut, "src", [], ""))
            out.append(reader_line("AIOR", mx, fr, cut, "src", [1] * cut, ""))
            if L <= 8:
                for parts in compositions(cut):
                    for i in range(len(parts) + 1):
                        out.append(reader_line("AIOR", mx, fr, cut, "src", parts[:i] + ["P"] + parts[i:], "X"))
        sizes = sorted({len(f[0]) for f in fr})
        for n in sizes:
            for m in {0, max(n - 1, 0), n, n + 1}:
                bw = []
                for _ in range(L): bw += ["P", 1]
                for sc, cs in (([], ""), ([1] * L, ""), (bw, "X" * L), (bw, "PX" * L), (rand_script(rng, L, 0.3, 0.1), "".join(rng.choice("PX") for _ in range(2 * L)))):
                    out.append(reader_line("AIOR", m, fr, None, "src", sc, cs))
    out.append(reader_line("AIOR", 16, [("raw", bytes.fromhex("ffffffff"))], None, "src", [2, "P", 2], "X"))
    for raw, mx in ((bytes.fromhex("00100000"), 16), (bytes.fromhex("00000011"), 16),
                    (bytes.fromhex("00000005") + b"\x41\x01", 16), (bytes.fromhex("000000"), 16)):
        for sc, cs in (([], ""), ([1] * len(raw), ""), ([1, "P", 1, 1, "P", 1, "P"], "XXX"), ([3, "E", 1, 2], ""), ([2, "P", 2, "P"], "XP")):
            out.append(reader_line("AIOR", mx, [("raw", raw)], None, "src", sc, cs))
            out.append(reader_line("AIOR", mx, [good(b"\x07"), ("raw", raw)], None, "src", sc, cs))
    for _ in range(40000 if big else 8000):
        fr = []
        for _ in range(rng.randrange(0, 8)):
            if rng.random() < 0.75:
                n = rng.choice([0, 1, 2, 3, 5, 22, 23, 24, 25, 60, 255, 256, 300]) if rng.random() < 0.25 else rng.randrange(0, 10)
                fr.append(good(bytes(rng.getrandbits(8) for _ in range(n))))
            else: fr.append(bad(rng.randrange(0, 6)))
        L = stream_len(fr)
        sizes = [len(f[0]) for f in fr] or [0]
        mx = rng.choice([max(sizes), max(sizes), max(sizes) + 1, max(max(sizes) - 1, 0), rng.choice(sizes), 512 * 1024])
        cut = rng.randrange(0, L + 1) if rng.random() < 0.3 else None
        tot = L if cut is None else cut
        sc = rand_script(rng, max(tot, 1), rng.choice([0.1, 0.3, 0.6]), rng.choice([0, 0.05, 0.2]), maxpart=rng.choice([None, 1, 2, 3, 5]))
        if rng.random() < 0.2: sc = sc[: rng.randrange(0, len(sc) + 1)]
        px = rng.choice([0.1, 0.5, 0.9])
        cs = "".join("X" if rng.random() < px else "P" for _ in range(sum(1 for t in sc if t == "P") + 2))
        out.append(reader_line("AIOR", mx, fr, cut, "src", sc, cs))
    # frames larger than 64 KiB: Pending / dropped futures / transient errors after the first 2^16 payload bytes
    bigp = bytes((i * 7 + 3) & 0xff for i in range(70000))
    frb = [good(bigp), good(b"\x01\x02")]
    out.append(reader_line("AIOR", 100000, frb, None, "src", [4, 65536, "P", 3000, "P", 100000], "XX"))
    out.append(reader_line("AIOR", 100000, frb, None, "src", [4, 65536, "P", 3000, "P", 100000], "PP"))
    out.append(reader_line("AIOR", 100000, frb, None, "src", [4, 65536, "E", 100000], ""))
    out.append(reader_line("AIOR", 100000, frb, None, "src", [2, "P", 2, 65536, "P", 1, "E", "P", 100000], "XPX"))
    out.append(reader_line("AIOR", 100000, frb, None, "src", [100000], ""))
    out.append(reader_line("AIOR", 100000, frb, None, "src", [4, 30000, "P", 100000], "X"))
    out.append(reader_line("AIOR", 100000, frb, None, "src", [4, 30000, "E", 100000], ""))
    out.append(reader_line("AIOR", 100000, frb, None, "src", [4, 65535, "P", 1, "P", 100000], "XX"))
    out.append(reader_line("AIOR", 100000, frb, None, "src", [3, "P", 1, 1, "P", 65536, "P", 100000], "XXX"))
    # a frame larger than 128 KiB (a reader that commits its buffer lazily has another seam there)
    huge = bytes((i * 11 + 5) & 0xff for i in range(200000))
    frh = [good(huge), good(b"\x07")]
    out.append(reader_line("AIOR", 300000, frh, None, "src", [300000], ""))
    out.append(reader_line("AIOR", 300000, frh, None, "src", [4, 131072, "P", 1, "P", 300000], "XP"))
    out.append(reader_line("AIOR", 300000, frh, None, "src", [4, 100000, "E", 31072, "P", 300000], "X"))
    # payloads of exactly 65536 and 131072 bytes (a reader that fills its buffer in 64 KiB steps computes the last step from a remainder)
    for tot in (65536, 131072):
        inner = tot - (3 if tot - 3 < 65536 else 5)
        pl = bytes((i * 3 + 1) & 0xff for i in range(inner))
        fx = [good(pl), good(b"\x09")]
        assert len(fx[0][0]) == tot
        out.append(reader_line("AIOR", 300000, fx, None, "src", [300000], ""))
        out.append(reader_line("AIOR", 300000, fx, None, "src", [4, 65536, 1, 300000], ""))
    # the caller drops the future at a Pending the source did not cause (a reader that yields voluntarily)
    out.append(reader_line("AIOR", 100000, frb, None, "src", [100000], "XX"))
    out.append(reader_line("AIOR", 300000, frh, None, "src", [300000], "XXXX"))
    return out

def _kv(line, key):
    for t in line.split():
        if t.startswith(key + "="): return t[len(key) + 1:]
    return "-"

def nontrivial(line, impl):
    s = _kv(line, "src")
    return "P" in s or "E" in s or _kv(line, "cut") != "-"

def classify(line, impl):
    s, c = _kv(line, "src"), _kv(line, "calls")
    tag = "AIOR"
    if "r" in _kv(line, "frames"): tag += "/raw"
    if _kv(line, "cut") != "-": tag += "/cut"
    if "P" in s: tag += "/pend"
    if "X" in c: tag += "/drop"
    if "E" in s: tag += "/err"
    return tag + ":" + impl.split(" ")[0].split(",")[-1]
