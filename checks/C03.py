"""C03 — encoder output is well-formed, deterministic, shortest-form CBOR."""
from lib import *

SPEC_FLAT = True   # the specification expectation is compared with the flattened chunks
RULE = ("E <method> <arg>: one Encoder method call on the real crate vs the extracted Coq model (chunk by chunk) and vs the reference "
        "encoder enc_pref of Spec/Cbor.v. Exhaustive: all u8, i8, u16, i16 arguments and all 256 simple values; boundary-dense "
        "(every 2^k+-3) plus seeded random arguments for the 32/64-bit methods, Int, char, tag/array/map heads; byte/text strings of "
        "lengths 0,1,23,24,255,256,65535,65536 and random. A case is non-trivial when the argument needs more than the initial byte "
        "(argument >= 24 or a payload is present); distinct = distinct case lines.")
ASSUMPTIONS = ["the chunk-recording sink sees exactly the bytes any other sink would (C13 covers the sinks)",
               "f16 conversion results are covered by C12; here only the framing of Encoder::f16 is compared with the model"]

def generate(tier, rng):
    big = tier == "thorough"
    out = []
    out += ["E u8 %d" % x for x in range(256)]
    out += ["E i8 %d" % x for x in range(-128, 128)]
    out += ["E u16 %d" % x for x in range(65536)]
    out += ["E i16 %d" % x for x in range(-32768, 32768)]
    out += ["E simple %d" % x for x in range(256)]
    out += ["E bool true", "E bool false", "E null", "E undefined", "E begin_array", "E begin_bytes", "E begin_map", "E begin_str", "E end"]
    nrand = 20000 if big else 3000
    for m, lo, hi in (("u32", 0, (1 << 32) - 1), ("u64", 0, U64), ("i32", -(1 << 31), (1 << 31) - 1), ("i64", -(1 << 63), (1 << 63) - 1),
                      ("int", -(1 << 64), U64), ("tag", 0, U64), ("array", 0, U64), ("map", 0, U64)):
        vals = set(boundaries(hi, lo)) | set(rand_ints(rng, nrand, lo, hi))
        out += ["E %s %d" % (m, v) for v in sorted(vals)]
    chars = [c for c in set(boundaries(0x10ffff, 0)) | set(rand_ints(rng, nrand // 4, 0, 0x10ffff)) | {0xd7ff, 0xe000, 0xfffd, 0x10ffff} if not (0xd800 <= c <= 0xdfff)]
    out += ["E char %d" % c for c in sorted(chars)]
    for m, bits in (("f32", 32), ("f64", 64), ("f16", 32)):
        vals = set(boundaries((1 << bits) - 1, 0)) | {rng.getrandbits(bits) for _ in range(nrand)}
        out += ["E %s %d" % (m, v) for v in sorted(vals)]
    for n in [0, 1, 23, 24, 255, 256, 65535, 65536] + [rng.randrange(0, 300) for _ in range(50 if not big else 400)]:
        b = bytes(rng.getrandbits(8) for _ in range(n))
        out.append("E bytes %s" % hexs(b))
        s = ("a" * n).encode() if n > 300 else (utf8_samples(rng, 1)[0] * (n // 4 + 1))[:n]
        try: s.decode("utf-8")
        except UnicodeDecodeError: s = b"x" * n
        out.append("E str %s" % hexs(s))
    return out

def nontrivial(line, impl):
    t = line.split()
    if len(t) < 3: return False
    if t[1] in ("bytes", "str"): return t[2] != "-"
    try: v = int(t[2])
    except ValueError: return True
    return v >= 24 or v < -24

def classify(line, impl):
    return line.split()[1] + ("/err" if impl.startswith("err") else "")
