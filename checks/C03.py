"""C03 — encoder output is well-formed, deterministic, shortest-form CBOR."""
from lib import *

SPEC_FLAT = True   # the specification expectation is compared with the flattened chunks
RULE = ("E <method> <arg>: one Encoder method call on the real crate vs the extracted Coq model (chunk by chunk) and vs the reference "
        "encoder enc_pref of Spec/Cbor.v. Exhaustive: all u8, i8, u16, i16 arguments and all 256 simple values; boundary-dense "
        "(every 2^k+-3) plus seeded random arguments for the 32/64-bit methods, Int, char, tag/array/map heads; byte/text strings of "
        "lengths 0,1,23,24,255,256,65535,65536 and random. EBLK: FNV-1a hashes over the outputs of one method on a block of consecutive arguments (quick: 2^16-blocks around every width boundary; thorough: 2^28 stratified u32 arguments and 2^26 stratified i32 / f32 arguments, blocks of 2^20). EIT: ArrayIter/MapIter over iterators with exact, unbounded, lower-bound-only and upper-bound-only size hints. ES: random forests (depth <= 3, definite and indefinite containers, chunked strings, tags) rendered as balanced Encoder call sequences, expectation = the generator's own reference serialiser. A case is non-trivial when the argument needs more than the initial byte "
        "(argument >= 24 or a payload is present); distinct = distinct case lines. Known class f2b (open finding F2b): E simple 24..31 and the eight "
        "ES sequences `array:2;simple:N;u8:1`, where the reference has no well-formed encoding (S=err) and the crate writes exactly f8 N.")
ASSUMPTIONS = ["the chunk-recording sink sees exactly the bytes any other sink would (C13 covers the sinks)",
               "f16 conversion results are covered by C12; here only the framing of Encoder::f16 is compared with the model"]

def generate(tier, rng):
    big = tier == "thorough"
    out = []
    out += ["E u8 %d" % x for x in range(256)]
    out += ["E i8 %d" % x for x in range(-128, 128)]
    out += ["E u16 %d" % x for x in range(65536)]
    out += ["E i16 %d" % x for x in range(-32768, 32768)]
    out += ["E simple %d" % x for x in range(256)]
    # data::IanaTag: every variant (tag number against the IANA registry, Spec/IanaReg.v; the head written; the way back)
    out += ["IANA %d" % i for i in range(42)] + ["IANAT %d" % n for n in list(range(1200)) + [65535, 65536, 1 << 32, U64]]
    out += ["E bool true", "E bool false", "E null", "E undefined", "E begin_array", "E begin_bytes", "E begin_map", "E begin_str", "E end"]
    nrand = 20000 if big else 3000
    for m, lo, hi in (("u32", 0, (1 << 32) - 1), ("u64", 0, U64), ("i32", -(1 << 31), (1 << 31) - 1), ("i64", -(1 << 63), (1 << 63) - 1),
                      ("int", -(1 << 64), U64), ("tag", 0, U64), ("array", 0, U64), ("map", 0, U64)):
        vals = set(boundaries(hi, lo)) | set(rand_ints(rng, nrand, lo, hi))
        out += ["E %s %d" % (m, v) for v in sorted(vals)]
    chars = [c for c in set(boundaries(0x10ffff, 0)) | set(rand_ints(rng, nrand // 4, 0, 0x10ffff)) | {0xd7ff, 0xe000, 0xfffd, 0x10ffff} if not (0xd800 <= c <= 0xdfff)]
    out += ["E char %d" % c for c in sorted(chars)]
    for m, bits in (("f32", 32), ("f64", 64), ("f16", 32)):
        vals = set(boundaries((1 << bits) - 1, 0)) | {rng.getrandbits(bits) for _ in range(nrand)}
        out += ["E %s %d" % (m, v) for v in sorted(vals)]
    for n in [0, 1, 23, 24, 255, 256, 65535, 65536] + [rng.randrange(0, 300) for _ in range(50 if not big else 400)]:
        b = bytes(rng.getrandbits(8) for _ in range(n))
        out.append("E bytes %s" % hexs(b))
        s = ("a" * n).encode() if n > 300 else (utf8_samples(rng, 1)[0] * (n // 4 + 1))[:n]
        try: s.decode("utf-8")
        except UnicodeDecodeError: s = b"x" * n
        out.append("E str %s" % hexs(s))
    # balanced call sequences: random forests rendered as Encoder calls; expectation = the generator's own serialiser
    import struct
    def calls(t):
        k = t[0]
        if k == "u": return ["%s:%d" % (rng.choice([m for m, hi in (("u8", 255), ("u16", 65535), ("u32", (1 << 32) - 1), ("u64", U64)) if t[1] <= hi]), t[1])]
        if k == "n":
            v = -1 - t[1]
            return ["%s:%d" % (rng.choice([m for m, lo in (("i8", -128), ("i16", -32768), ("i32", -(1 << 31)), ("i64", -(1 << 63)), ("int", -(1 << 64))) if v >= lo]), v)]
        if k == "b": return ["bytes:" + hexs(t[1])]
        if k == "t": return ["str:" + hexs(t[1])]
        if k == "bi": return ["begin_bytes"] + ["bytes:" + hexs(c) for c in t[1]] + ["end"]
        if k == "ti": return ["begin_str"] + ["str:" + hexs(c) for c in t[1]] + ["end"]
        if k == "s": return [{20: "bool:false", 21: "bool:true", 22: "null", 23: "undefined"}.get(t[1], "simple:%d" % t[1]) if rng.random() < 0.5 else "simple:%d" % t[1]]
        if k == "f": return ["f32:%d" % t[2]] if t[1] == 4 else ["f64:%d" % t[2]]
        if k == "a": return ["array:%d" % len(t[1])] + [c for x in t[1] for c in calls(x)]
        if k == "ai": return ["begin_array"] + [c for x in t[1] for c in calls(x)] + ["end"]
        if k == "m": return ["map:%d" % (len(t[1]) // 2)] + [c for x in t[1] for c in calls(x)]
        if k == "mi": return ["begin_map"] + [c for x in t[1] for c in calls(x)] + ["end"]
        if k == "g": return ["tag:%d" % t[1]] + calls(t[2])
    def rtree(depth):
        r = rng.randrange(0, 14 if depth > 0 else 8)
        big = rng.choice([0, 23, 24, 255, 256, 65535, 65536, (1 << 32) - 1, 1 << 32, U64, rng.getrandbits(rng.randrange(1, 65))])
        if r == 0: return ("u", big)
        if r == 1: return ("n", big)
        if r == 2: return ("b", bytes(rng.getrandbits(8) for _ in range(rng.choice([0, 1, 23, 24, 30]))))
        if r == 3: return ("t", utf8_samples(rng, 1)[0])
        if r == 4: return ("bi", [bytes(rng.getrandbits(8) for _ in range(rng.randrange(0, 30))) for _ in range(rng.randrange(0, 3))])
        if r == 5: return ("ti", utf8_samples(rng, rng.randrange(0, 3)))
        if r == 6: return ("s", rng.choice(list(range(0, 24)) + list(range(32, 256))))
        if r == 7: return ("f", rng.choice([4, 8]), rng.getrandbits(32)) if rng.random() < 0.5 else ("f", 8, rng.getrandbits(64))
        if r in (8, 9): return (rng.choice(["a", "ai"]), [rtree(depth - 1) for _ in range(rng.choice([0, 1, 2, 3, 24]) if depth > 1 else rng.randrange(0, 3))])
        if r in (10, 11): return (rng.choice(["m", "mi"]), [rtree(depth - 1) for _ in range(2 * rng.randrange(0, 3))])
        return ("g", big, rtree(depth - 1))
    # encode::ArrayIter / MapIter: definite form iff the size hint is exact, else begin … end
    for n in list(range(0, 8)) + [23, 24, 25, 255, 256]:
        vals = [rng.choice([0, 23, 24, 255, 256, 65535, rng.getrandbits(16)]) for _ in range(n)]
        for kind in ("arr", "map"):
            vs = vals if kind == "arr" else vals[: len(vals) // 2 * 2]
            cnt = len(vs) if kind == "arr" else len(vs) // 2
            body = b"".join(head(0, v) for v in vs)
            for hint in ("exact", "unbounded", "lower", "filter"):
                exact = hint == "exact" or (hint == "filter" and cnt == 0)   # filter over nothing reports (0, Some(0))
                exp = (head(4 if kind == "arr" else 5, cnt) + body) if exact else (bytes([0x9f if kind == "arr" else 0xbf]) + body + b"\xff")
                out.append("EIT %s %s %s =%s" % (kind, hint, ",".join(map(str, vs)) or ".", hexs(exp)))
    # hashed block sweeps (thorough: 2^28 stratified u32, 2^26 stratified i32 / f32; quick: the blocks around every width boundary)
    blocks = []
    if big:
        # 2^28 stratified u32 arguments (256 blocks of 2^20, one in every 2^24 stretch, plus the blocks around every width boundary) and
        # 2^26 stratified i32 / f32 arguments: the extracted model evaluates about 10^6 arguments per second and core, the full 2^32
        # sweep did not finish within the shard time limit on a busy machine
        blocks += [("u32", (b << 24) + ((b * 2654435761) & 0xf00000), 1 << 20) for b in range(256)]
        blocks += [("u32", s, 1 << 20) for s in (0, (1 << 24) - (1 << 19), (1 << 32) - (1 << 20))]
        blocks += [("i32", -(1 << 31) + (b << 26), 1 << 20) for b in range(64)] + [("f32", (b << 26) + (b << 3), 1 << 20) for b in range(64)]
        blocks += [("i32", s, 1 << 20) for s in (-(1 << 31), -(1 << 19), (1 << 31) - (1 << 20))]
    else:
        blocks += [("u32", s, 1 << 16) for s in (0, (1 << 16) - (1 << 15), (1 << 24), (1 << 32) - (1 << 16))]
        blocks += [("i32", s, 1 << 16) for s in (-(1 << 31), -(1 << 16) - (1 << 15), -(1 << 15), (1 << 31) - (1 << 16))]
        blocks += [("u64lo", (1 << 32) - (1 << 15), 1 << 16), ("i64lo", -(1 << 32) - (1 << 15), 1 << 16), ("f32", 0x7f800000 - (1 << 15), 1 << 16)]
    eblk = ["EBLK %s %d %d" % b for b in blocks]
    for _ in range(20000 if big else 3000):
        forest = [rtree(3) for _ in range(rng.randrange(1, 3))]
        out.append("ES %s =%s" % (";".join(c for t in forest for c in calls(t)), hexs(b"".join(ser_tree(t) for t in forest))))
    # class f2b inside a balanced sequence: the reference serialiser has no bytes for a forest that contains simple(24..=31) (=err)
    out += ["ES array:2;simple:%d;u8:1 =err" % n for n in range(24, 32)]
    # spread the (heavy) block cases evenly so that the 16 shards are balanced
    step = max(1, len(out) // (len(eblk) + 1))
    for i, b in enumerate(eblk):
        out.insert(min(len(out), (i + 1) * step + i), b)
    return out

def nontrivial(line, impl):
    t = line.split()
    if t[0] == "ES": return t[1].count(";") >= 2
    if t[0] == "EIT": return t[3] != "."
    if t[0] == "EBLK": return True
    if len(t) < 3: return False
    if t[1] in ("bytes", "str"): return t[2] != "-"
    try: v = int(t[2])
    except ValueError: return True
    return v >= 24 or v < -24

def in_known_class(cls, line, impl):
    """f2b: Encoder::simple(24..=31) writes the two-byte form f8 18..f8 1f, which RFC 8949 3.3 forbids (the reference encoder has
    no encoding for these values: S=err).  Exactly these eight calls with exactly these bytes; anything else they write is a violation."""
    t = line.split()
    if cls != "f2b": return False
    if t[0] == "E": return t[1] == "simple" and 24 <= int(t[2]) <= 31 and impl == "f8%02x" % int(t[2])
    if t[0] == "ES" and len(t) == 3 and t[2] == "=err":
        import re
        m = re.fullmatch(r"array:2;simple:(\d+);u8:1", t[1])
        return bool(m) and 24 <= int(m.group(1)) <= 31 and impl.replace("|", "") == "82f8%02x01" % int(m.group(1))
    return False

def classify(line, impl):
    t = line.split()
    if t[0] == "ES": return "ES:%d" % min(9, t[1].count(";") + 1)
    if t[0] == "EIT": return "EIT:" + t[1] + ":" + t[2]
    if t[0] == "EBLK": return "EBLK:" + t[1]
    return t[1] + ("/err" if impl.startswith("err") else "")
