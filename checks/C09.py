"""C09 — derived Encode/Decode round-trip for every type definition."""
import derivegen as dg
from derivegen import prepare, route, oracle

RULE = ("DRT <sid> <schema> <def> <value> <expected> <hexA> <hexB> c=<choices>: the value is encoded and decoded again by the real derive output and by "
        "gen_encode/gen_decode of the Coq model; additionally two re-framed encodings of the same value are decoded. hexA is a re-framing in the sense of "
        "Model/DeriveReframe.v — the domain of theorem C09_roundtrip_reframed (Props/C09.v): every struct / variant body container definite with any "
        "head width or indefinite, at every nesting level; map keys, variant indices, the tags at the four levels and the head of the enum's 2-array in any "
        "width; leaves, nulls and Vec headers as written; the enum's 2-array stays definite (class enum_pair_indefinite: the generated decoder demands "
        "Some(2)). It is produced by the generator's mirror of DeriveReframe.reframe_with from the choice list c= (every 5th case all-indefinite with 8-byte "
        "heads, every 5th all-indefinite with minimal heads, the rest random); the model side recomputes it from c= with the extracted Coq function and both "
        "sides echo the bytes (R<hex>:<outcome>), so the mirror is checked against the Coq definition byte for byte. hexB is a freer re-framing (also wide "
        "integer leaves — these are covered by theorem C09_roundtrip_reframed_leaves, Props/C09.v: every leaf any well-formed item to which the built-in-type "
        "specification of C04 assigns the value — and indefinite / wide Vec headers and wide nz-codec values: outside the theorems, correspondence only). O=: every decode yields the value with skipped "
        "fields defaulted and consumes exactly the input; fields of borrowing types point into the input buffer, #[b] Cow fields are Borrowed, "
        "#[n] Cow fields Owned. DDEC <sid> <schema> <def> <hex> [!class]: decoder-only cases — byte-level mutations and truncations of valid "
        "encodings, changed or removed tags at every level, unknown top-level variants, and every non-index_only enum's encoding with its 2-array turned "
        "indefinite (!message); outcome class, value and end position are compared with "
        "the model, O= checks the expected error class where the generator knows it. Schema grammar as in C08 (incl. lifetimes/#[b]).")
ASSUMPTIONS = ["indefinite-length arrays with 2^31 or more elements overflow the generated i32 counter; outside the input sizes exercised",
               "pointer identity of borrowed data is a harness-side oracle only (the model has no addresses)"]

def generate(tier, rng):
    w = dg.get_world(tier, rng)
    return dg.drt_cases(w, rng, tier) + dg.ddec_cases(w, rng, tier) + dg.neg_cases()

def nontrivial(line, impl): return len(impl) > 12
def classify(line, impl):
    op = line.split(" ", 1)[0]
    if op == "DDEC": return "DDEC:" + impl.split("@")[0].split(":")[0] + ":" + (impl.split(":")[1] if impl.startswith("err") else "")
    return op
def in_known_class(cls, line, impl): return dg.known_class(cls, line, impl)
