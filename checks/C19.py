"""C19 — diagnostic display is total, size-bounded and follows the documented notation."""
from lib import *
from tokgen import *

RULE = ("DP <hex>: write!(sink, \"{}\", minicbor::display(bytes)) on the real crate into a counting fmt::Write that stops accepting after "
        "1 MiB, on its own thread under a 10 s wall-clock watchdog, vs the extracted Coq stack machine (Model/Tokenizer.v mach over the "
        "peekable tokenizer, fuel 8*len+8). The result is the rendered text (percent-escaped; every float text replaced by <fW:bits> after "
        "checking that it is the token's own {:e} text and re-parses to the same value; the text after ' !!! decoding error: ' replaced by "
        "the error class), or len=<n>;fnv=<hash> above 2000 bytes. S= is Spec/Diag.v render (the documented notation as a recursive "
        "function) of the tree the reference parser finds, for inputs that are exactly one well-formed item with valid UTF-8. O= checks on "
        "the implementation: terminates, no panic, output length <= 58*len+170. Exhaustive: all inputs of <= 2 bytes, all 65536 half "
        "patterns, all simple values, all trees of <= 3 nodes over a leaf alphabet x all head widths; sampled: 3-byte inputs, grammar trees "
        "of depth 4-5, f32/f64 boundary patterns, mutated/truncated items; fixed: heads with extreme declared lengths (9b ff.., bb.., 5b.., "
        "db.., nested). Non-trivial: output of at least two structural or scalar parts (contains a separator, bracket or error marker).")
ASSUMPTIONS = ["the sink accepts every write (a failing fmt::Write makes Display::fmt return early with Err, by construction of `?`)",
               "Rust's {:e} float formatting is an external function: its text is checked on the implementation side (it re-parses to the "
               "token's value) and replaced by a placeholder before the comparison with the model",
               "decode::Error Display texts are not modelled (compared by error class); assumed <= 128 bytes for the size bound",
               "features alloc + half (display does not exist otherwise)"]

def generate(tier, rng):
    big = tier == "thorough"
    out = []
    out += ["DP %s" % hexs(b) for b in short_inputs()]
    out += ["DP %s" % hexs(b) for b in three_byte_sample(rng, tier)]
    out += ["DP f9%04x" % x for x in range(65536)]
    out += ["DP %02x" % b for b in range(0xe0, 0xf8)] + ["DP f8%02x" % x for x in range(256)]
    for bits in sorted(set(boundaries((1 << 32) - 1)) | {rng.getrandbits(32) for _ in range(20000 if big else 2000)}):
        out.append("DP fa%08x" % bits)
    for bits in sorted(set(boundaries(U64)) | {rng.getrandbits(64) for _ in range(20000 if big else 2000)} | {rng.getrandbits(11) << 52 for _ in range(200)}):
        out.append("DP fb%016x" % bits)
    for t in small_trees(rng, True, 60000 if big else 12000): out.append("DP %s" % hexs(t))
    for _ in range(30000 if big else 4000):
        out.append("DP %s" % hexs(gen_item(rng, rng.choice([3, 4, 5]))))
    for _ in range(10000 if big else 1000):
        out.append("DP %s" % hexs(b"".join(gen_item(rng, 3) for _ in range(rng.choice([0, 2, 3])))))
    for mt in range(0, 7):
        for n in boundaries(U64):
            for w in widths_for(n):
                tail = b"a" * n if mt in (2, 3) and n <= 300 else b"\x01\x02"
                out.append("DP %s" % hexs(head(mt, n, w) + tail))
    # byte and text strings of every length up to 1100 (block-wise renderers have seams at multiples of their block size),
    # definite, as the chunk of an indefinite string, and nested in a map
    for n in range(0, 1101):
        bs = bytes((i * 37 + n) & 0xff for i in range(n))
        out.append("DP %s" % hexs(head(2, n) + bs))
        if n % 7 == 0:
            out.append("DP %s" % hexs(b"\x5f" + head(2, n) + bs + b"\x41\x00\xff"))
            out.append("DP %s" % hexs(b"\xa1\x01" + head(3, n) + b"a" * n))
    # deep nesting: the display machine keeps its own stack; no depth limit is documented
    for k in (1000, 4095, 4096, 4097, 5000):
        out.append("DP %s" % hexs(b"\x81" * k + b"\x00"))
        out.append("DP %s" % hexs(b"\x9f" * k + b"\xff" * k))
        out.append("DP %s" % hexs(b"\xa1\x00" * k + b"\x00"))
        out.append("DP %s" % hexs(b"\xc1" * k + b"\x00"))
        out.append("DP %s" % hexs(b"\x82\x00" * (k // 2) + b"\x00"))
    # many empty containers (each costs the display machine several control steps per input byte), and the self-described tag in front
    for n in (23, 64, 70, 100, 200, 1000):
        out.append("DP %s" % hexs(head(4, n) + b"\x80" * n))
        out.append("DP %s" % hexs(b"\x9f" + b"\xa0" * n + b"\xff"))
        out.append("DP %s" % hexs(head(5, n) + b"\x80\xa0" * n))
        out.append("DP %s" % hexs(b"".join(b"\x82\x80" for _ in range(n)) + b"\x00"))
    for body in ("01", "80", "d9d9f701", "6161", "9f01ff"): out.append("DP d9d9f7%s" % body)
    # strings whose content looks like notation
    for s in ['"', '""_', '"_', "'_", "''_", '_', "1e0", "h'00'", ", ", " !!! decoding error: x", "(_ ", "NaN", "-inf", "1.5e-7", "simple(1)", "<f32:1>", "%41"]:
        b = s.encode()
        out.append("DP %s" % hexs(head(3, len(b)) + b))
        out.append("DP %s" % hexs(b"\x82" + head(3, len(b)) + b + b"\xf9\x3e\x00"))
        out.append("DP %s" % hexs(b"\x7f" + head(3, len(b)) + b + head(3, len(b)) + b + b"\xff"))
    out += ["DP %s" % hexs(b) for b in malformed(rng, 40000 if big else 6000, 4)]
    for b in [gen_item(rng, 4) for _ in range(400 if not big else 3000)]:
        out += ["DP %s" % hexs(b[:k]) for k in range(len(b))]
    out += ["DP %s" % h for h in EXTREME]
    for h in ("9b", "bb", "5b", "7b", "db", "9a", "ba"):
        for _ in range(40):
            n = 8 if h[1] == "b" else 4
            out.append("DP %s%s%s" % (h, "%0*x" % (2 * n, rng.getrandbits(8 * n) | (1 << (8 * n - 1))), hexs(gen_item(rng, 2))))
    return out

def nontrivial(line, impl):
    return any(s in impl for s in (",%20", ":%20", "[", "{", "(", "!!!"))

def classify(line, impl):
    if impl.startswith("len="): return "long"
    if impl in ("panic", "timeout") or impl.startswith(("capped", "?")): return impl.split(":")[0]
    if "!!!%20decoding" in impl: return "err:" + impl.rsplit("<err:", 1)[-1].split(":")[0].rstrip(">")
    if "!!!" in impl: return "not-closed"
    return "ok" + ("/float" if "<f" in impl else "") + ("/indef" if "_" in impl else "")


# ---- the cbor-display command line tool (minicbor/src/bin/cbor-display.rs): the same display, fed from stdin or from a file ----
import os, subprocess, tempfile
_CLI = {}

def prepare(tier, rng, root, cache):
    """build the cbor-display binary from /repo's working tree (target dir under the cache)"""
    env = dict(os.environ, CARGO_NET_OFFLINE="true", CARGO_TARGET_DIR=os.path.join(cache, "cli-target"))
    p = subprocess.run("timeout 1500 cargo build --offline -p minicbor --bin cbor-display --features std,half 2>&1 | tail -20", shell=True, cwd="/repo", env=env,
                       stdout=subprocess.PIPE, stderr=subprocess.STDOUT)
    b = os.path.join(cache, "cli-target", "debug", "cbor-display")
    if not os.path.exists(b) or b"Finished" not in p.stdout: return False, "cbor-display does not build: " + p.stdout.decode(errors="replace")[-600:], {}
    _CLI["bin"] = b
    return True, "cbor-display built", {}

def _notation_bytes(b): return "h'" + " ".join("%02x" % x for x in b) + "'"

def cross_check(cases, impl_out, model_out):
    """stdin mode, `-` mode and --file mode of the tool print the documented notation of the whole input, whatever its size"""
    b = _CLI.get("bin")
    if not b: return []
    bad = []
    for n in (3, 70000, 400000, 700000):          # total input sizes 12 B .. 2.1 MB (beyond any plausible read chunk of 64 KiB / 1 MiB)
        parts = [bytes((i * 5 + k) & 0xff for i in range(n)) for k in range(3)]
        inp = b"\x83" + b"".join(head(2, n) + p for p in parts)
        want = "[" + ", ".join(_notation_bytes(p) for p in parts) + "]\n"
        with tempfile.NamedTemporaryFile(delete=False) as f: f.write(inp); path = f.name
        try:
            for mode, args, stdin in (("stdin", [], inp), ("-", ["-"], inp), ("--file", ["-f", path], None)):
                try: r = subprocess.run([b] + args, input=stdin, stdout=subprocess.PIPE, stderr=subprocess.PIPE, timeout=120)
                except subprocess.TimeoutExpired: bad.append(("CLI %s %d" % (mode, len(inp)), "cbor-display did not finish within 120 s")); continue
                got = r.stdout.decode(errors="replace")
                if r.returncode != 0 or got != want:
                    bad.append(("CLI %s %d" % (mode, len(inp)), "cbor-display (%s mode) on %d input bytes: exit %d, %d characters of output, %d expected (the notation of the whole item)" % (mode, len(inp), r.returncode, len(got), len(want))))
        finally:
            os.unlink(path)
    return bad
