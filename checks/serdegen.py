"""The serde type family of C17: descriptor parser (the FAMILY text of ocaml/ops_serde.ml), value generation,
value text, and a type-directed CBOR writer used to build inputs for DE (re-framings, extra fields, …).
The writer is not an oracle: expectations come from the Coq specification (S=) and the harness (O=)."""
import os, re
from lib import *

HERE = os.path.dirname(os.path.abspath(__file__))

def family_text():
    src = open(os.path.join(HERE, "..", "ocaml", "ops_serde.ml")).read()
    m = re.search(r"\(\*FAMILY-BEGIN\*\)(.*?)\(\*FAMILY-END\*\)", src, re.S)
    body = m.group(1)
    return body[body.index("{|") + 2: body.index("|}")]

def split_top(sep, s):
    if s == "": return []
    out, depth, st = [], 0, 0
    for i, c in enumerate(s):
        if c in "([{": depth += 1
        elif c in ")]}": depth -= 1
        elif c == sep and depth == 0:
            out.append(s[st:i]); st = i + 1
    out.append(s[st:])
    return out

NAMED = {}
UW = {"u8": 8, "u16": 16, "u32": 32, "u64": 64, "usize": 64}
IW = {"i8": 8, "i16": 16, "i32": 32, "i64": 64, "isize": 64}

def parse_expr(s):
    if s in UW: return ("u", UW[s])
    if s in IW: return ("i", IW[s])
    if s in ("bool", "f32", "f64", "char", "unit", "disp", "any", "ign"): return (s,)
    if s in ("string", "strref"): return ("str",)
    if s in ("bytebuf", "bytesref"): return ("bytes",)
    if "(" not in s:
        return NAMED[s]
    i = s.index("(")
    name, args = s[:i], [parse_expr(a) for a in split_top(",", s[i + 1:-1])]
    if name == "opt": return ("opt", args[0])
    if name == "seq": return ("seq", True, args[0])
    if name in ("iseq", "cseq"): return ("seq", False, args[0])
    if name == "bmap": return ("map", True, args[0], args[1])
    if name in ("imap", "cmap"): return ("map", False, args[0], args[1])
    if name == "tup": return ("tup", args)
    if name.startswith("arr"): return ("tup", [args[0]] * int(name[3:]))
    raise KeyError(s)

def parse_field(s):
    i = s.index(":")
    return (s[:i], parse_expr(s[i + 1:]))

def parse_variant(s):
    idx = [s.index(c) for c in "([{" if c in s]
    if not idx: return (s, "unit", ("unit",))
    i = min(idx)
    name, body = s[:i], s[i + 1:-1]
    if s[i] == "(": return (name, "newtype", parse_expr(body))
    if s[i] == "[": return (name, "tuple", ("tup", [parse_expr(a) for a in split_top(",", body)]))
    return (name, "struct", ("struct", [parse_field(f) for f in split_top(",", body)]))

def parse_def(s):
    if s == "unitstruct": return ("unitstruct",)
    i = s.index("(")
    name, body = s[:i], s[i + 1:-1]
    if name == "newtype": return ("newtype", parse_expr(body))
    if name == "tuplestruct": return ("tupstruct", [parse_expr(a) for a in split_top(",", body)])
    if name == "struct": return ("struct", [parse_field(f) for f in split_top(",", body)])
    if name == "enum": return ("enum", [parse_variant(v) for v in split_top("|", body)])
    if name == "internal":
        t, vs = split_top(";", body)
        return ("internal", t, [parse_variant(v) for v in split_top("|", vs)])
    if name == "adjacent":
        tc, vs = split_top(";", body)
        t, c = split_top(",", tc)
        return ("adjacent", t, c, [parse_variant(v) for v in split_top("|", vs)])
    if name == "untagged": return ("untagged", [parse_variant(v) for v in split_top("|", body)])
    if name == "flat":
        fs = []
        for f in split_top(",", body):
            fl = f.startswith("*")
            n, d = parse_field(f[1:] if fl else f)
            fs.append((n, fl, d))
        return ("flat", fs)
    raise KeyError(s)

def load_family():
    defs = []
    for l in family_text().split("\n"):
        l = l.strip()
        if not l: continue
        i = l.index("=")
        defs.append((l[:i].strip(), l[i + 1:].strip()))
    pending = defs
    while pending:
        nxt = []
        for n, d in pending:
            try: NAMED[n] = parse_def(d)
            except KeyError: nxt.append((n, d))
        if len(nxt) == len(pending): raise ValueError("unresolved: %r" % nxt)
        pending = nxt
load_family()

# ---------------------------------------------------------------- values
ANY_KINDS = ["bool", "u8", "u16", "u32", "u64", "i8", "i16", "i32", "i64", "f32", "f64", "str", "bytes", "none", "seq", "map",
             "unit", "char", "some", "newtype"]

def gen_char(rng):
    while True:
        c = rng.choice([0, 23, 24, 65, 127, 128, 255, 256, 0x7ff, 0x800, 0xd7ff, 0xe000, 0xffff, 0x10000, 0x10ffff, rng.randrange(0, 0x110000)])
        if not (0xd800 <= c <= 0xdfff): return c

def gen_int(rng, lo, hi):
    return rng.choice(boundaries(hi, lo)) if rng.random() < 0.6 else rand_ints(rng, 1, lo, hi)[0]

def small_len(rng, big=False):
    r = rng.random()
    if r < 0.2: return 0
    if r < 0.7: return rng.randrange(1, 4)
    if r < 0.85 or not big: return rng.randrange(4, 9)
    return rng.choice([23, 24, 25, 255, 256])

def gen_any(rng, depth):
    """A value the bridge's deserialize_any can report, in the narrowest integer type (what datatype() says)."""
    k = rng.choice(["bool", "uint", "nint", "f32", "f64", "str", "bytes", "none"] + (["seq", "map"] * 2 if depth > 0 else []))
    if k == "bool": return ("any", 0, rng.random() < 0.5)
    if k == "uint":
        v = gen_int(rng, 0, U64)
        return ("any", 1 if v < 256 else 2 if v < 65536 else 3 if v < (1 << 32) else 4, v)
    if k == "nint":
        v = gen_int(rng, -(1 << 63), -1)
        return ("any", 5 if v >= -128 else 6 if v >= -32768 else 7 if v >= -(1 << 31) else 8, v)
    if k == "f32": return ("any", 9, rng.getrandbits(32))
    if k == "f64": return ("any", 10, rng.getrandbits(64))
    if k == "str": return ("any", 11, utf8_samples(rng, 1)[0])
    if k == "bytes": return ("any", 12, bytes(rng.getrandbits(8) for _ in range(small_len(rng))))
    if k == "none": return ("any", 13, ())
    if k == "seq": return ("any", 14, [gen_any(rng, depth - 1) for _ in range(small_len(rng))])
    return ("any", 15, [gen_any(rng, depth - 1) for _ in range(2 * rng.randrange(0, 4))])

def gen_value(d, rng, depth=0):
    k = d[0]
    if k == "bool": return rng.random() < 0.5
    if k == "u": return gen_int(rng, 0, (1 << d[1]) - 1)
    if k == "i": return gen_int(rng, -(1 << (d[1] - 1)), (1 << (d[1] - 1)) - 1)
    if k == "f32": return rng.choice([0, 0x80000000, 0x7f800000, 0x7fc00000, 0x3f800000, 1]) if rng.random() < 0.3 else rng.getrandbits(32)
    if k == "f64": return rng.choice([0, 1 << 63, 0x7ff0000000000000, 0x7ff8000000000000, 0x3ff0000000000000, 1]) if rng.random() < 0.3 else rng.getrandbits(64)
    if k == "char": return gen_char(rng)
    if k in ("str", "disp"): return utf8_samples(rng, 1)[0]
    if k == "bytes": return bytes(rng.getrandbits(8) for _ in range(small_len(rng, True)))
    if k in ("unit", "unitstruct", "ign"): return ()
    if k == "opt": return None if rng.random() < 0.35 else ("some", gen_value(d[1], rng, depth + 1))
    if k == "newtype": return gen_value(d[1], rng, depth + 1)
    if k == "seq":
        n = small_len(rng, big=(depth == 0 and d[2][0] in ("u", "i", "bool", "unit", "unitstruct")))
        return [gen_value(d[2], rng, depth + 1) for _ in range(n)]
    if k in ("tup", "tupstruct"): return [gen_value(x, rng, depth + 1) for x in d[1]]
    if k == "map":
        seen, out = set(), []
        for _ in range(small_len(rng)):
            kk = gen_value(d[2], rng, depth + 1)
            t = show(d[2], kk)
            if t in seen: continue
            seen.add(t); out.append((kk, gen_value(d[3], rng, depth + 1)))
        return sorted(out, key=lambda p: sort_key(d[2], p[0]))
    if k == "struct": return [gen_value(x, rng, depth + 1) for _, x in d[1]]
    if k in ("enum", "internal", "adjacent", "untagged"):
        vs = d[-1]
        i = rng.randrange(0, len(vs))
        return ("var", i, () if vs[i][1] == "unit" else gen_value(vs[i][2], rng, depth + 1))
    if k == "flat":
        # a flattened map must not contain a key that is also a field name of the struct (serde would write a
        # map with a duplicate key; this is a property of the type, not of the format)
        names = set()
        for n, fl, x in d[1]:
            if not fl: names.add(n.encode())
            elif x[0] == "struct": names |= {fn.encode() for fn, _ in x[1]}
        out = []
        for _, fl, x in d[1]:
            v = gen_value(x, rng, depth + 1)
            if fl and x[0] == "map": v = [(a, b) for a, b in v if a not in names]
            out.append(v)
        return out
    if k == "any": return gen_any(rng, 3)
    raise ValueError(d)

def sort_key(d, v):
    """Rust's Ord on the key types used in the family (ints, chars, bools, strings by bytes, tuples)."""
    if d[0] == "tup": return tuple(sort_key(x, y) for x, y in zip(d[1], v))
    return v

def show_any(v):
    _, i, p = v
    n = ANY_KINDS[i]
    if n == "bool": s = "true" if p else "false"
    elif n in ("f32", "f64"): s = "f%d" % p
    elif n in ("str", "bytes"): s = "h" + hexs(p)
    elif n in ("none", "unit"): s = "()"
    elif n in ("seq", "map"): s = "[" + ",".join(show_any(x) for x in p) + "]"
    elif n in ("some", "newtype"): s = show_any(p)
    else: s = str(p)
    return "v%d(%s)" % (i, s)

def show(d, v):
    k = d[0]
    if k == "bool": return "true" if v else "false"
    if k in ("u", "i", "char"): return str(v)
    if k in ("f32", "f64"): return "f%d" % v
    if k in ("str", "disp", "bytes"): return "h" + hexs(v)
    if k in ("unit", "unitstruct", "ign"): return "()"
    if k == "opt": return "null" if v is None else "some(%s)" % show(d[1], v[1])
    if k == "newtype": return show(d[1], v)
    if k == "seq": return "[" + ",".join(show(d[2], x) for x in v) + "]"
    if k in ("tup", "tupstruct"): return "[" + ",".join(show(x, y) for x, y in zip(d[1], v)) + "]"
    if k == "map": return "[" + ",".join(show(d[2], a) + "," + show(d[3], b) for a, b in v) + "]"
    if k == "struct": return "[" + ",".join(show(x, y) for (_, x), y in zip(d[1], v)) + "]"
    if k in ("enum", "internal", "adjacent", "untagged"):
        vs = d[-1]
        return "v%d(%s)" % (v[1], "()" if vs[v[1]][1] == "unit" else show(vs[v[1]][2], v[2]))
    if k == "flat": return "[" + ",".join(show(x, y) for (_, _, x), y in zip(d[1], v)) + "]"
    if k == "any": return show_any(v)
    raise ValueError(d)

# ---------------------------------------------------------------- F12: the delimited known class
def opaque_val(owned, d, v):
    """The value contains, in a position read back from serde's Content buffer, something the buffer cannot
    give back: unit, char, (through ContentRefDeserializer) unit struct."""
    k = d[0]
    if k in ("unit", "char"): return True
    if k == "unitstruct": return not owned
    if k == "opt": return v is not None and opaque_val(owned, d[1], v[1])
    if k == "newtype": return opaque_val(owned, d[1], v)
    if k == "seq": return any(opaque_val(owned, d[2], x) for x in v)
    if k in ("tup", "tupstruct"): return any(opaque_val(owned, x, y) for x, y in zip(d[1], v))
    if k == "map": return any(opaque_val(owned, d[2], a) or opaque_val(owned, d[3], b) for a, b in v)
    if k == "struct": return any(opaque_val(owned, x, y) for (_, x), y in zip(d[1], v))
    if k == "enum":
        _, kind, pd = d[1][v[1]]
        return kind != "unit" and opaque_val(owned, pd, v[2])
    if k == "untagged":
        _, kind, pd = d[1][v[1]]
        return kind == "unit" or opaque_val(False, pd, v[2])
    if k in ("internal", "adjacent", "flat", "any", "ign"): return True
    return False

def f12_hit(d, v):
    k = d[0]
    if k == "opt": return v is not None and f12_hit(d[1], v[1])
    if k == "newtype": return f12_hit(d[1], v)
    if k == "seq": return any(f12_hit(d[2], x) for x in v)
    if k in ("tup", "tupstruct"): return any(f12_hit(x, y) for x, y in zip(d[1], v))
    if k == "map": return any(f12_hit(d[2], a) or f12_hit(d[3], b) for a, b in v)
    if k == "struct": return any(f12_hit(x, y) for (_, x), y in zip(d[1], v))
    if k in ("enum", "adjacent"):
        _, kind, pd = d[-1][v[1]]
        return kind != "unit" and f12_hit(pd, v[2])
    if k == "untagged":
        _, kind, pd = d[1][v[1]]
        return kind == "unit" or opaque_val(False, pd, v[2])
    if k == "internal":
        _, kind, pd = d[2][v[1]]
        if kind == "unit" or pd[0] in ("unit", "unitstruct"): return False
        return opaque_val(True, pd, v[2])
    if k == "flat":
        for (_, fl, x), y in zip(d[1], v):
            if not fl:
                if f12_hit(x, y): return True
            elif x[0] == "unit": pass
            elif x[0] == "map":
                if any(opaque_val(False, x[2], a) or opaque_val(False, x[3], b) for a, b in y): return True
            elif opaque_val(True, x, y): return True
        return False
    return False

def opt_in_opt(d):
    def nullable(d):
        return d[0] in ("opt", "any") or (d[0] == "newtype" and nullable(d[1]))
    k = d[0]
    if k == "opt": return nullable(d[1]) or opt_in_opt(d[1])
    if k == "newtype": return opt_in_opt(d[1])
    if k == "seq": return opt_in_opt(d[2])
    if k in ("tup", "tupstruct"): return any(opt_in_opt(x) for x in d[1])
    if k == "map": return opt_in_opt(d[2]) or opt_in_opt(d[3])
    if k == "struct": return any(opt_in_opt(x) for _, x in d[1])
    if k in ("enum", "internal", "adjacent", "untagged"): return any(opt_in_opt(x) for _, _, x in d[-1])
    if k == "flat": return any(opt_in_opt(x) for _, _, x in d[1])
    return False

# ---------------------------------------------------------------- CBOR writer (inputs for DE)
class Framing:
    """How to write heads and containers: minimal / random wider heads / indefinite containers / extra fields."""
    def __init__(self, rng=None, wide=0.0, indef=0.0, extra=0.0, shuffle=0.0, drop_opt=0.0, chunk=0.0):
        self.rng, self.wide, self.indef, self.extra, self.shuffle, self.drop_opt, self.chunk = rng, wide, indef, extra, shuffle, drop_opt, chunk
    def hd(self, mt, n):
        if self.rng is None or self.rng.random() >= self.wide: return head(mt, n)
        return head(mt, n, self.rng.choice(widths_for(n)))
    def p(self, x): return self.rng is not None and self.rng.random() < x
    def arr(self, items, fixed=False):
        if not fixed and self.p(self.indef): return b"\x9f" + b"".join(items) + b"\xff"
        return self.hd(4, len(items)) + b"".join(items)
    def map(self, pairs, force_indef=False):
        if force_indef or self.p(self.indef): return b"\xbf" + b"".join(a + b for a, b in pairs) + b"\xff"
        return self.hd(5, len(pairs)) + b"".join(a + b for a, b in pairs)
    def text(self, b):
        if self.p(self.chunk):
            cut = self.rng.randrange(0, len(b) + 1)
            # cut only at a character boundary so that both chunks stay valid UTF-8
            while cut < len(b) and (b[cut] & 0xc0) == 0x80: cut += 1
            return b"\x7f" + self.hd(3, cut) + b[:cut] + self.hd(3, len(b) - cut) + b[cut:] + b"\xff"
        return self.hd(3, len(b)) + b
    def integer(self, x): return self.hd(0, x) if x >= 0 else self.hd(1, -1 - x)

def enc_any(v, fr):
    _, i, p = v
    n = ANY_KINDS[i]
    if n == "bool": return b"\xf5" if p else b"\xf4"
    if n in ("u8", "u16", "u32", "u64", "i8", "i16", "i32", "i64", "char"): return head(0, p) if p >= 0 else head(1, -1 - p)
    if n == "f32": return b"\xfa" + p.to_bytes(4, "big")
    if n == "f64": return b"\xfb" + p.to_bytes(8, "big")
    if n == "str": return head(3, len(p)) + p
    if n == "bytes": return head(2, len(p)) + p
    if n == "none": return b"\xf6"
    if n == "unit": return b"\x80"
    if n == "seq": return fr.arr([enc_any(x, fr) for x in p])
    if n == "map": return fr.map([(enc_any(p[j], fr), enc_any(p[j + 1], fr)) for j in range(0, len(p), 2)])
    return enc_any(p, fr)

def extra_fields(fr, n_known):
    """unknown struct fields: a text key not used by the family and an arbitrary item (also nested / indefinite)"""
    out = []
    if fr.p(fr.extra):
        for _ in range(fr.rng.randrange(1, 3)):
            key = fr.rng.choice([b"zz", b"extra", b"_", b"", b"x1", "é".encode()])
            out.append((head(3, len(key)) + key, gen_item(fr.rng, 2, allow_indef=True)))
    return out

def struct_pairs(fields, vals, fr):
    pairs = []
    for (n, d), v in zip(fields, vals):
        if d[0] == "opt" and v is None and (n.endswith("_s") or fr.p(fr.drop_opt)): continue     # `_s`: skip_serializing_if = Option::is_none
        nb = n.encode()
        pairs.append((fr.text(nb) if False else head(3, len(nb)) + nb, encode(d, v, fr)))
    pairs += extra_fields(fr, len(fields))
    if fr.p(fr.shuffle): fr.rng.shuffle(pairs)
    return pairs

def tstr(s): b = s.encode(); return head(3, len(b)) + b

def encode(d, v, fr):
    k = d[0]
    if k == "bool": return b"\xf5" if v else b"\xf4"
    if k in ("u", "i", "char"): return fr.integer(v)
    if k == "f32": return b"\xfa" + v.to_bytes(4, "big")
    if k == "f64": return b"\xfb" + v.to_bytes(8, "big")
    if k in ("str", "disp"): return fr.text(v)
    if k == "bytes": return fr.hd(2, len(v)) + v
    if k in ("unit", "unitstruct", "ign"): return fr.hd(4, 0)
    if k == "opt": return b"\xf6" if v is None else encode(d[1], v[1], fr)
    if k == "newtype": return encode(d[1], v, fr)
    if k == "seq":
        items = [encode(d[2], x, fr) for x in v]
        if not d[1] and fr.rng is None: return b"\x9f" + b"".join(items) + b"\xff"
        return fr.arr(items)
    if k in ("tup", "tupstruct"): return fr.arr([encode(x, y, fr) for x, y in zip(d[1], v)], fixed=not fr.p(0.1))
    if k == "map":
        pairs = [(encode(d[2], a, fr), encode(d[3], b, fr)) for a, b in v]
        if fr.p(fr.shuffle): fr.rng.shuffle(pairs)
        return fr.map(pairs, force_indef=(not d[1] and fr.rng is None))
    if k == "struct": return fr.map(struct_pairs(d[1], v, fr))
    if k == "enum":
        name, kind, pd = d[1][v[1]]
        if kind == "unit": return tstr(name)
        return fr.hd(5, 1) + tstr(name) + encode(pd, v[2], fr)
    if k == "internal":
        name, kind, pd = d[2][v[1]]
        tag = (tstr(d[1]), tstr(name))
        if kind == "unit" or pd[0] in ("unit", "unitstruct"): pairs = [tag]
        else:
            while pd[0] == "newtype": pd = pd[1]
            if pd[0] == "struct": pairs = [tag] + struct_pairs(pd[1], v[2], fr)
            else: pairs = [tag] + [(encode(pd[2], a, fr), encode(pd[3], b, fr)) for a, b in v[2]]
        if fr.p(fr.shuffle): fr.rng.shuffle(pairs)
        return fr.map(pairs)
    if k == "adjacent":
        name, kind, pd = d[3][v[1]]
        pairs = [(tstr(d[1]), tstr(name))]
        if kind != "unit": pairs.append((tstr(d[2]), encode(pd, v[2], fr)))
        pairs += extra_fields(fr, 2)
        if fr.p(fr.shuffle): fr.rng.shuffle(pairs)
        return fr.map(pairs)
    if k == "untagged":
        _, kind, pd = d[1][v[1]]
        return fr.hd(4, 0) if kind == "unit" else encode(pd, v[2], fr)
    if k == "flat":
        pairs = []
        for (n, fl, x), y in zip(d[1], v):
            if not fl: pairs.append((tstr(n), encode(x, y, fr)))
            elif x[0] == "struct": pairs += struct_pairs(x[1], y, Framing(fr.rng, fr.wide, fr.indef, 0, 0, fr.drop_opt, 0))
            elif x[0] == "map": pairs += [(encode(x[2], a, fr), encode(x[3], b, fr)) for a, b in y]
        if fr.p(fr.shuffle): fr.rng.shuffle(pairs)
        return fr.map(pairs, force_indef=(fr.rng is None))
    if k == "any": return enc_any(v, fr)
    raise ValueError(d)

PLAIN = Framing()
