"""C13 — bounded sinks: encoding succeeds iff it fits, never overruns, sink-independent."""
from lib import *
import typegen as tg

KINDS = ["slice", "cursor_slice", "cursor_array", "cursor_box", "vec", "io_vec", "io_slice", "io_trickle"]
ARR_CAPS = set(list(range(0, 41)) + [48, 64, 128, 256, 300])
RULE = ("SINK <kind> <cap> <chunks>: a sequence of raw write_all calls (chunk lengths 0..=cap+1, exhaustive for small capacities) on each "
        "of the eight sink kinds (the five of the property; the io adapter over a Vec, over std's bounded slice writer, and over a writer accepting one byte per call); SINKE <kind> <cap> <type> <value>: a registry value encoded with the real Encoder into a sink of every "
        "capacity 0..=len+1. Real sinks (with canary bytes around every bounded buffer) vs the Coq sink model applied to the model's "
        "chunk list. O=: ok iff the encoding fits, content is a prefix of the encoding, position == bytes accepted, nothing outside "
        "the sink or beyond the position modified, success => content == encoding. Non-trivial: capacity within 2 of the output size.")
ASSUMPTIONS = ["std's bounded slice writer behind the io adapter copies the part of a chunk that fits before failing (std behaviour): its content is a prefix, not chunk-aligned (C13_io_bounded)",
               "Cursor<[u8; N]> is exercised for the capacities compiled into the harness (0..=40, 48, 64, 128, 256, 300)"]

def generate(tier, rng):
    big = tier == "thorough"
    out = []
    # exhaustive raw write_all sequences: capacities 0..4, up to 3 chunks of length 0..cap+1
    for cap in range(0, 5 if big else 4):
        lens = range(0, cap + 2)
        seqs = [[a] for a in lens] + [[a, b] for a in lens for b in lens] + [[a, b, c] for a in lens for b in lens for c in lens]
        for seq in seqs:
            cnt = [0]
            def chunk(n):
                b = bytes(((cnt[0] + i) % 251) + 1 for i in range(n)); cnt[0] += n; return b
            chunks = "|".join(hexs(chunk(n)) if n else "-" for n in seq)
            for k in KINDS:
                out.append("SINK %s %d %s" % (k, cap, chunks))
    for k in KINDS: out.append("SINK %s 3 ." % k)
    # random longer sequences
    for _ in range(3000 if big else 400):
        cap = rng.choice([5, 8, 16, 23, 24, 32, 40, 64, 256])
        n = rng.randrange(1, 7)
        chunks = "|".join(hexs(bytes(rng.getrandbits(8) for _ in range(rng.choice([0, 1, 2, 3, 5, 9, cap // 2, cap, cap + 1])))) or "-" for _ in range(n))
        for k in KINDS: out.append("SINK %s %d %s" % (k, cap, chunks))
    # whole values into every capacity 0..=len+1
    keys = tg.REGISTRY if big else tg.REGISTRY[:: 3]
    for key in keys:
        d = tg.parse_desc(key)
        for _ in range(6 if big else 2):
            v = tg.rust_order(d, tg.gen_value(d, rng))
            n = len(tg.encode(d, v))
            if n > 60: continue
            t = tg.show(d, v)
            for cap in range(0, n + 2):
                for k in KINDS:
                    if k == "cursor_array" and cap not in ARR_CAPS: continue
                    out.append("SINKE %s %d %s %s" % (k, cap, key, t))
    out += ["EWM %d" % c for c in range(0, 15)]
    return out

def nontrivial(line, impl):
    return "written=-" not in impl or impl.startswith("err")

def classify(line, impl):
    t = line.split()
    return t[0] + ":" + t[1] + ":" + impl.split(";")[0]
