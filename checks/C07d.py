"""C07 (derived part) — derived CborLen is exact.  To be merged into checks/C07.py."""
import derivegen as dg
from derivegen import prepare, route, oracle

RULE = ("DLEN <sid> <schema> <def> <value>: minicbor::len of a value of a generated type definition (schema grammar of checks/derivegen.py, incl. "
        "23/24/25/30-field definitions under map and array encoding, tags at every level, transparent, skip, index_only, codecs) vs. the bytes "
        "minicbor::to_vec writes; the real derive output vs. the Coq interpreters gen_len / gen_encode; S= is the documented encoding and its "
        "length. All Some/None combinations of optional fields up to 2^10 per definition. O= (implementation only): len == bytes written, an "
        "exactly-sized slice suffices, one byte less fails. Non-trivial: more than 2 bytes.")
ASSUMPTIONS = ["usize arithmetic of the generated cbor_len cannot overflow for values that fit in memory", "same grammar limits as C08"]

def generate(tier, rng):
    w = dg.get_world(tier, rng)
    rng.getrandbits(32)                  # a different value stream than C08
    big = [sc for sc in w.base if any(len(dg.all_fields(d)) >= 10 for d in sc.defs)]
    return dg.denc_cases(w, rng, tier, op="DLEN") + dg.denc_cases(w, rng, tier, schemas=big + [w.fixed["f6"], w.fixed["f7"], w.fixed["trc"]], per=2, op="DLEN")

def nontrivial(line, impl): return len(impl.split(";")[0]) > 4
def classify(line, impl):
    t = line.split(" ")
    return t[0] + (":" + [x for x in t if x.startswith("k=")][0] if any(x.startswith("k=") for x in t) else "")
def in_known_class(cls, line, impl): return dg.known_class(cls, line, impl)
