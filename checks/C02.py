"""C02 — decoding untrusted bytes is total: no panic, no hang, bounded memory, in bounds."""
from lib import *
import typegen as tg

ACCS = ["u8", "u16", "u32", "u64", "i8", "i16", "i32", "i64", "int", "char", "bool", "null", "undefined", "simple",
        "f16", "f32", "f64", "bytes", "str", "bytes_iter", "str_iter", "array", "map", "tag", "skip", "datatype"]
TYPES = ["u8", "i64", "int", "char", "f64", "string", "bytevec", "bytearr4", "cstring", "unit", "opt(u8)", "opt(opt(u8))", "result(u8,string)",
         "seq(u8)", "seq(opt(u16))", "seq(seq(i8))", "deque(i32)", "heap(u32)", "bset(i16)", "hset(u8)", "arr0(u8)", "arr3(u16)", "arr2(string)",
         "bmap(u8,string)", "hmap(u16,bool)", "tup(u8,i8)", "tup(string,opt(u8),bool)", "range(u8)", "rangefrom(u32)", "bound(i32)",
         "duration", "systemtime", "ip", "sock", "tag", "tagged7(u8)", "nzu8", "nzi64", "strref", "bytesref", "cstrref",
         "bmap(u8,opt(seq(bound(i32))))", "seq(result(u8,string))"]
RULE = ("Every byte string of length <= 2 (all 65 793) through all 26 accessors (D) and 43 typed decodes (DT); all 256 initial bytes x every "
        "argument width x boundary arguments (0,1,23,24,2^k+-1,2^64-1) with too-short / exact / too-long tails; type-directed mutations of "
        "valid encodings of every registry type (DT); sequences of decoder calls with set_position (incl. usize::MAX) and probe (SEQ); "
        "Size::head for all 256 bytes and Size::tail on all heads (SZ); drop accounting of partially decoded arrays/collections (DROPS). "
        "Real crate vs extracted model (outcome class, value, position). O= (implementation only): no panic (unwind boundary; a process "
        "abort or hang is attributed to its case), position <= max(position before, input length), bytes requested from a counting "
        "global allocator <= 1 MiB + 512 * input length, every created element dropped exactly once. Non-trivial: input longer than 1 byte.")
ASSUMPTIONS = ["out-of-bounds reads and the unsafe blocks (ArrayVec, ByteSlice casts) are runtime facts outside the model; Miri is not part of the registered commands",
               "wall-clock bound: a case that does not finish kills its process after the shard timeout and is reported as 'hang'"]

def generate(tier, rng):
    big = tier == "thorough"
    out = []
    inputs = [b""] + [bytes([a]) for a in range(256)]
    two = [bytes([a, b]) for a in range(256) for b in range(256)]
    if not big: two = two[:: 5] + [bytes([a, b]) for a in (0x18, 0x38, 0x58, 0x78, 0x98, 0xb8, 0xd8, 0xf8, 0x5f, 0x7f, 0x9f, 0xbf, 0xf9) for b in range(256)]
    inputs += two
    for i, b in enumerate(inputs):
        h = hexs(b)
        accs = ACCS if (big or len(b) < 2) else [ACCS[(i + k) % len(ACCS)] for k in range(4)] + ["skip", "datatype"]
        for a in accs: out.append("D %s %s" % (a, h))
        tys = TYPES if len(b) < 2 else [TYPES[(i * 7 + k) % len(TYPES)] for k in range(6 if big else 3)]
        for t in tys: out.append("DT %s %s" % (t, h))
    # every initial byte x argument width x boundary argument x tail
    for ib in range(256):
        ai = ib & 31
        w = {24: 1, 25: 2, 26: 4, 27: 8}.get(ai, 0)
        args = [0] if w == 0 else sorted({0, 1, 23, 24, (1 << (8 * w)) - 1, (1 << (8 * w - 1)), (1 << (8 * w - 1)) - 1, 255 if w > 1 else 200, 1000 % (1 << (8 * w))})
        for n in args:
            hd = bytes([ib]) + (n.to_bytes(w, "big") if w else b"")
            for tail in (b"", b"\x00", b"\x01\x02\x03", b"\xff", bytes(24)):
                h = hexs(hd + tail)
                for a in ("skip", "datatype", "bytes_iter", "str_iter", ACCS[ib % len(ACCS)]): out.append("D %s %s" % (a, h))
                for t in ("seq(u8)", "string", "bmap(u8,string)", "arr3(u16)", TYPES[ib % len(TYPES)]): out.append("DT %s %s" % (t, h))
        out.append("SZ head %d" % ib)
        for n in (0, 23, 24, 255, 65535, U64):
            for w2 in widths_for(n): out.append("SZ tail %s" % hexs(head(ib >> 5, n, w2)))
        out.append("SZ tail %s" % hexs(bytes([ib])))
    out.append("SZ tail -")
    # type-directed mutations of valid encodings
    for key in tg.REGISTRY + tg.BORROWED:
        d = tg.parse_desc(key)
        for _ in range(60 if big else 12):
            v = tg.rust_order(d, tg.gen_value(d, rng))
            e = tg.encode(d, v, rng if rng.random() < 0.5 else None)
            for _ in range(3):
                out.append("DT %s %s" % (key, hexs(mutate(rng, e))))
    # hostile declared lengths
    for hd in ("9b00000000ffffffff", "9bffffffffffffffff", "bb00000000ffffffff", "5bffffffffffffffff", "7b7fffffffffffffff", "9a00100000", "ba00100000", "9f", "bf", "5f", "7f"):
        for t in ("seq(u8)", "seq(seq(i8))", "bmap(u8,string)", "hmap(u16,bool)", "string", "bytevec", "arr3(u16)", "deque(i32)", "heap(u32)", "bset(i16)", "tup(u8,i8)", "range(u8)", "duration"):
            out.append("DT %s %s" % (t, hd + "0102"))
        out.append("D skip %s" % hd)
    out.append("DT duration 821bffffffffffffffff1a3b9aca00")
    out.append("DT systemtime 821bffffffffffffffff00")
    # sequences of decoder calls
    pool = ["a:" + a for a in ACCS if a != "datatype"] + ["p:u8", "p:skip", "p:str", "dt", "pos", "sp:0", "sp:1", "sp:2", "sp:5", "sp:18446744073709551615", "sp:9223372036854775807",
            "t:seq(u8)", "t:string", "t:opt(u8)", "t:bmap(u8,string)", "t:duration"]
    for _ in range(6000 if big else 1500):
        e = gen_item(rng, 2) + gen_item(rng, 1)
        if rng.random() < 0.3: e = mutate(rng, e)
        ops = ";".join(rng.choice(pool) for _ in range(rng.randrange(1, 6)))
        out.append("SEQ %s %s" % (hexs(e), ops))
    # drop accounting
    for k, n in (("arr0", 0), ("arr1", 1), ("arr3", 3), ("arr8", 8), ("seq", 4), ("opt", 1), ("tup3", 3), ("bset", 3), ("range", 2)):
        for cnt in range(0, n + 3):
            good = bytes(range(1, cnt + 1))
            for enc in (head(4, cnt) + good, b"\x9f" + good + b"\xff", head(4, cnt) + good[:-1] + b"\x61" if cnt else b"\x80", head(4, cnt + 1) + good, b"\x9f" + good):
                out.append("DROPS %s %s" % (k, hexs(enc)))
    out += iter_twins(out)        # Decoder::array_iter / map_iter (context-free twins of the iterators the Vec / map impls use)
    return out

def nontrivial(line, impl):
    t = line.split()
    return len(t) >= 3 and len(t[2]) > 2

def classify(line, impl):
    t = line.split()
    first = impl.split(",")[0]
    return t[0] + ":" + first.split("@")[0].split(":")[0] + (":" + first.split(":")[1].split("@")[0] if first.startswith("err:") else "")
