//! IOR / IOW / AIOR / AIOW: the four minicbor-io machines under scripted sources, sinks and callers.
//! Case syntax and result text: see ocaml/ops_io.ml (the two must print the same text).
//! The async machines run under a hand-rolled deterministic executor: a no-op waker and manual
//! `Future::poll`; the caller script decides after every `Pending` whether to poll again or to drop the
//! future and re-issue the call.
use crate::util::*;
use futures_io::{AsyncRead, AsyncWrite};
use minicbor::bytes::ByteVec;
use minicbor::encode::{self, Encoder, Write as CborWrite};
use minicbor_io::{AsyncReader, AsyncWriter, Error, Reader, Writer};
use std::collections::VecDeque;
use std::future::Future;
use std::io;
use std::pin::Pin;
use std::task::{Context, Poll, RawWaker, RawWakerVTable, Waker};

// ------------------------------------------------------------------ case parsing
fn kv<'a>(a: &[&'a str], key: &str) -> &'a str {
    for t in a {
        if let Some(rest) = t.strip_prefix(key) {
            if let Some(v) = rest.strip_prefix('=') { return v }
        }
    }
    "-"
}

fn items(s: &str) -> Vec<&str> {
    if s == "-" || s.is_empty() { Vec::new() } else { s.split(',').collect() }
}

fn hexdot(s: &str) -> Vec<u8> { if s == "." { Vec::new() } else { unhex(s) } }

fn frame_of(p: &[u8]) -> Vec<u8> {
    let mut v = (p.len() as u32).to_be_bytes().to_vec();
    v.extend_from_slice(p);
    v
}

enum Item { Frame(Vec<u8>, bool), Raw(Vec<u8>) }

struct ReaderCase { max: u32, items: Vec<Item>, cut: Option<usize>, data: Vec<u8> }

fn reader_case(a: &[&str]) -> ReaderCase {
    let max: u32 = kv(a, "max").parse().unwrap();
    let bits: Vec<char> = kv(a, "dec").chars().collect();
    let mut bi = 0;
    let mut its = Vec::new();
    let mut data = Vec::new();
    for it in items(kv(a, "frames")) {
        if let Some(r) = it.strip_prefix('r') {
            let b = unhex(r);
            data.extend_from_slice(&b);
            its.push(Item::Raw(b))
        } else {
            let p = hexdot(it);
            let bit = bi < bits.len() && bits[bi] == '1';
            bi += 1;
            data.extend_from_slice(&frame_of(&p));
            its.push(Item::Frame(p, bit))
        }
    }
    let cut = match kv(a, "cut") { "-" => None, k => Some(k.parse::<usize>().unwrap()) };
    if let Some(k) = cut { data.truncate(k) }
    ReaderCase { max, items: its, cut, data }
}

fn err_class(e: &Error) -> &'static str {
    match e {
        Error::Io(e) if e.kind() == io::ErrorKind::UnexpectedEof => "eof",
        Error::Io(e) if e.kind() == io::ErrorKind::WriteZero => "wz",
        Error::Io(_) => "io",
        Error::Decode(_) => "dec",
        Error::Encode(_) => "enc",
        Error::InvalidLen => "len",
        _ => "other"
    }
}

fn show_read(r: Result<Option<ByteVec>, Error>) -> String {
    match r {
        Ok(Some(v)) => format!("v:{}", hex_or_dash(&minicbor::to_vec(&v).unwrap())),
        Ok(None) => "end".into(),
        Err(e) => format!("e:{}", err_class(&e))
    }
}

fn list_or_dash(l: &[String]) -> String { if l.is_empty() { "-".into() } else { l.join(",") } }
fn show_chunks(cs: &[Vec<u8>]) -> String {
    if cs.is_empty() { "-".into() } else { cs.iter().map(|c| hex_or_dash(c)).collect::<Vec<_>>().join("|") }
}

/// What the property says the successive read calls return for this stream (None: the case contains raw
/// items, for which only the generic clauses are checked).  Written from the property text, not from the code.
fn expected_reads(c: &ReaderCase) -> Option<Vec<String>> {
    let mut outs = Vec::new();
    let mut off = 0usize;
    let cut = c.cut.unwrap_or(usize::MAX);
    for it in &c.items {
        match it {
            Item::Raw(_) => return None,
            Item::Frame(p, bit) => {
                if cut == off { outs.push("end".into()); return Some(outs) }
                let end = off + 4 + p.len();
                if cut < end {
                    // the stream stops inside this frame
                    if cut >= off + 4 && p.len() > c.max as usize { outs.push("e:len".into()) } else { outs.push("e:eof".into()) }
                    return Some(outs)
                }
                if p.len() > c.max as usize { outs.push("e:len".into()); return Some(outs) }
                outs.push(if *bit { format!("v:{}", hex_or_dash(p)) } else { "e:dec".into() });
                off = end
            }
        }
    }
    outs.push("end".into());
    Some(outs)
}

/// the `dec` bits of the case line must be the verdict of the real decoder
fn check_dec_table(c: &ReaderCase) -> Result<(), String> {
    for it in &c.items {
        if let Item::Frame(p, bit) = it {
            let real = minicbor::decode::<ByteVec>(p).is_ok();
            if real != *bit { return Err(format!("dec-table: payload {} decodes={} but the case says {}", hex_or_dash(p), real, bit)) }
        }
    }
    Ok(())
}

// ------------------------------------------------------------------ IOR: blocking reader
#[derive(Clone, Copy)]
enum RTok { Data(usize), Intr, Err }

struct ScriptedRead { data: Vec<u8>, pos: usize, sched: VecDeque<RTok>, calls: usize, budget: usize }

impl ScriptedRead {
    fn deliver(&mut self, buf: &mut [u8], k: usize) -> usize {
        let n = k.min(buf.len()).min(self.data.len() - self.pos);
        buf[.. n].copy_from_slice(&self.data[self.pos .. self.pos + n]);
        self.pos += n;
        n
    }
}

/// A correct implementation makes at most one call per script token plus a few per frame; anything far
/// beyond that is a runaway loop and must end the case (as a panic, i.e. a reported failing input), not hang.
fn runaway(calls: usize, script: usize, bytes: usize) {
    if calls > 4 * (script + bytes) + 64 { panic!("runaway loop: {} inner calls", calls) }
}

impl io::Read for ScriptedRead {
    fn read(&mut self, buf: &mut [u8]) -> io::Result<usize> {
        self.calls += 1;
        runaway(self.calls, self.budget, self.data.len());
        match self.sched.pop_front() {
            None => Ok(self.deliver(buf, usize::MAX)),
            Some(RTok::Data(k)) => Ok(self.deliver(buf, k)),
            Some(RTok::Intr) => Err(io::ErrorKind::Interrupted.into()),
            Some(RTok::Err) => Err(io::Error::new(io::ErrorKind::Other, "scripted"))
        }
    }
}

pub fn ior_handler(a: &[&str]) -> String {
    let c = reader_case(a);
    let toks = items(kv(a, "sched"));
    let has_err = toks.iter().any(|t| *t == "E");
    let sched: VecDeque<RTok> = toks.iter().map(|t| match *t { "I" => RTok::Intr, "E" => RTok::Err, k => RTok::Data(k.parse().unwrap()) }).collect();
    let budget = sched.len();
    // every third case goes through the with_buffer constructor (an empty buffer with spare capacity: the model starts from an empty buffer)
    let src = ScriptedRead { data: c.data.clone(), pos: 0, sched, calls: 0, budget };
    let mut reader = if c.data.len() % 3 == 1 { Reader::with_buffer(src, Vec::with_capacity(16)) } else { Reader::new(src) };
    reader.set_max_len(c.max);
    let mut outs: Vec<String> = Vec::new();
    let limit = c.data.len() + 2;
    loop {
        let r = show_read(reader.read::<ByteVec>());
        let stop = !(r.starts_with("v:") || r == "e:dec");
        outs.push(r);
        if stop || outs.len() > limit { break }
    }
    let (src, buf) = reader.into_parts();
    let res = format!("{} rest={} reads={} buflen={}", list_or_dash(&outs), src.data.len() - src.pos, src.calls, buf.len());
    // ---- property oracle (C14, reading side)
    let verdict = (|| {
        check_dec_table(&c)?;
        if buf.len() > c.max as usize { return Err(format!("alloc: reader buffer holds {} bytes, max_len is {}", buf.len(), c.max)) }
        if let Some(exp) = expected_reads(&c) {
            if has_err && outs.last().map(|s| s == "e:io").unwrap_or(false) {
                let n = outs.len() - 1;
                if n >= exp.len() || outs[.. n] != exp[.. n] { return Err(format!("reads before the inner error {:?} are not a prefix of {:?}", outs, exp)) }
            } else if outs != exp {
                return Err(format!("reads {:?}, the property expects {:?}", outs, exp))
            }
        }
        Ok(())
    })();
    with_oracle(res, verdict)
}

// ------------------------------------------------------------------ IOW: blocking writer
/// A value whose Encode impl writes a CBOR byte string, or fails after having written some raw bytes.
#[derive(Clone)]
struct Val { content: Vec<u8>, fail: bool }

impl<C> minicbor::Encode<C> for Val {
    fn encode<W: CborWrite>(&self, e: &mut Encoder<W>, _: &mut C) -> Result<(), encode::Error<W::Error>> {
        if self.fail {
            e.writer_mut().write_all(&self.content).map_err(encode::Error::write)?;
            return Err(encode::Error::message("scripted encode failure"))
        }
        e.bytes(&self.content)?.ok()
    }
}

fn val_of_item(it: &str) -> Val {
    match it.strip_prefix('!') {
        Some(p) => Val { content: hexdot(p), fail: true },
        None => Val { content: hexdot(it), fail: false }
    }
}

// a small independent statement of the head of a definite byte string (RFC 8949 3.1), for the oracle
fn bytes_item(content: &[u8]) -> Vec<u8> {
    let n = content.len();
    let mut v = if n < 24 { vec![0x40 + n as u8] } else if n < 256 { vec![0x58, n as u8] } else if n < 65536 { vec![0x59, (n >> 8) as u8, n as u8] }
                else { let mut h = vec![0x5a]; h.extend_from_slice(&(n as u32).to_be_bytes()); h };
    v.extend_from_slice(content);
    v
}

struct RecSink { writes: Vec<Vec<u8>>, fail: bool, flushes: usize }

impl io::Write for RecSink {
    fn write(&mut self, buf: &[u8]) -> io::Result<usize> {
        if self.fail { return Err(io::Error::new(io::ErrorKind::Other, "scripted")) }
        self.writes.push(buf.to_vec());
        Ok(buf.len())
    }
    fn flush(&mut self) -> io::Result<()> {
        self.flushes += 1;
        if self.fail { return Err(io::Error::new(io::ErrorKind::Other, "scripted")) }
        Ok(())
    }
}

pub fn iow_handler(a: &[&str]) -> String {
    let mut max: u32 = kv(a, "max").parse().unwrap();
    let mut max_seen = max;
    // vals items: a value, or a caller operation F (Writer::flush) / M<n> (set_max_len n)
    let its = items(kv(a, "vals"));
    let vals: Vec<Val> = its.iter().map(|s| if *s == "F" || (s.len() > 1 && s.starts_with('M')) { Val { content: Vec::new(), fail: false } } else { val_of_item(s) }).collect();
    let sk: Vec<char> = match kv(a, "sink") { "-" => Vec::new(), s => s.chars().collect() };
    let snk = RecSink { writes: Vec::new(), fail: false, flushes: 0 };
    let mut writer = if vals.len() % 3 == 1 { Writer::with_buffer(snk, Vec::with_capacity(16)) } else { Writer::new(snk) };
    writer.set_max_len(max);
    let mut rs: Vec<String> = Vec::new();
    let mut verdict: Result<(), String> = Ok(());
    let mut expect_sink: Vec<Vec<u8>> = Vec::new();
    for (i, v) in vals.iter().enumerate() {
        let fail_sink = i < sk.len() && sk[i] == 'E';
        writer.writer_mut().fail = fail_sink;
        let before = writer.writer().writes.len();
        if its[i] == "F" || (its[i].len() > 1 && its[i].starts_with('M')) {
            // flush / set_max_len: nothing reaches the sink as data; flush reports the inner result
            let fl0 = writer.writer().flushes;
            if its[i] == "F" {
                let r = writer.flush();
                rs.push(match &r { Ok(()) => "f".to_string(), Err(e) => format!("fe:{}", err_class(e)) });
                if r.is_ok() == fail_sink { verdict = verdict.and(Err(format!("item {}: flush result does not follow the inner flush", i))) }
                if writer.writer().flushes != fl0 + 1 { verdict = verdict.and(Err(format!("item {}: flush did not call the inner flush exactly once", i))) }
            } else {
                let v: u32 = its[i][1 ..].parse().unwrap();
                writer.set_max_len(v);
                max = v;
                max_seen = max_seen.max(v);
                rs.push(format!("m{}", v));
            }
            if writer.writer().writes.len() != before { verdict = verdict.and(Err(format!("item {}: flush / set_max_len wrote to the sink", i))) }
            continue
        }
        let r = writer.write(v.clone());
        let after = writer.writer().writes.len();
        let payload = bytes_item(&v.content);
        let accepted = !v.fail && payload.len() <= max as usize;
        match &r {
            Ok(n) => {
                rs.push(format!("w:{}", n));
                if !(accepted && !fail_sink) { verdict = verdict.and(Err(format!("value {} must be refused but write returned Ok", i))) }
                if *n != payload.len() { verdict = verdict.and(Err(format!("value {}: write returned {} for a payload of {} bytes", i, n, payload.len()))) }
                if after != before + 1 || writer.writer().writes[before] != frame_of(&payload) {
                    verdict = verdict.and(Err(format!("value {}: the sink did not receive exactly one write of length prefix + payload", i)))
                }
                expect_sink.push(frame_of(&payload));
            }
            Err(e) => {
                rs.push(format!("we:{}", err_class(e)));
                if accepted && !fail_sink { verdict = verdict.and(Err(format!("value {} fits but write failed with {}", i, err_class(e)))) }
                if after != before { verdict = verdict.and(Err(format!("value {} was refused ({}) but bytes reached the sink", i, err_class(e)))) }
                let want = if v.fail { "enc" } else if payload.len() > max as usize { "len" } else { "io" };
                if err_class(e) != want { verdict = verdict.and(Err(format!("value {}: error class {} where {} is expected", i, err_class(e), want))) }
            }
        }
    }
    let (sink, buf) = writer.into_parts();
    if sink.writes != expect_sink { verdict = verdict.and(Err("sink content is not the concatenation of the accepted frames".into())) }
    if sink.writes.iter().any(|w| w.len() > max_seen as usize + 4) { verdict = verdict.and(Err("a frame larger than max_len + 4 was emitted".into())) }
    with_oracle(format!("{} sink={} buf={}", list_or_dash(&rs), show_chunks(&sink.writes), hex_or_dash(&buf)), verdict)
}

// ------------------------------------------------------------------ deterministic executor
fn noop_waker() -> Waker {
    fn clone(_: *const ()) -> RawWaker { RawWaker::new(std::ptr::null(), &VTABLE) }
    fn noop(_: *const ()) {}
    static VTABLE: RawWakerVTable = RawWakerVTable::new(clone, noop, noop, noop);
    unsafe { Waker::from_raw(RawWaker::new(std::ptr::null(), &VTABLE)) }
}

struct Calls { toks: VecDeque<char> }
impl Calls {
    fn new(s: &str) -> Self { Calls { toks: if s == "-" { VecDeque::new() } else { s.chars().collect() } } }
    /// the caller's decision after a Pending: true = drop the future and re-issue
    fn drop_now(&mut self) -> bool { self.toks.pop_front() == Some('X') }
}

// ------------------------------------------------------------------ AIOR: AsyncReader
#[derive(Clone, Copy)]
enum ATok { Data(usize), Pend, Err }

struct ScriptedAsyncRead { data: Vec<u8>, pos: usize, sched: VecDeque<ATok>, calls: usize, errs: usize, budget: usize }

impl AsyncRead for ScriptedAsyncRead {
    fn poll_read(mut self: Pin<&mut Self>, _cx: &mut Context<'_>, buf: &mut [u8]) -> Poll<io::Result<usize>> {
        let this = &mut *self;
        this.calls += 1;
        runaway(this.calls, this.budget, this.data.len());
        let k = match this.sched.pop_front() {
            None => usize::MAX,
            Some(ATok::Data(k)) => k,
            Some(ATok::Pend) => return Poll::Pending,
            Some(ATok::Err) => { this.errs += 1; return Poll::Ready(Err(io::Error::new(io::ErrorKind::Other, "scripted"))) }
        };
        let n = k.min(buf.len()).min(this.data.len() - this.pos);
        buf[.. n].copy_from_slice(&this.data[this.pos .. this.pos + n]);
        this.pos += n;
        Poll::Ready(Ok(n))
    }
}

/// one call of `read`, driven to a result under the caller script
fn drive_read(reader: &mut AsyncReader<ScriptedAsyncRead>, calls: &mut Calls, cx: &mut Context<'_>) -> String {
    loop {
        let mut fut = Box::pin(reader.read::<ByteVec>());
        loop {
            match fut.as_mut().poll(cx) {
                Poll::Ready(r) => return show_read(r),
                Poll::Pending => if calls.drop_now() { break }       // leaving the inner loop drops `fut`
            }
        }
    }
}

pub fn aior_handler(a: &[&str]) -> String {
    let c = reader_case(a);
    let sched: VecDeque<ATok> = items(kv(a, "src")).iter().map(|t| match *t { "P" => ATok::Pend, "E" => ATok::Err, k => ATok::Data(k.parse().unwrap()) }).collect();
    let mut calls = Calls::new(kv(a, "calls"));
    let waker = noop_waker();
    let mut cx = Context::from_waker(&waker);
    let budget = sched.len();
    let src = ScriptedAsyncRead { data: c.data.clone(), pos: 0, sched, calls: 0, errs: 0, budget };
    let mut reader = if c.data.len() % 3 == 1 { AsyncReader::with_buffer(src, Vec::with_capacity(16)) } else { AsyncReader::new(src) };
    reader.set_max_len(c.max);
    let mut outs: Vec<String> = Vec::new();
    let limit = 2 * (c.data.len() + items(kv(a, "src")).len()) + 4;
    loop {
        let r = drive_read(&mut reader, &mut calls, &mut cx);
        let stop = !(r.starts_with("v:") || r == "e:dec" || r == "e:io");
        outs.push(r);
        if stop || outs.len() > limit { break }
    }
    let (src, buf) = reader.into_parts();
    let res = format!("{} rest={} polls={} buflen={}", list_or_dash(&outs), src.data.len() - src.pos, src.calls, buf.len());
    // ---- property oracle (C15)
    let verdict = (|| {
        check_dec_table(&c)?;
        if buf.len() > c.max as usize { return Err(format!("alloc: reader buffer holds {} bytes, max_len is {}", buf.len(), c.max)) }
        let nerr = outs.iter().filter(|s| *s == "e:io").count();
        if nerr != src.errs { return Err(format!("{} inner errors were injected but {} were reported", src.errs, nerr)) }
        if let Some(exp) = expected_reads(&c) {
            let got: Vec<String> = outs.iter().filter(|s| *s != "e:io").cloned().collect();
            if got != exp { return Err(format!("reads {:?}, the property expects {:?}", got, exp)) }
            // accounting: every byte taken from the source is in a returned frame (nothing is pending at the end)
            let consumed = src.pos;
            let clean = exp.last().map(|s| s == "end").unwrap_or(false);
            if clean && consumed != c.data.len() { return Err("bytes left in the source after a clean end".into()) }
        }
        Ok(())
    })();
    with_oracle(res, verdict)
}

// ------------------------------------------------------------------ AIOW: AsyncWriter
#[derive(Clone, Copy)]
enum KTok { Accept(usize), Pend, Err }
#[derive(Clone, Copy)]
enum FTok { Ready, Pend, Err }

struct ScriptedAsyncWrite { writes: Vec<Vec<u8>>, sched: VecDeque<KTok>, calls: usize, zeros: usize, budget: usize, fsched: VecDeque<FTok>, fcalls: usize, fbudget: usize }

impl ScriptedAsyncWrite {
    fn new(sched: VecDeque<KTok>, budget: usize, fsched: VecDeque<FTok>, fbudget: usize) -> Self {
        ScriptedAsyncWrite { writes: Vec::new(), sched, calls: 0, zeros: 0, budget, fsched, fcalls: 0, fbudget }
    }
}

impl AsyncWrite for ScriptedAsyncWrite {
    fn poll_write(mut self: Pin<&mut Self>, _cx: &mut Context<'_>, buf: &[u8]) -> Poll<io::Result<usize>> {
        let this = &mut *self;
        this.calls += 1;
        runaway(this.calls, this.budget, 0);
        let k = match this.sched.pop_front() {
            None => usize::MAX,
            Some(KTok::Accept(k)) => k,
            Some(KTok::Pend) => return Poll::Pending,
            Some(KTok::Err) => return Poll::Ready(Err(io::Error::new(io::ErrorKind::Other, "scripted")))
        };
        let n = k.min(buf.len());
        if n == 0 { this.zeros += 1 }
        this.writes.push(buf[.. n].to_vec());
        Poll::Ready(Ok(n))
    }
    fn poll_flush(mut self: Pin<&mut Self>, _cx: &mut Context<'_>) -> Poll<io::Result<()>> {
        let this = &mut *self;
        this.fcalls += 1;
        runaway(this.fcalls, this.fbudget, 0);
        match this.fsched.pop_front() {
            None | Some(FTok::Ready) => Poll::Ready(Ok(())),
            Some(FTok::Pend) => Poll::Pending,
            Some(FTok::Err) => Poll::Ready(Err(io::Error::new(io::ErrorKind::Other, "scripted")))
        }
    }
    fn poll_close(self: Pin<&mut Self>, _cx: &mut Context<'_>) -> Poll<io::Result<()>> { Poll::Ready(Ok(())) }
}

/// A caller operation other than write / sync: `F[PX]*` flush (the letters are the caller's decisions after each
/// Pending of the flush future: P poll again, X drop it; none left = poll again), `M<n>` set_max_len(n).
enum Op { Flush(VecDeque<char>), SetMax(u32) }

/// The stream of gaps (`ops=`): one gap is consumed wherever the caller holds no pending future and is about to
/// issue a protocol call (before each write, before each (re-)issued sync, before the final sync).
struct Gaps { q: VecDeque<Vec<Op>>, cur_max: u32, verdict: Result<(), String> }

impl Gaps {
    fn new(s: &str, max: u32) -> Self {
        let q = if s == "-" { VecDeque::new() } else {
            s.split('/').map(|g| items(g).iter().map(|t| {
                if let Some(d) = t.strip_prefix('F') { Op::Flush(d.chars().map(|c| if c == 'x' { 'X' } else { c }).collect()) }
                else if let Some(n) = t.strip_prefix('M') { Op::SetMax(n.parse().unwrap()) }
                else { panic!("bad op token {}", t) }
            }).collect()).collect()
        };
        Gaps { q, cur_max: max, verdict: Ok(()) }
    }

    /// run the next gap on the real writer; the events go to `evs`.  Oracle (C16 with interleaved operations):
    /// neither flush (completed, failed or dropped) nor set_max_len may put bytes into the sink, call poll_write,
    /// or change what a following sync sends (the latter is seen by the frame oracle of the caller).
    fn run(&mut self, w: &mut AsyncWriter<ScriptedAsyncWrite>, cx: &mut Context<'_>, evs: &mut Vec<String>) {
        let gap = match self.q.pop_front() { Some(g) => g, None => return };
        for op in gap {
            let (calls0, nw0) = (w.writer().calls, w.writer().writes.len());
            match op {
                Op::SetMax(v) => { w.set_max_len(v); self.cur_max = v; evs.push(format!("m{}", v)) }
                Op::Flush(mut ds) => {
                    let mut fut = Box::pin(w.flush());
                    loop {
                        match fut.as_mut().poll(cx) {
                            Poll::Ready(Ok(())) => { evs.push("f".into()); break }
                            Poll::Ready(Err(e)) => { evs.push(format!("fe:{}", err_class(&e))); break }
                            Poll::Pending => if ds.pop_front() == Some('X') { evs.push("fx".into()); break }
                        }
                    }
                }
            }
            if w.writer().calls != calls0 || w.writer().writes.len() != nw0 {
                let v: Result<(), String> = Err("flush / set_max_len called poll_write on the sink".into());
                self.verdict = std::mem::replace(&mut self.verdict, Ok(())).and(v);
            }
        }
    }
}

/// The caller protocol of C16 for one value.  Returns the events, the length the write future reported if it
/// completed itself, and the max_len in force when the write was issued.
fn drive_write(w: &mut AsyncWriter<ScriptedAsyncWrite>, v: &Val, calls: &mut Calls, gaps: &mut Gaps, cx: &mut Context<'_>, limit: usize) -> (Vec<String>, Option<usize>, u32, usize) {
    let mut evs = Vec::new();
    let mut steps = 0;
    gaps.run(w, cx, &mut evs);
    let max_at_start = gaps.cur_max;
    let calls_at_start = w.writer().calls;
    {
        let mut fut = Box::pin(w.write(v.clone()));
        loop {
            steps += 1;
            match fut.as_mut().poll(cx) {
                Poll::Ready(Ok(n)) => { evs.push(format!("w:{}", n)); return (evs, Some(n), max_at_start, calls_at_start) }
                Poll::Ready(Err(e)) => { evs.push(format!("we:{}", err_class(&e))); break }
                Poll::Pending => if calls.drop_now() { break }
            }
        }
    }
    // the write future was dropped or failed: drive sync to completion
    loop {
        gaps.run(w, cx, &mut evs);
        let mut fut = Box::pin(w.sync());
        loop {
            steps += 1;
            if steps > limit { evs.push("sfuel".into()); return (evs, None, max_at_start, calls_at_start) }
            match fut.as_mut().poll(cx) {
                Poll::Ready(Ok(())) => { evs.push("s".into()); return (evs, None, max_at_start, calls_at_start) }
                Poll::Ready(Err(e)) => { evs.push(format!("se:{}", err_class(&e))); break }
                Poll::Pending => if calls.drop_now() { break }
            }
        }
    }
}

pub fn aiow_handler(a: &[&str]) -> String {
    let max: u32 = kv(a, "max").parse().unwrap();
    let vals: Vec<Val> = items(kv(a, "vals")).iter().map(|s| val_of_item(s)).collect();
    let toks = items(kv(a, "sink"));
    let sched: VecDeque<KTok> = toks.iter().map(|t| match *t { "P" => KTok::Pend, "E" => KTok::Err, k => KTok::Accept(k.parse().unwrap()) }).collect();
    let ftoks = items(kv(a, "fl"));
    let fsched: VecDeque<FTok> = ftoks.iter().map(|t| match *t { "P" => FTok::Pend, "E" => FTok::Err, "R" => FTok::Ready, t => panic!("bad fl token {}", t) }).collect();
    let mut calls = Calls::new(kv(a, "calls"));
    let mut gaps = Gaps::new(kv(a, "ops"), max);
    let nflush: usize = gaps.q.iter().map(|g| g.iter().filter(|o| matches!(o, Op::Flush(_))).count()).sum();
    let waker = noop_waker();
    let mut cx = Context::from_waker(&waker);
    let budget = sched.len() + 8 * vals.len();
    let snk = ScriptedAsyncWrite::new(sched, budget, fsched, ftoks.len() + nflush + 4);
    let mut w = if vals.len() % 3 == 1 { AsyncWriter::with_buffer(snk, Vec::with_capacity(16)) } else if vals.len() % 3 == 2 { AsyncWriter::with_buffer(snk, Vec::with_capacity(100_000)) } else { AsyncWriter::new(snk) };
    w.set_max_len(max);
    let limit = 2 * toks.len() + 8;
    let mut evss: Vec<String> = Vec::new();
    let mut verdict: Result<(), String> = Ok(());
    let mut expect: Vec<u8> = Vec::new();
    let mut nwz = 0;
    // a writer built over a recycled, non-empty buffer (with_buffer) is idle: sync before the first write writes nothing
    {
        let snk2 = ScriptedAsyncWrite::new(VecDeque::new(), 4, VecDeque::new(), 4);
        let mut w2 = AsyncWriter::with_buffer(snk2, vec![0xaa; 16]);
        let r = { let mut fut = Box::pin(w2.sync()); fut.as_mut().poll(&mut cx) };
        if !matches!(r, Poll::Ready(Ok(()))) || w2.writer().calls != 0 { verdict = verdict.and(Err("sync on a fresh writer over a recycled buffer wrote to the sink".into())) }
    }
    for (i, v) in vals.iter().enumerate() {
        let payload = bytes_item(&v.content);
        let (evs, ret, max_now, before_calls) = drive_write(&mut w, v, &mut calls, &mut gaps, &mut cx, limit);
        // accepted is judged against the max_len in force when this value's write was issued
        let accepted = !v.fail && payload.len() <= max_now as usize;
        nwz += evs.iter().filter(|e| e.ends_with(":wz")).count();
        if accepted {
            expect.extend_from_slice(&frame_of(&payload));
            if let Some(n) = ret { if n != payload.len() { verdict = verdict.and(Err(format!("value {}: write returned {} for a payload of {} bytes", i, n, payload.len()))) } }
            if evs.iter().any(|e| e == "we:len" || e == "we:enc") { verdict = verdict.and(Err(format!("value {} fits but was refused", i))) }
        } else {
            let want = if v.fail { "we:enc" } else { "we:len" };
            if evs.iter().find(|e| e.starts_with('w')).map(|e| e.as_str()) != Some(want) { verdict = verdict.and(Err(format!("value {} must be refused with {} but got {:?}", i, want, evs))) }
            if w.writer().calls != before_calls { verdict = verdict.and(Err(format!("value {} was refused but the sink was called", i))) }
        }
        // at every completed step of the protocol the sink holds whole frames only
        if w.writer().writes.concat() != expect { verdict = verdict.and(Err(format!("after value {} the sink is not the concatenation of the complete frames written so far", i))) }
        evss.push(evs.join(","));
    }
    // the last gap, then sync on the idle writer
    let mut finevs: Vec<String> = Vec::new();
    gaps.run(&mut w, &mut cx, &mut finevs);
    let before_calls = w.writer().calls;
    let fin = {
        let mut fut = Box::pin(w.sync());
        match fut.as_mut().poll(&mut cx) {
            Poll::Ready(Ok(())) => "s".to_string(),
            Poll::Ready(Err(e)) => format!("se:{}", err_class(&e)),
            Poll::Pending => "pend".to_string()
        }
    };
    if fin != "s" || w.writer().calls != before_calls { verdict = verdict.and(Err("sync on the idle writer did something".into())) }
    finevs.push(fin);
    verdict = verdict.and(std::mem::replace(&mut gaps.verdict, Ok(())));
    let (sink, buf) = w.into_parts();
    if nwz != sink.zeros { verdict = verdict.and(Err(format!("the sink accepted zero bytes {} times but {} write-zero errors were reported", sink.zeros, nwz))) }
    if sink.writes.concat() != expect { verdict = verdict.and(Err("sink content is not the concatenation of the accepted frames".into())) }
    let evtxt = if evss.is_empty() { "-".to_string() } else { evss.join(";") };
    with_oracle(format!("{} fin={} sink={} calls={} fl={} buf={}", evtxt, finevs.join(","), show_chunks(&sink.writes), sink.calls, sink.fcalls, hex_or_dash(&buf)), verdict)
}
