//! E: Encoder methods; D: Decoder accessors.
use crate::util::*;
use minicbor::{Decoder, Encoder};
use minicbor::data::{Int, Tag, Type};

fn enc(f: impl FnOnce(&mut Encoder<ChunkSink>) -> bool) -> String {
    let mut e = Encoder::new(ChunkSink::default());
    if f(&mut e) { e.into_writer().show() } else { "err".into() }
}

pub fn int_of_str(s: &str) -> Int {
    let v: i128 = s.parse().unwrap();
    Int::try_from(v).unwrap()
}

pub fn e_handler(a: &[&str]) -> String {
    let m = a[0];
    let arg = a.get(1).copied().unwrap_or("");
    let r = match m {
        "u8" => { let x: u8 = arg.parse().unwrap(); enc(|e| e.u8(x).is_ok()) }
        "u16" => { let x: u16 = arg.parse().unwrap(); enc(|e| e.u16(x).is_ok()) }
        "u32" => { let x: u32 = arg.parse().unwrap(); enc(|e| e.u32(x).is_ok()) }
        "u64" => { let x: u64 = arg.parse().unwrap(); enc(|e| e.u64(x).is_ok()) }
        "i8" => { let x: i8 = arg.parse().unwrap(); enc(|e| e.i8(x).is_ok()) }
        "i16" => { let x: i16 = arg.parse().unwrap(); enc(|e| e.i16(x).is_ok()) }
        "i32" => { let x: i32 = arg.parse().unwrap(); enc(|e| e.i32(x).is_ok()) }
        "i64" => { let x: i64 = arg.parse().unwrap(); enc(|e| e.i64(x).is_ok()) }
        "int" => { let x = int_of_str(arg); enc(|e| e.int(x).is_ok()) }
        "simple" => { let x: u8 = arg.parse().unwrap(); enc(|e| e.simple(x).is_ok()) }
        "bool" => { let x = arg == "true"; enc(|e| e.bool(x).is_ok()) }
        "null" => enc(|e| e.null().is_ok()),
        "undefined" => enc(|e| e.undefined().is_ok()),
        "char" => { let x = char::from_u32(arg.parse().unwrap()).unwrap(); enc(|e| e.char(x).is_ok()) }
        "f32" => { let x = f32::from_bits(arg.parse().unwrap()); enc(|e| e.f32(x).is_ok()) }
        "f64" => { let x = f64::from_bits(arg.parse().unwrap()); enc(|e| e.f64(x).is_ok()) }
        "f16" => { let x = f32::from_bits(arg.parse().unwrap()); enc(|e| e.f16(x).is_ok()) }
        "tag" => { let x: u64 = arg.parse().unwrap(); enc(|e| e.tag(Tag::new(x)).is_ok()) }
        "array" => { let x: u64 = arg.parse().unwrap(); enc(|e| e.array(x).is_ok()) }
        "map" => { let x: u64 = arg.parse().unwrap(); enc(|e| e.map(x).is_ok()) }
        "bytes" => { let b = unhex(arg); enc(|e| e.bytes(&b).is_ok()) }
        "str" => { let b = unhex(arg); let s = String::from_utf8(b).unwrap(); enc(|e| e.str(&s).is_ok()) }
        "begin_array" => enc(|e| e.begin_array().is_ok()),
        "begin_bytes" => enc(|e| e.begin_bytes().is_ok()),
        "begin_map" => enc(|e| e.begin_map().is_ok()),
        "begin_str" => enc(|e| e.begin_str().is_ok()),
        "end" => enc(|e| e.end().is_ok()),
        _ => return "?bad-E".into()
    };
    // determinism oracle: the same call twice gives the same bytes
    let again = {
        let a2: Vec<&str> = a.to_vec();
        e_raw(&a2)
    };
    with_oracle(r.clone(), if again == r { Ok(()) } else { Err(format!("nondeterministic: {} vs {}", r, again)) })
}

/// one Encoder call on an existing encoder (ES)
fn apply_call(e: &mut Encoder<ChunkSink>, m: &str, arg: &str) -> bool {
    match m {
        "u8" => e.u8(arg.parse().unwrap()).is_ok(), "u16" => e.u16(arg.parse().unwrap()).is_ok(),
        "u32" => e.u32(arg.parse().unwrap()).is_ok(), "u64" => e.u64(arg.parse().unwrap()).is_ok(),
        "i8" => e.i8(arg.parse().unwrap()).is_ok(), "i16" => e.i16(arg.parse().unwrap()).is_ok(),
        "i32" => e.i32(arg.parse().unwrap()).is_ok(), "i64" => e.i64(arg.parse().unwrap()).is_ok(),
        "int" => e.int(int_of_str(arg)).is_ok(), "simple" => e.simple(arg.parse().unwrap()).is_ok(),
        "bool" => e.bool(arg == "true").is_ok(), "null" => e.null().is_ok(), "undefined" => e.undefined().is_ok(),
        "char" => e.char(char::from_u32(arg.parse().unwrap()).unwrap()).is_ok(),
        "f32" => e.f32(f32::from_bits(arg.parse().unwrap())).is_ok(), "f64" => e.f64(f64::from_bits(arg.parse().unwrap())).is_ok(),
        "f16" => e.f16(f32::from_bits(arg.parse().unwrap())).is_ok(),
        "tag" => e.tag(Tag::new(arg.parse().unwrap())).is_ok(), "array" => e.array(arg.parse().unwrap()).is_ok(), "map" => e.map(arg.parse().unwrap()).is_ok(),
        "bytes" => e.bytes(&unhex(arg)).is_ok(), "str" => e.str(&String::from_utf8(unhex(arg)).unwrap()).is_ok(),
        "begin_array" => e.begin_array().is_ok(), "begin_bytes" => e.begin_bytes().is_ok(), "begin_map" => e.begin_map().is_ok(),
        "begin_str" => e.begin_str().is_ok(), "end" => e.end().is_ok(),
        _ => false
    }
}

/// EIT <arr|map> <exact|unbounded|lower|filter> <u16,u16,…>: encode::ArrayIter / MapIter over iterators with the given size hint
pub fn eit_handler(a: &[&str]) -> String {
    use minicbor::encode::{ArrayIter, MapIter};
    let vals: Vec<u16> = if a[2] == "." { vec![] } else { a[2].split(',').map(|v| v.parse().unwrap()).collect() };
    let is_map = a[0] == "map";
    let pairs: Vec<(u16, u16)> = vals.chunks(2).filter(|c| c.len() == 2).map(|c| (c[0], c[1])).collect();
    fn unbounded<T: Clone>(v: Vec<T>, from: usize) -> impl Iterator<Item = T> + Clone {
        let mut i = from;
        std::iter::from_fn(move || { let r = v.get(i).cloned(); i += 1; r })
    }
    macro_rules! go { ($it:expr, $wrap:ident) => {{
        let mut e = Encoder::new(ChunkSink::default());
        let it = $it;
        let hint = it.size_hint();
        let ok = e.encode($wrap::new(it)).is_ok();
        (ok, e.into_writer(), hint)
    }} }
    let (ok, sink, hint) = match (is_map, a[1]) {
        (false, "exact") => go!(vals.clone().into_iter(), ArrayIter),
        (false, "unbounded") => go!(unbounded(vals.clone(), 0), ArrayIter),
        (false, "lower") => { let k = vals.len() / 2; go!(vals.clone().into_iter().take(k).chain(unbounded(vals.clone(), k)), ArrayIter) }
        (false, "filter") => go!(vals.clone().into_iter().filter(|_| true), ArrayIter),
        (true, "exact") => go!(pairs.clone().into_iter(), MapIter),
        (true, "unbounded") => go!(unbounded(pairs.clone(), 0), MapIter),
        (true, "lower") => { let k = pairs.len() / 2; go!(pairs.clone().into_iter().take(k).chain(unbounded(pairs.clone(), k)), MapIter) }
        (true, "filter") => go!(pairs.clone().into_iter().filter(|_| true), MapIter),
        _ => return "?bad-EIT".into()
    };
    if !ok { return "err".into() }
    format!("{};hint={},{}", sink.show(), hint.0, hint.1.map(|u| u.to_string()).unwrap_or("none".into()))
}

/// EBLK <method> <start> <count>: FNV-1a 64 over the outputs of one method on a block of consecutive arguments
pub fn eblk_handler(a: &[&str]) -> String {
    let start: i128 = a[1].parse().unwrap();
    let count: i128 = a[2].parse().unwrap();
    let mut h: u64 = 14695981039346656037;
    let mut buf = [0u8; 16];
    for k in 0 .. count {
        let x = start + k;
        let n = {
            let mut e = Encoder::new(minicbor::encode::write::Cursor::new(&mut buf[..]));
            let ok = match a[0] {
                "u32" => e.u32(x as u32).is_ok(), "i32" => e.i32(x as i32).is_ok(), "f32" => e.f32(f32::from_bits(x as u32)).is_ok(),
                "u64lo" => e.u64(x as u64).is_ok(), "i64lo" => e.i64(x as i64).is_ok(),
                _ => return "?bad-EBLK".into()
            };
            if !ok { return "err".into() }
            e.writer().position()
        };
        for b in &buf[.. n] { h = (h ^ (*b as u64)).wrapping_mul(1099511628211); }
        h = (h ^ 255).wrapping_mul(1099511628211);
    }
    format!("{:016x}", h)
}

/// IC <z>: Int::try_from(i128) and every conversion out of / into Int
pub fn ic_handler(a: &[&str]) -> String {
    let z: i128 = a[0].parse().unwrap();
    fn o<T: ToString, E>(r: Result<T, E>) -> String { r.map(|v| v.to_string()).unwrap_or_else(|_| "none".into()) }
    let mut out = Vec::new();
    match Int::try_from(z) {
        Err(_) => out.push("int=none".to_string()),
        Ok(i) => {
            out.push(format!("int={}", i128::from(i)));
            out.push(format!("u8={}", o(u8::try_from(i)))); out.push(format!("u16={}", o(u16::try_from(i))));
            out.push(format!("u32={}", o(u32::try_from(i)))); out.push(format!("u64={}", o(u64::try_from(i))));
            out.push(format!("u128={}", o(u128::try_from(i))));
            out.push(format!("i8={}", o(i8::try_from(i)))); out.push(format!("i16={}", o(i16::try_from(i))));
            out.push(format!("i32={}", o(i32::try_from(i)))); out.push(format!("i64={}", o(i64::try_from(i))));
        }
    }
    if let Ok(u) = u128::try_from(z) { out.push(format!("fromu128={}", o(Int::try_from(u).map(i128::from)))) }
    if let Ok(v) = i64::try_from(z) { out.push(format!("fromi64={}", i128::from(Int::from(v)))) }
    if let Ok(v) = u64::try_from(z) { out.push(format!("fromu64={}", i128::from(Int::from(v)))) }
    if let Ok(v) = i8::try_from(z) { out.push(format!("fromi8={}", i128::from(Int::from(v)))) }
    let all = out.join(";");
    // oracle: each conversion is the identity on values when it succeeds and fails exactly outside the range
    let mut verdict = Ok(());
    let in_int = z >= -(1i128 << 64) && z < (1i128 << 64);
    if in_int != !all.starts_with("int=none") { verdict = Err("Int::try_from(i128) range".into()) }
    for (name, lo, hi) in [("u8", 0i128, 255i128), ("u16", 0, 65535), ("u32", 0, (1 << 32) - 1), ("u64", 0, (1 << 64) - 1), ("u128", 0, i128::MAX),
                           ("i8", -128, 127), ("i16", -32768, 32767), ("i32", -(1 << 31), (1 << 31) - 1), ("i64", -(1 << 63), (1 << 63) - 1)] {
        if !in_int { break }
        let want = if z >= lo && z <= hi { format!("{}={}", name, z) } else { format!("{}=none", name) };
        if !all.split(';').any(|f| f == want) { verdict = Err(format!("conversion to {}: expected {}", name, want)) }
    }
    with_oracle(all, verdict)
}

/// ES <call;call;…> [=<expected hex>]: a sequence of Encoder calls on one encoder
pub fn es_handler(a: &[&str]) -> String {
    let mut e = Encoder::new(ChunkSink::default());
    for c in a[0].split(';').filter(|c| !c.is_empty()) {
        let (m, arg) = c.split_once(':').unwrap_or((c, ""));
        if !apply_call(&mut e, m, arg) { return "err".into() }
    }
    let first = e.into_writer().show();
    // determinism: the same calls again
    let mut e2 = Encoder::new(ChunkSink::default());
    for c in a[0].split(';').filter(|c| !c.is_empty()) {
        let (m, arg) = c.split_once(':').unwrap_or((c, ""));
        apply_call(&mut e2, m, arg);
    }
    let again = e2.into_writer().show();
    with_oracle(first.clone(), if first == again { Ok(()) } else { Err("nondeterministic".into()) })
}

fn e_raw(a: &[&str]) -> String {
    // second evaluation for the determinism oracle (no recursion into the oracle)
    let m = a[0];
    let arg = a.get(1).copied().unwrap_or("");
    match m {
        "u8" => { let x: u8 = arg.parse().unwrap(); enc(|e| e.u8(x).is_ok()) }
        "u16" => { let x: u16 = arg.parse().unwrap(); enc(|e| e.u16(x).is_ok()) }
        "u32" => { let x: u32 = arg.parse().unwrap(); enc(|e| e.u32(x).is_ok()) }
        "u64" => { let x: u64 = arg.parse().unwrap(); enc(|e| e.u64(x).is_ok()) }
        "i8" => { let x: i8 = arg.parse().unwrap(); enc(|e| e.i8(x).is_ok()) }
        "i16" => { let x: i16 = arg.parse().unwrap(); enc(|e| e.i16(x).is_ok()) }
        "i32" => { let x: i32 = arg.parse().unwrap(); enc(|e| e.i32(x).is_ok()) }
        "i64" => { let x: i64 = arg.parse().unwrap(); enc(|e| e.i64(x).is_ok()) }
        "int" => { let x = int_of_str(arg); enc(|e| e.int(x).is_ok()) }
        "simple" => { let x: u8 = arg.parse().unwrap(); enc(|e| e.simple(x).is_ok()) }
        "bool" => { let x = arg == "true"; enc(|e| e.bool(x).is_ok()) }
        "null" => enc(|e| e.null().is_ok()),
        "undefined" => enc(|e| e.undefined().is_ok()),
        "char" => { let x = char::from_u32(arg.parse().unwrap()).unwrap(); enc(|e| e.char(x).is_ok()) }
        "f32" => { let x = f32::from_bits(arg.parse().unwrap()); enc(|e| e.f32(x).is_ok()) }
        "f64" => { let x = f64::from_bits(arg.parse().unwrap()); enc(|e| e.f64(x).is_ok()) }
        "f16" => { let x = f32::from_bits(arg.parse().unwrap()); enc(|e| e.f16(x).is_ok()) }
        "tag" => { let x: u64 = arg.parse().unwrap(); enc(|e| e.tag(Tag::new(x)).is_ok()) }
        "array" => { let x: u64 = arg.parse().unwrap(); enc(|e| e.array(x).is_ok()) }
        "map" => { let x: u64 = arg.parse().unwrap(); enc(|e| e.map(x).is_ok()) }
        "bytes" => { let b = unhex(arg); enc(|e| e.bytes(&b).is_ok()) }
        "str" => { let b = unhex(arg); let s = String::from_utf8(b).unwrap(); enc(|e| e.str(&s).is_ok()) }
        "begin_array" => enc(|e| e.begin_array().is_ok()),
        "begin_bytes" => enc(|e| e.begin_bytes().is_ok()),
        "begin_map" => enc(|e| e.begin_map().is_ok()),
        "begin_str" => enc(|e| e.begin_str().is_ok()),
        "end" => enc(|e| e.end().is_ok()),
        _ => "?bad-E".into()
    }
}

pub fn show_type(t: Type) -> String { t.to_string().replace(' ', "_") }

fn hb(b: &[u8]) -> String { format!("h{}", hex_or_dash(b)) }

/// One accessor call on `inp` at position `pos`; the outcome text of ocaml `show_run`.
pub fn run_acc(acc: &str, inp: &[u8], pos: usize) -> String {
    let mut d = Decoder::new(inp);
    d.set_position(pos);
    run_acc_on(acc, &mut d)
}

/// The same on an existing decoder (SEQ).
pub fn run_acc_on(acc: &str, d: &mut Decoder<'_>) -> String {
    macro_rules! num { ($m:ident) => {{ let r = d.$m(); show_res(r, d.position(), |v| v.to_string()) }} }
    match acc {
        "u8" => num!(u8), "u16" => num!(u16), "u32" => num!(u32), "u64" => num!(u64),
        "i8" => num!(i8), "i16" => num!(i16), "i32" => num!(i32), "i64" => num!(i64),
        "int" => { let r = d.int(); show_res(r, d.position(), |v| i128::from(v).to_string()) }
        "char" => { let r = d.char(); show_res(r, d.position(), |v| u32::from(v).to_string()) }
        "bool" => { let r = d.bool(); show_res(r, d.position(), |v| v.to_string()) }
        "null" => { let r = d.null(); show_res(r, d.position(), |_| "()".into()) }
        "undefined" => { let r = d.undefined(); show_res(r, d.position(), |_| "()".into()) }
        "simple" => num!(simple),
        "f16" => { let r = d.f16(); show_res(r, d.position(), |v| format!("f{}", v.to_bits())) }
        "f32" => { let r = d.f32(); show_res(r, d.position(), |v| format!("f{}", v.to_bits())) }
        "f64" => { let r = d.f64(); show_res(r, d.position(), |v| format!("f{}", v.to_bits())) }
        "bytes" => { let r = d.bytes(); show_res(r, d.position(), |v| hb(v)) }
        "str" => { let r = d.str(); show_res(r, d.position(), |v| hb(v.as_bytes())) }
        "bytes_iter" => {
            let r = d.bytes_iter().and_then(|it| it.collect::<Result<Vec<_>, _>>());
            show_res(r, d.position(), |v| format!("[{}]", v.iter().map(|b| hb(b)).collect::<Vec<_>>().join(",")))
        }
        "str_iter" => {
            let r = d.str_iter().and_then(|it| it.collect::<Result<Vec<_>, _>>());
            show_res(r, d.position(), |v| format!("[{}]", v.iter().map(|b| hb(b.as_bytes())).collect::<Vec<_>>().join(",")))
        }
        "array" => { let r = d.array(); show_res(r, d.position(), |v| v.map(|n| format!("some:{}", n)).unwrap_or("none".into())) }
        "map" => { let r = d.map(); show_res(r, d.position(), |v| v.map(|n| format!("some:{}", n)).unwrap_or("none".into())) }
        "tag" => { let r = d.tag(); show_res(r, d.position(), |v| v.as_u64().to_string()) }
        "skip" => { let r = d.skip(); show_res(r, d.position(), |_| "()".into()) }
        "datatype" => { let r = d.datatype(); show_res(r, d.position(), show_type) }
        _ => "?bad-acc".into()
    }
}

fn acc_for_type(t: Type) -> Option<&'static str> {
    Some(match t {
        Type::U8 => "u8", Type::U16 => "u16", Type::U32 => "u32", Type::U64 => "u64",
        Type::I8 => "i8", Type::I16 => "i16", Type::I32 => "i32", Type::I64 => "i64", Type::Int => "int",
        _ => return None
    })
}

pub fn d_handler(a: &[&str]) -> String {
    let acc = a[0];
    if acc == "skip" && a.len() >= 2 { return crate::ops_skip::d_skip(a, true) }
    let inp = unhex(a[1]);
    let pos: usize = a.get(2).map(|p| p.parse().unwrap()).unwrap_or(0);
    let r = run_acc(acc, &inp, pos);
    // position oracle (C02): never beyond max(position before, input length)
    let mut verdict = Ok(());
    if let Some(at) = r.rfind('@') {
        let p: usize = r[at + 1 ..].parse().unwrap();
        if p > pos.max(inp.len()) { verdict = Err(format!("position {} beyond input", p)) }
    }
    if r == "panic" { verdict = Err("panic".into()) }
    // datatype oracle (C05): an integer item's reported type names an accessor that accepts it
    if acc == "datatype" && verdict.is_ok() {
        let mut d = Decoder::new(&inp);
        d.set_position(pos);
        if let Ok(t) = d.datatype() {
            if let Some(m) = acc_for_type(t) {
                let r2 = run_acc(m, &inp, pos);
                // only when the whole head is present (otherwise end of input is the right answer)
                if !r2.starts_with("ok:") && !r2.starts_with("err:eoi") {
                    verdict = Err(format!("datatype {} but accessor {} gives {}", show_type(t), m, r2))
                }
            }
        }
    }
    with_oracle(r, verdict)
}
