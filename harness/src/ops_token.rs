//! TK: tokenise + re-encode; TKE: encode tokens, tokenise back; DP: diagnostic display.
//! Result texts must match ocaml/ops_token.ml exactly.
use crate::util::*;
use minicbor::data::{Int, Tag, Token};
use minicbor::decode::{self, Tokenizer};
use minicbor::Encoder;
use std::fmt::Write as _;

// ---- canonical token text ----
pub fn show_token(t: &Token) -> String {
    match t {
        Token::Bool(b) => format!("Bool({})", b),
        Token::U8(n) => format!("U8({})", n),
        Token::U16(n) => format!("U16({})", n),
        Token::U32(n) => format!("U32({})", n),
        Token::U64(n) => format!("U64({})", n),
        Token::I8(n) => format!("I8({})", n),
        Token::I16(n) => format!("I16({})", n),
        Token::I32(n) => format!("I32({})", n),
        Token::I64(n) => format!("I64({})", n),
        Token::Int(n) => format!("Int({})", i128::from(*n)),
        Token::F16(x) => format!("F16({})", x.to_bits()),
        Token::F32(x) => format!("F32({})", x.to_bits()),
        Token::F64(x) => format!("F64({})", x.to_bits()),
        Token::Bytes(b) => format!("Bytes({})", hex_or_dash(b)),
        Token::String(s) => format!("String({})", hex_or_dash(s.as_bytes())),
        Token::Array(n) => format!("Array({})", n),
        Token::Map(n) => format!("Map({})", n),
        Token::Tag(t) => format!("Tag({})", t.as_u64()),
        Token::Simple(n) => format!("Simple({})", n),
        Token::Break => "Break".into(),
        Token::Null => "Null".into(),
        Token::Undefined => "Undefined".into(),
        Token::BeginBytes => "BeginBytes".into(),
        Token::BeginString => "BeginString".into(),
        Token::BeginArray => "BeginArray".into(),
        Token::BeginMap => "BeginMap".into()
    }
}

fn show_item(r: &Result<Token, decode::Error>) -> String {
    match r { Ok(t) => show_token(t), Err(e) => format!("Err({})", classify(e)) }
}

fn show_items(l: &[Result<Token, decode::Error>]) -> String {
    if l.is_empty() { "-".into() } else { l.iter().map(show_item).collect::<Vec<_>>().join(",") }
}

/// Owned form of a token parsed from case text (Token borrows its payload).
enum Owned { T(Token<'static>), B(Vec<u8>), S(String) }

fn parse_token(s: &str) -> Owned {
    let (name, arg) = match s.find('(') { Some(i) => (&s[.. i], &s[i + 1 .. s.len() - 1]), None => (s, "") };
    Owned::T(match name {
        "Bool" => Token::Bool(arg == "true"),
        "U8" => Token::U8(arg.parse().unwrap()),
        "U16" => Token::U16(arg.parse().unwrap()),
        "U32" => Token::U32(arg.parse().unwrap()),
        "U64" => Token::U64(arg.parse().unwrap()),
        "I8" => Token::I8(arg.parse().unwrap()),
        "I16" => Token::I16(arg.parse().unwrap()),
        "I32" => Token::I32(arg.parse().unwrap()),
        "I64" => Token::I64(arg.parse().unwrap()),
        "Int" => Token::Int(Int::try_from(arg.parse::<i128>().unwrap()).unwrap()),
        "F16" => Token::F16(f32::from_bits(arg.parse().unwrap())),
        "F32" => Token::F32(f32::from_bits(arg.parse().unwrap())),
        "F64" => Token::F64(f64::from_bits(arg.parse().unwrap())),
        "Bytes" => return Owned::B(unhex(arg)),
        "String" => return Owned::S(String::from_utf8(unhex(arg)).unwrap()),
        "Array" => Token::Array(arg.parse().unwrap()),
        "Map" => Token::Map(arg.parse().unwrap()),
        "Tag" => Token::Tag(Tag::new(arg.parse().unwrap())),
        "Simple" => Token::Simple(arg.parse().unwrap()),
        "Break" => Token::Break,
        "Null" => Token::Null,
        "Undefined" => Token::Undefined,
        "BeginBytes" => Token::BeginBytes,
        "BeginString" => Token::BeginString,
        "BeginArray" => Token::BeginArray,
        "BeginMap" => Token::BeginMap,
        _ => panic!("bad token")
    })
}

fn borrow(o: &Owned) -> Token<'_> {
    match o { Owned::T(t) => *t, Owned::B(b) => Token::Bytes(b), Owned::S(s) => Token::String(s) }
}

/// The value a token carries (integer tokens by numeric value, Bool/Null/Undefined as simple values).
fn tok_val(t: &Token) -> String {
    match t {
        Token::Bool(b) => format!("s{}", if *b { 21 } else { 20 }),
        Token::U8(n) => format!("i{}", n),
        Token::U16(n) => format!("i{}", n),
        Token::U32(n) => format!("i{}", n),
        Token::U64(n) => format!("i{}", n),
        Token::I8(n) => format!("i{}", n),
        Token::I16(n) => format!("i{}", n),
        Token::I32(n) => format!("i{}", n),
        Token::I64(n) => format!("i{}", n),
        Token::Int(n) => format!("i{}", i128::from(*n)),
        Token::F16(x) => format!("f16:{}", x.to_bits()),
        Token::F32(x) => format!("f32:{}", x.to_bits()),
        Token::F64(x) => format!("f64:{}", x.to_bits()),
        Token::Bytes(b) => format!("b{}", hex_or_dash(b)),
        Token::String(s) => format!("t{}", hex_or_dash(s.as_bytes())),
        Token::Array(n) => format!("A{}", n),
        Token::Map(n) => format!("M{}", n),
        Token::Tag(t) => format!("T{}", t.as_u64()),
        Token::Simple(n) => format!("s{}", n),
        Token::Null => "s22".into(),
        Token::Undefined => "s23".into(),
        Token::Break => "brk".into(),
        Token::BeginBytes => "bb".into(),
        Token::BeginString => "bt".into(),
        Token::BeginArray => "ba".into(),
        Token::BeginMap => "bm".into()
    }
}

fn chunks_or_dash(s: &ChunkSink) -> String { if s.0.is_empty() { "-".into() } else { s.show() } }

// ---- TK <hex> [pref] ----
pub fn tk_handler(a: &[&str]) -> String {
    let inp = unhex(a[0]);
    let flag = a.get(1).copied() == Some("pref");
    // bounded: a tokenizer that does not end would otherwise exhaust memory (the oracle flags > 1 token per byte)
    let items: Vec<Result<Token, decode::Error>> = Tokenizer::new(&inp).take(inp.len() + 2).collect();
    let oks: Vec<Token> = items.iter().filter_map(|r| r.as_ref().ok().copied()).collect();
    let mut e = Encoder::new(ChunkSink::default());
    let reenc = match e.tokens(oks.iter()) { Ok(()) => Some(e.into_writer()), Err(_) => None };
    let r = format!("{};{}", show_items(&items), match &reenc { Some(s) => chunks_or_dash(s), None => "err".into() });
    // property oracle on the implementation (C11)
    let mut verdict = Ok(());
    if items.len() > inp.len() { verdict = Err(format!("{} tokens from {} bytes", items.len(), inp.len())) }
    let nerr = items.iter().filter(|r| r.is_err()).count();
    if nerr > 1 { verdict = Err(format!("{} error tokens", nerr)) }
    if nerr == 1 && !items.last().map(|r| r.is_err()).unwrap_or(false) { verdict = Err("error token is not the last one".into()) }
    if flag {
        // the generator marks inputs that are well-formed, preferred-form, valid UTF-8, no signalling NaN halves
        if nerr > 0 { verdict = Err("error token on a well-formed input".into()) }
        match &reenc {
            Some(s) if s.flat() == inp => {}
            Some(s) => verdict = Err(format!("re-encoding {} differs from the preferred-form input", hex_or_dash(&s.flat()))),
            None => verdict = Err("re-encoding failed on a well-formed input".into())
        }
    }
    // the other ways to a tokenizer agree: Decoder::tokens() (borrowed) and Tokenizer::from(decoder) (by value), also from a decoder
    // that already stands behind a header (they tokenise the REMAINING input)
    {
        let show = |v: &Vec<Result<Token, decode::Error>>| show_items(v);
        let mut pre = vec![0x18u8, 0x2a]; pre.extend_from_slice(&inp);
        let mut d = minicbor::Decoder::new(&pre);
        let _ = d.u8();
        let by_val: Vec<_> = Tokenizer::from(d.clone()).take(inp.len() + 2).collect();
        let borrowed: Vec<_> = d.tokens().take(inp.len() + 2).collect();
        if show(&by_val) != show(&items) { verdict = Err("Tokenizer::from(decoder at position 2) does not tokenise the remaining input".into()) }
        if show(&borrowed) != show(&items) { verdict = Err("Decoder::tokens() at position 2 does not tokenise the remaining input".into()) }
    }
    // iterating again after the end yields nothing more
    let mut tz = Tokenizer::new(&inp);
    let mut n = 0;
    while n <= inp.len() + 2 && tz.next().is_some() { n += 1 }
    if tz.next().is_some() { verdict = Err("tokenizer yields again after it ended".into()) }
    with_oracle(r, verdict)
}

// ---- TKE <token,token,...> ----
pub fn tke_handler(a: &[&str]) -> String {
    let owned: Vec<Owned> = if a[0] == "-" { Vec::new() } else { a[0].split(',').map(parse_token).collect() };
    let ts: Vec<Token> = owned.iter().map(borrow).collect();
    let mut e = Encoder::new(ChunkSink::default());
    let mut lens = Vec::new();
    let mut verdict = Ok(());
    for t in &ts {
        let before = e.writer().flat().len();
        if e.encode(t).is_err() { return with_oracle("err".into(), Ok(())) }
        let written = e.writer().flat().len() - before;
        let l = minicbor::len(t);
        lens.push(l.to_string());
        // C07, token clause: CborLen is exact
        if l != written { verdict = Err(format!("len({}) = {} but {} bytes written", show_token(t), l, written)) }
    }
    // Encoder::tokens writes the same bytes as token-by-token encoding
    let mut e2 = Encoder::new(ChunkSink::default());
    if e2.tokens(ts.iter()).is_err() || e2.writer().flat() != e.writer().flat() {
        verdict = Err("Encoder::tokens differs from encoding token by token".into())
    }
    let sink = e.into_writer();
    let bytes = sink.flat();
    let back: Vec<Result<Token, decode::Error>> = Tokenizer::new(&bytes).take(bytes.len() + 2).collect();
    let veq = back.len() == ts.len()
        && back.iter().zip(ts.iter()).all(|(b, t)| match b { Ok(b) => tok_val(b) == tok_val(t), Err(_) => false });
    if !veq && verdict.is_ok() && tokens_ok(&ts) {
        verdict = Err(format!("tokens do not come back by value: {}", show_items(&back)))
    }
    let r = format!("{};len={};{};veq={}", chunks_or_dash(&sink), if lens.is_empty() { "-".into() } else { lens.join(",") }, show_items(&back), veq);
    with_oracle(r, verdict)
}

/// The converse direction is claimed for payloads that round-trip by value: F16 payloads exactly
/// representable in half precision (Simple(24..=31) included: written as f8 xx, read back as the same token).
fn tokens_ok(ts: &[Token]) -> bool {
    ts.iter().all(|t| match t {
        Token::F16(x) => half::f16::from_f32(*x).to_f32().to_bits() == x.to_bits(),
        _ => true
    })
}

// ---- DP <hex> ----
pub const DP_A: usize = 58;     // Props/C19.v: |display bs| <= DP_A * |bs| + DP_B  (A = fl + 26, B = el + 42 with float text fl <= 32, error text el <= 128)
pub const DP_B: usize = 170;
const CAP: usize = 1 << 20;

struct Capped { buf: String, total: usize }
impl std::fmt::Write for Capped {
    fn write_str(&mut self, s: &str) -> std::fmt::Result {
        self.total += s.len();
        if self.total > CAP { return Err(std::fmt::Error) }
        self.buf.push_str(s);
        Ok(())
    }
}

fn esc(out: &mut String, bytes: &[u8]) {
    for &b in bytes {
        if b <= 0x20 || b >= 0x7f || b == b'%' || b == b'<' || b == b'>' { write!(out, "%{:02x}", b).unwrap() } else { out.push(b as char) }
    }
}

/// Replace every float text in the display output by `<fW:bits>` and the error text by its class.
/// Driven by the token list: between tokens only structural characters may occur; every scalar token
/// must appear with exactly its own Display text (strings and byte strings are not escaped in the output,
/// so they are matched by their known contents).
fn normalise(out: &[u8], items: &[Result<Token, decode::Error>]) -> Result<(String, Result<(), String>), String> {
    const ERR: &[u8] = b" !!! decoding error: ";
    let mut res = String::new();
    let mut float_check = Ok(());
    let mut i = 0;
    // copy structural text; Ok(true) = the output ended in a " !!! " message (copied / classified)
    fn structure(out: &[u8], i: &mut usize, res: &mut String, err: Option<&decode::Error>) -> Result<bool, String> {
        loop {
            let rest = &out[*i ..];
            if rest.is_empty() { return Ok(false) }
            if rest.starts_with(ERR) {
                esc(res, ERR);
                let e = err.ok_or("error text without error token")?;
                if &rest[ERR.len() ..] != e.to_string().as_bytes() { return Err("error text differs from the token's error".into()) }
                write!(res, "<err:{}>", classify(e)).unwrap();
                *i = out.len();
                return Ok(true)
            }
            if rest.starts_with(b" !!! indefinite ") && rest.ends_with(b" not closed") { esc(res, rest); *i = out.len(); return Ok(true) }
            if b"[]{}()_,: ".contains(&rest[0]) { esc(res, &rest[.. 1]); *i += 1; continue }
            return Ok(false)
        }
    }
    let err = items.iter().find_map(|r| r.as_ref().err());
    for (ix, it) in items.iter().enumerate() {
        let t = match it { Ok(t) => t, Err(_) => break };
        let next_is_break = matches!(items.get(ix + 1), Some(Ok(Token::Break)));
        let text: Option<(String, Option<(u32, u64)>)> = match t {
            Token::Array(_) | Token::Map(_) | Token::BeginArray | Token::BeginMap => None,
            // the quote characters of the empty indefinite strings are not structural characters: match them here
            Token::BeginBytes => if next_is_break { Some(("''_".into(), None)) } else { None },
            Token::BeginString => if next_is_break { Some(("\"\"_".into(), None)) } else { None },
            Token::Tag(n) => Some((format!("{}(", n.as_u64()), None)),
            Token::F16(x) | Token::F32(x) => Some((format!("{:e}", x), Some((32, x.to_bits() as u64)))),
            Token::F64(x) => Some((format!("{:e}", x), Some((64, x.to_bits())))),
            Token::Break => None,   // "]" "}" ")" are structural; a stray top-level Break prints "]" as well
            t => Some((t.to_string(), None))
        };
        if structure(out, &mut i, &mut res, err)? { return Ok((res, float_check)) }
        if let Some((text, fl)) = text {
            if !out[i ..].starts_with(text.as_bytes()) { return Err(format!("token text {} not found at offset {}", text.replace(' ', "_"), i)) }
            match fl {
                Some((w, bits)) => {
                    let back_ok = if w == 32 {
                        match text.parse::<f32>() { Ok(y) => y.to_bits() as u64 == bits || y.is_nan(), Err(_) => false }
                    } else {
                        match text.parse::<f64>() { Ok(y) => y.to_bits() == bits || y.is_nan(), Err(_) => false }
                    };
                    let sci = text == "NaN" || text == "inf" || text == "-inf" || text.contains('e');
                    if !back_ok || !sci { float_check = Err(format!("float text {} is not scientific notation of its value", text)) }
                    write!(res, "<f{}:{}>", w, bits).unwrap();
                }
                None => esc(&mut res, text.as_bytes())
            }
            i += text.len();
        }
    }
    structure(out, &mut i, &mut res, err)?;
    if i != out.len() { return Err(format!("unexpected text at offset {}", i)) }
    Ok((res, float_check))
}

fn fnv1a(s: &str) -> String {
    let mut h: u64 = 0xcbf29ce484222325;
    for b in s.bytes() { h = (h ^ b as u64).wrapping_mul(0x100000001b3) }
    format!("{:016x}", h)
}

fn summarise(s: String) -> String {
    if s.len() <= 2000 { if s.is_empty() { "-".into() } else { s } } else { format!("len={};fnv={}", s.len(), fnv1a(&s)) }
}

type DpOut = std::thread::Result<(bool, String, usize)>;
struct Worker { tx: std::sync::mpsc::Sender<Vec<u8>>, rx: std::sync::mpsc::Receiver<DpOut> }
static WORKER: std::sync::Mutex<Option<Worker>> = std::sync::Mutex::new(None);

fn spawn_worker() -> Worker {
    let (tx, jobs) = std::sync::mpsc::channel::<Vec<u8>>();
    let (res, rx) = std::sync::mpsc::channel::<DpOut>();
    std::thread::spawn(move || {
        for inp in jobs {
            let r = std::panic::catch_unwind(|| {
                let mut w = Capped { buf: String::new(), total: 0 };
                let ok = write!(w, "{}", minicbor::display(&inp)).is_ok();
                (ok, w.buf, w.total)
            });
            if res.send(r).is_err() { break }
        }
    });
    Worker { tx, rx }
}

pub fn dp_handler(a: &[&str]) -> String {
    let inp = unhex(a[0]);
    // wall-clock watchdog: the formatting runs on a worker thread; a worker that does not answer is abandoned
    let mut guard = WORKER.lock().unwrap_or_else(|e| e.into_inner());
    let w = guard.get_or_insert_with(spawn_worker);
    w.tx.send(inp.clone()).unwrap();
    let (ok, text, total) = match w.rx.recv_timeout(std::time::Duration::from_secs(10)) {
        Ok(Ok(x)) => x,
        Ok(Err(_)) => return with_oracle("panic".into(), Err("panic".into())),
        Err(_) => { *guard = None; return with_oracle("timeout".into(), Err("display did not terminate within 10 s".into())) }
    };
    drop(guard);
    let bound = DP_A * inp.len() + DP_B;
    if !ok { return with_oracle(format!("capped:{}", total), Err(format!("output exceeds {} bytes (bound {})", CAP, bound))) }
    let mut verdict = Ok(());
    if text.len() > bound { verdict = Err(format!("output length {} > {} * {} + {}", text.len(), DP_A, inp.len(), DP_B)) }
    // the notation does not depend on formatter flags the caller happens to pass (width, fill, sign, precision, alternate)
    if verdict.is_ok() && inp.len() <= 64 {
        let d = || minicbor::display(&inp);
        for (spec, alt) in [("{:>9}", format!("{:>9}", d())), ("{:+.1}", format!("{:+.1}", d())), ("{:<07}", format!("{:<07}", d())), ("{:#}", format!("{:#}", d()))] {
            if alt != text { verdict = Err(format!("with the format spec {} the output is different from the plain one", spec)); break }
        }
    }
    // bounded: a tokenizer that does not end would otherwise exhaust memory (the oracle flags > 1 token per byte)
    let items: Vec<Result<Token, decode::Error>> = Tokenizer::new(&inp).take(inp.len() + 2).collect();
    match normalise(text.as_bytes(), &items) {
        Ok((s, fc)) => { if verdict.is_ok() { verdict = fc } with_oracle(summarise(s), verdict) }
        Err(why) => { let mut s = String::from("?lex:"); s.push_str(&why.replace(' ', "_")); s.push(':'); esc(&mut s, text.as_bytes()); with_oracle(s, verdict) }
    }
}
