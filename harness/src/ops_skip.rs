//! C06 — `D skip <hex> [pos] [cfg]`: Decoder::skip on raw bytes plus the property's oracle.
//!
//! This file is compiled into two crates: `harness` (minicbor built with `std`, hence the `alloc`
//! variant of `skip`, decoder.rs:483) and `harness-noalloc` (minicbor built without `alloc`/`std`, the
//! counting-only variant, decoder.rs:598).  It uses only the public decoder API and the two helpers
//! `crate::util::{unhex, classify}`.
//!
//! The oracle is an independent walker: it steps over exactly one data item with the *typed* public
//! accessors (`datatype`, `u64`, `int`, `bytes`, `bytes_iter`, `str`, `str_iter`, `array`, `map`, `tag`,
//! `simple`, `bool`, `null`, `undefined`, `f16`, `f32`, `f64`), keeping one explicit frame per open
//! container (no counting mode, no merging of frames), so it shares no control logic with `skip`.
//! The frames live in a `Vec`, not on the call stack, so nesting depth is bounded by memory only.
use crate::util::{classify, unhex};
use minicbor::data::Type;
use minicbor::Decoder;

/// One open container of the walker.
enum Frame {
    /// definite array / map (count already doubled for maps): items still owed
    Def(u64),
    /// a tag: exactly one item owed
    Tag,
    /// indefinite array / map: closed by a break only
    Indef,
}

/// Why the walker did not find a complete item.
#[derive(Debug, PartialEq)]
pub enum WalkErr {
    /// every token so far was fine and the input ended: the input is a strict prefix of an item
    Eoi,
    /// a break where an item was expected (inside a definite container, after a tag, at top level)
    StrayBreak,
    /// anything else (reserved initial byte, invalid UTF-8, chunk of the wrong type, ...)
    Other(String),
}

fn werr(e: minicbor::decode::Error) -> WalkErr {
    if e.is_end_of_input() { WalkErr::Eoi } else { WalkErr::Other(classify(&e)) }
}

/// Walk exactly one item starting at `pos`; its end position.
pub fn walk(inp: &[u8], pos: usize) -> Result<usize, WalkErr> {
    let mut d = Decoder::new(inp);
    d.set_position(pos);
    let mut stack: Vec<Frame> = Vec::new();
    loop {
        // ---- one token ----
        let mut item_done = true; // does this token complete an item?
        match d.datatype().map_err(werr)? {
            Type::U8 | Type::U16 | Type::U32 | Type::U64 => { d.u64().map_err(werr)?; }
            Type::I8 | Type::I16 | Type::I32 | Type::I64 | Type::Int => { d.int().map_err(werr)?; }
            Type::Bytes => { d.bytes().map_err(werr)?; }
            Type::BytesIndef => { for c in d.bytes_iter().map_err(werr)? { c.map_err(werr)?; } }
            Type::String => { d.str().map_err(werr)?; }
            Type::StringIndef => { for c in d.str_iter().map_err(werr)? { c.map_err(werr)?; } }
            Type::Array | Type::ArrayIndef =>
                match d.array().map_err(werr)? {
                    Some(0) => {}
                    Some(n) => { stack.push(Frame::Def(n)); item_done = false }
                    None => { stack.push(Frame::Indef); item_done = false }
                }
            Type::Map | Type::MapIndef =>
                match d.map().map_err(werr)? {
                    Some(0) => {}
                    // 2n >= 2^64 needs more items than any slice has bytes: the walk ends in Eoi anyway
                    Some(n) => { stack.push(Frame::Def(n.checked_mul(2).unwrap_or(u64::MAX))); item_done = false }
                    None => { stack.push(Frame::Indef); item_done = false }
                }
            Type::Tag => { d.tag().map_err(werr)?; stack.push(Frame::Tag); item_done = false }
            Type::Bool => { d.bool().map_err(werr)?; }
            Type::Null => { d.null().map_err(werr)?; }
            Type::Undefined => { d.undefined().map_err(werr)?; }
            Type::Simple => { d.simple().map_err(werr)?; }
            Type::F16 => { d.f16().map_err(werr)?; }
            Type::F32 => { d.f32().map_err(werr)?; }
            Type::F64 => { d.f64().map_err(werr)?; }
            Type::Break =>
                match stack.last() {
                    Some(Frame::Indef) => { stack.pop(); d.set_position(d.position() + 1) } // the container is one finished item
                    _ => return Err(WalkErr::StrayBreak)
                }
            Type::Unknown(b) => return Err(WalkErr::Other(format!("unknown:0x{:02x}", b))),
            #[allow(unreachable_patterns)]
            other => return Err(WalkErr::Other(format!("type:{}", other)))
        }
        if !item_done { continue }
        // ---- an item is complete: account for it in the enclosing containers ----
        loop {
            match stack.last_mut() {
                None => return Ok(d.position()),
                Some(Frame::Indef) => break,
                Some(Frame::Tag) => { stack.pop(); }                 // the tagged item is complete, too
                Some(Frame::Def(n)) => {
                    *n -= 1;
                    if *n > 0 { break }
                    stack.pop();                                      // the container is complete, too
                }
            }
        }
    }
}

/// `skip` at `pos`: ("ok:()@p" | "err:<class>@p").
fn run_skip(inp: &[u8], pos: usize) -> String {
    let mut d = Decoder::new(inp);
    d.set_position(pos);
    match d.skip() {
        Ok(()) => format!("ok:()@{}", d.position()),
        Err(e) => format!("err:{}@{}", classify(&e), d.position())
    }
}

/// The property's predicate on the implementation's own outputs.
/// * the walker finds an item ending at q  =>  skip returns ok at q (without `alloc`: or the documented
///   unsupported-nesting error `err:message`);
/// * the walker runs into the end of input (strict prefix of an item)  =>  skip returns an error;
/// * skip returns ok at q and the walker finds an item  =>  same q (covered by the first clause);
/// * other walker failures (input not well-formed): no claim.
pub fn verdict(res: &str, w: &Result<usize, WalkErr>, pos: usize, len: usize, alloc_build: bool) -> Result<(), String> {
    if res == "panic" { return Err("panic".into()) }
    if let Some(at) = res.rfind('@') {
        let p: usize = res[at + 1 ..].parse().map_err(|_| "unparsable position".to_string())?;
        if p > pos.max(len) { return Err(format!("position {} beyond input", p)) }
    }
    match w {
        Ok(q) => {
            let want = format!("ok:()@{}", q);
            if res == want { return Ok(()) }
            if !alloc_build && res.starts_with("err:message@") { return Ok(()) }
            Err(format!("one item ends at {} (typed walk) but skip gives {}", q, res))
        }
        Err(WalkErr::Eoi) =>
            if res.starts_with("ok:") { Err(format!("strict prefix of an item (typed walk hits end of input) but skip gives {}", res)) } else { Ok(()) }
        Err(_) => Ok(())
    }
}

/// `D skip <hex> [pos] [cfg]`; `a[0] == "skip"`.  `alloc_build`: which variant of skip this binary contains.
pub fn d_skip(a: &[&str], alloc_build: bool) -> String {
    let inp = unhex(a[1]);
    let pos: usize = a.get(2).map(|p| p.parse().unwrap()).unwrap_or(0);
    if let Some(cfg) = a.get(3) {
        // cfg letters as on the model side: a = alloc, s = std (implies alloc), h = half
        let wants_alloc = cfg.contains('a') || cfg.contains('s');
        if wants_alloc != alloc_build { return "?cfg-mismatch".into() }
    }
    let res = {
        let inp2 = inp.clone();
        match std::panic::catch_unwind(move || run_skip(&inp2, pos)) { Ok(s) => s, Err(_) => "panic".into() }
    };
    let w = {
        let inp2 = inp.clone();
        match std::panic::catch_unwind(move || walk(&inp2, pos)) { Ok(w) => w, Err(_) => Err(WalkErr::Other("walker-panic".into())) }
    };
    match verdict(&res, &w, pos, inp.len(), alloc_build) {
        Ok(()) => format!("{}\tO=ok", res),
        Err(why) => format!("{}\tO=FAIL:{}", res, why.replace(['\t', '\n'], " "))
    }
}
