//! SER / DE / X18 / XR: the serde bridge (minicbor-serde) on a fixed family of serde types.
//! The family is described in ocaml/ops_serde.ml (FAMILY); the keys below are the same keys.
//! Value text: canon.rs' grammar; structs print their fields in declaration order as a list, enum values as
//! v<i>(payload) with () for unit variants.
#![allow(non_camel_case_types)]
use crate::canon::*;
use crate::util::*;
use serde::de::{self, Deserializer as _, IgnoredAny, MapAccess, SeqAccess, Visitor};
use serde::ser::{SerializeMap, SerializeSeq};
use serde::{Deserialize, Serialize};
use std::collections::BTreeMap;
use std::fmt;

// ------------------------------------------------------------------ error classes from the Display text
// (minicbor_serde::error::DecodeError does not expose the inner decode::Error)
fn cut<'a>(s: &'a str, prefix: &str) -> &'a str {
    let s = s.strip_prefix(prefix).unwrap_or(s);
    let end = [s.find(" at position "), s.find(": "), s.find(" ("), s.find(" in map")]
        .iter().flatten().copied().min().unwrap_or(s.len());
    &s[.. end]
}

pub fn classify_text(d: &str) -> String {
    if d.starts_with("end of input bytes") { return "eoi".into() }
    if d.starts_with("unexpected type ") { return format!("type:{}", cut(d, "unexpected type ").replace(' ', "_")) }
    if d.starts_with("unexpected tag ") { return format!("tag:{}", cut(d, "unexpected tag ")) }
    if d.starts_with("unknown enum variant ") { return format!("variant:{}", cut(d, "unknown enum variant ")) }
    if d.starts_with("missing value at index ") { return format!("missing:{}", cut(d, "missing value at index ")) }
    if d.starts_with("decode error") { return "message".into() }
    if d.starts_with("invalid char ") {
        let h = cut(d, "invalid char ");
        let n = u32::from_str_radix(h.trim_start_matches("0x"), 16).unwrap_or(0);
        return format!("invalidchar:{}", n)
    }
    if d.starts_with("invalid utf-8") { return "utf8".into() }
    if let Some(i) = d.find(" overflows target type") { return format!("overflow:{}", &d[.. i]) }
    format!("other:{}", d.replace(' ', "_"))
}

fn show_sres<T>(r: Result<T, minicbor_serde::error::DecodeError>, pos: usize, show: impl FnOnce(&T) -> String) -> String {
    match r {
        Ok(v) => format!("ok:{}@{}", show(&v), pos),
        Err(e) => format!("err:{}@{}", classify_text(&e.to_string()), pos)
    }
}

// ------------------------------------------------------------------ the family
#[derive(Serialize, Deserialize, Debug, Clone)] pub struct US;
#[derive(Serialize, Deserialize, Debug, Clone)] pub struct NT(u32);
#[derive(Serialize, Deserialize, Debug, Clone)] pub struct NTO(Option<u8>);
#[derive(Serialize, Deserialize, Debug, Clone)] pub struct TS(u8, String);
#[derive(Serialize, Deserialize, Debug, Clone)] pub struct P2 { x: u8, y: i16 }
#[derive(Serialize, Deserialize, Debug, Clone)]
pub struct Prims { b: bool, j1: i8, j2: i16, j4: i32, j8: i64, w1: u8, w2: u16, w4: u32, w8: u64, f4: f32, f8: f64, c: char, s: String }
#[derive(Serialize, Deserialize, Debug, Clone)] pub struct WithOpt { a: Option<u8>, b: u8, c: Option<String> }
#[derive(Serialize, Deserialize, Debug, Clone)] pub struct WithOpt2 { q: Option<u8>, r: String }
#[derive(Serialize, Deserialize, Debug, Clone)]
pub struct Nested { p: P2, v: Vec<P2>, m: BTreeMap<String, NT>, t: (u8, TS), o: Option<P2>, u: (), k: US }
#[derive(Serialize, Deserialize, Debug, Clone)]
pub struct Wide { f00: u8, f01: u8, f02: u8, f03: u8, f04: u8, f05: u8, f06: u8, f07: u8, f08: u8, f09: u8, f10: u8, f11: u8, f12: u8,
                  f13: u8, f14: u8, f15: u8, f16: u8, f17: u8, f18: u8, f19: u8, f20: u8, f21: u8, f22: u8, f23: u8, f24: u8 }
#[derive(Serialize, Deserialize, Debug, Clone)]
pub enum Ext { A, B(u8), C(u8, String), D { x: u8, y: Option<i8> }, E(()), F(char), G(US), H(P2), I(Option<u16>) }
#[derive(Serialize, Deserialize, Debug, Clone)] pub enum Ext2 { Only(Vec<Ext>) }
#[derive(Serialize, Deserialize, Debug, Clone)] pub enum Ext1 { A, B(u8), C(u8, u8), D { x: u8 } }
#[derive(Serialize, Deserialize, Debug, Clone)] pub enum ExtU { A, E(()), G(US) }
#[derive(Serialize, Deserialize, Debug, Clone)] pub struct InnerU { u: () }
#[derive(Serialize, Deserialize, Debug, Clone)] pub struct InnerC { c: char }
#[derive(Serialize, Deserialize, Debug, Clone)] pub struct InnerUS { k: US }
#[derive(Serialize, Deserialize, Debug, Clone)] pub struct InnerE { e: ExtU }
#[derive(Serialize, Deserialize, Debug, Clone)] #[serde(tag = "t")]
pub enum Int { A, B { x: u8, y: String }, C(P2), M(BTreeMap<String, u8>), Un(()), Us(US), W(WithOpt), I { v: i64, s: Vec<i8>, e: Ext1 } }
#[derive(Serialize, Deserialize, Debug, Clone)] #[serde(tag = "t")]
pub enum IntF { Ok { x: u8 }, U { u: () }, Ch { c: char }, Nu(InnerU), Nc(InnerC), Ks(InnerUS), Eu(InnerE) }
#[derive(Serialize, Deserialize, Debug, Clone)] #[serde(tag = "t", content = "c")]
pub enum Adj { A, B(u8), C(u8, String), D { x: u8, y: Option<i8> }, U(()), Ch(char), O(Option<u8>), K(US), P(P2) }
#[derive(Serialize, Deserialize, Debug, Clone)] #[serde(untagged)]
pub enum Unt { B(u8), C(i16, String), D { x: u8 }, S(String), V(Vec<i16>), Z(bool), A }
#[derive(Serialize, Deserialize, Debug, Clone)] #[serde(untagged)]
pub enum UntF { I(i64), C(char), T(u8, ()), K { k: US }, U(()) }
#[derive(Serialize, Deserialize, Debug, Clone)] pub struct Fl { a: u8, #[serde(flatten)] i: P2, z: bool }
#[derive(Serialize, Deserialize, Debug, Clone)]
pub struct Fl2 { #[serde(flatten)] i: P2, o: Option<u8>, #[serde(flatten)] j: WithOpt2, w: Vec<u8> }
#[derive(Serialize, Deserialize, Debug, Clone)] pub struct FlM { a: u8, o: Option<u8>, #[serde(flatten)] m: BTreeMap<String, i16> }
#[derive(Serialize, Deserialize, Debug, Clone)] pub struct FlU { a: u8, #[serde(flatten)] u: (), b: (), c: char }
#[derive(Serialize, Deserialize, Debug, Clone)] pub struct FlF { a: u8, #[serde(flatten)] i: InnerU }
#[derive(Serialize, Deserialize, Debug, Clone)] pub struct FlFC { a: u8, #[serde(flatten)] i: InnerC }
#[derive(Serialize, Deserialize, Debug, Clone)] pub struct FlK { a: u8, #[serde(flatten)] i: InnerUS }
#[derive(Serialize, Deserialize, Debug, Clone)] pub struct FlMK { a: u8, #[serde(flatten)] m: BTreeMap<String, US> }
#[derive(Serialize, Deserialize, Debug, Clone)] pub struct FlMC { a: u8, #[serde(flatten)] m: BTreeMap<String, char> }
// a hand-written Deserialize in the style of the serde documentation ("Manually implementing Deserialize for a struct"): the
// field identifier visitor goes through deserialize_identifier and implements visit_str only
#[derive(Serialize, Debug, Clone)] pub struct HandS { secs: u64, nanos: u32 }
impl<'de> Deserialize<'de> for HandS {
    fn deserialize<D: serde::Deserializer<'de>>(d: D) -> Result<Self, D::Error> {
        enum Field { Secs, Nanos, Other }
        impl<'de> Deserialize<'de> for Field {
            fn deserialize<D: serde::Deserializer<'de>>(d: D) -> Result<Field, D::Error> {
                struct FV;
                impl<'de> Visitor<'de> for FV {
                    type Value = Field;
                    fn expecting(&self, f: &mut fmt::Formatter) -> fmt::Result { f.write_str("`secs` or `nanos`") }
                    fn visit_str<E: de::Error>(self, v: &str) -> Result<Field, E> {
                        Ok(match v { "secs" => Field::Secs, "nanos" => Field::Nanos, _ => Field::Other })
                    }
                }
                d.deserialize_identifier(FV)
            }
        }
        struct SV;
        impl<'de> Visitor<'de> for SV {
            type Value = HandS;
            fn expecting(&self, f: &mut fmt::Formatter) -> fmt::Result { f.write_str("struct HandS") }
            fn visit_map<A: MapAccess<'de>>(self, mut m: A) -> Result<HandS, A::Error> {
                let (mut secs, mut nanos) = (None, None);
                while let Some(k) = m.next_key()? {
                    match k {
                        Field::Secs => { if secs.is_some() { return Err(de::Error::duplicate_field("secs")) } secs = Some(m.next_value()?) }
                        Field::Nanos => { if nanos.is_some() { return Err(de::Error::duplicate_field("nanos")) } nanos = Some(m.next_value()?) }
                        Field::Other => { let _: IgnoredAny = m.next_value()?; }
                    }
                }
                Ok(HandS { secs: secs.ok_or_else(|| de::Error::missing_field("secs"))?, nanos: nanos.ok_or_else(|| de::Error::missing_field("nanos"))? })
            }
        }
        d.deserialize_struct("HandS", &["secs", "nanos"], SV)
    }
}
// maps keyed by an enum of unit variants, plain and flattened
#[derive(Serialize, Deserialize, Debug, Clone, PartialEq, Eq, PartialOrd, Ord)] pub enum ExtK { A, B, C }
#[derive(Serialize, Deserialize, Debug, Clone)] pub struct FlEK { a: u8, #[serde(flatten)] m: BTreeMap<ExtK, u8> }
#[derive(Serialize, Deserialize, Debug, Clone)] pub struct MapEK { m: BTreeMap<ExtK, i8> }
// skip_serializing_if: the derived Serialize announces only the fields it writes and calls skip_field for the others
#[derive(Serialize, Deserialize, Debug, Clone)]
pub struct SkipS { a: u8, #[serde(skip_serializing_if = "Option::is_none")] b_s: Option<u8>, c: Option<String>,
                   #[serde(skip_serializing_if = "Option::is_none")] d_s: Option<P2>, e: bool }
#[derive(Serialize, Deserialize, Debug, Clone)]
pub enum SkipE { A, D { x: u8, #[serde(skip_serializing_if = "Option::is_none")] y_s: Option<i8>, #[serde(skip_serializing_if = "Option::is_none")] z_s: Option<String> } }
// zero-copy fields below nodes that serde deserialises through deserialize_any + Content buffering
#[derive(Serialize, Deserialize, Debug, Clone)] pub struct InnerB<'a> { #[serde(borrow)] s: &'a str, n: u8 }
#[derive(Serialize, Deserialize, Debug, Clone)] #[serde(tag = "t")]
pub enum IntB<'a> { S { #[serde(borrow)] s: &'a str, n: u8 }, U, N(#[serde(borrow)] InnerB<'a>) }
#[derive(Serialize, Deserialize, Debug, Clone)] #[serde(tag = "t", content = "c")]
pub enum AdjB<'a> { S(#[serde(borrow)] &'a str), U, N(#[serde(borrow)] InnerB<'a>) }
#[derive(Serialize, Deserialize, Debug, Clone)] #[serde(untagged)]
pub enum UntB<'a> { S { #[serde(borrow)] s: &'a str }, N(u8), R(#[serde(borrow)] &'a str) }
#[derive(Serialize, Deserialize, Debug, Clone)] pub struct FlB<'a> { a: u8, #[serde(flatten, borrow)] i: InnerB<'a> }

// ---- hand-written impls that call the Serializer / Deserializer methods no std type calls
/// a type whose representation depends on is_human_readable() (as the std net types do): compact = newtype(u8), readable = decimal text
#[derive(Debug, Clone)] pub struct Hr(u8);
impl Serialize for Hr {
    fn serialize<S: serde::Serializer>(&self, s: S) -> Result<S::Ok, S::Error> {
        if s.is_human_readable() { s.serialize_str(&self.0.to_string()) } else { s.serialize_newtype_struct("Hr", &self.0) }
    }
}
impl<'de> Deserialize<'de> for Hr {
    fn deserialize<D: serde::Deserializer<'de>>(d: D) -> Result<Self, D::Error> {
        struct V;
        impl<'de> Visitor<'de> for V {
            type Value = Hr;
            fn expecting(&self, f: &mut fmt::Formatter) -> fmt::Result { f.write_str("Hr") }
            fn visit_str<E: de::Error>(self, v: &str) -> Result<Hr, E> { v.parse().map(Hr).map_err(|_| E::custom("not a number")) }
            fn visit_newtype_struct<D: serde::Deserializer<'de>>(self, d: D) -> Result<Hr, D::Error> { u8::deserialize(d).map(Hr) }
        }
        if d.is_human_readable() { d.deserialize_str(V) } else { d.deserialize_newtype_struct("Hr", V) }
    }
}
impl Canon for Hr { fn parse(p: &mut P) -> Self { Hr(Canon::parse(p)) } fn show(&self) -> String { self.0.show() } }
/// std::net::Ipv4Addr: [u8; 4] through serialize_tuple when the format is not human readable, dotted text otherwise
#[derive(Serialize, Deserialize, Debug, Clone)] #[serde(transparent)] pub struct Ip4(std::net::Ipv4Addr);
impl Canon for Ip4 {
    fn parse(p: &mut P) -> Self { let a: [u8; 4] = Canon::parse(p); Ip4(a.into()) }
    fn show(&self) -> String { self.0.octets().show() }
}
/// serialize_bytes / deserialize_byte_buf
#[derive(Debug, Clone)] pub struct BytesBuf(Vec<u8>);
impl Serialize for BytesBuf {
    fn serialize<S: serde::Serializer>(&self, s: S) -> Result<S::Ok, S::Error> { s.serialize_bytes(&self.0) }
}
impl<'de> Deserialize<'de> for BytesBuf {
    fn deserialize<D: serde::Deserializer<'de>>(d: D) -> Result<Self, D::Error> {
        struct V;
        impl<'de> Visitor<'de> for V {
            type Value = BytesBuf;
            fn expecting(&self, f: &mut fmt::Formatter) -> fmt::Result { f.write_str("bytes") }
            fn visit_bytes<E: de::Error>(self, v: &[u8]) -> Result<BytesBuf, E> { Ok(BytesBuf(v.to_vec())) }
            fn visit_byte_buf<E: de::Error>(self, v: Vec<u8>) -> Result<BytesBuf, E> { Ok(BytesBuf(v)) }
        }
        d.deserialize_byte_buf(V)
    }
}
/// serialize_bytes / deserialize_bytes, borrowed from the input
#[derive(Debug, Clone)] pub struct BytesRef(&'static [u8]);
impl Serialize for BytesRef {
    fn serialize<S: serde::Serializer>(&self, s: S) -> Result<S::Ok, S::Error> { s.serialize_bytes(self.0) }
}
impl Deserialize<'static> for BytesRef {
    fn deserialize<D: serde::Deserializer<'static>>(d: D) -> Result<Self, D::Error> {
        struct V;
        impl Visitor<'static> for V {
            type Value = BytesRef;
            fn expecting(&self, f: &mut fmt::Formatter) -> fmt::Result { f.write_str("borrowed bytes") }
            fn visit_borrowed_bytes<E: de::Error>(self, v: &'static [u8]) -> Result<BytesRef, E> { Ok(BytesRef(v)) }
        }
        d.deserialize_bytes(V)
    }
}
/// serialize_seq(None): a sequence whose length is not known in advance
#[derive(Debug, Clone)] pub struct IterSeq<T>(Vec<T>);
impl<T: Serialize> Serialize for IterSeq<T> {
    fn serialize<S: serde::Serializer>(&self, s: S) -> Result<S::Ok, S::Error> {
        let mut q = s.serialize_seq(None)?;
        for x in self.0.iter().filter(|_| true) { q.serialize_element(x)? }
        q.end()
    }
}
impl<'de, T: Deserialize<'de>> Deserialize<'de> for IterSeq<T> {
    fn deserialize<D: serde::Deserializer<'de>>(d: D) -> Result<Self, D::Error> { Vec::<T>::deserialize(d).map(IterSeq) }
}
/// Serializer::collect_seq over an iterator whose size hint is inexact (upper bound one above what it yields): serde's default
/// collect_seq then calls serialize_seq(None)
#[derive(Debug, Clone)] pub struct CollSeq<T>(Vec<T>);
impl<T: Serialize> Serialize for CollSeq<T> {
    fn serialize<S: serde::Serializer>(&self, s: S) -> Result<S::Ok, S::Error> {
        s.collect_seq(self.0.iter().map(Some).chain(std::iter::once(None)).flatten())
    }
}
impl<'de, T: Deserialize<'de>> Deserialize<'de> for CollSeq<T> {
    fn deserialize<D: serde::Deserializer<'de>>(d: D) -> Result<Self, D::Error> { Vec::<T>::deserialize(d).map(CollSeq) }
}
/// Serializer::collect_map over an iterator with an inexact size hint
#[derive(Debug, Clone)] pub struct CollMap<K, V>(BTreeMap<K, V>);
impl<K: Serialize, V: Serialize> Serialize for CollMap<K, V> {
    fn serialize<S: serde::Serializer>(&self, s: S) -> Result<S::Ok, S::Error> {
        s.collect_map(self.0.iter().map(Some).chain(std::iter::once(None)).flatten())
    }
}
impl<'de, K: Deserialize<'de> + Ord, V: Deserialize<'de>> Deserialize<'de> for CollMap<K, V> {
    fn deserialize<D: serde::Deserializer<'de>>(d: D) -> Result<Self, D::Error> { BTreeMap::<K, V>::deserialize(d).map(CollMap) }
}
/// serialize_map(None)
#[derive(Debug, Clone)] pub struct IterMap<K, V>(BTreeMap<K, V>);
impl<K: Serialize, V: Serialize> Serialize for IterMap<K, V> {
    fn serialize<S: serde::Serializer>(&self, s: S) -> Result<S::Ok, S::Error> {
        let mut q = s.serialize_map(None)?;
        for (k, v) in self.0.iter() { q.serialize_key(k)?; q.serialize_value(v)? }
        q.end()
    }
}
impl<'de, K: Deserialize<'de> + Ord, V: Deserialize<'de>> Deserialize<'de> for IterMap<K, V> {
    fn deserialize<D: serde::Deserializer<'de>>(d: D) -> Result<Self, D::Error> { BTreeMap::<K, V>::deserialize(d).map(IterMap) }
}
/// collect_str
#[derive(Debug, Clone)] pub struct Disp(String);
impl Serialize for Disp {
    fn serialize<S: serde::Serializer>(&self, s: S) -> Result<S::Ok, S::Error> {
        // Display output written in two pieces (as `write!(f, "{}{}", a, b)` does): collect_str implementations that buffer see a seam
        struct TwoPieces<'a>(&'a str);
        impl fmt::Display for TwoPieces<'_> {
            fn fmt(&self, f: &mut fmt::Formatter) -> fmt::Result {
                let mut k = self.0.len() * 3 / 4;
                while !self.0.is_char_boundary(k) { k -= 1 }
                f.write_str(&self.0[.. k])?; f.write_str(&self.0[k ..])
            }
        }
        s.collect_str(&TwoPieces(&self.0))
    }
}
impl<'de> Deserialize<'de> for Disp {
    fn deserialize<D: serde::Deserializer<'de>>(d: D) -> Result<Self, D::Error> { String::deserialize(d).map(Disp) }
}
/// deserialize_ignored_any
#[derive(Debug, Clone)] pub struct Ign;
impl Serialize for Ign {
    fn serialize<S: serde::Serializer>(&self, s: S) -> Result<S::Ok, S::Error> { s.serialize_unit() }
}
impl<'de> Deserialize<'de> for Ign {
    fn deserialize<D: serde::Deserializer<'de>>(d: D) -> Result<Self, D::Error> { IgnoredAny::deserialize(d).map(|_| Ign) }
}
/// deserialize_any with a visitor that keeps whatever it is shown
#[derive(Debug, Clone)]
pub enum AnyVal {
    Bool(bool), U8(u8), U16(u16), U32(u32), U64(u64), I8(i8), I16(i16), I32(i32), I64(i64), F32(f32), F64(f64),
    Str(String), Bytes(Vec<u8>), None, Seq(Vec<AnyVal>), Map(Vec<AnyVal>), Unit, Char(char), Some(Box<AnyVal>), Newtype(Box<AnyVal>)
}
impl Serialize for AnyVal {
    fn serialize<S: serde::Serializer>(&self, s: S) -> Result<S::Ok, S::Error> {
        match self {
            AnyVal::Bool(x) => s.serialize_bool(*x),
            AnyVal::U8(x) => s.serialize_u8(*x), AnyVal::U16(x) => s.serialize_u16(*x),
            AnyVal::U32(x) => s.serialize_u32(*x), AnyVal::U64(x) => s.serialize_u64(*x),
            AnyVal::I8(x) => s.serialize_i8(*x), AnyVal::I16(x) => s.serialize_i16(*x),
            AnyVal::I32(x) => s.serialize_i32(*x), AnyVal::I64(x) => s.serialize_i64(*x),
            AnyVal::F32(x) => s.serialize_f32(*x), AnyVal::F64(x) => s.serialize_f64(*x),
            AnyVal::Str(x) => s.serialize_str(x), AnyVal::Bytes(x) => s.serialize_bytes(x),
            AnyVal::None => s.serialize_none(), AnyVal::Unit => s.serialize_unit(),
            AnyVal::Char(c) => s.serialize_char(*c),
            AnyVal::Some(x) => s.serialize_some(&**x),
            AnyVal::Newtype(x) => s.serialize_newtype_struct("N", &**x),
            AnyVal::Seq(l) => { let mut q = s.serialize_seq(Some(l.len()))?; for x in l { q.serialize_element(x)? } q.end() }
            AnyVal::Map(l) => {
                let mut q = s.serialize_map(Some(l.len() / 2))?;
                for kv in l.chunks(2) { q.serialize_key(&kv[0])?; q.serialize_value(&kv[1])? }
                q.end()
            }
        }
    }
}
impl<'de> Deserialize<'de> for AnyVal {
    fn deserialize<D: serde::Deserializer<'de>>(d: D) -> Result<Self, D::Error> {
        struct V;
        impl<'de> Visitor<'de> for V {
            type Value = AnyVal;
            fn expecting(&self, f: &mut fmt::Formatter) -> fmt::Result { f.write_str("anything") }
            fn visit_bool<E>(self, v: bool) -> Result<AnyVal, E> { Ok(AnyVal::Bool(v)) }
            fn visit_u8<E>(self, v: u8) -> Result<AnyVal, E> { Ok(AnyVal::U8(v)) }
            fn visit_u16<E>(self, v: u16) -> Result<AnyVal, E> { Ok(AnyVal::U16(v)) }
            fn visit_u32<E>(self, v: u32) -> Result<AnyVal, E> { Ok(AnyVal::U32(v)) }
            fn visit_u64<E>(self, v: u64) -> Result<AnyVal, E> { Ok(AnyVal::U64(v)) }
            fn visit_i8<E>(self, v: i8) -> Result<AnyVal, E> { Ok(AnyVal::I8(v)) }
            fn visit_i16<E>(self, v: i16) -> Result<AnyVal, E> { Ok(AnyVal::I16(v)) }
            fn visit_i32<E>(self, v: i32) -> Result<AnyVal, E> { Ok(AnyVal::I32(v)) }
            fn visit_i64<E>(self, v: i64) -> Result<AnyVal, E> { Ok(AnyVal::I64(v)) }
            fn visit_f32<E>(self, v: f32) -> Result<AnyVal, E> { Ok(AnyVal::F32(v)) }
            fn visit_f64<E>(self, v: f64) -> Result<AnyVal, E> { Ok(AnyVal::F64(v)) }
            fn visit_char<E>(self, v: char) -> Result<AnyVal, E> { Ok(AnyVal::Char(v)) }
            fn visit_str<E>(self, v: &str) -> Result<AnyVal, E> { Ok(AnyVal::Str(v.into())) }
            fn visit_bytes<E>(self, v: &[u8]) -> Result<AnyVal, E> { Ok(AnyVal::Bytes(v.into())) }
            fn visit_none<E>(self) -> Result<AnyVal, E> { Ok(AnyVal::None) }
            fn visit_unit<E>(self) -> Result<AnyVal, E> { Ok(AnyVal::Unit) }
            fn visit_some<D: serde::Deserializer<'de>>(self, d: D) -> Result<AnyVal, D::Error> { AnyVal::deserialize(d).map(|x| AnyVal::Some(Box::new(x))) }
            fn visit_newtype_struct<D: serde::Deserializer<'de>>(self, d: D) -> Result<AnyVal, D::Error> { AnyVal::deserialize(d).map(|x| AnyVal::Newtype(Box::new(x))) }
            fn visit_seq<A: SeqAccess<'de>>(self, mut a: A) -> Result<AnyVal, A::Error> {
                let mut l = Vec::new();
                while let Some(x) = a.next_element::<AnyVal>()? { l.push(x) }
                Ok(AnyVal::Seq(l))
            }
            fn visit_map<A: MapAccess<'de>>(self, mut a: A) -> Result<AnyVal, A::Error> {
                let mut l = Vec::new();
                while let Some(k) = a.next_key::<AnyVal>()? { l.push(k); l.push(a.next_value::<AnyVal>()?) }
                Ok(AnyVal::Map(l))
            }
        }
        d.deserialize_any(V)
    }
}

// ------------------------------------------------------------------ value text
fn vopen(p: &mut P) -> usize { p.eat(b'v'); let i = p.num() as usize; p.eat(b'('); i }
fn punit(p: &mut P) { assert!(p.lit("()")) }
fn vs(i: usize, s: String) -> String { format!("v{}({})", i, s) }
fn l(v: Vec<String>) -> String { show_list(v, false) }

macro_rules! canon_struct { ($t:ident { $($f:ident),* }) => {
    impl Canon for $t {
        fn parse(p: &mut P) -> Self {
            p.eat(b'[');
            let mut _n = 0;
            $( if _n > 0 { p.eat(b','); } _n += 1; let $f = Canon::parse(p); )*
            p.eat(b']');
            $t { $($f),* }
        }
        fn show(&self) -> String { show_list(vec![$(self.$f.show()),*], false) }
    }
} }
canon_struct!(P2 { x, y });
canon_struct!(Prims { b, j1, j2, j4, j8, w1, w2, w4, w8, f4, f8, c, s });
canon_struct!(WithOpt { a, b, c });
canon_struct!(WithOpt2 { q, r });
canon_struct!(Nested { p, v, m, t, o, u, k });
canon_struct!(Wide { f00, f01, f02, f03, f04, f05, f06, f07, f08, f09, f10, f11, f12, f13, f14, f15, f16, f17, f18, f19, f20, f21, f22, f23, f24 });
canon_struct!(InnerU { u });
canon_struct!(InnerC { c });
canon_struct!(InnerUS { k });
canon_struct!(InnerE { e });
canon_struct!(Fl { a, i, z });
canon_struct!(SkipS { a, b_s, c, d_s, e });
canon_struct!(HandS { secs, nanos });
canon_struct!(FlEK { a, m });
canon_struct!(MapEK { m });
impl Canon for ExtK {
    fn parse(p: &mut P) -> Self { let r = match vopen(p) { 0 => ExtK::A, 1 => ExtK::B, _ => ExtK::C }; punit(p); p.eat(b')'); r }
    fn show(&self) -> String { vs(match self { ExtK::A => 0, ExtK::B => 1, ExtK::C => 2 }, "()".into()) }
}
impl Canon for SkipE {
    fn parse(p: &mut P) -> Self {
        let r = match vopen(p) { 0 => { punit(p); SkipE::A } _ => { let (x, y_s, z_s) = Canon::parse(p); SkipE::D { x, y_s, z_s } } };
        p.eat(b')'); r
    }
    fn show(&self) -> String { match self { SkipE::A => vs(0, "()".into()), SkipE::D { x, y_s, z_s } => vs(1, l(vec![x.show(), y_s.show(), z_s.show()])) } }
}
impl Canon for InnerB<'static> {
    fn parse(p: &mut P) -> Self { let (s, n) = Canon::parse(p); InnerB { s, n } }
    fn show(&self) -> String { l(vec![self.s.show(), self.n.show()]) }
}
impl Canon for FlB<'static> {
    fn parse(p: &mut P) -> Self { let (a, i) = Canon::parse(p); FlB { a, i } }
    fn show(&self) -> String { l(vec![self.a.show(), self.i.show()]) }
}
impl Canon for IntB<'static> {
    fn parse(p: &mut P) -> Self {
        let r = match vopen(p) {
            0 => { let (s, n) = Canon::parse(p); IntB::S { s, n } }
            1 => { punit(p); IntB::U }
            _ => IntB::N(Canon::parse(p))
        };
        p.eat(b')'); r
    }
    fn show(&self) -> String {
        match self { IntB::S { s, n } => vs(0, l(vec![s.show(), n.show()])), IntB::U => vs(1, "()".into()), IntB::N(a) => vs(2, a.show()) }
    }
}
impl Canon for AdjB<'static> {
    fn parse(p: &mut P) -> Self {
        let r = match vopen(p) { 0 => AdjB::S(Canon::parse(p)), 1 => { punit(p); AdjB::U } _ => AdjB::N(Canon::parse(p)) };
        p.eat(b')'); r
    }
    fn show(&self) -> String { match self { AdjB::S(a) => vs(0, a.show()), AdjB::U => vs(1, "()".into()), AdjB::N(a) => vs(2, a.show()) } }
}
impl Canon for UntB<'static> {
    fn parse(p: &mut P) -> Self {
        let r = match vopen(p) { 0 => { let (s,) = Canon::parse(p); UntB::S { s } } 1 => UntB::N(Canon::parse(p)), _ => UntB::R(Canon::parse(p)) };
        p.eat(b')'); r
    }
    fn show(&self) -> String { match self { UntB::S { s } => vs(0, l(vec![s.show()])), UntB::N(a) => vs(1, a.show()), UntB::R(a) => vs(2, a.show()) } }
}
canon_struct!(Fl2 { i, o, j, w });
canon_struct!(FlM { a, o, m });
canon_struct!(FlU { a, u, b, c });
canon_struct!(FlF { a, i });
canon_struct!(FlFC { a, i });
canon_struct!(FlK { a, i });
canon_struct!(FlMK { a, m });
canon_struct!(FlMC { a, m });

impl Canon for US { fn parse(p: &mut P) -> Self { punit(p); US } fn show(&self) -> String { "()".into() } }
impl Canon for Ign { fn parse(p: &mut P) -> Self { punit(p); Ign } fn show(&self) -> String { "()".into() } }
impl Canon for NT { fn parse(p: &mut P) -> Self { NT(Canon::parse(p)) } fn show(&self) -> String { self.0.show() } }
impl Canon for NTO { fn parse(p: &mut P) -> Self { NTO(Canon::parse(p)) } fn show(&self) -> String { self.0.show() } }
impl Canon for TS {
    fn parse(p: &mut P) -> Self { let (a, b) = Canon::parse(p); TS(a, b) }
    fn show(&self) -> String { l(vec![self.0.show(), self.1.show()]) }
}
impl Canon for BytesBuf { fn parse(p: &mut P) -> Self { BytesBuf(p.hexbytes()) } fn show(&self) -> String { hb(&self.0) } }
impl Canon for BytesRef {
    fn parse(p: &mut P) -> Self { BytesRef(Box::leak(p.hexbytes().into_boxed_slice())) }
    fn show(&self) -> String { hb(self.0) }
}
impl Canon for &'static str {
    fn parse(p: &mut P) -> Self { Box::leak(String::parse(p).into_boxed_str()) }
    fn show(&self) -> String { hb(self.as_bytes()) }
}
impl Canon for Disp { fn parse(p: &mut P) -> Self { Disp(Canon::parse(p)) } fn show(&self) -> String { self.0.show() } }
impl<T: Canon> Canon for CollSeq<T> { fn parse(p: &mut P) -> Self { CollSeq(Canon::parse(p)) } fn show(&self) -> String { self.0.show() } }
impl<K: Canon + Ord, V: Canon> Canon for CollMap<K, V> { fn parse(p: &mut P) -> Self { CollMap(Canon::parse(p)) } fn show(&self) -> String { self.0.show() } }
impl<T: Canon> Canon for IterSeq<T> { fn parse(p: &mut P) -> Self { IterSeq(Canon::parse(p)) } fn show(&self) -> String { self.0.show() } }
impl<K: Canon + Ord, V: Canon> Canon for IterMap<K, V> { fn parse(p: &mut P) -> Self { IterMap(Canon::parse(p)) } fn show(&self) -> String { self.0.show() } }

impl Canon for Ext {
    fn parse(p: &mut P) -> Self {
        let r = match vopen(p) {
            0 => { punit(p); Ext::A }
            1 => Ext::B(Canon::parse(p)),
            2 => { let (a, b) = Canon::parse(p); Ext::C(a, b) }
            3 => { let (x, y) = Canon::parse(p); Ext::D { x, y } }
            4 => Ext::E(Canon::parse(p)),
            5 => Ext::F(Canon::parse(p)),
            6 => Ext::G(Canon::parse(p)),
            7 => Ext::H(Canon::parse(p)),
            _ => Ext::I(Canon::parse(p))
        };
        p.eat(b')'); r
    }
    fn show(&self) -> String {
        match self {
            Ext::A => vs(0, "()".into()), Ext::B(a) => vs(1, a.show()), Ext::C(a, b) => vs(2, l(vec![a.show(), b.show()])),
            Ext::D { x, y } => vs(3, l(vec![x.show(), y.show()])), Ext::E(a) => vs(4, a.show()), Ext::F(a) => vs(5, a.show()),
            Ext::G(a) => vs(6, a.show()), Ext::H(a) => vs(7, a.show()), Ext::I(a) => vs(8, a.show())
        }
    }
}
impl Canon for Ext2 {
    fn parse(p: &mut P) -> Self { vopen(p); let r = Ext2::Only(Canon::parse(p)); p.eat(b')'); r }
    fn show(&self) -> String { match self { Ext2::Only(a) => vs(0, a.show()) } }
}
impl Canon for Ext1 {
    fn parse(p: &mut P) -> Self {
        let r = match vopen(p) {
            0 => { punit(p); Ext1::A }
            1 => Ext1::B(Canon::parse(p)),
            2 => { let (a, b) = Canon::parse(p); Ext1::C(a, b) }
            _ => { let (x,) = Canon::parse(p); Ext1::D { x } }
        };
        p.eat(b')'); r
    }
    fn show(&self) -> String {
        match self {
            Ext1::A => vs(0, "()".into()), Ext1::B(a) => vs(1, a.show()), Ext1::C(a, b) => vs(2, l(vec![a.show(), b.show()])),
            Ext1::D { x } => vs(3, l(vec![x.show()]))
        }
    }
}
impl Canon for ExtU {
    fn parse(p: &mut P) -> Self {
        let r = match vopen(p) { 0 => { punit(p); ExtU::A } 1 => ExtU::E(Canon::parse(p)), _ => ExtU::G(Canon::parse(p)) };
        p.eat(b')'); r
    }
    fn show(&self) -> String { match self { ExtU::A => vs(0, "()".into()), ExtU::E(a) => vs(1, a.show()), ExtU::G(a) => vs(2, a.show()) } }
}
impl Canon for Int {
    fn parse(p: &mut P) -> Self {
        let r = match vopen(p) {
            0 => { punit(p); Int::A }
            1 => { let (x, y) = Canon::parse(p); Int::B { x, y } }
            2 => Int::C(Canon::parse(p)),
            3 => Int::M(Canon::parse(p)),
            4 => Int::Un(Canon::parse(p)),
            5 => Int::Us(Canon::parse(p)),
            6 => Int::W(Canon::parse(p)),
            _ => { let (v, s, e) = Canon::parse(p); Int::I { v, s, e } }
        };
        p.eat(b')'); r
    }
    fn show(&self) -> String {
        match self {
            Int::A => vs(0, "()".into()), Int::B { x, y } => vs(1, l(vec![x.show(), y.show()])), Int::C(a) => vs(2, a.show()),
            Int::M(a) => vs(3, a.show()), Int::Un(a) => vs(4, a.show()), Int::Us(a) => vs(5, a.show()), Int::W(a) => vs(6, a.show()),
            Int::I { v, s, e } => vs(7, l(vec![v.show(), s.show(), e.show()]))
        }
    }
}
impl Canon for IntF {
    fn parse(p: &mut P) -> Self {
        let r = match vopen(p) {
            0 => { let (x,) = Canon::parse(p); IntF::Ok { x } }
            1 => { let (u,) = Canon::parse(p); IntF::U { u } }
            2 => { let (c,) = Canon::parse(p); IntF::Ch { c } }
            3 => IntF::Nu(Canon::parse(p)),
            4 => IntF::Nc(Canon::parse(p)),
            5 => IntF::Ks(Canon::parse(p)),
            _ => IntF::Eu(Canon::parse(p))
        };
        p.eat(b')'); r
    }
    fn show(&self) -> String {
        match self {
            IntF::Ok { x } => vs(0, l(vec![x.show()])), IntF::U { u } => vs(1, l(vec![u.show()])), IntF::Ch { c } => vs(2, l(vec![c.show()])),
            IntF::Nu(a) => vs(3, a.show()), IntF::Nc(a) => vs(4, a.show()), IntF::Ks(a) => vs(5, a.show()), IntF::Eu(a) => vs(6, a.show())
        }
    }
}
impl Canon for Adj {
    fn parse(p: &mut P) -> Self {
        let r = match vopen(p) {
            0 => { punit(p); Adj::A }
            1 => Adj::B(Canon::parse(p)),
            2 => { let (a, b) = Canon::parse(p); Adj::C(a, b) }
            3 => { let (x, y) = Canon::parse(p); Adj::D { x, y } }
            4 => Adj::U(Canon::parse(p)),
            5 => Adj::Ch(Canon::parse(p)),
            6 => Adj::O(Canon::parse(p)),
            7 => Adj::K(Canon::parse(p)),
            _ => Adj::P(Canon::parse(p))
        };
        p.eat(b')'); r
    }
    fn show(&self) -> String {
        match self {
            Adj::A => vs(0, "()".into()), Adj::B(a) => vs(1, a.show()), Adj::C(a, b) => vs(2, l(vec![a.show(), b.show()])),
            Adj::D { x, y } => vs(3, l(vec![x.show(), y.show()])), Adj::U(a) => vs(4, a.show()), Adj::Ch(a) => vs(5, a.show()),
            Adj::O(a) => vs(6, a.show()), Adj::K(a) => vs(7, a.show()), Adj::P(a) => vs(8, a.show())
        }
    }
}
impl Canon for Unt {
    fn parse(p: &mut P) -> Self {
        let r = match vopen(p) {
            0 => Unt::B(Canon::parse(p)),
            1 => { let (a, b) = Canon::parse(p); Unt::C(a, b) }
            2 => { let (x,) = Canon::parse(p); Unt::D { x } }
            3 => Unt::S(Canon::parse(p)),
            4 => Unt::V(Canon::parse(p)),
            5 => Unt::Z(Canon::parse(p)),
            _ => { punit(p); Unt::A }
        };
        p.eat(b')'); r
    }
    fn show(&self) -> String {
        match self {
            Unt::B(a) => vs(0, a.show()), Unt::C(a, b) => vs(1, l(vec![a.show(), b.show()])), Unt::D { x } => vs(2, l(vec![x.show()])),
            Unt::S(a) => vs(3, a.show()), Unt::V(a) => vs(4, a.show()), Unt::Z(a) => vs(5, a.show()), Unt::A => vs(6, "()".into())
        }
    }
}
impl Canon for UntF {
    fn parse(p: &mut P) -> Self {
        let r = match vopen(p) {
            0 => UntF::I(Canon::parse(p)),
            1 => UntF::C(Canon::parse(p)),
            2 => { let (a, b) = Canon::parse(p); UntF::T(a, b) }
            3 => { let (k,) = Canon::parse(p); UntF::K { k } }
            _ => UntF::U(Canon::parse(p))
        };
        p.eat(b')'); r
    }
    fn show(&self) -> String {
        match self {
            UntF::I(a) => vs(0, a.show()), UntF::C(a) => vs(1, a.show()), UntF::T(a, b) => vs(2, l(vec![a.show(), b.show()])),
            UntF::K { k } => vs(3, l(vec![k.show()])), UntF::U(a) => vs(4, a.show())
        }
    }
}
impl Canon for AnyVal {
    fn parse(p: &mut P) -> Self {
        let r = match vopen(p) {
            0 => AnyVal::Bool(Canon::parse(p)),
            1 => AnyVal::U8(Canon::parse(p)), 2 => AnyVal::U16(Canon::parse(p)), 3 => AnyVal::U32(Canon::parse(p)), 4 => AnyVal::U64(Canon::parse(p)),
            5 => AnyVal::I8(Canon::parse(p)), 6 => AnyVal::I16(Canon::parse(p)), 7 => AnyVal::I32(Canon::parse(p)), 8 => AnyVal::I64(Canon::parse(p)),
            9 => AnyVal::F32(Canon::parse(p)), 10 => AnyVal::F64(Canon::parse(p)),
            11 => AnyVal::Str(Canon::parse(p)), 12 => AnyVal::Bytes(p.hexbytes()),
            13 => { punit(p); AnyVal::None }
            14 => AnyVal::Seq(Canon::parse(p)), 15 => AnyVal::Map(Canon::parse(p)),
            16 => { punit(p); AnyVal::Unit }
            17 => AnyVal::Char(Canon::parse(p)),
            18 => AnyVal::Some(Box::new(Canon::parse(p))),
            _ => AnyVal::Newtype(Box::new(Canon::parse(p)))
        };
        p.eat(b')'); r
    }
    fn show(&self) -> String {
        match self {
            AnyVal::Bool(a) => vs(0, a.show()),
            AnyVal::U8(a) => vs(1, a.show()), AnyVal::U16(a) => vs(2, a.show()), AnyVal::U32(a) => vs(3, a.show()), AnyVal::U64(a) => vs(4, a.show()),
            AnyVal::I8(a) => vs(5, a.show()), AnyVal::I16(a) => vs(6, a.show()), AnyVal::I32(a) => vs(7, a.show()), AnyVal::I64(a) => vs(8, a.show()),
            AnyVal::F32(a) => vs(9, a.show()), AnyVal::F64(a) => vs(10, a.show()),
            AnyVal::Str(a) => vs(11, a.show()), AnyVal::Bytes(a) => vs(12, hb(a)),
            AnyVal::None => vs(13, "()".into()), AnyVal::Seq(a) => vs(14, a.show()), AnyVal::Map(a) => vs(15, a.show()),
            AnyVal::Unit => vs(16, "()".into()), AnyVal::Char(a) => vs(17, a.show()),
            AnyVal::Some(a) => vs(18, a.show()), AnyVal::Newtype(a) => vs(19, a.show())
        }
    }
}

// ------------------------------------------------------------------ operations
fn leak(b: &[u8]) -> &'static [u8] { Box::leak(b.to_vec().into_boxed_slice()) }

/// exactly one item according to minicbor's own skip (the reference parser of Spec/Cbor.v judges the
/// specification's bytes on the model side; the two byte strings are compared by bin/check)
fn one_item(b: &[u8]) -> bool {
    let mut d = minicbor::Decoder::new(b);
    d.skip().is_ok() && d.position() == b.len()
}

/// SER: "<bytes>;<outcome of reading them back as the same type>"
fn ser<T>(val: &str, lossy: bool) -> String
where T: Canon + Serialize + Deserialize<'static>
{
    let v = T::parse(&mut P::new(val));
    let orig = v.show();
    let bytes = match crate::sser::to_vec(&v) {
        Ok(b) => b,
        Err(_) => return with_oracle("refused;-".into(), Err("serialisation refused".into()))
    };
    let input = leak(&bytes);
    let mut d = minicbor_serde::Deserializer::new(input);
    let r = T::deserialize(&mut d);
    let pos = d.decoder().position();
    let mut verdict = Ok(());
    if !one_item(&bytes) { verdict = Err("output is not exactly one CBOR item".into()) }
    if crate::sser::to_vec(&v).ok().as_deref() != Some(&bytes[..]) { verdict = Err("nondeterministic serialisation".into()) }
    if !lossy {
        match &r {
            Ok(x) => {
                if x.show() != orig { verdict = Err(format!("round trip changed the value: {} -> {}", orig, x.show())) }
                else if pos != bytes.len() { verdict = Err(format!("deserialisation consumed {} of {} bytes", pos, bytes.len())) }
            }
            Err(e) => verdict = Err(format!("reading back the serialisation failed: {}", classify_text(&e.to_string())))
        }
    }
    with_oracle(format!("{};{}", hex(&bytes), show_sres(r, pos, |x| x.show())), verdict)
}

/// DE: deserialise arbitrary bytes
fn de<T>(inp: &[u8]) -> String
where T: Canon + Deserialize<'static>
{
    let input = leak(inp);
    let mut d = minicbor_serde::Deserializer::new(input);
    let r = T::deserialize(&mut d);
    let pos = d.decoder().position();
    // the convenience entry point must agree with the explicit Deserializer
    let r2: Result<T, _> = minicbor_serde::from_slice(input);
    let same = match (&r, &r2) { (Ok(a), Ok(b)) => a.show() == b.show(), (Err(a), Err(b)) => classify_text(&a.to_string()) == classify_text(&b.to_string()), _ => false };
    // a Deserializer made from a natively positioned Decoder (mixed messages) starts where that decoder stands
    let mut pre = vec![0x18u8, 0x2a]; pre.extend_from_slice(inp);
    let pre = leak(&pre);
    let mut nd = minicbor::Decoder::new(pre);
    nd.set_position(2);
    let mut d3 = minicbor_serde::Deserializer::from(nd);
    let r3 = T::deserialize(&mut d3);
    let pos3 = d3.decoder().position();
    let same3 = pos3 == pos + 2 && match (&r, &r3) { (Ok(a), Ok(b)) => a.show() == b.show(), (Err(a), Err(b)) => classify_text(&a.to_string()) == classify_text(&b.to_string()), _ => false };
    let verdict = if pos > inp.len() { Err(format!("position {} beyond input", pos)) }
                  else if !same { Err("minicbor_serde::from_slice disagrees with Deserializer::new + deserialize".into()) }
                  else if !same3 { Err(format!("Deserializer::from(decoder at position 2) does not continue from there (ends at {} instead of {})", pos3, pos + 2)) } else { Ok(()) };
    with_oracle(show_sres(r, pos, |x| x.show()), verdict)
}

macro_rules! registry {
    ($( $key:literal => $t:ty $(, $lossy:ident)? );* $(;)?) => {
        fn ser_dispatch(key: &str, val: &str) -> Option<String> {
            match key { $( $key => Some(ser::<$t>(val, registry!(@l $($lossy)?))), )* _ => None }
        }
        fn de_dispatch(key: &str, inp: &[u8]) -> Option<String> {
            match key { $( $key => Some(de::<$t>(inp)), )* _ => None }
        }
    };
    (@l lossy) => { true };
    (@l) => { false };
}

registry! {
    "bool" => bool; "u8" => u8; "u16" => u16; "u32" => u32; "u64" => u64; "usize" => usize;
    "i8" => i8; "i16" => i16; "i32" => i32; "i64" => i64; "isize" => isize;
    "f32" => f32; "f64" => f64; "char" => char; "string" => String; "strref" => &'static str;
    "bytebuf" => BytesBuf; "bytesref" => BytesRef; "unit" => (); "disp" => Disp; "any" => AnyVal, lossy; "ign" => Ign, lossy;
    "US" => US; "NT" => NT; "NTO" => NTO; "TS" => TS; "P2" => P2; "Prims" => Prims; "WithOpt" => WithOpt; "WithOpt2" => WithOpt2;
    "Nested" => Nested; "Wide" => Wide; "Ext" => Ext; "Ext2" => Ext2; "Ext1" => Ext1; "ExtU" => ExtU;
    "InnerU" => InnerU; "InnerC" => InnerC; "InnerUS" => InnerUS; "InnerE" => InnerE;
    "Int" => Int; "IntF" => IntF; "Adj" => Adj; "Unt" => Unt; "UntF" => UntF;
    "Hr" => Hr; "arr4(u8)" => Ip4; "HandS" => HandS; "ExtK" => ExtK; "FlEK" => FlEK; "MapEK" => MapEK; "SkipS" => SkipS; "SkipE" => SkipE; "opt(SkipS)" => Option<SkipS>; "seq(SkipS)" => Vec<SkipS>; "InnerB" => InnerB<'static>; "IntB" => IntB<'static>; "AdjB" => AdjB<'static>; "UntB" => UntB<'static>; "FlB" => FlB<'static>;
    "Fl" => Fl; "Fl2" => Fl2; "FlM" => FlM; "FlU" => FlU; "FlF" => FlF; "FlFC" => FlFC; "FlK" => FlK; "FlMK" => FlMK; "FlMC" => FlMC;
    "opt(u8)" => Option<u8>; "opt(string)" => Option<String>; "opt(unit)" => Option<()>; "opt(opt(u8))" => Option<Option<u8>>, lossy;
    "opt(NTO)" => Option<NTO>, lossy; "opt(P2)" => Option<P2>; "opt(Ext)" => Option<Ext>; "opt(US)" => Option<US>;
    "seq(u8)" => Vec<u8>; "seq(opt(u16))" => Vec<Option<u16>>; "seq(P2)" => Vec<P2>; "seq(Ext)" => Vec<Ext>; "seq(seq(i8))" => Vec<Vec<i8>>;
    "seq(unit)" => Vec<()>; "seq(US)" => Vec<US>; "seq(Unt)" => Vec<Unt>; "seq(Int)" => Vec<Int>; "seq(Fl)" => Vec<Fl>; "seq(Adj)" => Vec<Adj>;
    "seq(string)" => Vec<String>; "seq(bytebuf)" => Vec<BytesBuf>; "seq(char)" => Vec<char>;
    "cseq(u8)" => CollSeq<u8>; "cseq(P2)" => CollSeq<P2>; "cseq(cseq(u8))" => CollSeq<CollSeq<u8>>; "cmap(u8,bool)" => CollMap<u8, bool>; "cmap(string,cseq(u8))" => CollMap<String, CollSeq<u8>>;
    "iseq(u8)" => IterSeq<u8>; "iseq(P2)" => IterSeq<P2>; "iseq(iseq(u8))" => IterSeq<IterSeq<u8>>; "iseq(opt(string))" => IterSeq<Option<String>>;
    "tup(u8)" => (u8,); "tup(u8,string)" => (u8, String); "tup(u64,i64,f32,f64,char)" => (u64, i64, f32, f64, char);
    "tup(P2,Ext,unit)" => (P2, Ext, ()); "tup(strref,bytesref)" => (&'static str, BytesRef);
    "arr0(u8)" => [u8; 0]; "arr3(u16)" => [u16; 3]; "arr2(P2)" => [P2; 2]; "arr24(bool)" => [bool; 24];
    "bmap(u8,string)" => BTreeMap<u8, String>; "bmap(string,u8)" => BTreeMap<String, u8>; "bmap(tup(u8,u8),bool)" => BTreeMap<(u8, u8), bool>;
    "bmap(char,i8)" => BTreeMap<char, i8>; "bmap(i16,P2)" => BTreeMap<i16, P2>; "bmap(string,Adj)" => BTreeMap<String, Adj>;
    "bmap(bool,seq(u8))" => BTreeMap<bool, Vec<u8>>; "bmap(u64,unit)" => BTreeMap<u64, ()>;
    "imap(u8,bool)" => IterMap<u8, bool>; "imap(string,seq(u8))" => IterMap<String, Vec<u8>>; "imap(i8,iseq(i8))" => IterMap<i8, IterSeq<i8>>;
}

pub fn ser_handler(a: &[&str]) -> String { ser_dispatch(a[0], a[1]).unwrap_or_else(|| "?bad-type".into()) }
pub fn de_handler(a: &[&str]) -> String { de_dispatch(a[0], &unhex(a[1])).unwrap_or_else(|| "?bad-type".into()) }

// ------------------------------------------------------------------ SERD: recursive types, deep values (implementation-side oracle only)
#[derive(Serialize, Deserialize, Debug, Clone, PartialEq)] pub enum Chain { End, Link(Box<Chain>) }
#[derive(Serialize, Deserialize, Debug, Clone, PartialEq)] pub struct Nest(Vec<Nest>);
#[derive(Serialize, Deserialize, Debug, Clone, PartialEq)] pub struct Node { v: u8, next: Option<Box<Node>> }

/// SERD <kind> <depth>: a value of a recursive type nested <depth> levels deep is serialised and read back (no depth limit is
/// documented: it round-trips like any other value).  Runs on a thread with a large stack so that the derived impls' own
/// recursion is not the limit.  Result: "depth=<n>;ok" (the model side prints the same constant).
pub fn serd_handler(a: &[&str]) -> String {
    let kind = a[0].to_string();
    let depth: usize = a[1].parse().unwrap();
    let r = std::thread::Builder::new().stack_size(256 << 20).spawn(move || -> Result<(), String> {
        fn rt<T: Serialize + for<'a> Deserialize<'a> + PartialEq>(v: T) -> Result<(), String> {
            let bytes = crate::sser::to_vec(&v).map_err(|_| "serialisation refused".to_string())?;
            if !{ let mut d = minicbor::Decoder::new(&bytes); d.skip().is_ok() && d.position() == bytes.len() } { return Err("output is not exactly one CBOR item".into()) }
            let mut d = minicbor_serde::Deserializer::new(&bytes);
            let back = T::deserialize(&mut d).map_err(|e| format!("reading back the serialisation failed: {}", classify_text(&e.to_string())))?;
            if d.decoder().position() != bytes.len() { return Err("deserialisation did not consume the item".into()) }
            let same = back == v;
            std::mem::forget(back); std::mem::forget(v);          // the derived Drop glue recurses too; leak instead
            if same { Ok(()) } else { Err("round trip changed the value".into()) }
        }
        match kind.as_str() {
            "chain" => { let mut c = Chain::End; for _ in 0 .. depth { c = Chain::Link(Box::new(c)) } rt(c) }
            "nest" => { let mut n = Nest(Vec::new()); for _ in 0 .. depth { n = Nest(vec![n]) } rt(n) }
            _ => { let mut n = Node { v: 0, next: None }; for i in 0 .. depth { n = Node { v: i as u8, next: Some(Box::new(n)) } } rt(n) }
        }
    }).unwrap().join();
    match r {
        Ok(v) => with_oracle(format!("depth={};ok", depth), v),
        Err(_) => with_oracle(format!("depth={};ok", depth), Err("panic / stack exhaustion".into()))
    }
}

// ------------------------------------------------------------------ C18: bridge vs native on the shared data model
#[cfg(not(feature = "cfgmatrix"))]
mod c18 {
use super::*;

/// X18: "<bridge bytes>;<native bytes>;<native bytes read by the bridge>;<bridge bytes read natively>"
pub(super) fn x18<T>(val: &str, lossy: bool) -> String
where T: Canon + Serialize + Deserialize<'static> + minicbor::Encode<()> + for<'b> minicbor::Decode<'b, ()>
{
    let v = T::parse(&mut P::new(val));
    let orig = v.show();
    let sb = crate::sser::to_vec(&v).ok();
    let nb = minicbor::to_vec(&v).ok();
    let mut verdict = Ok(());
    let h = |b: &Option<Vec<u8>>| b.as_ref().map(|b| hex(b)).unwrap_or_else(|| "refused".into());
    if sb != nb { verdict = Err(format!("bridge bytes {} differ from native bytes {}", h(&sb), h(&nb))) }
    let r1 = match &nb {
        Some(b) => {
            let mut d = minicbor_serde::Deserializer::new(leak(b));
            let r = T::deserialize(&mut d);
            let pos = d.decoder().position();
            if !lossy {
                match &r {
                    Ok(x) if x.show() == orig && pos == b.len() => {}
                    Ok(x) => verdict = Err(format!("native bytes read by the bridge: {} @{} instead of {} @{}", x.show(), pos, orig, b.len())),
                    Err(e) => verdict = Err(format!("native bytes rejected by the bridge: {}", classify_text(&e.to_string())))
                }
            }
            show_sres(r, pos, |x| x.show())
        }
        None => "-".into()
    };
    let r2 = match &sb {
        Some(b) => {
            let mut d = minicbor::Decoder::new(b);
            let r: Result<T, _> = d.decode();
            let pos = d.position();
            if !lossy {
                match &r {
                    Ok(x) if x.show() == orig && pos == b.len() => {}
                    Ok(x) => verdict = Err(format!("bridge bytes read natively: {} @{} instead of {} @{}", x.show(), pos, orig, b.len())),
                    Err(e) => verdict = Err(format!("bridge bytes rejected by the native decoder: {}", classify(e)))
                }
            }
            show_res(r, pos, |x| x.show())
        }
        None => "-".into()
    };
    with_oracle(format!("{};{};{};{}", h(&sb), h(&nb), r1, r2), verdict)
}

/// XR: an alternative encoding read by both decoders: "<bridge outcome>;<native outcome>"
pub(super) fn xr<T>(inp: &[u8]) -> String
where T: Canon + Deserialize<'static> + for<'b> minicbor::Decode<'b, ()>
{
    let mut d1 = minicbor_serde::Deserializer::new(leak(inp));
    let r1 = T::deserialize(&mut d1);
    let p1 = d1.decoder().position();
    let mut d2 = minicbor::Decoder::new(inp);
    let r2: Result<T, _> = d2.decode();
    let p2 = d2.position();
    let mut verdict = Ok(());
    if let (Ok(a), Ok(b)) = (&r1, &r2) {
        if a.show() != b.show() { verdict = Err(format!("the two decoders return different values: {} vs {}", a.show(), b.show())) }
        else if p1 != p2 { verdict = Err(format!("the two decoders stop at different positions: {} vs {}", p1, p2)) }
    }
    // mixed messages: a native decoder that stands behind a header is handed to the bridge (Deserializer::from): both sides read
    // the same item from the same decoder state
    let mut pre = vec![0x18u8, 0x2a]; pre.extend_from_slice(inp);
    let pre = leak(&pre);
    let mut nd = minicbor::Decoder::new(pre);
    let _ = nd.u8();
    let mut d3 = minicbor_serde::Deserializer::from(nd.clone());
    let r3 = T::deserialize(&mut d3);
    let p3 = d3.decoder().position();
    let r4: Result<T, _> = nd.decode();
    if let (Ok(a), Ok(b)) = (&r3, &r4) {
        if a.show() != b.show() || p3 != nd.position() { verdict = Err(format!("from a decoder at position 2 the bridge reads {} @{} and the native decoder {} @{}", a.show(), p3, b.show(), nd.position())) }
    }
    if verdict.is_ok() && (r3.is_ok() != r1.is_ok() || (r3.is_ok() && p3 != p1 + 2)) { verdict = Err("Deserializer::from(decoder at position 2) does not behave like a fresh deserializer on the same item".into()) }
    with_oracle(format!("{};{}", show_sres(r1, p1, |x| x.show()), show_res(r2, p2, |x| x.show())), verdict)
}

macro_rules! shared_registry {
    ($( $key:literal => $t:ty $(, $lossy:ident)? );* $(;)?) => {
        fn x18_dispatch(key: &str, val: &str) -> Option<String> {
            match key { $( $key => Some(x18::<$t>(val, shared_registry!(@l $($lossy)?))), )* _ => None }
        }
        fn xr_dispatch(key: &str, inp: &[u8]) -> Option<String> {
            match key { $( $key => Some(xr::<$t>(inp)), )* _ => None }
        }
    };
    (@l lossy) => { true };
    (@l) => { false };
}

type T16 = (u8, u16, u32, u64, i8, i16, i32, i64, bool, char, String, Option<u8>, u8, u8, u8, u8);
use std::collections::{BTreeSet, LinkedList, VecDeque};

shared_registry! {
    "u8" => u8; "u16" => u16; "u32" => u32; "u64" => u64; "usize" => usize;
    "i8" => i8; "i16" => i16; "i32" => i32; "i64" => i64; "isize" => isize;
    "bool" => bool; "char" => char; "f32" => f32; "f64" => f64; "string" => String; "unit" => ();
    "opt(u8)" => Option<u8>; "opt(string)" => Option<String>; "opt(unit)" => Option<()>; "opt(i64)" => Option<i64>;
    "opt(opt(u8))" => Option<Option<u8>>, lossy; "opt(seq(u8))" => Option<Vec<u8>>;
    "seq(u8)" => Vec<u8>; "seq(opt(u16))" => Vec<Option<u16>>; "seq(seq(i8))" => Vec<Vec<i8>>; "seq(string)" => Vec<String>;
    "deque(i32)" => VecDeque<i32>; "llist(bool)" => LinkedList<bool>; "bset(i16)" => BTreeSet<i16>;
    "arr0(u8)" => [u8; 0]; "arr3(u16)" => [u16; 3]; "arr2(opt(u8))" => [Option<u8>; 2]; "arr2(string)" => [String; 2]; "arr25(u8)" => [u8; 25];
    "bmap(u8,string)" => BTreeMap<u8, String>; "bmap(string,seq(u8))" => BTreeMap<String, Vec<u8>>;
    "tup(u8)" => (u8,); "tup(u8,i8)" => (u8, i8); "tup(string,opt(u8),bool)" => (String, Option<u8>, bool);
    "tup(u8,u8,u8,u8)" => (u8, u8, u8, u8); "tup(u64,i64,f32,f64,char)" => (u64, i64, f32, f64, char);
    "tup16" => T16; "seq(tup(u8,string))" => Vec<(u8, String)>;
    "bmap(i16,opt(seq(tup(u8,string))))" => BTreeMap<i16, Option<Vec<(u8, String)>>>; "seq(bmap(u8,bool))" => Vec<BTreeMap<u8, bool>>;
    "opt(tup(char,unit))" => Option<(char, ())>; "tup(seq(u8),bmap(string,i8),opt(f32))" => (Vec<u8>, BTreeMap<String, i8>, Option<f32>);
    "arr2(seq(arr2(i8)))" => [Vec<[i8; 2]>; 2]; "seq(unit)" => Vec<()>; "bmap(tup(u8,bool),string)" => BTreeMap<(u8, bool), String>;
    "opt(arr3(opt(char)))" => Option<[Option<char>; 3]>; "seq(opt(opt(u8)))" => Vec<Option<Option<u8>>>, lossy;
    "bmap(char,f64)" => BTreeMap<char, f64>; "tup(unit,unit)" => ((), ()); "seq(seq(seq(u16)))" => Vec<Vec<Vec<u16>>>;
    "bmap(u64,bmap(i8,string))" => BTreeMap<u64, BTreeMap<i8, String>>; "tup(opt(unit),seq(bool),i64)" => (Option<()>, Vec<bool>, i64);
    "seq(tup(f64,f32))" => Vec<(f64, f32)>; "opt(bmap(string,opt(u32)))" => Option<BTreeMap<String, Option<u32>>>;
}

pub fn x18_handler(a: &[&str]) -> String { x18_dispatch(a[0], a[1]).unwrap_or_else(|| "?bad-type".into()) }
pub fn xr_handler(a: &[&str]) -> String { xr_dispatch(a[0], &unhex(a[1])).unwrap_or_else(|| "?bad-type".into()) }

}
#[cfg(not(feature = "cfgmatrix"))]
pub use c18::{x18_handler, xr_handler};
