//! IANA <i> / IANAT <n>: data::IanaTag — the conversion tables, Encode and CborLen (C03, C07).
use crate::util::*;
use minicbor::data::{IanaTag, Tag};

/// every variant, in declaration order (data.rs:117); the enum is #[non_exhaustive], so this list is the harness's
const ALL: [IanaTag; 41] = [
    IanaTag::DateTime, IanaTag::Timestamp, IanaTag::PosBignum, IanaTag::NegBignum, IanaTag::Decimal, IanaTag::Bigfloat,
    IanaTag::ToBase64Url, IanaTag::ToBase64, IanaTag::ToBase16, IanaTag::Cbor, IanaTag::Uri, IanaTag::Base64Url, IanaTag::Base64,
    IanaTag::Regex, IanaTag::Mime, IanaTag::HomogenousArray, IanaTag::TypedArrayU8, IanaTag::TypedArrayU8Clamped,
    IanaTag::TypedArrayU16B, IanaTag::TypedArrayU32B, IanaTag::TypedArrayU64B, IanaTag::TypedArrayU16L, IanaTag::TypedArrayU32L,
    IanaTag::TypedArrayU64L, IanaTag::TypedArrayI8, IanaTag::TypedArrayI16B, IanaTag::TypedArrayI32B, IanaTag::TypedArrayI64B,
    IanaTag::TypedArrayI16L, IanaTag::TypedArrayI32L, IanaTag::TypedArrayI64L, IanaTag::TypedArrayF16B, IanaTag::TypedArrayF32B,
    IanaTag::TypedArrayF64B, IanaTag::TypedArrayF128B, IanaTag::TypedArrayF16L, IanaTag::TypedArrayF32L, IanaTag::TypedArrayF64L,
    IanaTag::TypedArrayF128L, IanaTag::MultiDimArrayR, IanaTag::MultiDimArrayC
];

fn index_of(t: IanaTag) -> String { ALL.iter().position(|x| *x == t).map(|i| i.to_string()).unwrap_or_else(|| "unlisted".into()) }

pub fn iana_handler(a: &[&str]) -> String {
    let Some(t) = a[0].parse::<usize>().ok().and_then(|i| ALL.get(i).copied()) else { return "?no-such-variant".into() };
    let tag: Tag = t.into();
    let n: u64 = tag.into();
    let back = match IanaTag::try_from(tag) { Ok(u) => index_of(u), Err(_) => "none".into() };
    let bytes = minicbor::to_vec(t).unwrap();
    let len = minicbor::len(t);
    let mut verdict = Ok(());
    // the property's own predicates: exactly the tag head Encoder::tag writes for that number; len exact; tag() agrees
    let mut direct = Vec::new();
    minicbor::Encoder::new(&mut direct).tag(tag).unwrap();
    if direct != bytes { verdict = Err(format!("Encode for IanaTag writes {} but Encoder::tag({}) writes {}", hex(&bytes), n, hex(&direct))) }
    if len != bytes.len() { verdict = Err(format!("cbor_len {} but {} bytes written", len, bytes.len())) }
    if u64::from(t.tag()) != n { verdict = Err("IanaTag::tag() disagrees with From<IanaTag> for Tag".into()) }
    if IanaTag::try_from(tag).ok() != Some(t) { verdict = Err(format!("TryFrom<Tag>({}) does not give the variant back", n)) }
    with_oracle(format!("tag={};enc={};len={};back={}", n, hex(&bytes), len, back), verdict)
}

pub fn ianat_handler(a: &[&str]) -> String {
    let n: u64 = a[0].parse().unwrap();
    match IanaTag::try_from(Tag::new(n)) {
        Ok(t) => {
            let v = if u64::from(Tag::from(t)) == n { Ok(()) } else { Err(format!("TryFrom<Tag>({}) gives a variant whose tag is {}", n, u64::from(Tag::from(t)))) };
            with_oracle(format!("of={}", index_of(t)), v)
        }
        Err(_) => "of=none".into()
    }
}
