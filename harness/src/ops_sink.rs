//! SINK / SINKE: the Write sinks of minicbor::encode::write under raw write_all sequences and under
//! whole-value encoding, with canary bytes around every bounded buffer.
use crate::util::*;
use minicbor::encode::write::{Cursor, Writer};
use minicbor::encode::Write;

pub trait Job { fn run<W: Write>(&self, w: &mut W) -> bool; fn expected(&self) -> Vec<u8>; }

pub struct Raw(pub Vec<Vec<u8>>);
impl Job for Raw {
    fn run<W: Write>(&self, w: &mut W) -> bool {
        for c in &self.0 { if w.write_all(c).is_err() { return false } }
        true
    }
    fn expected(&self) -> Vec<u8> { self.0.concat() }
}

pub struct Enc<'a, T>(pub &'a T);
impl<'a, T: minicbor::Encode<()>> Job for Enc<'a, T> {
    fn run<W: Write>(&self, w: &mut W) -> bool { minicbor::encode(self.0, w).is_ok() }
    fn expected(&self) -> Vec<u8> { minicbor::to_vec(self.0).unwrap_or_default() }
}

const CANARY: u8 = 0x5c;
const FILL: u8 = 0xa7;
const PAD: usize = 8;

fn verdict<J: Job>(job: &J, ok: bool, written: &[u8], pos: usize, cap: Option<usize>, canaries_ok: bool, tail_untouched: bool) -> Result<(), String> {
    let full = job.expected();
    if !canaries_ok { return Err("bytes outside the sink were modified".into()) }
    if !tail_untouched { return Err("bytes beyond the reported position were modified".into()) }
    if !full.starts_with(written) { return Err(format!("sink content {} is not a prefix of the encoding {}", hex(written), hex(&full))) }
    if pos != written.len() { return Err(format!("position {} but {} bytes accepted", pos, written.len())) }
    match cap {
        Some(c) => {
            if ok != (full.len() <= c) { return Err(format!("capacity {} encoding {} bytes: ok={}", c, full.len(), ok)) }
            if written.len() > c { return Err("more bytes than the capacity accepted".into()) }
        }
        None => if !ok { return Err("growable sink failed".into()) }
    }
    if ok && written != &full[..] { return Err("success but content differs from the encoding".into()) }
    Ok(())
}

fn show(ok: bool, written: &[u8], pos: usize) -> String {
    format!("{};written={};pos={}", if ok { "ok" } else { "err" }, hex_or_dash(written), pos)
}

fn padded(cap: usize) -> Vec<u8> {
    let mut v = vec![CANARY; cap + 2 * PAD];
    for b in &mut v[PAD .. PAD + cap] { *b = FILL }
    v
}
fn canaries_ok(buf: &[u8], cap: usize) -> bool {
    buf[.. PAD].iter().all(|b| *b == CANARY) && buf[PAD + cap ..].iter().all(|b| *b == CANARY)
}

fn with_array<const N: usize, J: Job>(job: &J) -> String {
    let mut c = Cursor::new([FILL; N]);
    let ok = job.run(&mut c);
    let pos = c.position();
    let arr = c.into_inner();
    let written = arr[.. pos.min(N)].to_vec();
    let tail = arr[pos.min(N) ..].iter().all(|b| *b == FILL);
    with_oracle(show(ok, &written, pos), verdict(job, ok, &written, pos, Some(N), true, tail))
}

pub fn on_sink<J: Job>(kind: &str, cap: usize, job: &J) -> String {
    match kind {
        "slice" => {
            let mut buf = padded(cap);
            let (ok, remaining) = {
                let mut s: &mut [u8] = &mut buf[PAD .. PAD + cap];
                let ok = job.run(&mut s);
                (ok, s.len())
            };
            let pos = cap - remaining;
            let written = buf[PAD .. PAD + pos].to_vec();
            let tail = buf[PAD + pos .. PAD + cap].iter().all(|b| *b == FILL);
            with_oracle(show(ok, &written, pos), verdict(job, ok, &written, pos, Some(cap), canaries_ok(&buf, cap), tail))
        }
        "cursor_slice" => {
            let mut buf = padded(cap);
            let (ok, pos) = {
                let mut c = Cursor::new(&mut buf[PAD .. PAD + cap]);
                let ok = job.run(&mut c);
                (ok, c.position())
            };
            let written = buf[PAD .. PAD + pos.min(cap)].to_vec();
            let tail = buf[PAD + pos.min(cap) .. PAD + cap].iter().all(|b| *b == FILL);
            with_oracle(show(ok, &written, pos), verdict(job, ok, &written, pos, Some(cap), canaries_ok(&buf, cap), tail))
        }
        "cursor_box" => {
            let mut c = Cursor::new(vec![FILL; cap].into_boxed_slice());
            let ok = job.run(&mut c);
            let pos = c.position();
            let b = c.into_inner();
            let written = b[.. pos.min(cap)].to_vec();
            let tail = b[pos.min(cap) ..].iter().all(|x| *x == FILL);
            with_oracle(show(ok, &written, pos), verdict(job, ok, &written, pos, Some(cap), true, tail))
        }
        "cursor_array" => {
            macro_rules! arr { ($($n:literal)*) => { match cap { $( $n => with_array::<$n, J>(job), )* _ => "?cap".into() } } }
            arr!(0 1 2 3 4 5 6 7 8 9 10 11 12 13 14 15 16 17 18 19 20 21 22 23 24 25 26 27 28 29 30 31 32 33 34 35 36 37 38 39 40 48 64 128 256 300)
        }
        "vec" => {
            let mut v: Vec<u8> = Vec::new();
            let ok = job.run(&mut v);
            let n = v.len();
            with_oracle(show(ok, &v, n), verdict(job, ok, &v, n, None, true, true))
        }
        "io_vec" => {
            let mut w = Writer::new(Vec::<u8>::new());
            let ok = job.run(&mut w);
            let v = w.into_inner();
            let n = v.len();
            with_oracle(show(ok, &v, n), verdict(job, ok, &v, n, None, true, true))
        }
        "io_slice" => {
            // std's bounded writer (&mut [u8]) behind minicbor's io adapter: copies what fits, then fails
            let mut buf = padded(cap);
            let (ok, remaining) = {
                let mut w = Writer::new(&mut buf[PAD .. PAD + cap]);
                let ok = job.run(&mut w);
                (ok, w.into_inner().len())
            };
            let pos = cap - remaining;
            let written = buf[PAD .. PAD + pos].to_vec();
            let tail = buf[PAD + pos .. PAD + cap].iter().all(|b| *b == FILL);
            let full = job.expected();
            let mut v = verdict(job, ok, &written, pos, Some(cap), canaries_ok(&buf, cap), tail);
            if v.is_ok() && written.len() != cap.min(full.len()) { v = Err(format!("io writer holds {} bytes, expected min(cap, total) = {}", written.len(), cap.min(full.len()))) }
            with_oracle(show(ok, &written, pos), v)
        }
        "io_trickle" => {
            // an io::Write that accepts one byte per write() call and answers every third call with ErrorKind::Interrupted
            // (EINTR on a pipe or socket): write_all has to loop and to retry
            struct Trickle(Vec<u8>, usize);
            impl std::io::Write for Trickle {
                fn write(&mut self, b: &[u8]) -> std::io::Result<usize> {
                    self.1 += 1;
                    if self.1 % 3 == 2 { return Err(std::io::ErrorKind::Interrupted.into()) }
                    if b.is_empty() { Ok(0) } else { self.0.push(b[0]); Ok(1) }
                }
                fn flush(&mut self) -> std::io::Result<()> { Ok(()) }
            }
            let mut w = Writer::new(Trickle(Vec::new(), 0));
            let ok = job.run(&mut w);
            let v = w.into_inner().0;
            let n = v.len();
            with_oracle(show(ok, &v, n), verdict(job, ok, &v, n, None, true, true))
        }
        _ => "?kind".into()
    }
}

pub fn sink_handler(a: &[&str]) -> String {
    let cap: usize = a[1].parse().unwrap();
    let chunks: Vec<Vec<u8>> = if a[2] == "." { vec![] } else { a[2].split('|').map(unhex).collect() };
    on_sink(a[0], cap, &Raw(chunks))
}

pub fn sinke_handler(a: &[&str]) -> String {
    let cap: usize = a[1].parse().unwrap();
    crate::ops_types::sinke_dispatch(a[2], a[3], a[0], cap).unwrap_or_else(|| "?bad-type".into())
}

/// EWM <cap>: hand-written Encode impls nested two deep, each annotating errors with with_message, into a slice of <cap> bytes
/// (the encoding is 12 bytes): a sink overflow stays a WRITE error however often it is annotated
pub fn ewm_handler(a: &[&str]) -> String {
    use minicbor::encode::{self, Encode, Encoder, Write};
    struct Inner;
    impl<C> Encode<C> for Inner {
        fn encode<W: Write>(&self, e: &mut Encoder<W>, _: &mut C) -> Result<(), encode::Error<W::Error>> {
            e.bytes(&[7u8; 10]).map_err(|e| e.with_message("inner"))?.ok()
        }
    }
    struct Outer(Inner);
    impl<C> Encode<C> for Outer {
        fn encode<W: Write>(&self, e: &mut Encoder<W>, c: &mut C) -> Result<(), encode::Error<W::Error>> {
            e.array(1)?.encode_with(&self.0, c).map_err(|e| e.with_message("outer"))?.ok()
        }
    }
    let cap: usize = a[0].parse().unwrap();
    let mut buf = vec![0u8; cap];
    match minicbor::encode(Outer(Inner), &mut buf[..]) {
        Ok(()) => with_oracle("ok".into(), if cap >= 12 { Ok(()) } else { Err("an encoding of 12 bytes fitted a smaller slice".into()) }),
        Err(e) => with_oracle("err".into(), if e.is_write() { Ok(()) } else { Err("the sink overflow is not reported as a write error after two with_message annotations".into()) })
    }
}

