//! SEQ: sequences of decoder calls on one Decoder; SZ: Size::head / Size::tail; DROPS: drop accounting;
//! a counting global allocator for the allocation oracle (C02).
use crate::util::*;
use minicbor::decode::info::Size;
use minicbor::{Decode, Decoder};
use std::alloc::{GlobalAlloc, Layout, System};
use std::sync::atomic::{AtomicIsize, AtomicUsize, Ordering::SeqCst};

pub struct Counting;
pub static ALLOCATED: AtomicUsize = AtomicUsize::new(0);
pub static LARGEST: AtomicUsize = AtomicUsize::new(0);

unsafe impl GlobalAlloc for Counting {
    unsafe fn alloc(&self, l: Layout) -> *mut u8 {
        ALLOCATED.fetch_add(l.size(), SeqCst);
        LARGEST.fetch_max(l.size(), SeqCst);
        System.alloc(l)
    }
    unsafe fn dealloc(&self, p: *mut u8, l: Layout) { System.dealloc(p, l) }
    unsafe fn realloc(&self, p: *mut u8, l: Layout, n: usize) -> *mut u8 {
        if n > l.size() { ALLOCATED.fetch_add(n - l.size(), SeqCst); LARGEST.fetch_max(n, SeqCst); }
        System.realloc(p, l, n)
    }
}

/// bytes requested from the allocator while `f` ran
pub fn measure<R>(f: impl FnOnce() -> R) -> (R, usize) {
    let a = ALLOCATED.load(SeqCst);
    let r = f();
    (r, ALLOCATED.load(SeqCst) - a)
}

/// the allocation bound of C02: a type-dependent constant plus a constant multiple of the input length
pub fn alloc_bound(input_len: usize) -> usize { 1024 * 1024 + 512 * input_len }     // generous constant: a harmless fixed-size preallocation must not trip it

pub fn seq_handler(a: &[&str]) -> String {
    let inp = unhex(a[0]);
    let mut d = Decoder::new(&inp);
    let mut outs = Vec::new();
    let mut verdict = Ok(());
    for op in a.get(1).copied().unwrap_or("").split(';').filter(|o| !o.is_empty()) {
        let before = d.position();
        let (kind, arg) = op.split_once(':').unwrap_or((op, ""));
        let out = match kind {
            "a" => crate::ops_core::run_acc_on(arg, &mut d),
            "p" => { let mut pr = d.probe(); let r = crate::ops_core::run_acc_on(arg, &mut pr); let cut = r.rfind('@').unwrap_or(r.len()); format!("{}@{}", &r[.. cut], before) }
            "t" => crate::ops_types::dt_on_dispatch(arg, &mut d).unwrap_or_else(|| "?bad-type".into()),
            "dt" => crate::ops_core::run_acc_on("datatype", &mut d),
            "sp" => { d.set_position(arg.parse::<u64>().unwrap() as usize); format!("ok:()@{}", d.position()) }
            "pos" => format!("ok:{}@{}", d.position(), d.position()),
            _ => "?bad-op".into()
        };
        if kind != "sp" && d.position() > before.max(inp.len()) {
            verdict = Err(format!("op {} moved the position from {} to {} (input length {})", op, before, d.position(), inp.len()))
        }
        if kind == "p" && d.position() != before { verdict = Err(format!("probe moved the position: {}", op)) }
        outs.push(out);
    }
    with_oracle(outs.join(","), verdict)
}

pub fn sz_handler(a: &[&str]) -> String {
    match a[0] {
        "head" => match Size::head(a[1].parse::<u8>().unwrap()) { Ok(n) => format!("ok:{}", n), Err(_) => "err".into() },
        "tail" => {
            let b = unhex(a[1]);
            match Size::tail(&b) {
                Ok(Size::Head) => "ok:head".into(),
                Ok(Size::Bytes(n)) => format!("ok:bytes:{}", n),
                Ok(Size::Items(n)) => format!("ok:items:{}", n),
                Ok(Size::Indef) => "ok:indef".into(),
                Err(e) => format!("err:{}", classify(&e))
            }
        }
        _ => "?bad-SZ".into()
    }
}

// ---- drop accounting: every value decoded so far is dropped exactly once when decoding fails part-way ----
static LIVE: AtomicIsize = AtomicIsize::new(0);
static MIN_LIVE: AtomicIsize = AtomicIsize::new(0);
static CREATED: AtomicUsize = AtomicUsize::new(0);

#[derive(Debug, PartialEq, Eq, PartialOrd, Ord)]
pub struct Dc(u8);
impl<'b, C> Decode<'b, C> for Dc {
    fn decode(d: &mut Decoder<'b>, _: &mut C) -> Result<Self, minicbor::decode::Error> {
        let v = d.u8()?;
        LIVE.fetch_add(1, SeqCst); CREATED.fetch_add(1, SeqCst);
        Ok(Dc(v))
    }
}
impl Drop for Dc {
    fn drop(&mut self) { let l = LIVE.fetch_sub(1, SeqCst) - 1; MIN_LIVE.fetch_min(l, SeqCst); }
}

fn drops<T: for<'b> Decode<'b, ()>>(inp: &[u8]) -> String {
    LIVE.store(0, SeqCst); MIN_LIVE.store(0, SeqCst); CREATED.store(0, SeqCst);
    let mut d = Decoder::new(inp);
    let r: Result<T, _> = d.decode();
    let out = match &r { Ok(_) => format!("ok@{}", d.position()), Err(e) => format!("err:{}@{}", classify(e), d.position()) };
    drop(r);
    let verdict = if LIVE.load(SeqCst) != 0 { Err(format!("{} values leaked (created {})", LIVE.load(SeqCst), CREATED.load(SeqCst))) }
                  else if MIN_LIVE.load(SeqCst) < 0 { Err("a value was dropped twice".into()) } else { Ok(()) };
    with_oracle(out, verdict)
}

pub fn drops_handler(a: &[&str]) -> String {
    let inp = unhex(a[1]);
    match a[0] {
        "arr0" => drops::<[Dc; 0]>(&inp), "arr1" => drops::<[Dc; 1]>(&inp), "arr3" => drops::<[Dc; 3]>(&inp), "arr8" => drops::<[Dc; 8]>(&inp),
        "seq" => drops::<Vec<Dc>>(&inp), "opt" => drops::<Option<Dc>>(&inp), "tup3" => drops::<(Dc, Dc, Dc)>(&inp),
        "bset" => drops::<std::collections::BTreeSet<Dc>>(&inp), "range" => drops::<core::ops::Range<Dc>>(&inp),
        _ => "?bad-DROPS".into()
    }
}
