//! Shared glue: hex, a chunk-recording sink, error classification, outcome formatting.
//! The text produced here must match ocaml/util.ml exactly.
use minicbor::decode;
use std::fmt::Write as _;

pub fn unhex(s: &str) -> Vec<u8> {
    if s == "-" { return Vec::new() }
    (0 .. s.len() / 2).map(|i| u8::from_str_radix(&s[2 * i .. 2 * i + 2], 16).unwrap()).collect()
}

pub fn hex(b: &[u8]) -> String {
    let mut s = String::with_capacity(b.len() * 2);
    for x in b { write!(s, "{:02x}", x).unwrap() }
    s
}

pub fn hex_or_dash(b: &[u8]) -> String { if b.is_empty() { "-".into() } else { hex(b) } }

/// A sink that records every `write_all` call as one chunk.
#[derive(Default, Debug)]
pub struct ChunkSink(pub Vec<Vec<u8>>);

impl minicbor::encode::Write for ChunkSink {
    type Error = core::convert::Infallible;
    fn write_all(&mut self, buf: &[u8]) -> Result<(), Self::Error> {
        self.0.push(buf.to_vec());
        Ok(())
    }
}

impl ChunkSink {
    pub fn show(&self) -> String {
        self.0.iter().map(|c| hex(c)).collect::<Vec<_>>().join("|")
    }
    pub fn flat(&self) -> Vec<u8> { self.0.concat() }
}

fn cut<'a>(s: &'a str, prefix: &str) -> &'a str {
    let s = s.strip_prefix(prefix).unwrap_or(s);
    let end = [s.find(" at position "), s.find(": "), s.find(" ("), s.find(" in map")]
        .iter().flatten().copied().min().unwrap_or(s.len());
    &s[.. end]
}

/// Error class as text (never the message text).
pub fn classify(e: &decode::Error) -> String {
    let d = e.to_string();
    if e.is_end_of_input() { return "eoi".into() }
    if e.is_type_mismatch() { return format!("type:{}", cut(&d, "unexpected type ").replace(' ', "_")) }
    if e.is_tag_mismatch() { return format!("tag:{}", cut(&d, "unexpected tag ")) }
    if e.is_unknown_variant() { return format!("variant:{}", cut(&d, "unknown enum variant ")) }
    if e.is_missing_value() { return format!("missing:{}", cut(&d, "missing value at index ")) }
    if e.is_message() { return "message".into() }
    #[cfg(any(not(feature = "cfgmatrix"), feature = "alloc"))]
    if e.is_custom() { return "custom".into() }
    if d.starts_with("invalid char ") {
        let h = cut(&d, "invalid char ");
        let n = u32::from_str_radix(h.trim_start_matches("0x"), 16).unwrap_or(0);
        return format!("invalidchar:{}", n)
    }
    if d.starts_with("invalid utf-8") { return "utf8".into() }
    if let Some(i) = d.find(" overflows target type") { return format!("overflow:{}", &d[.. i]) }
    format!("other:{}", d.replace(' ', "_"))
}

pub fn show_res<T>(r: Result<T, decode::Error>, pos: usize, show: impl FnOnce(T) -> String) -> String {
    match r {
        Ok(v) => format!("ok:{}@{}", show(v), pos),
        Err(e) => format!("err:{}@{}", classify(&e), pos)
    }
}

/// Run `f` catching panics; a panic becomes the outcome "panic".
pub fn guarded(f: impl FnOnce() -> String + std::panic::UnwindSafe) -> String {
    match std::panic::catch_unwind(f) {
        Ok(s) => s,
        Err(_) => "panic".into()
    }
}

pub fn with_oracle(r: String, verdict: Result<(), String>) -> String {
    match verdict {
        Ok(()) => format!("{}\tO=ok", r),
        Err(why) => format!("{}\tO=FAIL:{}", r, why.replace(['\t', '\n'], " "))
    }
}
