//! RT / DT: the built-in Encode / Decode / CborLen impls on a registry of concrete instantiations.
//! The registry key is the type descriptor the OCaml driver parses into a `ty` term (ocaml/ops_types.ml).
use crate::canon::*;
use crate::util::*;
use minicbor::{CborLen, Decode, Decoder, Encode};
use minicbor::bytes::{ByteArray, ByteSlice, ByteVec};
use minicbor::data::{Int, Tag, Tagged};
use std::collections::*;
use std::net::*;
use core::num::*;
use core::sync::atomic::*;
use core::ops::{Bound, Range, RangeFrom, RangeInclusive, RangeTo, RangeToInclusive};
use core::time::Duration;
use std::time::SystemTime;
use core::cell::{Cell, RefCell};
use std::borrow::Cow;

/// encode; decode the produced bytes as the same type; cbor_len.  "<hex>;<decode outcome>;len=<n>"
fn rt<T>(val: &str, lossy: bool) -> String
where T: Canon + Encode<()> + CborLen<()> + for<'b> Decode<'b, ()>
{
    let v = T::parse(&mut P::new(val));
    let orig = v.show();
    let n = minicbor::len(&v);
    let bytes = match minicbor::to_vec(&v) {
        Ok(b) => b,
        Err(_) => return with_oracle(format!("refused;-;len={}", n), Ok(()))
    };
    let mut d = Decoder::new(&bytes);
    let r: Result<T, _> = d.decode();
    let mut verdict = Ok(());
    if n != bytes.len() { verdict = Err(format!("cbor_len {} but {} bytes written", n, bytes.len())) }
    match &r {
        Ok(x) => {
            if !lossy && x.show() != orig { verdict = Err(format!("round trip changed the value: {} -> {}", orig, x.show())) }
            if d.position() != bytes.len() { verdict = Err(format!("decode consumed {} of {} bytes", d.position(), bytes.len())) }
        }
        Err(e) => if !lossy { verdict = Err(format!("decoding the encoding failed: {}", classify(e))) }
    }
    // exact-size buffer suffices, one byte less does not (C07 corollary)
    let mut buf = vec![0u8; bytes.len()];
    if minicbor::encode(&v, &mut buf[..]).is_err() { verdict = Err("exact-size slice rejected".into()) }
    if !bytes.is_empty() {
        let mut small = vec![0u8; bytes.len() - 1];
        if minicbor::encode(&v, &mut small[..]).is_ok() { verdict = Err("slice one byte short accepted".into()) }
    }
    // determinism
    if minicbor::to_vec(&v).ok().as_deref() != Some(&bytes[..]) { verdict = Err("nondeterministic encoding".into()) }
    // the forwarding impls: by value (T), &mut T and Box<&T> write and count the same bytes as &T; Encoder::encode / encode_with
    // and to_vec_with / len_with agree with the plain entry points
    {
        let mut w = v;
        let nm = minicbor::len(&mut w);
        let bm = minicbor::to_vec(&mut w).ok();
        if bm.as_deref() != Some(&bytes[..]) || nm != n { verdict = Err("Encode / CborLen for &mut T disagree with &T".into()) }
        let bx = Box::new(&w);
        if minicbor::to_vec(&bx).ok().as_deref() != Some(&bytes[..]) || minicbor::len(&bx) != n { verdict = Err("Encode / CborLen for Box<T> disagree with T".into()) }
        let mut e = minicbor::Encoder::new(Vec::new());
        if e.encode_with(&w, &mut ()).is_err() || e.writer().as_slice() != &bytes[..] { verdict = Err("Encoder::encode_with disagrees with to_vec".into()) }
        if minicbor::to_vec_with(&w, &mut ()).ok().as_deref() != Some(&bytes[..]) || minicbor::len_with(&w, &mut ()) != n { verdict = Err("to_vec_with / len_with disagree with to_vec / len".into()) }
        let r2: Result<T, _> = minicbor::decode(&bytes);
        let r3: Result<T, _> = minicbor::decode_with(&bytes, &mut ());
        let sh = |r: &Result<T, minicbor::decode::Error>| match r { Ok(x) => x.show(), Err(e) => classify(e) };
        let r1s = match &r { Ok(x) => x.show(), Err(e) => classify(e) };
        if sh(&r2) != r1s || sh(&r3) != r1s { verdict = Err("minicbor::decode / decode_with disagree with Decoder::decode".into()) }
    }
    let pos = d.position();
    with_oracle(format!("{};{};len={}", hex(&bytes), show_res(r, pos, |x| x.show()), n), verdict)
}

/// encode, then decode every strict prefix of the encoding as the same type (C04: always end-of-input)
fn pfx<T>(val: &str) -> String
where T: Canon + Encode<()> + for<'b> Decode<'b, ()>
{
    let v = T::parse(&mut P::new(val));
    let bytes = match minicbor::to_vec(&v) { Ok(b) => b, Err(_) => return with_oracle("refused".into(), Ok(())) };
    let mut bad = Vec::new();
    for k in 0 .. bytes.len() {
        let mut d = Decoder::new(&bytes[.. k]);
        let r: Result<T, _> = d.decode();
        let out = show_res(r, d.position(), |x| x.show());
        if !out.starts_with("err:eoi") { bad.push(format!("{}:{}", k, out)) }
    }
    let verdict = if bad.is_empty() { Ok(()) } else { Err(format!("strict prefix not end-of-input: {}", bad[0])) };
    with_oracle(format!("n={};bad=[{}]", bytes.len(), bad.join(",")), verdict)
}

/// typed decode of arbitrary bytes at a position
fn dt<T>(inp: &[u8], pos: usize, unordered: bool) -> String
where T: Canon + Encode<()> + for<'b> Decode<'b, ()>
{
    let mut d = Decoder::new(inp);
    d.set_position(pos);
    let (r, allocated): (Result<T, _>, usize) = crate::ops_seq::measure(|| d.decode());
    let p = d.position();
    // the decoded value written back by the encoder (for the data-model oracle of C04)
    let re = r.as_ref().ok().map(|x| minicbor::to_vec(x).map(|b| hex_or_dash(&b)).unwrap_or_else(|_| "refused".into()));
    let mut out = show_res(r, p, |x| x.show());
    if let (Some(h), false) = (re, unordered) { out.push_str(";re="); out.push_str(&h) }
    let verdict = if p > pos.max(inp.len()) { Err(format!("position {} beyond input", p)) }
                  else if allocated > crate::ops_seq::alloc_bound(inp.len()) { Err(format!("{} bytes allocated for {} input bytes", allocated, inp.len())) }
                  else { Ok(()) };
    with_oracle(out, verdict)
}

/// typed decode on an existing decoder (SEQ)
fn dt_d<'b, T>(d: &mut Decoder<'b>) -> String
where T: Canon + Decode<'b, ()>
{
    let r: Result<T, _> = d.decode();
    let p = d.position();
    show_res(r, p, |x| x.show())
}

/// borrowed targets: the result must point into the input
fn dt_borrowed(name: &str, inp: &[u8], pos: usize) -> Option<String> {
    let mut d = Decoder::new(inp);
    d.set_position(pos);
    let range = inp.as_ptr_range();
    let inside = |p: *const u8, n: usize| n == 0 || (range.start <= p && unsafe { p.add(n) } <= range.end);
    let (out, ok) = match name {
        "strref" => { let r: Result<&str, _> = d.decode(); let ok = r.as_ref().map(|s| inside(s.as_ptr(), s.len())).unwrap_or(true); (show_res(r, d.position(), |x| hb(x.as_bytes())), ok) }
        "bytesref" => { let r: Result<&ByteSlice, _> = d.decode(); let ok = r.as_ref().map(|s| inside(s.as_ptr(), s.len())).unwrap_or(true); (show_res(r, d.position(), |x| hb(x)), ok) }
        "cstrref" => { let r: Result<&core::ffi::CStr, _> = d.decode(); let ok = r.as_ref().map(|s| inside(s.as_ptr() as *const u8, s.to_bytes().len())).unwrap_or(true); (show_res(r, d.position(), |x| hb(x.to_bytes())), ok) }
        "pathref" => { let r: Result<&std::path::Path, _> = d.decode(); let ok = r.as_ref().map(|s| { let b = s.to_str().unwrap().as_bytes(); inside(b.as_ptr(), b.len()) }).unwrap_or(true); (show_res(r, d.position(), |x| hb(x.to_str().unwrap().as_bytes())), ok) }
        _ => return None
    };
    Some(with_oracle(out, if ok { Ok(()) } else { Err("borrowed result does not point into the input".into()) }))
}

macro_rules! registry {
    ($( $key:literal => $t:ty $(, $lossy:ident)? );* $(;)?) => {
        pub fn rt_dispatch(key: &str, val: &str) -> Option<String> {
            match key { $( $key => Some(rt::<$t>(val, registry!(@l $($lossy)?))), )* _ => None }
        }
        pub fn pfx_dispatch(key: &str, val: &str) -> Option<String> {
            match key { $( $key => Some(pfx::<$t>(val)), )* _ => None }
        }
        pub fn sinke_dispatch(key: &str, val: &str, kind: &str, cap: usize) -> Option<String> {
            match key { $( $key => { let v = <$t as Canon>::parse(&mut P::new(val));
                                      if minicbor::to_vec(&v).is_err() { return Some("refused".into()) }
                                      Some(crate::ops_sink::on_sink(kind, cap, &crate::ops_sink::Enc(&v))) } )* _ => None }
        }
        pub fn dt_on_dispatch<'b>(key: &str, d: &mut Decoder<'b>) -> Option<String> {
            match key { $( $key => Some(dt_d::<$t>(d)), )* _ => None }
        }
        pub fn dt_dispatch(key: &str, inp: &[u8], pos: usize) -> Option<String> {
            match key { $( $key => Some(dt::<$t>(inp, pos, key.contains("set(") || key.contains("heap(") || key.contains("map("))), )* _ => dt_borrowed(key, inp, pos) }
        }
        pub const KEYS: &[&str] = &[ $( $key ),* ];
    };
    (@l lossy) => { true };
    (@l) => { false };
}

type T16 = (u8, u16, u32, u64, i8, i16, i32, i64, bool, char, String, Option<u8>, u8, u8, u8, u8);

registry! {
    "u8" => u8; "u16" => u16; "u32" => u32; "u64" => u64; "usize" => usize;
    "i8" => i8; "i16" => i16; "i32" => i32; "i64" => i64; "isize" => isize;
    "int" => Int; "bool" => bool; "char" => char; "f32" => f32; "f64" => f64;
    "nzu8" => NonZeroU8; "nzu16" => NonZeroU16; "nzu32" => NonZeroU32; "nzu64" => NonZeroU64; "nzusize" => NonZeroUsize;
    "nzi8" => NonZeroI8; "nzi16" => NonZeroI16; "nzi32" => NonZeroI32; "nzi64" => NonZeroI64; "nzisize" => NonZeroIsize;
    "abool" => AtomicBool; "au8" => AtomicU8; "au16" => AtomicU16; "au32" => AtomicU32; "au64" => AtomicU64; "ausize" => AtomicUsize;
    "ai8" => AtomicI8; "ai16" => AtomicI16; "ai32" => AtomicI32; "ai64" => AtomicI64; "aisize" => AtomicIsize;
    "string" => String; "boxstr" => Box<str>; "cowstr" => Cow<'static, str>; "pathbuf" => std::path::PathBuf; "boxpath" => Box<std::path::Path>;
    "bytevec" => ByteVec; "bytearr0" => ByteArray<0>; "bytearr4" => ByteArray<4>; "bytearr24" => ByteArray<24>;
    "cstring" => std::ffi::CString; "unit" => (); "phantom" => core::marker::PhantomData<u8>;
    "opt(u8)" => Option<u8>; "opt(string)" => Option<String>; "opt(unit)" => Option<()>; "opt(i64)" => Option<i64>;
    "opt(opt(u8))" => Option<Option<u8>>, lossy; "opt(box(opt(bool)))" => Option<Box<Option<bool>>>, lossy;
    "opt(seq(u8))" => Option<Vec<u8>>;
    "result(u8,string)" => Result<u8, String>; "result(unit,opt(i32))" => Result<(), Option<i32>>;
    "seq(u8)" => Vec<u8>; "seq(opt(u16))" => Vec<Option<u16>>; "seq(seq(i8))" => Vec<Vec<i8>>; "seq(string)" => Vec<String>;
    "deque(i32)" => VecDeque<i32>; "llist(bool)" => LinkedList<bool>; "heap(u32)" => BinaryHeap<u32>;
    "bset(i16)" => BTreeSet<i16>; "hset(u8)" => HashSet<u8>; "hset(string)" => HashSet<String>;
    "arr0(u8)" => [u8; 0]; "arr3(u16)" => [u16; 3]; "arr2(opt(u8))" => [Option<u8>; 2]; "arr2(string)" => [String; 2]; "arr25(u8)" => [u8; 25];
    "bmap(u8,string)" => BTreeMap<u8, String>; "hmap(u16,bool)" => HashMap<u16, bool>; "bmap(string,seq(u8))" => BTreeMap<String, Vec<u8>>;
    "tup(u8)" => (u8,); "tup(u8,i8)" => (u8, i8); "tup(string,opt(u8),bool)" => (String, Option<u8>, bool);
    "tup(u8,u8,u8,u8)" => (u8, u8, u8, u8); "tup(u64,i64,f32,f64,char)" => (u64, i64, f32, f64, char);
    "tup(u8,u8,u8,u8,u8,u8)" => (u8, u8, u8, u8, u8, u8); "tup(u8,u8,u8,u8,u8,u8,u8)" => (u8, u8, u8, u8, u8, u8, u8);
    "tup(u8,u8,u8,u8,u8,u8,u8,u8)" => (u8, u8, u8, u8, u8, u8, u8, u8);
    "tup(u8,u8,u8,u8,u8,u8,u8,u8,u8)" => (u8, u8, u8, u8, u8, u8, u8, u8, u8);
    "tup(u8,u8,u8,u8,u8,u8,u8,u8,u8,u8)" => (u8, u8, u8, u8, u8, u8, u8, u8, u8, u8);
    "tup(u8,u8,u8,u8,u8,u8,u8,u8,u8,u8,u8)" => (u8, u8, u8, u8, u8, u8, u8, u8, u8, u8, u8);
    "tup(u8,u8,u8,u8,u8,u8,u8,u8,u8,u8,u8,u8)" => (u8, u8, u8, u8, u8, u8, u8, u8, u8, u8, u8, u8);
    "tup(u8,u8,u8,u8,u8,u8,u8,u8,u8,u8,u8,u8,u8)" => (u8, u8, u8, u8, u8, u8, u8, u8, u8, u8, u8, u8, u8);
    "tup(u8,u8,u8,u8,u8,u8,u8,u8,u8,u8,u8,u8,u8,u8)" => (u8, u8, u8, u8, u8, u8, u8, u8, u8, u8, u8, u8, u8, u8);
    "tup(u8,u8,u8,u8,u8,u8,u8,u8,u8,u8,u8,u8,u8,u8,u8)" => (u8, u8, u8, u8, u8, u8, u8, u8, u8, u8, u8, u8, u8, u8, u8);
    "tup16" => T16;
    "range(u8)" => Range<u8>; "rangeincl(i16)" => RangeInclusive<i16>; "rangefrom(u32)" => RangeFrom<u32>;
    "rangeto(string)" => RangeTo<String>; "rangetoincl(u64)" => RangeToInclusive<u64>; "bound(i32)" => Bound<i32>; "bound(opt(u8))" => Bound<Option<u8>>;
    "duration" => Duration; "systemtime" => SystemTime;
    "ipv4" => Ipv4Addr; "ipv6" => Ipv6Addr; "ip" => IpAddr; "sockv4" => SocketAddrV4; "sockv6" => SocketAddrV6; "sock" => SocketAddr;
    "box(u32)" => Box<u32>; "wrapping(u8)" => Wrapping<u8>; "cell(u16)" => Cell<u16>; "refcell(seq(u8))" => RefCell<Vec<u8>>;
    "tag" => Tag; "tagged7(u8)" => Tagged<7, u8>; "tagged100000(string)" => Tagged<100000, String>; "tagged24(opt(u8))" => Tagged<24, Option<u8>>;
    "seq(tup(u8,string))" => Vec<(u8, String)>; "bmap(u8,opt(seq(bound(i32))))" => BTreeMap<u8, Option<Vec<Bound<i32>>>>;
    "seq(result(u8,string))" => Vec<Result<u8, String>>; "tup(range(u8),duration)" => (Range<u8>, Duration);
}

pub fn rt_handler(a: &[&str]) -> String {
    rt_dispatch(a[0], a[1]).unwrap_or_else(|| "?bad-type".into())
}

pub fn pfx_handler(a: &[&str]) -> String {
    pfx_dispatch(a[0], a[1]).unwrap_or_else(|| "?bad-type".into())
}


/// AIT <elem> <hex> [pos]: Decoder::array_iter::<T>() (the context-free iterator; the built-in Vec impl goes through
/// array_iter_with) collected until the first error — printed exactly as `DT seq(<elem>)`; O=: it agrees with Vec::<T>::decode.
fn ait<T>(inp: &[u8], pos: usize) -> String
where T: Canon + Encode<()> + for<'b> Decode<'b, ()>
{
    let mut d = Decoder::new(inp);
    d.set_position(pos);
    let r: Result<Vec<T>, minicbor::decode::Error> = match d.array_iter::<T>() { Ok(it) => it.collect(), Err(e) => Err(e) };
    let p = d.position();
    let mut d2 = Decoder::new(inp);
    d2.set_position(pos);
    let r2: Result<Vec<T>, _> = d2.decode();
    let same = match (&r, &r2) { (Ok(a), Ok(b)) => a.show() == b.show(), (Err(a), Err(b)) => classify(a) == classify(b), _ => false } && p == d2.position();
    let re = r.as_ref().ok().map(|x| minicbor::to_vec(x).map(|b| hex_or_dash(&b)).unwrap_or_else(|_| "refused".into()));
    let mut out = show_res(r, p, |x| x.show());
    if let Some(h) = re { out.push_str(";re="); out.push_str(&h) }
    with_oracle(out, if same { Ok(()) } else { Err("array_iter and the Vec impl (array_iter_with) disagree".into()) })
}

/// MIT <key> <value> <hex> [pos]: Decoder::map_iter::<K, V>() collected into a BTreeMap — printed as `DT bmap(<key>,<value>)`.
fn mit<K, V>(inp: &[u8], pos: usize) -> String
where K: Canon + Ord + Encode<()> + for<'b> Decode<'b, ()>, V: Canon + Encode<()> + for<'b> Decode<'b, ()>
{
    let mut d = Decoder::new(inp);
    d.set_position(pos);
    let r: Result<BTreeMap<K, V>, minicbor::decode::Error> = match d.map_iter::<K, V>() { Ok(it) => it.collect(), Err(e) => Err(e) };
    let p = d.position();
    let mut d2 = Decoder::new(inp);
    d2.set_position(pos);
    let r2: Result<BTreeMap<K, V>, _> = d2.decode();
    let same = match (&r, &r2) { (Ok(a), Ok(b)) => a.show() == b.show(), (Err(a), Err(b)) => classify(a) == classify(b), _ => false } && p == d2.position();
    with_oracle(show_res(r, p, |x| x.show()), if same { Ok(()) } else { Err("map_iter and the BTreeMap impl (map_iter_with) disagree".into()) })
}

pub fn ait_handler(a: &[&str]) -> String {
    let inp = unhex(a[1]);
    let pos: usize = a.get(2).map(|p| p.parse().unwrap()).unwrap_or(0);
    match a[0] {
        "u8" => ait::<u8>(&inp, pos), "opt(u16)" => ait::<Option<u16>>(&inp, pos), "seq(i8)" => ait::<Vec<i8>>(&inp, pos),
        "string" => ait::<String>(&inp, pos), "tup(u8,string)" => ait::<(u8, String)>(&inp, pos), "result(u8,string)" => ait::<Result<u8, String>>(&inp, pos),
        _ => "?bad-type".into()
    }
}
pub fn mit_handler(a: &[&str]) -> String {
    let inp = unhex(a[2]);
    let pos: usize = a.get(3).map(|p| p.parse().unwrap()).unwrap_or(0);
    match (a[0], a[1]) {
        ("u8", "string") => mit::<u8, String>(&inp, pos), ("string", "seq(u8)") => mit::<String, Vec<u8>>(&inp, pos),
        _ => "?bad-type".into()
    }
}

/// RCB <value>: a RefCell<Vec<u8>> that is shared-borrowed while it is encoded (a perfectly readable value): same bytes and length
pub fn rcb_handler(a: &[&str]) -> String {
    let cell: std::cell::RefCell<Vec<u8>> = Canon::parse(&mut P::new(a[0]));
    let guard = cell.borrow();
    let plain = minicbor::to_vec(&*guard).unwrap();
    let mut verdict = Ok(());
    let shared = minicbor::to_vec(&cell);
    if shared.as_ref().ok() != Some(&plain) { verdict = Err("a RefCell with an outstanding shared borrow is refused or encoded differently".into()) }
    if minicbor::len(&cell) != plain.len() { verdict = Err("cbor_len of a shared-borrowed RefCell differs".into()) }
    drop(guard);
    with_oracle(shared.map(|b| hex_or_dash(&b)).unwrap_or_else(|_| "refused".into()), verdict)
}

/// PNU <hex>: a PathBuf / &Path / Box<Path> built from raw OS-string bytes (possibly not UTF-8): refused, or the text string
pub fn pnu_handler(a: &[&str]) -> String {
    use std::os::unix::ffi::OsStrExt;
    let raw = unhex(a[0]);
    let pb = std::path::PathBuf::from(std::ffi::OsStr::from_bytes(&raw));
    let r = minicbor::to_vec(&pb);
    let mut verdict = Ok(());
    let valid = std::str::from_utf8(&raw).is_ok();
    if valid != r.is_ok() { verdict = Err(if valid { "a UTF-8 path is refused".to_string() } else { "a path that is not UTF-8 is encoded (lossily) instead of refused".to_string() }) }
    let r2 = minicbor::to_vec(pb.as_path());
    let r3 = minicbor::to_vec(pb.clone().into_boxed_path());
    if r.is_ok() != r2.is_ok() || r.is_ok() != r3.is_ok() || (r.is_ok() && (r.as_ref().ok() != r2.as_ref().ok() || r.as_ref().ok() != r3.as_ref().ok())) { verdict = Err("PathBuf, &Path and Box<Path> disagree".into()) }
    if let Ok(b) = &r { if minicbor::decode::<std::path::PathBuf>(b).ok().as_ref() != Some(&pb) { verdict = Err("the path does not round-trip".into()) } }
    with_oracle(r.map(|b| hex_or_dash(&b)).unwrap_or_else(|_| "refused".into()), verdict)
}

pub fn dt_handler(a: &[&str]) -> String {
    let inp = unhex(a[1]);
    let pos: usize = a.iter().skip(2).find(|t| !t.starts_with('=')).map(|p| p.parse().unwrap()).unwrap_or(0);
    dt_dispatch(a[0], &inp, pos).unwrap_or_else(|| "?bad-type".into())
}
