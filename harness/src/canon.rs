//! Canonical value text shared with the OCaml driver (ocaml/ops_types.ml): type-directed parsing and
//! printing of Rust values.  Grammar (no spaces): 123 | -5 | true | f<bits> | h<hex> | h- | () | null |
//! some(v) | [v,v,..] | v<i>(v).  Unordered collections print their elements sorted by text.
use std::collections::*;

pub struct P<'a> { pub s: &'a [u8], pub i: usize }

impl<'a> P<'a> {
    pub fn new(s: &'a str) -> Self { P { s: s.as_bytes(), i: 0 } }
    pub fn peek(&self) -> u8 { *self.s.get(self.i).unwrap_or(&0) }
    pub fn eat(&mut self, c: u8) { assert_eq!(self.peek(), c, "expected {:?} at {}", c as char, self.i); self.i += 1 }
    pub fn lit(&mut self, l: &str) -> bool {
        if self.s[self.i ..].starts_with(l.as_bytes()) { self.i += l.len(); true } else { false }
    }
    pub fn num(&mut self) -> i128 {
        let st = self.i;
        if self.peek() == b'-' { self.i += 1 }
        while self.peek().is_ascii_digit() { self.i += 1 }
        std::str::from_utf8(&self.s[st .. self.i]).unwrap().parse().unwrap()
    }
    pub fn hexbytes(&mut self) -> Vec<u8> {
        self.eat(b'h');
        if self.peek() == b'-' { self.i += 1; return Vec::new() }
        let st = self.i;
        while self.peek().is_ascii_hexdigit() { self.i += 1 }
        crate::util::unhex(std::str::from_utf8(&self.s[st .. self.i]).unwrap())
    }
    pub fn list<T>(&mut self, mut f: impl FnMut(&mut Self) -> T) -> Vec<T> {
        self.eat(b'[');
        let mut v = Vec::new();
        if self.peek() == b']' { self.i += 1; return v }
        loop {
            v.push(f(self));
            if self.peek() == b',' { self.i += 1 } else { self.eat(b']'); return v }
        }
    }
}

pub fn hb(b: &[u8]) -> String { format!("h{}", crate::util::hex_or_dash(b)) }
pub fn show_list(mut v: Vec<String>, sort: bool) -> String {
    if sort { v.sort(); }
    format!("[{}]", v.join(","))
}

pub trait Canon: Sized {
    fn parse(p: &mut P) -> Self;
    fn show(&self) -> String;
}

macro_rules! canon_int { ($($t:ty)*) => { $(
    impl Canon for $t {
        fn parse(p: &mut P) -> Self { p.num() as $t }
        fn show(&self) -> String { self.to_string() }
    }
)* } }
canon_int!(u8 u16 u32 u64 usize i8 i16 i32 i64 isize);

macro_rules! canon_nz { ($($t:ty, $b:ty);*) => { $(
    impl Canon for $t {
        fn parse(p: &mut P) -> Self { <$t>::new(p.num() as $b).unwrap() }
        fn show(&self) -> String { self.get().to_string() }
    }
)* } }
canon_nz!(core::num::NonZeroU8, u8; core::num::NonZeroU16, u16; core::num::NonZeroU32, u32; core::num::NonZeroU64, u64;
          core::num::NonZeroUsize, usize; core::num::NonZeroI8, i8; core::num::NonZeroI16, i16; core::num::NonZeroI32, i32;
          core::num::NonZeroI64, i64; core::num::NonZeroIsize, isize);

macro_rules! canon_atomic { ($($t:ty, $b:ty);*) => { $(
    impl Canon for $t {
        fn parse(p: &mut P) -> Self { <$t>::new(<$b as Canon>::parse(p)) }
        fn show(&self) -> String { self.load(core::sync::atomic::Ordering::SeqCst).show() }
    }
)* } }
use core::sync::atomic::*;
canon_atomic!(AtomicBool, bool; AtomicU8, u8; AtomicU16, u16; AtomicU32, u32; AtomicU64, u64; AtomicUsize, usize;
              AtomicI8, i8; AtomicI16, i16; AtomicI32, i32; AtomicI64, i64; AtomicIsize, isize);

impl Canon for minicbor::data::Int {
    fn parse(p: &mut P) -> Self { minicbor::data::Int::try_from(p.num()).unwrap() }
    fn show(&self) -> String { i128::from(*self).to_string() }
}
impl Canon for bool {
    fn parse(p: &mut P) -> Self { if p.lit("true") { true } else { assert!(p.lit("false")); false } }
    fn show(&self) -> String { self.to_string() }
}
impl Canon for char {
    fn parse(p: &mut P) -> Self { char::from_u32(p.num() as u32).unwrap() }
    fn show(&self) -> String { u32::from(*self).to_string() }
}
impl Canon for f32 {
    fn parse(p: &mut P) -> Self { p.eat(b'f'); f32::from_bits(p.num() as u32) }
    fn show(&self) -> String { format!("f{}", self.to_bits()) }
}
impl Canon for f64 {
    fn parse(p: &mut P) -> Self { p.eat(b'f'); f64::from_bits(p.num() as u64) }
    fn show(&self) -> String { format!("f{}", self.to_bits()) }
}
impl Canon for String {
    fn parse(p: &mut P) -> Self { String::from_utf8(p.hexbytes()).unwrap() }
    fn show(&self) -> String { hb(self.as_bytes()) }
}
impl Canon for Box<str> {
    fn parse(p: &mut P) -> Self { String::parse(p).into_boxed_str() }
    fn show(&self) -> String { hb(self.as_bytes()) }
}
impl Canon for std::path::PathBuf {
    fn parse(p: &mut P) -> Self { String::parse(p).into() }
    fn show(&self) -> String { hb(self.to_str().unwrap().as_bytes()) }
}
impl Canon for Box<std::path::Path> {
    fn parse(p: &mut P) -> Self { std::path::PathBuf::parse(p).into_boxed_path() }
    fn show(&self) -> String { hb(self.to_str().unwrap().as_bytes()) }
}
impl Canon for std::borrow::Cow<'_, str> {
    fn parse(p: &mut P) -> Self { std::borrow::Cow::Owned(String::parse(p)) }
    fn show(&self) -> String { hb(self.as_bytes()) }
}
#[cfg(any(not(feature = "cfgmatrix"), feature = "alloc"))]
impl Canon for minicbor::bytes::ByteVec {
    fn parse(p: &mut P) -> Self { p.hexbytes().into() }
    fn show(&self) -> String { hb(self) }
}
impl<const N: usize> Canon for minicbor::bytes::ByteArray<N> {
    fn parse(p: &mut P) -> Self { let v = p.hexbytes(); let a: [u8; N] = v.try_into().unwrap(); a.into() }
    fn show(&self) -> String { hb(&self[..]) }
}
impl Canon for std::ffi::CString {
    fn parse(p: &mut P) -> Self { std::ffi::CString::new(p.hexbytes()).unwrap() }
    fn show(&self) -> String { hb(self.as_bytes()) }
}
impl Canon for () {
    fn parse(p: &mut P) -> Self { assert!(p.lit("()")) }
    fn show(&self) -> String { "()".into() }
}
impl<T> Canon for core::marker::PhantomData<T> {
    fn parse(p: &mut P) -> Self { assert!(p.lit("()")); core::marker::PhantomData }
    fn show(&self) -> String { "()".into() }
}
impl<T: Canon> Canon for Option<T> {
    fn parse(p: &mut P) -> Self {
        if p.lit("null") { None } else { assert!(p.lit("some(")); let v = T::parse(p); p.eat(b')'); Some(v) }
    }
    fn show(&self) -> String { match self { None => "null".into(), Some(v) => format!("some({})", v.show()) } }
}
impl<T: Canon, E: Canon> Canon for Result<T, E> {
    fn parse(p: &mut P) -> Self {
        p.eat(b'v'); let i = p.num(); p.eat(b'(');
        let r = if i == 0 { Ok(T::parse(p)) } else { Err(E::parse(p)) };
        p.eat(b')'); r
    }
    fn show(&self) -> String { match self { Ok(v) => format!("v0({})", v.show()), Err(e) => format!("v1({})", e.show()) } }
}

macro_rules! canon_seq { ($t:ident, $sort:expr $(, $b:path)*) => {
    impl<T: Canon $(+ $b)*> Canon for $t<T> {
        fn parse(p: &mut P) -> Self { p.list(|p| T::parse(p)).into_iter().collect() }
        fn show(&self) -> String { show_list(self.iter().map(|x| x.show()).collect(), $sort) }
    }
} }
canon_seq!(Vec, false);
// VecDeque: equal values have different ring-buffer layouts; build a *wrapped* one (as_slices().1 non-empty) for most
// lengths so that impls which look at the storage (as_slices, make_contiguous) are exercised on both layouts.
impl<T: Canon> Canon for VecDeque<T> {
    fn parse(p: &mut P) -> Self {
        let mut v = p.list(|p| T::parse(p));
        let n = v.len();
        if n < 2 || n % 3 == 0 { return v.into_iter().collect() }
        let back = v.split_off(n / 2);
        let mut d = VecDeque::with_capacity(n + 1);
        for x in back { d.push_back(x) }
        for x in v.into_iter().rev() { d.push_front(x) }
        d
    }
    fn show(&self) -> String { show_list(self.iter().map(|x| x.show()).collect(), false) }
}
canon_seq!(LinkedList, false);
canon_seq!(BinaryHeap, true, Ord);
canon_seq!(BTreeSet, true, Ord);
canon_seq!(HashSet, true, Eq, std::hash::Hash);

impl<T: Canon, const N: usize> Canon for [T; N] {
    fn parse(p: &mut P) -> Self { let v = p.list(|p| T::parse(p)); v.try_into().ok().unwrap() }
    fn show(&self) -> String { show_list(self.iter().map(|x| x.show()).collect(), false) }
}

fn show_map<'a, K: Canon + 'a, V: Canon + 'a>(it: impl Iterator<Item = (&'a K, &'a V)>) -> String {
    // pairs sorted by key text, then flattened: [k,v,k,v]
    let mut ps: Vec<(String, String)> = it.map(|(k, v)| (k.show(), v.show())).collect();
    ps.sort();
    format!("[{}]", ps.into_iter().map(|(k, v)| format!("{},{}", k, v)).collect::<Vec<_>>().join(","))
}
fn parse_pairs<K: Canon, V: Canon>(p: &mut P) -> Vec<(K, V)> {
    p.eat(b'[');
    let mut v = Vec::new();
    if p.peek() == b']' { p.i += 1; return v }
    loop {
        let k = K::parse(p); p.eat(b','); let x = V::parse(p);
        v.push((k, x));
        if p.peek() == b',' { p.i += 1 } else { p.eat(b']'); return v }
    }
}
impl<K: Canon + Ord, V: Canon> Canon for BTreeMap<K, V> {
    fn parse(p: &mut P) -> Self { parse_pairs(p).into_iter().collect() }
    fn show(&self) -> String { show_map(self.iter()) }
}
impl<K: Canon + Eq + std::hash::Hash, V: Canon> Canon for HashMap<K, V> {
    fn parse(p: &mut P) -> Self { parse_pairs(p).into_iter().collect() }
    fn show(&self) -> String { show_map(self.iter()) }
}

macro_rules! canon_tuple { ($($T:ident $i:tt),+) => {
    impl<$($T: Canon),+> Canon for ($($T,)+) {
        fn parse(p: &mut P) -> Self {
            p.eat(b'[');
            let r = ($({ if $i > 0 { p.eat(b','); } $T::parse(p) },)+);
            p.eat(b']'); r
        }
        fn show(&self) -> String { show_list(vec![$(self.$i.show()),+], false) }
    }
} }
canon_tuple!(A 0);
canon_tuple!(A 0, B 1);
canon_tuple!(A 0, B 1, C 2);
canon_tuple!(A 0, B 1, C 2, D 3);
canon_tuple!(A 0, B 1, C 2, D 3, E 4);
canon_tuple!(A 0, B 1, C 2, D 3, E 4, F 5);
canon_tuple!(A 0, B 1, C 2, D 3, E 4, F 5, G 6);
canon_tuple!(A 0, B 1, C 2, D 3, E 4, F 5, G 6, H 7);
canon_tuple!(A 0, B 1, C 2, D 3, E 4, F 5, G 6, H 7, I 8);
canon_tuple!(A 0, B 1, C 2, D 3, E 4, F 5, G 6, H 7, I 8, J 9);
canon_tuple!(A 0, B 1, C 2, D 3, E 4, F 5, G 6, H 7, I 8, J 9, K 10);
canon_tuple!(A 0, B 1, C 2, D 3, E 4, F 5, G 6, H 7, I 8, J 9, K 10, L 11);
canon_tuple!(A 0, B 1, C 2, D 3, E 4, F 5, G 6, H 7, I 8, J 9, K 10, L 11, M 12);
canon_tuple!(A 0, B 1, C 2, D 3, E 4, F 5, G 6, H 7, I 8, J 9, K 10, L 11, M 12, N 13);
canon_tuple!(A 0, B 1, C 2, D 3, E 4, F 5, G 6, H 7, I 8, J 9, K 10, L 11, M 12, N 13, O 14);
canon_tuple!(A 0, B 1, C 2, D 3, E 4, F 5, G 6, H 7, I 8, J 9, K 10, L 11, M 12, N 13, O 14, Q 15);

use core::ops::*;
impl<T: Canon> Canon for Range<T> {
    fn parse(p: &mut P) -> Self { let (a, b) = <(T, T)>::parse(p); a .. b }
    fn show(&self) -> String { show_list(vec![self.start.show(), self.end.show()], false) }
}
impl<T: Canon> Canon for RangeInclusive<T> {
    fn parse(p: &mut P) -> Self { let (a, b) = <(T, T)>::parse(p); a ..= b }
    fn show(&self) -> String { show_list(vec![self.start().show(), self.end().show()], false) }
}
impl<T: Canon> Canon for RangeFrom<T> {
    fn parse(p: &mut P) -> Self { let (a,) = <(T,)>::parse(p); a .. }
    fn show(&self) -> String { show_list(vec![self.start.show()], false) }
}
impl<T: Canon> Canon for RangeTo<T> {
    fn parse(p: &mut P) -> Self { let (a,) = <(T,)>::parse(p); .. a }
    fn show(&self) -> String { show_list(vec![self.end.show()], false) }
}
impl<T: Canon> Canon for RangeToInclusive<T> {
    fn parse(p: &mut P) -> Self { let (a,) = <(T,)>::parse(p); ..= a }
    fn show(&self) -> String { show_list(vec![self.end.show()], false) }
}
impl<T: Canon> Canon for Bound<T> {
    fn parse(p: &mut P) -> Self {
        p.eat(b'v'); let i = p.num(); p.eat(b'(');
        let r = match i { 0 => Bound::Included(T::parse(p)), 1 => Bound::Excluded(T::parse(p)), _ => { assert!(p.lit("()")); Bound::Unbounded } };
        p.eat(b')'); r
    }
    fn show(&self) -> String {
        match self { Bound::Included(v) => format!("v0({})", v.show()), Bound::Excluded(v) => format!("v1({})", v.show()), Bound::Unbounded => "v2(())".into() }
    }
}
impl Canon for core::time::Duration {
    fn parse(p: &mut P) -> Self { let (s, n) = <(u64, u32)>::parse(p); core::time::Duration::new(s, n) }
    fn show(&self) -> String { format!("[{},{}]", self.as_secs(), self.subsec_nanos()) }
}
impl Canon for std::time::SystemTime {
    fn parse(p: &mut P) -> Self {
        p.eat(b'v'); let i = p.num(); p.eat(b'('); let d = core::time::Duration::parse(p); p.eat(b')');
        if i == 0 { std::time::UNIX_EPOCH + d } else { std::time::UNIX_EPOCH - d }
    }
    fn show(&self) -> String {
        match self.duration_since(std::time::UNIX_EPOCH) {
            Ok(d) => format!("v0({})", d.show()),
            Err(e) => format!("v1({})", e.duration().show())
        }
    }
}
use std::net::*;
impl Canon for Ipv4Addr {
    fn parse(p: &mut P) -> Self { let v = p.hexbytes(); let a: [u8; 4] = v.try_into().unwrap(); a.into() }
    fn show(&self) -> String { hb(&self.octets()) }
}
impl Canon for Ipv6Addr {
    fn parse(p: &mut P) -> Self { let v = p.hexbytes(); let a: [u8; 16] = v.try_into().unwrap(); a.into() }
    fn show(&self) -> String { hb(&self.octets()) }
}
impl Canon for IpAddr {
    fn parse(p: &mut P) -> Self {
        p.eat(b'v'); let i = p.num(); p.eat(b'(');
        let r = if i == 0 { IpAddr::V4(Ipv4Addr::parse(p)) } else { IpAddr::V6(Ipv6Addr::parse(p)) };
        p.eat(b')'); r
    }
    fn show(&self) -> String { match self { IpAddr::V4(a) => format!("v0({})", a.show()), IpAddr::V6(a) => format!("v1({})", a.show()) } }
}
impl Canon for SocketAddrV4 {
    fn parse(p: &mut P) -> Self { let (a, b) = <(Ipv4Addr, u16)>::parse(p); SocketAddrV4::new(a, b) }
    fn show(&self) -> String { format!("[{},{}]", self.ip().show(), self.port()) }
}
impl Canon for SocketAddrV6 {
    // flow-info and scope-id are not part of the encoding (documented lossy); fixed to 0 here
    fn parse(p: &mut P) -> Self { let (a, b) = <(Ipv6Addr, u16)>::parse(p); SocketAddrV6::new(a, b, 0, 0) }
    fn show(&self) -> String { format!("[{},{}]", self.ip().show(), self.port()) }
}
impl Canon for SocketAddr {
    fn parse(p: &mut P) -> Self {
        p.eat(b'v'); let i = p.num(); p.eat(b'(');
        let r = if i == 0 { SocketAddr::V4(SocketAddrV4::parse(p)) } else { SocketAddr::V6(SocketAddrV6::parse(p)) };
        p.eat(b')'); r
    }
    fn show(&self) -> String { match self { SocketAddr::V4(a) => format!("v0({})", a.show()), SocketAddr::V6(a) => format!("v1({})", a.show()) } }
}
impl<T: Canon> Canon for Box<T> {
    fn parse(p: &mut P) -> Self { Box::new(T::parse(p)) }
    fn show(&self) -> String { (**self).show() }
}
impl<T: Canon> Canon for core::num::Wrapping<T> {
    fn parse(p: &mut P) -> Self { core::num::Wrapping(T::parse(p)) }
    fn show(&self) -> String { self.0.show() }
}
impl<T: Canon + Copy> Canon for core::cell::Cell<T> {
    fn parse(p: &mut P) -> Self { core::cell::Cell::new(T::parse(p)) }
    fn show(&self) -> String { self.get().show() }
}
impl<T: Canon> Canon for core::cell::RefCell<T> {
    fn parse(p: &mut P) -> Self { core::cell::RefCell::new(T::parse(p)) }
    fn show(&self) -> String { self.borrow().show() }
}
impl Canon for minicbor::data::Tag {
    fn parse(p: &mut P) -> Self { minicbor::data::Tag::new(p.num() as u64) }
    fn show(&self) -> String { self.as_u64().to_string() }
}
impl<const N: u64, T: Canon> Canon for minicbor::data::Tagged<N, T> {
    fn parse(p: &mut P) -> Self { minicbor::data::Tagged::new(T::parse(p)) }
    fn show(&self) -> String { self.value().show() }
}
