//! C12 ops: F16D, F16E, FRT32, FRT64, F16EBLK (see ocaml/ops_float.ml for the result syntax).
//! The oracles (O=) are evaluated on the implementation's behaviour alone, against reference arithmetic
//! written here from the IEEE 754 field layout with exact f64 products (an integer < 2^53 times a power of two);
//! they use neither the `half` crate nor `f64::from(f32)`.
use crate::util::*;
use minicbor::{Decoder, Encoder};
use minicbor::decode;

fn showf32(v: f32) -> String { format!("f{}", v.to_bits()) }
fn showf64(v: f64) -> String { format!("f{}", v.to_bits()) }
/// an f64 obtained by widening: NaN payload is platform-defined, print the class only
fn showf64c(v: f64) -> String { if v.is_nan() { "nan".into() } else { showf64(v) } }

/// wrong-width accessors: class only
fn show_res_nopos<T>(r: Result<T, decode::Error>, pos: usize, show: impl FnOnce(T) -> String) -> String {
    match r {
        Ok(v) => format!("ok:{}@{}", show(v), pos),
        Err(e) => format!("err:{}", classify(&e))
    }
}

/// 2^k as an f64, exact for -1022 <= k <= 1023
fn p2(k: i32) -> f64 { assert!((-1022 ..= 1023).contains(&k)); f64::from_bits(((1023 + k) as u64) << 52) }

/// the real (or infinity) a binary16 pattern denotes, as f64; None for NaN
fn ref16(h: u16) -> Option<f64> {
    let (s, e, m) = (h >> 15, ((h >> 10) & 31) as i32, (h & 1023) as u32);
    let mag = if e == 31 { if m != 0 { return None } else { f64::INFINITY } }
              else if e == 0 { m as f64 * p2(-24) }
              else { (1024 + m) as f64 * p2(e - 25) };
    Some(if s == 1 { -mag } else { mag })
}

/// the real (or infinity) a binary32 pattern denotes, as f64; None for NaN
fn ref32(x: u32) -> Option<f64> {
    let (s, e, m) = (x >> 31, ((x >> 23) & 255) as i32, x & 0x7f_ffff);
    let mag = if e == 255 { if m != 0 { return None } else { f64::INFINITY } }
              else if e == 0 { m as f64 * p2(-149) }
              else { (0x80_0000 + m) as f64 * p2(e - 150) };
    Some(if s == 1 { -mag } else { mag })
}

fn same(a: f64, b: f64) -> bool { a == b && a.is_sign_negative() == b.is_sign_negative() }

fn enc_chunks(f: impl FnOnce(&mut Encoder<ChunkSink>) -> bool) -> Option<ChunkSink> {
    let mut e = Encoder::new(ChunkSink::default());
    if f(&mut e) { Some(e.into_writer()) } else { None }
}

/// Encoder::f16 on the f32 with the given bits: (printed chunks, flat bytes)
fn enc_f16(x: u32) -> (String, Vec<u8>) {
    match enc_chunks(|e| e.f16(f32::from_bits(x)).is_ok()) {
        Some(s) => (s.show(), s.flat()),
        None => ("err".into(), Vec::new())
    }
}

/// magnitude the pattern k (sign cleared) stands for on the extended grid: 0x7c00 is the next power of two
fn grid(k: u16) -> f64 { if k >= 0x7c00 { 65536.0 } else { ref16(k).unwrap() } }

/// is h a correct roundTiesToEven conversion of the binary32 pattern x?
fn check_rne(x: u32, out: &[u8]) -> Result<(), String> {
    if out.len() != 3 || out[0] != 0xf9 { return Err(format!("Encoder::f16({:#x}) wrote {}", x, hex(out))) }
    let h = u16::from_be_bytes([out[1], out[2]]);
    let is_nan16 = (h & 0x7c00) == 0x7c00 && (h & 0x3ff) != 0;
    let a = match ref32(x) {
        None => return if is_nan16 { Ok(()) } else { Err(format!("NaN {:#x} encoded as non-NaN {:#06x}", x, h)) },
        Some(v) => v
    };
    if is_nan16 { return Err(format!("non-NaN {:#x} encoded as NaN {:#06x}", x, h)) }
    if (h >> 15 == 1) != a.is_sign_negative() { return Err(format!("sign changed: {:#x} -> {:#06x}", x, h)) }
    let (a, k) = (a.abs(), h & 0x7fff);
    if a >= 65520.0 { return if k == 0x7c00 { Ok(()) } else { Err(format!("|{:#x}| >= 65520 but result {:#06x} is not infinity", x, h)) } }
    if a.is_infinite() { return if k == 0x7c00 { Ok(()) } else { Err(format!("infinity {:#x} -> {:#06x}", x, h)) } }
    if k > 0x7c00 { return Err("unreachable".into()) }
    let d = (a - grid(k)).abs();
    if d == 0.0 { return Ok(()) }                       // exact
    for n in [k.wrapping_sub(1), k + 1] {
        if n > 0x7c00 { continue }                      // k = 0 has no lower neighbour (wraps to 0xffff); nothing above the extended grid
        let dn = (a - grid(n)).abs();
        if dn < d { return Err(format!("{:#x} -> {:#06x} but {:#06x} is nearer", x, h, n)) }
        if dn == d && k & 1 == 1 { return Err(format!("{:#x} is a tie between {:#06x} and {:#06x}; the odd one was chosen", x, h, n)) }
    }
    Ok(())
}

pub fn f16d_handler(a: &[&str]) -> String {
    let h: u16 = a[0].parse().unwrap();
    let inp = [0xf9, (h >> 8) as u8, h as u8];
    let run16 = |inp: &[u8]| { let mut d = Decoder::new(inp); let r = d.f16(); (r, d.position()) };
    let run32 = |inp: &[u8]| { let mut d = Decoder::new(inp); let r = d.f32(); (r, d.position()) };
    let run64 = |inp: &[u8]| { let mut d = Decoder::new(inp); let r = d.f64(); (r, d.position()) };
    let (r16, p16) = run16(&inp);
    let (r32, p32) = run32(&inp);
    let (r64, p64) = run64(&inp);
    let y16 = r16.as_ref().ok().copied();
    let y32 = r32.as_ref().ok().copied();
    let y64 = r64.as_ref().ok().copied();
    let (re_txt, re_bytes) = match y16 { Some(y) => enc_f16(y.to_bits()), None => ("none".into(), Vec::new()) };
    let r = format!("f16={};f32={};f64={};re={}", show_res(r16, p16, showf32), show_res(r32, p32, showf32), show_res(r64, p64, showf64c), re_txt);
    let verdict = (|| {
        let (y16, y32, y64) = match (y16, y32, y64) { (Some(a), Some(b), Some(c)) => (a, b, c), _ => return Err("an accessor refused a half-precision item".to_string()) };
        if (p16, p32, p64) != (3, 3, 3) { return Err("not exactly three bytes consumed".into()) }
        match ref16(h) {
            None => {
                if !(y16.is_nan() && y32.is_nan() && y64.is_nan()) { return Err(format!("NaN {:#06x} decoded as a number", h)) }
                if re_bytes.len() != 3 || (re_bytes[1] & 0x7c) != 0x7c || ((re_bytes[1] & 3) == 0 && re_bytes[2] == 0) { return Err(format!("NaN {:#06x} re-encoded as {}", h, hex(&re_bytes))) }
            }
            Some(v) => {
                // y16 as f64 is exact (hardware widening); compared against the reference value, not against half
                if !same(y16 as f64, v) { return Err(format!("f16 accessor: {:#06x} denotes {:e}, got {:e}", h, v, y16)) }
                if !same(y32 as f64, v) { return Err(format!("f32 accessor: {:#06x} denotes {:e}, got {:e}", h, v, y32)) }
                if !same(y64, v) { return Err(format!("f64 accessor: {:#06x} denotes {:e}, got {:e}", h, v, y64)) }
                if re_bytes != inp { return Err(format!("{:#06x} decodes to {:e} which re-encodes as {}", h, y16, hex(&re_bytes))) }
            }
        }
        Ok(())
    })();
    with_oracle(r, verdict)
}

pub fn f16e_handler(a: &[&str]) -> String {
    let x: u32 = a[0].parse().unwrap();
    let (txt, bytes) = enc_f16(x);
    with_oracle(txt, check_rne(x, &bytes))
}

fn rest_of(a: &[&str]) -> Vec<u8> { a.get(1).map(|s| unhex(s)).unwrap_or_default() }

pub fn frt32_handler(a: &[&str]) -> String {
    let x: u32 = a[0].parse().unwrap();
    let rest = rest_of(a);
    let sink = enc_chunks(|e| e.f32(f32::from_bits(x)).is_ok()).unwrap();
    let mut inp = sink.flat();
    let n = inp.len();
    inp.extend_from_slice(&rest);
    let mut d = Decoder::new(&inp); let r32 = d.f32(); let p32 = d.position();
    let mut d = Decoder::new(&inp); let r64 = d.f64(); let p64 = d.position();
    let mut d = Decoder::new(&inp); let r16 = d.f16(); let p16 = d.position();
    let verdict = (|| {
        match &r32 { Ok(v) if v.to_bits() == x && p32 == n && n == 5 => (), _ => return Err(format!("f32 {:#x} did not survive (position {})", x, p32)) }
        match (&r64, ref32(x)) {
            (Ok(w), None) if w.is_nan() && p64 == 5 => (),
            (Ok(w), Some(v)) if same(*w, v) && p64 == 5 => (),
            _ => return Err(format!("f32 {:#x} read through Decoder::f64 is not the same value", x))
        }
        match &r16 { Err(e) if e.is_type_mismatch() => (), _ => return Err("Decoder::f16 accepted a single-precision item".to_string()) }
        Ok(())
    })();
    let r = format!("enc={};f32={};f64={};f16={}", sink.show(), show_res(r32, p32, showf32), show_res(r64, p64, showf64c), show_res_nopos(r16, p16, showf32));
    with_oracle(r, verdict)
}

pub fn frt64_handler(a: &[&str]) -> String {
    let x: u64 = a[0].parse().unwrap();
    let rest = rest_of(a);
    let sink = enc_chunks(|e| e.f64(f64::from_bits(x)).is_ok()).unwrap();
    let mut inp = sink.flat();
    let n = inp.len();
    inp.extend_from_slice(&rest);
    let mut d = Decoder::new(&inp); let r64 = d.f64(); let p64 = d.position();
    let mut d = Decoder::new(&inp); let r32 = d.f32(); let p32 = d.position();
    let mut d = Decoder::new(&inp); let r16 = d.f16(); let p16 = d.position();
    let verdict = (|| {
        match &r64 { Ok(v) if v.to_bits() == x && p64 == n && n == 9 => (), _ => return Err(format!("f64 {:#x} did not survive (position {})", x, p64)) }
        match &r32 { Err(e) if e.is_type_mismatch() => (), _ => return Err("Decoder::f32 accepted a double-precision item".to_string()) }
        match &r16 { Err(e) if e.is_type_mismatch() => (), _ => return Err("Decoder::f16 accepted a double-precision item".to_string()) }
        Ok(())
    })();
    let r = format!("enc={};f64={};f32={};f16={}", sink.show(), show_res(r64, p64, showf64), show_res_nopos(r32, p32, showf32), show_res_nopos(r16, p16, showf32));
    with_oracle(r, verdict)
}

fn fnv_byte(h: u64, b: u8) -> u64 { (h ^ b as u64).wrapping_mul(0x100000001b3) }

pub fn f16eblk_handler(a: &[&str]) -> String {
    let start: u64 = a[0].parse().unwrap();
    let count: u64 = a[1].parse().unwrap();
    let mut h = 0xcbf29ce484222325u64;
    let mut verdict = Ok(());
    for x in start .. start + count {
        let x = x as u32;
        let (_, bytes) = enc_f16(x);
        let (hi, lo) = if bytes.len() == 3 { (bytes[1], bytes[2]) } else { (0xee, 0xee) };
        h = fnv_byte(fnv_byte(h, hi), lo);
        if verdict.is_ok() { verdict = check_rne(x, &bytes).map_err(|e| format!("x={} {}", x, e)) }
    }
    with_oracle(format!("{:016x}", h), verdict)
}

/// F16EORA <start> <count>: the reference oracle alone over a range (thorough tier: all 2^32 operands);
/// no hash, because the extracted model cannot keep up with 2^32 operands (its agreement is C12_round + F16EBLK)
pub fn f16eora_handler(a: &[&str]) -> String {
    let start: u64 = a[0].parse().unwrap();
    let count: u64 = a[1].parse().unwrap();
    for x in start .. start + count {
        let x = x as u32;
        let (_, bytes) = enc_f16(x);
        // the first failing operand goes into the result so that the plugin can turn it into an F16E case
        if let Err(e) = check_rne(x, &bytes) { return with_oracle(format!("failed:{}", x), Err(e)) }
    }
    with_oracle(format!("checked:{}", count), Ok(()))
}
