//! Correspondence harness: executes the cases of a case file against the real crates in /repo.
//! One result line per input line, same order as the extracted-model driver (ocaml/main.ml).
mod util;
mod ops_core;
mod canon;
mod ops_types;
mod ops_sink;
mod ops_iana;
mod ops_seq;
mod ops_io;
mod ops_token;
mod ops_float;
mod ops_serde;
mod ops_skip;

/// serialisation entry point used by ops_serde.rs (the feature-matrix harness substitutes a slice-based one)
mod sser {
    pub fn to_vec<T: serde::Serialize>(v: &T) -> Result<Vec<u8>, ()> { minicbor_serde::to_vec(v).map_err(|_| ()) }
}

#[global_allocator]
static GLOBAL: ops_seq::Counting = ops_seq::Counting;

use std::io::{BufRead, BufWriter, Write};

type Handler = fn(&[&str]) -> String;

fn handler(op: &str) -> Option<Handler> {
    match op {
        "E" => Some(ops_core::e_handler),
        "D" => Some(ops_core::d_handler),
        "ES" => Some(ops_core::es_handler),
        "IC" => Some(ops_core::ic_handler),
        "EBLK" => Some(ops_core::eblk_handler),
        "EIT" => Some(ops_core::eit_handler),
        "RT" => Some(ops_types::rt_handler),
        "DT" => Some(ops_types::dt_handler),
        "PFX" => Some(ops_types::pfx_handler),
        "RCB" => Some(ops_types::rcb_handler),
        "PNU" => Some(ops_types::pnu_handler),
        "AIT" => Some(ops_types::ait_handler),
        "MIT" => Some(ops_types::mit_handler),
        "EWM" => Some(ops_sink::ewm_handler),
        "SINK" => Some(ops_sink::sink_handler),
        "SINKE" => Some(ops_sink::sinke_handler),
        "IANA" => Some(ops_iana::iana_handler),
        "IANAT" => Some(ops_iana::ianat_handler),
        "SEQ" => Some(ops_seq::seq_handler),
        "SZ" => Some(ops_seq::sz_handler),
        "DROPS" => Some(ops_seq::drops_handler),
        "F16D" => Some(ops_float::f16d_handler),
        "F16E" => Some(ops_float::f16e_handler),
        "FRT32" => Some(ops_float::frt32_handler),
        "FRT64" => Some(ops_float::frt64_handler),
        "F16EBLK" => Some(ops_float::f16eblk_handler),
        "F16EORA" => Some(ops_float::f16eora_handler),
        "SERD" => Some(ops_serde::serd_handler),
        "SER" => Some(ops_serde::ser_handler),
        "DE" => Some(ops_serde::de_handler),
        "X18" => Some(ops_serde::x18_handler),
        "XR" => Some(ops_serde::xr_handler),
        "TK" => Some(ops_token::tk_handler),
        "TKE" => Some(ops_token::tke_handler),
        "DP" => Some(ops_token::dp_handler),
        "IOR" => Some(ops_io::ior_handler),
        "IOW" => Some(ops_io::iow_handler),
        "AIOR" => Some(ops_io::aior_handler),
        "AIOW" => Some(ops_io::aiow_handler),
        _ => None
    }
}

fn main() {
    std::panic::set_hook(Box::new(|_| {}));
    let args: Vec<String> = std::env::args().collect();
    let input = std::fs::File::open(&args[1]).expect("case file");
    let out: Box<dyn Write> = if args.len() > 2 { Box::new(std::fs::File::create(&args[2]).unwrap()) } else { Box::new(std::io::stdout()) };
    let mut out = BufWriter::new(out);
    for line in std::io::BufReader::new(input).lines() {
        let line = line.unwrap();
        let toks: Vec<&str> = line.split(' ').filter(|t| !t.is_empty()).collect();
        let res = match toks.split_first() {
            None => String::new(),
            Some((op, rest)) => match handler(op) {
                Some(h) => {
                    let rest: Vec<&str> = rest.to_vec();
                    match std::panic::catch_unwind(move || h(&rest)) { Ok(s) => s, Err(_) => "panic".into() }
                }
                None => "?unknown-op".into()
            }
        };
        writeln!(out, "{}", res).unwrap();
    }
    out.flush().unwrap();
}
