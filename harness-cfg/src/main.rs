//! Feature-matrix harness (C20): the same operations built against minicbor with
//! {no features, alloc, std} x {half, no half}.  The binary itself uses std for I/O; only the
//! features of the minicbor dependency vary, so the `#[cfg(not(feature = "alloc"))]` code paths of the
//! library are compiled and executed.  Protocol as harness/: <binary> <casefile> <outfile>.
#[path = "../../harness/src/util.rs"]
#[allow(dead_code)]
mod util;
#[path = "../../harness/src/canon.rs"]
#[allow(dead_code)]
mod canon;
#[path = "../../harness/src/ops_serde.rs"]
#[allow(dead_code)]
mod ops_serde;

/// the bridge's serializer into a fixed slice (to_vec does not exist without alloc)
mod sser {
    pub fn to_vec<T: serde::Serialize>(v: &T) -> Result<Vec<u8>, ()> {
        let mut buf = vec![0u8; 1 << 16];
        let n = {
            let mut s = minicbor_serde::Serializer::new(minicbor::encode::write::Cursor::new(&mut buf[..]));
            v.serialize(&mut s).map_err(|_| ())?;
            s.encoder().writer().position()
        };
        buf.truncate(n);
        Ok(buf)
    }
}

use minicbor::data::{Int, Tag, Tagged, Type};
use minicbor::{Decode, Decoder, Encode, Encoder};
use std::io::{BufRead, BufWriter, Write};
use std::fmt::Write as _;

fn unhex(s: &str) -> Vec<u8> {
    if s == "-" { return Vec::new() }
    (0 .. s.len() / 2).map(|i| u8::from_str_radix(&s[2 * i .. 2 * i + 2], 16).unwrap()).collect()
}
fn hex(b: &[u8]) -> String { let mut s = String::new(); for x in b { write!(s, "{:02x}", x).unwrap() } s }
fn hex_or_dash(b: &[u8]) -> String { if b.is_empty() { "-".into() } else { hex(b) } }

fn cut<'a>(s: &'a str, prefix: &str) -> &'a str {
    let s = s.strip_prefix(prefix).unwrap_or(s);
    let end = [s.find(" at position "), s.find(": "), s.find(" ("), s.find(" in map")].iter().flatten().copied().min().unwrap_or(s.len());
    &s[.. end]
}
fn classify(e: &minicbor::decode::Error) -> String {
    let d = e.to_string();
    if e.is_end_of_input() { return "eoi".into() }
    if e.is_type_mismatch() { return format!("type:{}", cut(&d, "unexpected type ").replace(' ', "_")) }
    if e.is_tag_mismatch() { return format!("tag:{}", cut(&d, "unexpected tag ")) }
    if e.is_unknown_variant() { return format!("variant:{}", cut(&d, "unknown enum variant ")) }
    if e.is_missing_value() { return format!("missing:{}", cut(&d, "missing value at index ")) }
    if e.is_message() { return "message".into() }
    #[cfg(feature = "alloc")]
    if e.is_custom() { return "custom".into() }
    if d.starts_with("invalid char ") {
        let h = cut(&d, "invalid char ");
        return format!("invalidchar:{}", u32::from_str_radix(h.trim_start_matches("0x"), 16).unwrap_or(0))
    }
    if d.starts_with("invalid utf-8") { return "utf8".into() }
    if let Some(i) = d.find(" overflows target type") { return format!("overflow:{}", &d[.. i]) }
    format!("other:{}", d.replace(' ', "_"))
}
fn show_res<T>(r: Result<T, minicbor::decode::Error>, pos: usize, show: impl FnOnce(T) -> String) -> String {
    // EP= (compared across configurations only, by checks/C20.py cross_check): the position the error reports for itself
    match r { Ok(v) => format!("ok:{}@{}", show(v), pos),
              Err(e) => format!("err:{}@{}\tEP={}", classify(&e), pos, e.position().map(|p| p.to_string()).unwrap_or_else(|| "none".into())) }
}
fn hb(b: &[u8]) -> String { format!("h{}", hex_or_dash(b)) }

fn run_acc(acc: &str, d: &mut Decoder<'_>) -> String {
    macro_rules! num { ($m:ident) => {{ let r = d.$m(); show_res(r, d.position(), |v| v.to_string()) }} }
    match acc {
        "u8" => num!(u8), "u16" => num!(u16), "u32" => num!(u32), "u64" => num!(u64),
        "i8" => num!(i8), "i16" => num!(i16), "i32" => num!(i32), "i64" => num!(i64),
        "int" => { let r = d.int(); show_res(r, d.position(), |v| i128::from(v).to_string()) }
        "char" => { let r = d.char(); show_res(r, d.position(), |v| u32::from(v).to_string()) }
        "bool" => { let r = d.bool(); show_res(r, d.position(), |v| v.to_string()) }
        "null" => { let r = d.null(); show_res(r, d.position(), |_| "()".into()) }
        "undefined" => { let r = d.undefined(); show_res(r, d.position(), |_| "()".into()) }
        "simple" => num!(simple),
        #[cfg(feature = "half")]
        "f16" => { let r = d.f16(); show_res(r, d.position(), |v| format!("f{}", v.to_bits())) }
        #[cfg(not(feature = "half"))]
        "f16" => "absent".into(),
        "f32" => { let r = d.f32(); show_res(r, d.position(), |v| format!("f{}", v.to_bits())) }
        "f64" => { let r = d.f64(); show_res(r, d.position(), |v| format!("f{}", v.to_bits())) }
        "bytes" => { let r = d.bytes(); show_res(r, d.position(), |v| hb(v)) }
        "str" => { let r = d.str(); show_res(r, d.position(), |v| hb(v.as_bytes())) }
        "bytes_iter" => {
            let mut out = String::from("[");
            let r = d.bytes_iter().and_then(|it| { let mut first = true; for c in it { let c = c?; if !first { out.push(',') } first = false; out.push_str(&hb(c)); } Ok(()) });
            out.push(']');
            show_res(r, d.position(), |_| out)
        }
        "str_iter" => {
            let mut out = String::from("[");
            let r = d.str_iter().and_then(|it| { let mut first = true; for c in it { let c = c?; if !first { out.push(',') } first = false; out.push_str(&hb(c.as_bytes())); } Ok(()) });
            out.push(']');
            show_res(r, d.position(), |_| out)
        }
        "array" => { let r = d.array(); show_res(r, d.position(), |v| v.map(|n| format!("some:{}", n)).unwrap_or("none".into())) }
        "map" => { let r = d.map(); show_res(r, d.position(), |v| v.map(|n| format!("some:{}", n)).unwrap_or("none".into())) }
        "tag" => { let r = d.tag(); show_res(r, d.position(), |v| v.as_u64().to_string()) }
        "skip" => { let r = d.skip(); show_res(r, d.position(), |_| "()".into()) }
        "datatype" => { let r = d.datatype(); show_res(r, d.position(), |t: Type| t.to_string().replace(' ', "_")) }
        _ => "?bad-acc".into()
    }
}

/// typed decode of types that exist in every configuration; value text as harness/src/canon.rs prints it
fn run_type(key: &str, d: &mut Decoder<'_>) -> String {
    macro_rules! dec { ($t:ty, $show:expr) => {{ let r: Result<$t, _> = d.decode(); show_res(r, d.position(), $show) }} }
    fn o<T>(v: Option<T>, f: impl Fn(T) -> String) -> String { match v { None => "null".into(), Some(x) => format!("some({})", f(x)) } }
    match key {
        "u8" => dec!(u8, |v| v.to_string()), "u64" => dec!(u64, |v| v.to_string()), "i16" => dec!(i16, |v| v.to_string()), "i64" => dec!(i64, |v| v.to_string()),
        "usize" => dec!(usize, |v| v.to_string()), "isize" => dec!(isize, |v| v.to_string()),
        "int" => dec!(Int, |v| i128::from(v).to_string()), "bool" => dec!(bool, |v| v.to_string()), "char" => dec!(char, |v| u32::from(v).to_string()),
        "f32" => dec!(f32, |v| format!("f{}", v.to_bits())), "f64" => dec!(f64, |v| format!("f{}", v.to_bits())),
        "nzu8" => dec!(core::num::NonZeroU8, |v| v.get().to_string()), "nzi64" => dec!(core::num::NonZeroI64, |v| v.get().to_string()),
        "strref" => dec!(&str, |v| hb(v.as_bytes())), "bytesref" => dec!(&minicbor::bytes::ByteSlice, |v| hb(v)),
        "bytearr4" => dec!(minicbor::bytes::ByteArray<4>, |v| hb(&v[..])), "cstrref" => dec!(&core::ffi::CStr, |v| hb(v.to_bytes())),
        "unit" => dec!((), |_| "()".into()),
        "opt(u8)" => dec!(Option<u8>, |v| o(v, |x| x.to_string())), "opt(opt(u8))" => dec!(Option<Option<u8>>, |v| o(v, |x| o(x, |y| y.to_string()))),
        "result(u8,i8)" => dec!(Result<u8, i8>, |v| match v { Ok(x) => format!("v0({})", x), Err(x) => format!("v1({})", x) }),
        "arr0(u8)" => dec!([u8; 0], |_| "[]".into()),
        "arr3(u16)" => dec!([u16; 3], |v| format!("[{},{},{}]", v[0], v[1], v[2])),
        "arr2(opt(u8))" => dec!([Option<u8>; 2], |v| format!("[{},{}]", o(v[0], |x| x.to_string()), o(v[1], |x| x.to_string()))),
        "tup(u8,i8)" => dec!((u8, i8), |v| format!("[{},{}]", v.0, v.1)),
        "tup(u8,u8,u8,u8)" => dec!((u8, u8, u8, u8), |v| format!("[{},{},{},{}]", v.0, v.1, v.2, v.3)),
        "range(u8)" => dec!(core::ops::Range<u8>, |v| format!("[{},{}]", v.start, v.end)),
        "rangefrom(u32)" => dec!(core::ops::RangeFrom<u32>, |v| format!("[{}]", v.start)),
        "rangeincl(i16)" => dec!(core::ops::RangeInclusive<i16>, |v| format!("[{},{}]", v.start(), v.end())),
        "bound(i32)" => dec!(core::ops::Bound<i32>, |v| match v { core::ops::Bound::Included(x) => format!("v0({})", x), core::ops::Bound::Excluded(x) => format!("v1({})", x), _ => "v2(())".into() }),
        "duration" => dec!(core::time::Duration, |v| format!("[{},{}]", v.as_secs(), v.subsec_nanos())),
        "tag" => dec!(Tag, |v| v.as_u64().to_string()),
        "tagged7(u8)" => dec!(Tagged<7, u8>, |v| v.value().to_string()),
        "tagged24(opt(u8))" => dec!(Tagged<24, Option<u8>>, |v| o(*v.value(), |x| x.to_string())),
        "cell(u16)" => dec!(core::cell::Cell<u16>, |v| v.get().to_string()),
        "wrapping(u8)" => dec!(core::num::Wrapping<u8>, |v| v.0.to_string()),
        #[cfg(feature = "alloc")]
        "seq(u8)" => dec!(Vec<u8>, |v| format!("[{}]", v.iter().map(|x| x.to_string()).collect::<Vec<_>>().join(","))),
        #[cfg(feature = "alloc")]
        "string" => dec!(String, |v| hb(v.as_bytes())),
        #[cfg(feature = "alloc")]
        "seq(range(u8))" => dec!(Vec<core::ops::Range<u8>>, |v| format!("[{}]", v.iter().map(|x| format!("[{},{}]", x.start, x.end)).collect::<Vec<_>>().join(","))),
        _ => "absent".into()
    }
}

/// Encoder methods into a fixed slice (no allocation needed); result = produced bytes
fn run_enc(m: &str, arg: &str) -> String {
    let mut buf = [0u8; 600];
    let n = {
        let mut e = Encoder::new(minicbor::encode::write::Cursor::new(&mut buf[..]));
        let ok = match m {
            "u8" => e.u8(arg.parse().unwrap()).is_ok(), "u16" => e.u16(arg.parse().unwrap()).is_ok(),
            "u32" => e.u32(arg.parse().unwrap()).is_ok(), "u64" => e.u64(arg.parse().unwrap()).is_ok(),
            "i8" => e.i8(arg.parse().unwrap()).is_ok(), "i16" => e.i16(arg.parse().unwrap()).is_ok(),
            "i32" => e.i32(arg.parse().unwrap()).is_ok(), "i64" => e.i64(arg.parse().unwrap()).is_ok(),
            "int" => e.int(Int::try_from(arg.parse::<i128>().unwrap()).unwrap()).is_ok(),
            "simple" => e.simple(arg.parse().unwrap()).is_ok(), "bool" => e.bool(arg == "true").is_ok(),
            "null" => e.null().is_ok(), "undefined" => e.undefined().is_ok(),
            "char" => e.char(char::from_u32(arg.parse().unwrap()).unwrap()).is_ok(),
            "f32" => e.f32(f32::from_bits(arg.parse().unwrap())).is_ok(), "f64" => e.f64(f64::from_bits(arg.parse().unwrap())).is_ok(),
            #[cfg(feature = "half")]
            "f16" => e.f16(f32::from_bits(arg.parse().unwrap())).is_ok(),
            "tag" => e.tag(Tag::new(arg.parse().unwrap())).is_ok(), "array" => e.array(arg.parse().unwrap()).is_ok(), "map" => e.map(arg.parse().unwrap()).is_ok(),
            "bytes" => e.bytes(&unhex(arg)).is_ok(), "str" => e.str(core::str::from_utf8(&unhex(arg)).unwrap()).is_ok(),
            _ => return "absent".into()
        };
        if !ok { return "err".into() }
        e.writer().position()
    };
    hex(&buf[.. n])
}

/// decode a value of a type present everywhere, then cbor_len and re-encode into a slice: "<len>;<hex>"
fn run_len(key: &str, inp: &[u8]) -> String {
    fn go<'b, T: Decode<'b, ()> + Encode<()> + minicbor::CborLen<()>>(inp: &'b [u8]) -> String {
        match minicbor::decode::<T>(inp) {
            Err(e) => format!("err:{}", classify(&e)),
            Ok(v) => {
                let mut buf = [0u8; 600];
                let n = minicbor::len(&v);
                let mut c = minicbor::encode::write::Cursor::new(&mut buf[..]);
                match minicbor::encode(&v, &mut c) { Ok(()) => { let p = c.position(); format!("{};{}", n, hex(&buf[.. p])) } Err(_) => format!("{};err", n) }
            }
        }
    }
    match key {
        "u8" => go::<u8>(inp), "u64" => go::<u64>(inp), "i64" => go::<i64>(inp), "int" => go::<Int>(inp), "char" => go::<char>(inp), "bool" => go::<bool>(inp),
        "f32" => go::<f32>(inp), "f64" => go::<f64>(inp), "opt(u8)" => go::<Option<u8>>(inp), "arr3(u16)" => go::<[u16; 3]>(inp),
        "tup(u8,i8)" => go::<(u8, i8)>(inp), "range(u8)" => go::<core::ops::Range<u8>>(inp), "bound(i32)" => go::<core::ops::Bound<i32>>(inp),
        "duration" => go::<core::time::Duration>(inp), "tagged7(u8)" => go::<Tagged<7, u8>>(inp), "unit" => go::<()>(inp), "tag" => go::<Tag>(inp),
        "strref" => go::<&str>(inp), "bytesref" => go::<&minicbor::bytes::ByteSlice>(inp),
        _ => "absent".into()
    }
}

#[cfg(feature = "half")]
fn run_tokens(inp: &[u8]) -> String {
    let mut out = Vec::new();
    for t in minicbor::decode::Tokenizer::new(inp) {
        match t { Ok(t) => out.push(format!("{:?}", t).replace(' ', "")), Err(e) => out.push(format!("Err({})", classify(&e))) }
    }
    out.join(",")
}
#[cfg(not(feature = "half"))]
fn run_tokens(_: &[u8]) -> String { "absent".into() }

fn handle(toks: &[&str]) -> String {
    // the last token of a C20 case names the configuration; it only selects the binary (bin/check route)
    match toks[0] {
        "CD" => { let inp = unhex(toks[2]); let mut d = Decoder::new(&inp); d.set_position(toks[3].parse::<u64>().unwrap() as usize); run_acc(toks[1], &mut d) }
        "CT" => { let inp = unhex(toks[2]); let mut d = Decoder::new(&inp); d.set_position(toks[3].parse::<u64>().unwrap() as usize); run_type(toks[1], &mut d) }
        "CE" => run_enc(toks[1], toks[2]),
        "CL" => run_len(toks[1], &unhex(toks[2])),
        "CK" => run_tokens(&unhex(toks[1])),
        // the serde bridge: the type family and value text of harness/src/ops_serde.rs (the last token names the configuration)
        // (the round-trip oracle of these handlers belongs to C17; here only the outcome is compared across configurations)
        "CSER" => { let r = ops_serde::ser_handler(&toks[1 ..]); r.split('\t').next().unwrap_or("").to_string() }
        "CDES" => { let r = ops_serde::de_handler(&toks[1 ..]); r.split('\t').next().unwrap_or("").to_string() }
        _ => "?unknown-op".into()
    }
}

fn main() {
    std::panic::set_hook(Box::new(|_| {}));
    let args: Vec<String> = std::env::args().collect();
    let input = std::fs::File::open(&args[1]).expect("case file");
    let mut out = BufWriter::new(std::fs::File::create(&args[2]).unwrap());
    for line in std::io::BufReader::new(input).lines() {
        let line = line.unwrap();
        let toks: Vec<String> = line.split(' ').filter(|t| !t.is_empty()).map(|s| s.to_string()).collect();
        let res = if toks.is_empty() { String::new() } else {
            match std::panic::catch_unwind(move || { let t: Vec<&str> = toks.iter().map(|s| s.as_str()).collect(); handle(&t) }) { Ok(s) => s, Err(_) => "panic".into() }
        };
        writeln!(out, "{}", res).unwrap();
    }
    out.flush().unwrap();
}
