//! Correspondence harness for the derive macros: the type definitions in gen.rs are generated from the
//! seeded schema grammar (checks/derivegen.py) and compiled with the real minicbor-derive.
//! Same line protocol as harness/ (one result line per case line).
#![allow(dead_code)]
#[path = "../../harness/src/util.rs"] mod util;
#[path = "../../harness/src/canon.rs"] mod canon;
mod support;
mod gen;

use std::io::{BufRead, BufWriter, Write};
use support::*;
use util::*;

fn lookup(sid: &str, def: &str) -> Option<Ops> {
    let key = format!("{}:{}", sid, def);
    gen::TABLE.iter().find(|(k, _)| *k == key).map(|(_, f)| f())
}

/// DENC sid schema def value  ->  <hex>          (C08: the bytes; O: deterministic)
fn denc(a: &[&str]) -> String {
    match lookup(a[0], a[2]) {
        Some(o) => { let (b, _) = (o.encb)(a[3]); let (b2, _) = (o.encb)(a[3]);
                     with_oracle(hex_or_dash(&b), if b == b2 { Ok(()) } else { Err("nondeterministic encoding".into()) }) }
        None => "?no-type".into()
    }
}
/// DLEN sid schema def value  ->  <hex>;len=<n>  (C07: O: len == bytes written, exact slice fits, one byte less does not)
fn dlen(a: &[&str]) -> String {
    match lookup(a[0], a[2]) { Some(o) => (o.enc)(a[3]), None => "?no-type".into() }
}
/// DDEC sid schema def hex [!class]  ->  ok:<value>@<pos> | err:<class>@<pos>
fn ddec(a: &[&str]) -> String {
    match lookup(a[0], a[2]) {
        Some(o) => {
            let (r, mut v) = (o.dec)(&unhex(a[3]));
            if let (Ok(()), Some(cls)) = (&v, a.get(4).and_then(|e| e.strip_prefix('!'))) {
                let ok = err_matches(&r, cls);
                if !ok { v = Err(format!("expected error {} got {}", cls, r)) }
            }
            with_oracle(r, v)
        }
        None => "?no-type".into()
    }
}
/// DRT sid schema def value expect [reframed-hex ...] [c=<choices>]  ->  <hex>;<outcome>;<outcome of each re-framed encoding>
/// With a `c=` token the first re-framed encoding is the one the choice list selects under Model/DeriveReframe.v
/// (theorem C09_roundtrip_reframed); it is echoed as `R<hex>:<outcome>` so that the model side, which computes it from
/// the choices, is compared with the generator's bytes.
fn drt(a: &[&str]) -> String {
    let o = match lookup(a[0], a[2]) { Some(o) => o, None => return "?no-type".into() };
    let (bytes, _) = (o.encb)(a[3]);
    let expect = format!("ok:{}@{}", a[4], bytes.len());
    let (r, mut verdict) = (o.dec)(&bytes);
    if verdict.is_ok() && r != expect { verdict = Err(format!("round trip: expected {} got {}", expect, r)) }
    let mut outs = vec![hex_or_dash(&bytes), r];
    let with_choices = a[5 ..].iter().any(|h| h.starts_with("c="));
    let mut first = true;
    for h in a[5 ..].iter().filter(|h| !h.starts_with("c=")) {
        let b = unhex(h);
        let (r2, v2) = (o.dec)(&b);
        let e2 = format!("ok:{}@{}", a[4], b.len());
        if verdict.is_ok() { if let Err(w) = v2 { verdict = Err(w) } else if r2 != e2 { verdict = Err(format!("re-framed {}: expected {} got {}", h, e2, r2)) } }
        outs.push(if with_choices && first { format!("R{}:{}", hex_or_dash(&b), r2) } else { r2 });
        first = false;
    }
    with_oracle(outs.join(";"), verdict)
}
/// DCOMPAT sidW schemaW sidR schemaR def value expect  ->  <hex>;<outcome>      expect: value text | !missing:<i> | !err
fn dcompat(a: &[&str]) -> String {
    let (w, r) = match (lookup(a[0], a[4]), lookup(a[2], a[4])) { (Some(w), Some(r)) => (w, r), _ => return "?no-type".into() };
    let (bytes, _) = (w.encb)(a[5]);
    let (out, mut verdict) = (r.dec)(&bytes);
    let exp = a[6];
    if verdict.is_ok() {
        if let Some(cls) = exp.strip_prefix('!') {
            let ok = err_matches(&out, cls);
            if !ok { verdict = Err(format!("expected error {} got {}", cls, out)) }
        } else {
            let e = format!("ok:{}@{}", exp, bytes.len());
            if out != e { verdict = Err(format!("expected {} got {}", e, out)) }
        }
    }
    with_oracle(format!("{};{}", hex_or_dash(&bytes), out), verdict)
}
/// DMETA sidA schemaA sidB schemaB def valueA valueB  ->  <hexA>;len=<n>   (O: same bytes and length from the renamed / reordered twin)
fn dmeta(a: &[&str]) -> String {
    let (x, y) = match (lookup(a[0], a[4]), lookup(a[2], a[4])) { (Some(x), Some(y)) => (x, y), _ => return "?no-type".into() };
    let (ba, la) = (x.encb)(a[5]);
    let (bb, lb) = (y.encb)(a[6]);
    let verdict = if ba != bb { Err(format!("twin definition encodes differently: {} vs {}", hex(&ba), hex(&bb))) }
                  else if la != lb { Err(format!("twin definition has a different cbor_len: {} vs {}", la, lb)) } else { Ok(()) };
    with_oracle(format!("{};len={}", hex_or_dash(&ba), la), verdict)
}

/// does the outcome text denote an error of class `cls` ("err" = any; "variant" matches variant:<n>; "missing:3" exact)
fn err_matches(out: &str, cls: &str) -> bool {
    if cls == "err" { return out.starts_with("err:") }
    match out.strip_prefix("err:").and_then(|r| r.strip_prefix(cls)) { Some(rest) => rest.starts_with('@') || rest.starts_with(':'), None => false }
}

type Handler = fn(&[&str]) -> String;
fn handler(op: &str) -> Option<Handler> {
    match op { "DENC" => Some(denc), "DLEN" => Some(dlen), "DDEC" => Some(ddec), "DRT" => Some(drt), "DCOMPAT" => Some(dcompat), "DMETA" => Some(dmeta), "DBIG" => Some(support::dbig as fn(&[&str]) -> String), _ => None }
}

fn main() {
    std::panic::set_hook(Box::new(|_| {}));
    let args: Vec<String> = std::env::args().collect();
    let input = std::fs::File::open(&args[1]).expect("case file");
    let out: Box<dyn Write> = if args.len() > 2 { Box::new(std::fs::File::create(&args[2]).unwrap()) } else { Box::new(std::io::stdout()) };
    let mut out = BufWriter::new(out);
    for line in std::io::BufReader::new(input).lines() {
        let line = line.unwrap();
        let toks: Vec<&str> = line.split(' ').filter(|t| !t.is_empty()).collect();
        let res = match toks.split_first() {
            None => String::new(),
            Some((op, rest)) => match handler(op) {
                Some(h) => {
                    let rest: Vec<&str> = rest.to_vec();
                    match std::panic::catch_unwind(move || h(&rest)) { Ok(s) => s, Err(_) => "panic".into() }
                }
                None => "?unknown-op".into()
            }
        };
        writeln!(out, "{}", res).unwrap();
    }
    out.flush().unwrap();
}
