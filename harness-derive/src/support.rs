//! Static support for the generated types: the generic operations, the custom nil-aware codec module,
//! helpers for borrowed leaves.
use crate::canon::*;
use crate::util::*;
use minicbor::{CborLen, Decode, Decoder, Encode};

pub type OptVecAlias = Option<Vec<u8>>;     // an Option the macro cannot see (lib.rs:519 tests syntax)
pub type OptU8Alias = Option<u8>;

pub trait Bchk { fn bchk(&self, lo: usize, hi: usize) -> bool; }

pub fn in_buf(b: &[u8], lo: usize, hi: usize) -> bool {
    let p = b.as_ptr() as usize;
    b.is_empty() || (lo <= p && p + b.len() <= hi)
}
pub fn leak_str(p: &mut P) -> &'static str { Box::leak(<String as Canon>::parse(p).into_boxed_str()) }
pub fn leak_slice(p: &mut P) -> &'static [u8] { Box::leak(p.hexbytes().into_boxed_slice()) }
pub fn leak_bs(p: &mut P) -> &'static minicbor::bytes::ByteSlice { leak_slice(p).into() }
pub fn parse_arr4(p: &mut P) -> [u8; 4] { p.hexbytes().try_into().unwrap() }
pub fn parse_opt<T>(p: &mut P, f: impl FnOnce(&mut P) -> T) -> Option<T> {
    if p.lit("null") { None } else { assert!(p.lit("some(")); let v = f(p); p.eat(b')'); Some(v) }
}
pub fn show_opt<T>(x: &Option<T>, f: impl FnOnce(&T) -> String) -> String {
    match x { None => "null".into(), Some(v) => format!("some({})", f(v)) }
}

/// The custom codec of the schema grammar: u64 with 0 as its nil value, written as null.
pub mod nz {
    use minicbor::{Encoder, Decoder, CborLen, data::Type};
    pub fn encode<C, W: minicbor::encode::Write>(v: &u64, e: &mut Encoder<W>, _: &mut C) -> Result<(), minicbor::encode::Error<W::Error>> {
        if *v == 0 { e.null()?; } else { e.u64(*v)?; }
        Ok(())
    }
    pub fn decode<'b, C>(d: &mut Decoder<'b>, _: &mut C) -> Result<u64, minicbor::decode::Error> {
        if d.datatype()? == Type::Null { d.skip()?; Ok(0) } else { d.u64() }
    }
    pub fn is_nil(v: &u64) -> bool { *v == 0 }
    pub fn nil() -> Option<u64> { Some(0) }
    pub fn cbor_len<C>(v: &u64, _: &mut C) -> usize { if *v == 0 { 1 } else { v.cbor_len(&mut ()) } }
}

/// Pass-through codec functions: exactly the trait impls, named in `encode_with` / `decode_with` / `cbor_len` (module `pass` for
/// `with = "crate::support::pass"`) on fields that have NO codec in the model — a spelling variant of checks/derivegen.py
/// (pass_eligible): on a mandatory type or a syntactic `Option<..>` the derived code behaves as without them.
pub fn pass_enc<C, T: Encode<C>, W: minicbor::encode::Write>(v: &T, e: &mut minicbor::Encoder<W>, ctx: &mut C) -> Result<(), minicbor::encode::Error<W::Error>> { v.encode(e, ctx) }
pub fn pass_dec<'b, C, T: Decode<'b, C>>(d: &mut Decoder<'b>, ctx: &mut C) -> Result<T, minicbor::decode::Error> { T::decode(d, ctx) }
pub fn pass_len<C, T: CborLen<C>>(v: &T, ctx: &mut C) -> usize { v.cbor_len(ctx) }
pub mod pass {
    pub use super::pass_enc as encode;
    pub use super::pass_dec as decode;
    pub use super::pass_len as cbor_len;
}

pub struct Ops {
    pub enc: fn(&str) -> String,
    pub encb: fn(&str) -> (Vec<u8>, usize),
    pub dec: fn(&[u8]) -> (String, Result<(), String>)
}

pub fn ops<T>() -> Ops where T: Canon + Bchk + Encode<()> + CborLen<()> + Decode<'static, ()> {
    Ops { enc: enc::<T>, encb: encb::<T>, dec: dec::<T> }
}

fn encb<T: Canon + Encode<()> + CborLen<()>>(val: &str) -> (Vec<u8>, usize) {
    let v = T::parse(&mut P::new(val));
    (minicbor::to_vec(&v).unwrap(), minicbor::len(&v))
}

/// encode + cbor_len; O: len == bytes written, an exact-size slice suffices, one byte less never does, deterministic
fn enc<T: Canon + Encode<()> + CborLen<()>>(val: &str) -> String {
    let v = T::parse(&mut P::new(val));
    let n = minicbor::len(&v);
    let bytes = match minicbor::to_vec(&v) { Ok(b) => b, Err(_) => return with_oracle(format!("refused;len={}", n), Ok(())) };
    let mut verdict = Ok(());
    if n != bytes.len() { verdict = Err(format!("cbor_len {} but {} bytes written", n, bytes.len())) }
    let mut buf = vec![0u8; bytes.len()];
    if minicbor::encode(&v, &mut buf[..]).is_err() { verdict = Err("exact-size slice rejected".into()) }
    if !bytes.is_empty() {
        let mut small = vec![0u8; bytes.len() - 1];
        if minicbor::encode(&v, &mut small[..]).is_ok() { verdict = Err("slice one byte short accepted".into()) }
    }
    if minicbor::to_vec(&v).ok().as_deref() != Some(&bytes[..]) { verdict = Err("nondeterministic encoding".into()) }
    with_oracle(format!("{};len={}", hex_or_dash(&bytes), n), verdict)
}

/// decode from a leaked copy of the input (so that borrowing types can be 'static); O: position within the
/// input, borrowed fields point into the input, #[b] Cow fields are Borrowed
fn dec<T: Canon + Bchk + Decode<'static, ()>>(inp: &[u8]) -> (String, Result<(), String>) {
    let buf: &'static [u8] = Box::leak(inp.to_vec().into_boxed_slice());
    let mut d = Decoder::new(buf);
    let r: Result<T, _> = d.decode();
    let pos = d.position();
    let mut verdict = Ok(());
    if pos > buf.len() { verdict = Err(format!("position {} beyond input", pos)) }
    if let Ok(v) = &r {
        let lo = buf.as_ptr() as usize;
        if !v.bchk(lo, lo + buf.len()) { verdict = Err("a borrowing field does not point into the input".into()) }
    }
    (show_res(r, pos, |x| x.show()), verdict)
}

// ---- indices above i32::MAX (outside the schema model: derived CborLen does not compile for them, Encode / Decode do) ----
/// map-encoded, field indices 0 and u32::MAX (4294967295 is also the sentinel index of skipped fields inside the macro)
#[derive(Encode, Decode, Debug, PartialEq)] #[cbor(map)]
pub struct BigIdxM { #[n(0)] pub version: u8, #[n(4294967295)] pub extension: Option<u8>, #[n(4294967294)] pub other: Option<u8> }
#[derive(Encode, Decode, Debug, PartialEq)]
pub enum BigIdxE { #[n(0)] A, #[n(4294967295)] Z { #[n(0)] x: u8 } }

/// DBIG m <version> <ext|-> <other|->  /  DBIG e <0|1> <x>: "<hex>;<round trip ok?>"
pub fn dbig(a: &[&str]) -> String {
    let opt = |s: &str| if s == "-" { None } else { Some(s.parse::<u8>().unwrap()) };
    let (bytes, ok) = if a[0] == "m" {
        let v = BigIdxM { version: a[1].parse().unwrap(), extension: opt(a[2]), other: opt(a[3]) };
        let b = minicbor::to_vec(&v).unwrap();
        let ok = minicbor::decode::<BigIdxM>(&b).ok().as_ref() == Some(&v);
        (b, ok)
    } else {
        let v = if a[1] == "0" { BigIdxE::A } else { BigIdxE::Z { x: a[2].parse().unwrap() } };
        let b = minicbor::to_vec(&v).unwrap();
        let ok = minicbor::decode::<BigIdxE>(&b).ok().as_ref() == Some(&v);
        (b, ok)
    };
    with_oracle(hex_or_dash(&bytes), if ok { Ok(()) } else { Err("the derived decoder does not read the derived encoding back".into()) })
}

