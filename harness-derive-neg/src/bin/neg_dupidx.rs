// generated once by hand: see checks/derivegen.py NEG
#![allow(dead_code)]
use minicbor::{Encode, Decode, CborLen};
#[derive(Encode, Decode, CborLen)] pub struct T { #[n(0)] a: u8, #[n(0)] b: u8 }
fn main() {}
