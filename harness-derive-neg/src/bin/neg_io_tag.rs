// generated once by hand: see checks/derivegen.py NEG
#![allow(dead_code)]
use minicbor::{Encode, Decode, CborLen};
#[derive(Encode, Decode, CborLen)] #[cbor(index_only, tag(7))] pub enum E { #[n(0)] A }
fn main() {}
