// generated once by hand: see checks/derivegen.py NEG
#![allow(dead_code)]
use minicbor::{Encode, Decode, CborLen};
#[derive(Encode, Decode, CborLen)] #[cbor(transparent, tag(5))] pub struct T(#[n(0)] u8);
fn main() {}
