// generated once by hand: see checks/derivegen.py NEG
#![allow(dead_code)]
use minicbor::{Encode, Decode, CborLen};
#[derive(Encode, Decode, CborLen)] #[cbor(index_only)] pub enum E { #[n(0)] A, #[n(3)] B }
fn main() {}
