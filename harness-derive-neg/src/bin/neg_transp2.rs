// generated once by hand: see checks/derivegen.py NEG
#![allow(dead_code)]
use minicbor::{Encode, Decode, CborLen};
#[derive(Encode, Decode, CborLen)] #[cbor(transparent)] pub struct T(#[n(0)] u8, #[n(1)] u8);
fn main() {}
