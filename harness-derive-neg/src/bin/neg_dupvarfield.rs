// generated once by hand: see checks/derivegen.py NEG
#![allow(dead_code)]
use minicbor::{Encode, Decode, CborLen};
#[derive(Encode, Decode, CborLen)] pub enum E { #[n(0)] A { #[n(2)] x: u8, #[n(2)] y: u8 } }
fn main() {}
