// generated once by hand: see checks/derivegen.py NEG
#![allow(dead_code)]
use minicbor::{Encode, Decode, CborLen};
#[derive(Encode, Decode, CborLen)] pub enum E { #[n(1)] A, #[n(1)] B }
fn main() {}
