// generated once by hand: see checks/derivegen.py NEG
#![allow(dead_code)]
use minicbor::{Encode, Decode, CborLen};
#[derive(Encode, Decode, CborLen)] #[cbor(map)] pub struct T { #[n(1)] a: u8, #[b(1)] b: u8 }
fn main() {}
