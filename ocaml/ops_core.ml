(* ops_core.ml — case handlers for the Encoder methods (E) and the Decoder accessors (D).
   Each handler returns "<model result>[\tS=<specification expectation>]". *)
open Model
open Util
module ZA = Util.ZA

(* ---- E <method> <arg...> : Encoder method; model = chunks, spec = enc_pref of the denoted item ---- *)
let uint_item (x : n) : item = IUInt x
let sint_item (x : z) : item =
  match x with
  | Zneg _ -> INInt (n_of_zt (ZA.pred (ZA.neg (zt_of_z x))))     (* -1 - x *)
  | _ -> IUInt (n_of_zt (zt_of_z x))

let spec_item (i : item) : string = hex_of_bytes (enc_pref i)
let spec_head (mt : int) (x : n) : string = hex_of_bytes (head (n_of_int mt) (min_width x) x)

let e_handler (args : string list) : string =
  match args with
  | ["u8"; a] -> let x = n_of_string a in with_spec (hex_of_chunks (enc_u8 x)) (spec_item (uint_item x))
  | ["u16"; a] -> let x = n_of_string a in with_spec (hex_of_chunks (enc_u16 x)) (spec_item (uint_item x))
  | ["u32"; a] -> let x = n_of_string a in with_spec (hex_of_chunks (enc_u32 x)) (spec_item (uint_item x))
  | ["u64"; a] -> let x = n_of_string a in with_spec (hex_of_chunks (enc_u64 x)) (spec_item (uint_item x))
  | ["i8"; a] -> let x = z_of_string a in with_spec (hex_of_chunks (enc_i8 x)) (spec_item (sint_item x))
  | ["i16"; a] -> let x = z_of_string a in with_spec (hex_of_chunks (enc_i16 x)) (spec_item (sint_item x))
  | ["i32"; a] -> let x = z_of_string a in with_spec (hex_of_chunks (enc_i32 x)) (spec_item (sint_item x))
  | ["i64"; a] -> let x = z_of_string a in with_spec (hex_of_chunks (enc_i64 x)) (spec_item (sint_item x))
  | ["int"; a] ->
      (* a CBOR integer in [-2^64, 2^64-1]; Int { neg, val } *)
      let v = z_of_string a in
      let (neg, mag) = (match v with Zneg _ -> (true, n_of_zt (ZA.pred (ZA.neg (zt_of_z v)))) | _ -> (false, n_of_zt (zt_of_z v))) in
      with_spec (hex_of_chunks (enc_int neg mag)) (spec_item (sint_item v))
  | ["simple"; a] ->
      let x = n_of_string a in
      let xi = int_of_n x in
      (* RFC 8949 3.3: the values 24..31 have no well-formed encoding, so the specification has nothing an encoder could
         write for them (S=err).  The code (and hence the model) writes f8 x: open finding F2b, class f2b of checks/C03.py. *)
      with_spec (hex_of_chunks (enc_simple x)) (if xi >= 24 && xi < 32 then "err" else spec_item (ISimple x))
  | ["bool"; a] -> let b = (a = "true") in with_spec (hex_of_chunks (enc_bool b)) (spec_item (ISimple (n_of_int (if b then 21 else 20))))
  | ["null"] -> with_spec (hex_of_chunks enc_null) (spec_item (ISimple (n_of_int 22)))
  | ["undefined"] -> with_spec (hex_of_chunks enc_undefined) (spec_item (ISimple (n_of_int 23)))
  | ["char"; a] -> let x = n_of_string a in with_spec (hex_of_chunks (enc_char x)) (spec_item (uint_item x))
  | ["f32"; a] -> let x = n_of_string a in with_spec (hex_of_chunks (enc_f32 x)) (spec_item (IF32 x))
  | ["f64"; a] -> let x = n_of_string a in with_spec (hex_of_chunks (enc_f64 x)) (spec_item (IF64 x))
  | ["f16"; a] -> let x = n_of_string a in with_spec (hex_of_chunks (enc_f16_bits (f32_to_f16 x))) "-"
  | ["tag"; a] -> let x = n_of_string a in with_spec (hex_of_chunks (enc_tag x)) (spec_head 6 x)
  | ["array"; a] -> let x = n_of_string a in with_spec (hex_of_chunks (enc_array x)) (spec_head 4 x)
  | ["map"; a] -> let x = n_of_string a in with_spec (hex_of_chunks (enc_map x)) (spec_head 5 x)
  | ["bytes"; a] -> let b = bytes_of_hex a in with_spec (hex_of_chunks (enc_bytes b)) (spec_item (IBytes b))
  | ["str"; a] -> let b = bytes_of_hex a in with_spec (hex_of_chunks (enc_str b)) (spec_item (IText b))
  | ["begin_array"] -> with_spec (hex_of_chunks enc_begin_array) "9f"
  | ["begin_bytes"] -> with_spec (hex_of_chunks enc_begin_bytes) "5f"
  | ["begin_map"] -> with_spec (hex_of_chunks enc_begin_map) "bf"
  | ["begin_str"] -> with_spec (hex_of_chunks enc_begin_str) "7f"
  | ["end"] -> with_spec (hex_of_chunks enc_end) "ff"
  | _ -> "?bad-E"

(* ---- D <accessor> <hex> [pos] [cfg] : one accessor call on raw bytes ---- *)
let acc_of_string (s : string) : acc option =
  match s with
  | "u8" -> Some AU8 | "u16" -> Some AU16 | "u32" -> Some AU32 | "u64" -> Some AU64
  | "i8" -> Some AI8 | "i16" -> Some AI16 | "i32" -> Some AI32 | "i64" -> Some AI64
  | "int" -> Some AInt | "char" -> Some AChar | "bool" -> Some ABool | "null" -> Some ANull
  | "undefined" -> Some AUndefined | "simple" -> Some ASimple
  | "f16" -> Some AF16 | "f32" -> Some AF32 | "f64" -> Some AF64
  | "bytes" -> Some ABytes | "str" -> Some AStr | "bytes_iter" -> Some ABytesIter | "str_iter" -> Some AStrIter
  | "array" -> Some AArray | "map" -> Some AMap | "tag" -> Some ATag | "skip" -> Some ASkip
  | _ -> None

let show_aval (v : aval) : string =
  match v with
  | VN x -> string_of_n x
  | VZ x -> string_of_z x
  | VB b -> show_bool b
  | VU -> "()"
  | VBytes b -> "h" ^ hex_or_dash b
  | VChunks l -> show_list (fun b -> "h" ^ hex_or_dash b) l
  | VLen o -> (match o with Some x -> "some:" ^ string_of_n x | None -> "none")
  | VF b -> "f" ^ string_of_n b

let cfg_of_string (s : string) : cfg =
  { c_alloc = String.contains s 'a' || String.contains s 's'; c_std = String.contains s 's'; c_half = String.contains s 'h' }

let show_expect (p0 : n) (x : expect) : string =
  match x with
  | XOk (v, k) -> Printf.sprintf "ok:%s@%s" (show_aval v) (ZA.to_string (ZA.add (zt_of_n p0) (zt_of_n k)))
  | XErr -> "err"
  | XAny -> "-"

let spec_max_len = 4096

let d_handler (args : string list) : string =
  match args with
  | a :: hex :: rest ->
      let inp = bytes_of_hex hex in
      let pos = (match rest with p :: _ -> n_of_string p | [] -> N0) in
      let c = (match rest with _ :: c :: _ -> cfg_of_string c | _ -> cfg_full) in
      let st = at_pos inp pos in
      if a = "datatype" then
        show_run show_ctype (datatype st)
      else (match acc_of_string a with
        | None -> "?bad-acc"
        | Some ac ->
            let r = show_run show_aval (run_acc c ac st) in
            (* the specification speaks about well-formed items only *)
            (* the reference parser recurses to the nesting depth and measures the remaining input at every level
               (quadratic), so no expectation is computed for inputs longer than spec_max_len bytes; the model run, the
               model/implementation comparison and the harness' O= oracle are not affected *)
            let spec =
              if List.length st.drest > spec_max_len then "-" else
              (match parse (S (nat_of_int (List.length st.drest))) st.drest with
               | Some (e, _) when wf e ->
                   (* C06: a build without `alloc` may answer the documented unsupported-nesting error; the specification
                      demands success only on the syntactic class Acc.noalloc_ok *)
                   if ac = ASkip && not c.c_alloc && not (noalloc_ok e) then "-"
                   else show_expect pos (spec_acc ac e)
               | _ -> "-") in
            with_spec r spec)
  | _ -> "?bad-D"

(* ES <call;call;…> [=<expected hex>] : a sequence of Encoder calls; S= the expectation carried by the case
   (computed by the generator's own reference serialiser from the tree the calls were rendered from) *)
let es_handler (args : string list) : string =
  match args with
  | calls :: rest ->
      let cs = List.filter (fun x -> x <> "") (String.split_on_char ';' calls) in
      let outs = List.map (fun c ->
        let parts = (match String.index_opt c ':' with
          | Some i -> [String.sub c 0 i; String.sub c (i + 1) (String.length c - i - 1)] | None -> [c]) in
        let r = e_handler parts in
        (match String.index_opt r '\t' with Some i -> String.sub r 0 i | None -> r)) cs in
      let main = if List.mem "err" outs then "err" else String.concat "|" outs in
      (match rest with
       | e :: _ when String.length e > 0 && e.[0] = '=' -> with_spec main (String.sub e 1 (String.length e - 1))
       | _ -> main)
  | _ -> "?bad-ES"

(* EBLK <method> <start> <count> : FNV-1a 64 over the flattened outputs of one method on a block of arguments *)
let fnv_init = ZA.of_string "14695981039346656037"
let fnv_prime = ZA.of_string "1099511628211"
let mask64 = ZA.pred (ZA.shift_left ZA.one 64)
let fnv_add (h : ZA.t) (b : int) : ZA.t = ZA.logand (ZA.mul (ZA.logxor h (ZA.of_int b)) fnv_prime) mask64

let eblk_handler (args : string list) : string =
  match args with
  | [m; st; cnt] ->
      let start = ZA.of_string st and count = int_of_string cnt in
      let f : ZA.t -> bytes =
        (match m with
         | "u32" -> (fun x -> flat (enc_u32 (n_of_zt x)))
         | "i32" -> (fun x -> flat (enc_i32 (z_of_zt x)))
         | "f32" -> (fun x -> flat (enc_f32 (n_of_zt x)))
         | "u64lo" -> (fun x -> flat (enc_u64 (n_of_zt x)))
         | "i64lo" -> (fun x -> flat (enc_i64 (z_of_zt x)))
         | _ -> failwith "method") in
      let h = ref fnv_init in
      for k = 0 to count - 1 do
        let bs = f (ZA.add start (ZA.of_int k)) in
        List.iter (fun b -> h := fnv_add !h (int_of_n b)) bs;
        h := fnv_add !h 255
      done;
      Printf.sprintf "%s" (ZA.format "%016x" !h)
  | _ -> "?bad-EBLK"

(* EIT <arr|map> <hint> <u16,…> [=<expected hex>] : encode::ArrayIter / MapIter under a size hint *)
let eit_handler (args : string list) : string =
  match args with
  | kind :: hint :: vals :: rest ->
      let vs = if vals = "." then [] else List.map n_of_string (String.split_on_char ',' vals) in
      let is_map = (kind = "map") in
      let vs = if is_map && List.length vs mod 2 = 1 then List.rev (List.tl (List.rev vs)) else vs in
      let count = if is_map then List.length vs / 2 else List.length vs in
      let (low, up) = (match hint with
        | "exact" -> (count, Some count) | "unbounded" -> (0, None) | "lower" -> (count / 2, None) | _ -> (0, Some count)) in
      (* a `lower` chain of an empty exact part and an unbounded part reports (0, None); filter keeps the upper bound *)
      let items = List.map enc_u16 vs in
      let nlow = n_of_int low and nup = (match up with Some u -> Some (n_of_int u) | None -> None) in
      let cs = if is_map then enc_map_iter nlow nup items else enc_array_iter nlow nup items in
      let main = Printf.sprintf "%s;hint=%d,%s" (hex_of_chunks cs) low (match up with Some u -> string_of_int u | None -> "none") in
      (match rest with
       | e :: _ when String.length e > 0 && e.[0] = '=' -> main ^ "\tS=" ^ (String.sub e 1 (String.length e - 1)) ^ ";*"
       | _ -> main)
  | _ -> "?bad-EIT"

(* IC <z> : data::Int conversions *)
let ic_handler (args : string list) : string =
  match args with
  | [a] ->
      let zt = ZA.of_string a in
      let z = z_of_zt zt in
      let so o = (match o with Some v -> string_of_z v | None -> "none") in
      let zmax s = z_of_zt (ZA.of_string s) in
      let out = ref [] in
      let add s = out := s :: !out in
      (match int_of_i128 z with
       | None -> add "int=none"
       | Some i ->
           add ("int=" ^ string_of_z (int_val i));
           add ("u8=" ^ so (int_to_unsigned (zmax "255") i)); add ("u16=" ^ so (int_to_unsigned (zmax "65535") i));
           add ("u32=" ^ so (int_to_unsigned (zmax "4294967295") i)); add ("u64=" ^ so (int_to_unsigned (zmax "18446744073709551615") i));
           add ("u128=" ^ so (int_to_u128 i));
           add ("i8=" ^ so (int_to_signed (zmax "127") i)); add ("i16=" ^ so (int_to_signed (zmax "32767") i));
           add ("i32=" ^ so (int_to_signed (zmax "2147483647") i)); add ("i64=" ^ so (int_to_signed (zmax "9223372036854775807") i)));
      if ZA.sign zt >= 0 then add ("fromu128=" ^ (match int_of_u128 z with Some i -> string_of_z (int_val i) | None -> "none"));
      if ZA.geq zt (ZA.neg (ZA.shift_left ZA.one 63)) && ZA.lt zt (ZA.shift_left ZA.one 63) then add ("fromi64=" ^ string_of_z (int_val (int_of_i64 z)));
      if ZA.sign zt >= 0 && ZA.lt zt (ZA.shift_left ZA.one 64) then add ("fromu64=" ^ string_of_z (int_val (int_of_unsigned (n_of_zt zt))));
      if ZA.geq zt (ZA.of_int (-128)) && ZA.leq zt (ZA.of_int 127) then add ("fromi8=" ^ string_of_z (int_val (int_of_i64 z)));
      String.concat ";" (List.rev !out)
  | _ -> "?bad-IC"

let () =
  register "IC" ic_handler;
  register "EIT" eit_handler;
  register "EBLK" eblk_handler;
  register "ES" es_handler;
  register "E" e_handler;
  register "D" d_handler
