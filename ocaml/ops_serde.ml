(* ops_serde.ml — SER / DE / X18 / XR: the serde bridge (Model/Serde.v) on a fixed family of serde types.
   The family is described once, in FAMILY below (checks/C17.py reads the same text); harness/src/ops_serde.rs
   declares the Rust types under the same keys.  Value text: the grammar of harness/src/canon.rs; structs print
   their fields in declaration order as a list, enum values as v<i>(payload) with () for unit variants. *)
open Model
open Util
module ZA = Util.ZA

(*FAMILY-BEGIN*)
let family_text = {|
US = unitstruct
NT = newtype(u32)
NTO = newtype(opt(u8))
TS = tuplestruct(u8,string)
P2 = struct(x:u8,y:i16)
Prims = struct(b:bool,j1:i8,j2:i16,j4:i32,j8:i64,w1:u8,w2:u16,w4:u32,w8:u64,f4:f32,f8:f64,c:char,s:string)
WithOpt = struct(a:opt(u8),b:u8,c:opt(string))
Nested = struct(p:P2,v:seq(P2),m:bmap(string,NT),t:tup(u8,TS),o:opt(P2),u:unit,k:US)
Wide = struct(f00:u8,f01:u8,f02:u8,f03:u8,f04:u8,f05:u8,f06:u8,f07:u8,f08:u8,f09:u8,f10:u8,f11:u8,f12:u8,f13:u8,f14:u8,f15:u8,f16:u8,f17:u8,f18:u8,f19:u8,f20:u8,f21:u8,f22:u8,f23:u8,f24:u8)
Ext = enum(A|B(u8)|C[u8,string]|D{x:u8,y:opt(i8)}|E(unit)|F(char)|G(US)|H(P2)|I(opt(u16)))
Ext2 = enum(Only(seq(Ext)))
Int = internal(t;A|B{x:u8,y:string}|C(P2)|M(bmap(string,u8))|Un(unit)|Us(US)|W(WithOpt)|I{v:i64,s:seq(i8),e:Ext1})
Ext1 = enum(A|B(u8)|C[u8,u8]|D{x:u8})
IntF = internal(t;Ok{x:u8}|U{u:unit}|Ch{c:char}|Nu(InnerU)|Nc(InnerC)|Ks(InnerUS)|Eu(InnerE))
InnerU = struct(u:unit)
InnerC = struct(c:char)
InnerUS = struct(k:US)
InnerE = struct(e:ExtU)
ExtU = enum(A|E(unit)|G(US))
Adj = adjacent(t,c;A|B(u8)|C[u8,string]|D{x:u8,y:opt(i8)}|U(unit)|Ch(char)|O(opt(u8))|K(US)|P(P2))
Unt = untagged(B(u8)|C[i16,string]|D{x:u8}|S(string)|V(seq(i16))|Z(bool)|A)
UntF = untagged(I(i64)|C(char)|T[u8,unit]|K{k:US}|U(unit))
Fl = flat(a:u8,*i:P2,z:bool)
Fl2 = flat(*i:P2,o:opt(u8),*j:WithOpt2,w:seq(u8))
WithOpt2 = struct(q:opt(u8),r:string)
FlM = flat(a:u8,o:opt(u8),*m:bmap(string,i16))
FlU = flat(a:u8,*u:unit,b:unit,c:char)
FlF = flat(a:u8,*i:InnerU)
FlFC = flat(a:u8,*i:InnerC)
FlK = flat(a:u8,*i:InnerUS)
FlMK = flat(a:u8,*m:bmap(string,US))
FlMC = flat(a:u8,*m:bmap(string,char))
Hr = newtype(u8)
HandS = struct(secs:u64,nanos:u32)
ExtK = enum(A|B|C)
FlEK = flat(a:u8,*m:bmap(ExtK,u8))
MapEK = struct(m:bmap(ExtK,i8))
SkipS = struct(a:u8,b_s:opt(u8),c:opt(string),d_s:opt(P2),e:bool)
SkipE = enum(A|D{x:u8,y_s:opt(i8),z_s:opt(string)})
InnerB = struct(s:strref,n:u8)
IntB = internal(t;S{s:strref,n:u8}|U|N(InnerB))
AdjB = adjacent(t,c;S(strref)|U|N(InnerB))
UntB = untagged(S{s:strref}|N(u8)|R(strref))
FlB = flat(a:u8,*i:InnerB)
|}
(*FAMILY-END*)

(* ---- splitting at top level ---- *)
let split_top (sep : char) (s : string) : string list =
  if s = "" then [] else begin
    let out = ref [] and depth = ref 0 and st = ref 0 in
    String.iteri (fun i c ->
      if c = '(' || c = '[' || c = '{' then incr depth
      else if c = ')' || c = ']' || c = '}' then decr depth
      else if c = sep && !depth = 0 then (out := String.sub s !st (i - !st) :: !out; st := i + 1)) s;
    List.rev (String.sub s !st (String.length s - !st) :: !out)
  end

let bytes_of_string (s : string) : bytes = List.init (String.length s) (fun i -> n_of_int (Char.code s.[i]))
let starts_with p s = String.length s >= String.length p && String.sub s 0 (String.length p) = p
let inner s = let i = String.index s '(' in String.sub s (i + 1) (String.length s - i - 2)   (* name(…) -> … *)
let head_name s = match String.index_opt s '(' with Some i -> String.sub s 0 i | None -> s

let named : (string, shape) Hashtbl.t = Hashtbl.create 64

let rec shape_of_expr (s : string) : shape =
  match s with
  | "bool" -> ShBool
  | "u8" -> ShU B8 | "u16" -> ShU B16 | "u32" -> ShU B32 | "u64" | "usize" -> ShU B64
  | "i8" -> ShI B8 | "i16" -> ShI B16 | "i32" -> ShI B32 | "i64" | "isize" -> ShI B64
  | "f32" -> ShF32 | "f64" -> ShF64 | "char" -> ShChar
  | "string" -> ShStr false | "strref" -> ShStr true
  | "bytebuf" -> ShBytes false | "bytesref" -> ShBytes true
  | "unit" -> ShUnit | "disp" -> ShDisplayStr | "any" -> ShAny | "ign" -> ShIgnored
  | _ ->
    (match String.index_opt s '(' with
     | None -> (match Hashtbl.find_opt named s with Some sh -> sh | None -> failwith ("bad type " ^ s))
     | Some _ ->
       let name = head_name s in
       let args = List.map shape_of_expr (split_top ',' (inner s)) in
       (match name, args with
        | "opt", [a] -> ShOption a
        | "seq", [a] -> ShSeq (true, a)
        | "iseq", [a] | "cseq", [a] -> ShSeq (false, a)
        | "bmap", [k; v] -> ShMap (true, k, v)
        | "imap", [k; v] | "cmap", [k; v] -> ShMap (false, k, v)
        | "tup", l -> ShTuple l
        | _, [a] when starts_with "arr" name ->
            let k = int_of_string (String.sub name 3 (String.length name - 3)) in
            ShTuple (List.init k (fun _ -> a))
        | _ -> failwith ("bad type " ^ s)))

let field_of (s : string) : bytes * shape =
  let i = String.index s ':' in
  (bytes_of_string (String.sub s 0 i), shape_of_expr (String.sub s (i + 1) (String.length s - i - 1)))

(* whether parse_s drops the None fields carrying skip_serializing_if (the call tree the derived Serialize produces) or keeps
   them (the value, for printing) *)
let skip_filter = ref true
let skip_name (n : bytes) : bool = (match List.rev n with c2 :: c1 :: _ -> string_of_n c1 = "95" && string_of_n c2 = "115" | _ -> false)

let variant_of (s : string) : bytes * (vkind * shape) =
  let n = String.length s in
  match String.index_opt s '(', String.index_opt s '[', String.index_opt s '{' with
  | None, None, None -> (bytes_of_string s, (KUnit, ShUnit))
  | _ ->
    let i = List.fold_left min n (List.filter_map (fun x -> x) [String.index_opt s '('; String.index_opt s '['; String.index_opt s '{']) in
    let name = bytes_of_string (String.sub s 0 i) in
    let body = String.sub s (i + 1) (n - i - 2) in
    (match s.[i] with
     | '(' -> (name, (KNewtype, shape_of_expr body))
     | '[' -> (name, (KTuple, ShTuple (List.map shape_of_expr (split_top ',' body))))
     | _ -> (name, (KStruct, ShStruct (List.map field_of (split_top ',' body)))))

let def_of (s : string) : shape =
  if s = "unitstruct" then ShUnitStruct
  else begin
    let name = head_name s and body = inner s in
    match name with
    | "newtype" -> ShNewtypeStruct (shape_of_expr body)
    | "tuplestruct" -> ShTupleStruct (List.map shape_of_expr (split_top ',' body))
    | "struct" -> ShStruct (List.map field_of (split_top ',' body))
    | "enum" -> ShEnum (List.map variant_of (split_top '|' body))
    | "internal" ->
        (match split_top ';' body with
         | [t; vs] -> ShInternal (bytes_of_string t, List.map variant_of (split_top '|' vs))
         | _ -> failwith "internal")
    | "adjacent" ->
        (match split_top ';' body with
         | [tc; vs] -> (match split_top ',' tc with
                        | [t; c] -> ShAdjacent (bytes_of_string t, bytes_of_string c, List.map variant_of (split_top '|' vs))
                        | _ -> failwith "adjacent")
         | _ -> failwith "adjacent")
    | "untagged" -> ShUntagged (List.map (fun v -> snd (variant_of v)) (split_top '|' body))
    | "flat" ->
        ShFlat (List.map (fun f ->
          if f.[0] = '*' then let (n, sh) = field_of (String.sub f 1 (String.length f - 1)) in (n, (true, sh))
          else let (n, sh) = field_of f in (n, (false, sh))) (split_top ',' body))
    | _ -> failwith ("bad definition " ^ s)
  end

let () =
  (* definitions may refer to later ones: iterate until all resolve *)
  let lines = List.filter (fun l -> String.trim l <> "") (String.split_on_char '\n' family_text) in
  let defs = List.map (fun l ->
    let i = String.index l '=' in
    (String.trim (String.sub l 0 i), String.trim (String.sub l (i + 1) (String.length l - i - 1)))) lines in
  let pending = ref defs in
  let progress = ref true in
  while !pending <> [] && !progress do
    progress := false;
    pending := List.filter (fun (n, d) ->
      match (try Some (def_of d) with Failure _ | Not_found -> None) with
      | Some sh -> Hashtbl.replace named n sh; progress := true; false
      | None -> true) !pending
  done;
  if !pending <> [] then failwith ("unresolved family definitions: " ^ String.concat " " (List.map fst !pending))

(* ---- value text <-> sval, directed by the shape ---- *)
type ps = { s : string; mutable i : int }
let peek p = if p.i < String.length p.s then p.s.[p.i] else '\000'
let eat p c = if peek p <> c then failwith (Printf.sprintf "expected %c at %d in %s" c p.i p.s); p.i <- p.i + 1
let lit p l = let k = String.length l in
  if p.i + k <= String.length p.s && String.sub p.s p.i k = l then (p.i <- p.i + k; true) else false
let num p =
  let st = p.i in
  if peek p = '-' then p.i <- p.i + 1;
  while (match peek p with '0' .. '9' -> true | _ -> false) do p.i <- p.i + 1 done;
  ZA.of_string (String.sub p.s st (p.i - st))
let hexb p =
  eat p 'h';
  if peek p = '-' then (p.i <- p.i + 1; [])
  else begin
    let st = p.i in
    while (match peek p with '0' .. '9' | 'a' .. 'f' -> true | _ -> false) do p.i <- p.i + 1 done;
    bytes_of_hex (String.sub p.s st (p.i - st))
  end
let plist p (f : unit -> 'a) : 'a list =
  eat p '[';
  if peek p = ']' then (p.i <- p.i + 1; [])
  else begin
    let out = ref [] in
    let continue = ref true in
    while !continue do
      out := f () :: !out;
      if peek p = ',' then p.i <- p.i + 1 else (eat p ']'; continue := false)
    done;
    List.rev !out
  end

let nlen l = n_of_int (List.length l)
let some_len known l = if known then Some (nlen l) else None

let comma_sep (p : ps) (fs : (unit -> 'a) list) : 'a list =
  eat p '[';
  let vs = List.mapi (fun i f -> if i > 0 then eat p ','; f ()) fs in
  eat p ']'; vs

let any_names = [| "bool"; "u8"; "u16"; "u32"; "u64"; "i8"; "i16"; "i32"; "i64"; "f32"; "f64"; "str"; "bytes"; "none";
                   "seq"; "map"; "unit"; "char"; "some"; "newtype" |]

let iw_of_int = function 0 -> B8 | 1 -> B16 | 2 -> B32 | _ -> B64
let int_of_iw = function B8 -> 0 | B16 -> 1 | B32 -> 2 | B64 -> 3

let rec parse_any (p : ps) : sval =
  eat p 'v'; let i = ZA.to_int (num p) in eat p '(';
  let r = (match i with
    | 0 -> if lit p "true" then SBool true else (ignore (lit p "false"); SBool false)
    | 1 | 2 | 3 | 4 -> SU (iw_of_int (i - 1), n_of_zt (num p))
    | 5 | 6 | 7 | 8 -> SI (iw_of_int (i - 5), z_of_zt (num p))
    | 9 -> eat p 'f'; SF32 (n_of_zt (num p))
    | 10 -> eat p 'f'; SF64 (n_of_zt (num p))
    | 11 -> SStr (hexb p)
    | 12 -> SBytes (hexb p)
    | 13 -> ignore (lit p "()"); SNone
    | 14 -> let l = plist p (fun () -> parse_any p) in SSeq (Some (nlen l), l)
    | 15 -> let l = plist p (fun () -> parse_any p) in SMap (Some (n_of_int (List.length l / 2)), l)
    | 16 -> ignore (lit p "()"); SUnit
    | 17 -> SChar (n_of_zt (num p))
    | 18 -> SSome (parse_any p)
    | _ -> SNewtypeStruct (parse_any p)) in
  eat p ')'; r

let rec show_any (v : sval) : string =
  let w i s = Printf.sprintf "v%d(%s)" i s in
  match v with
  | SBool b -> w 0 (show_bool b)
  | SU (k, x) -> w (1 + int_of_iw k) (string_of_n x)
  | SI (k, x) -> w (5 + int_of_iw k) (string_of_z x)
  | SF32 b -> w 9 ("f" ^ string_of_n b) | SF64 b -> w 10 ("f" ^ string_of_n b)
  | SStr b -> w 11 ("h" ^ hex_or_dash b) | SBytes b -> w 12 ("h" ^ hex_or_dash b)
  | SNone -> w 13 "()"
  | SSeq (_, l) -> w 14 (show_list show_any l)
  | SMap (_, l) -> w 15 (show_list show_any l)
  | SUnit -> w 16 "()"
  | SChar c -> w 17 (string_of_n c)
  | SSome x -> w 18 (show_any x)
  | SNewtypeStruct x -> w 19 (show_any x)
  | _ -> "?any"

(* internally tagged: the payload's call tree with the tag spliced in / taken out *)
let untag (s : shape) (v : sval) : sval =
  let pred x = n_of_zt (ZA.pred (zt_of_n x)) in
  match s, v with
  | (ShUnit | ShUnitStruct), _ -> (match s with ShUnit -> SUnit | _ -> SUnitStruct)
  | ShNewtypeStruct _, SStruct (k, _ :: fs) -> SNewtypeStruct (SStruct (pred k, fs))
  | _, SStruct (k, _ :: fs) -> SStruct (pred k, fs)
  | _, SMap (Some k, _ :: _ :: kvs) -> SMap (Some (pred k), kvs)
  | _, SMap (None, _ :: _ :: kvs) -> SMap (None, kvs)
  | _, _ -> v

let rec take k l = if k <= 0 then ([], l) else (match l with [] -> ([], []) | x :: r -> let (a, b) = take (k - 1) r in (x :: a, b))

let rec parse_s (sh : shape) (p : ps) : sval =
  match sh with
  | ShBool -> if lit p "true" then SBool true else (ignore (lit p "false"); SBool false)
  | ShI w -> SI (w, z_of_zt (num p))
  | ShU w -> SU (w, n_of_zt (num p))
  | ShF32 -> eat p 'f'; SF32 (n_of_zt (num p))
  | ShF64 -> eat p 'f'; SF64 (n_of_zt (num p))
  | ShChar -> SChar (n_of_zt (num p))
  | ShStr _ -> SStr (hexb p)
  | ShDisplayStr -> SCollectStr (hexb p)
  | ShBytes _ -> SBytes (hexb p)
  | ShOption a -> if lit p "null" then SNone else (ignore (lit p "some("); let v = parse_s a p in eat p ')'; SSome v)
  | ShUnit -> ignore (lit p "()"); SUnit
  | ShUnitStruct -> ignore (lit p "()"); SUnitStruct
  | ShNewtypeStruct a -> SNewtypeStruct (parse_s a p)
  | ShSeq (known, a) -> let l = plist p (fun () -> parse_s a p) in SSeq (some_len known l, l)
  | ShTuple ss -> let l = comma_sep p (List.map (fun a () -> parse_s a p) ss) in STuple (nlen l, l)
  | ShTupleStruct ss -> let l = comma_sep p (List.map (fun a () -> parse_s a p) ss) in STupleStruct (nlen l, l)
  | ShMap (known, k, v) ->
      let l = parse_pairs k v p in
      SMap ((if known then Some (n_of_int (List.length l / 2)) else None), l)
  | ShStruct fs ->
      let l = comma_sep p (List.map (fun (_, a) () -> parse_s a p) fs) in
      (* a field whose name ends in `_s` carries #[serde(skip_serializing_if = "Option::is_none")]: the derived Serialize leaves it
         out of the announced length and calls skip_field (a no-op in the bridge) instead of serialize_field *)
      let kept = List.filter (fun (n, v) -> not (!skip_filter && skip_name n && v = SNone)) (List.map2 (fun (n, _) v -> (n, v)) fs l) in
      SStruct (nlen kept, kept)
  | ShEnum vs ->
      let (i, name, k, s) = parse_variant_head vs p in
      let r = (match k with
        | KUnit -> ignore (lit p "()"); SUnitVariant (n_of_int i, name)
        | _ -> wrap_variant k (n_of_int i) name (parse_s s p)) in
      eat p ')'; r
  | ShInternal (tag, vs) ->
      let (_, name, k, s) = parse_variant_head vs p in
      let r = (match k with
        | KUnit -> ignore (lit p "()"); SStruct (n_of_int 1, [(tag, SStr name)])
        | _ -> (match tag_splice tag name (parse_s s p) with Some v -> v | None -> failwith "tag_splice")) in
      eat p ')'; r
  | ShAdjacent (tag, content, vs) ->
      let (i, name, k, s) = parse_variant_head vs p in
      let t = (tag, SUnitVariant (n_of_int i, name)) in
      let r = (match k with
        | KUnit -> ignore (lit p "()"); SStruct (n_of_int 1, [t])
        | _ -> SStruct (n_of_int 2, [t; (content, parse_s s p)])) in
      eat p ')'; r
  | ShUntagged vs ->
      eat p 'v'; let i = ZA.to_int (num p) in eat p '(';
      let (k, s) = List.nth vs i in
      let r = (match k with KUnit -> ignore (lit p "()"); SUnit | _ -> parse_s s p) in
      eat p ')'; r
  | ShFlat fs ->
      let parts = comma_sep p (List.map (fun (n, (fl, s)) () ->
        let v = parse_s s p in
        if not fl then [SStr n; v]
        else (match v with
              | SStruct (_, ifs) -> List.concat_map (fun (fn, fv) -> [SStr fn; fv]) ifs
              | SMap (_, kvs) -> kvs
              | _ -> [])) fs) in
      SMap (None, List.concat parts)
  | ShAny -> parse_any p
  | ShIgnored -> ignore (lit p "()"); SUnit

and parse_pairs k v p : sval list =
  eat p '[';
  if peek p = ']' then (p.i <- p.i + 1; [])
  else begin
    let out = ref [] in
    let continue = ref true in
    while !continue do
      let kk = parse_s k p in eat p ','; let vv = parse_s v p in
      out := vv :: kk :: !out;
      if peek p = ',' then p.i <- p.i + 1 else (eat p ']'; continue := false)
    done;
    List.rev !out
  end

and parse_variant_head vs p =
  eat p 'v'; let i = ZA.to_int (num p) in eat p '(';
  let (name, (k, s)) = List.nth vs i in (i, name, k, s)

let rec index_of (pred : 'a -> bool) (l : 'a list) (i : int) : int option =
  match l with [] -> None | x :: r -> if pred x then Some i else index_of pred r (i + 1)

let rec show_s (sh : shape) (v : sval) : string =
  match sh, v with
  | ShBool, SBool b -> show_bool b
  | ShI _, SI (_, z) -> string_of_z z
  | ShU _, SU (_, x) -> string_of_n x
  | (ShF32, SF32 b | ShF64, SF64 b) -> "f" ^ string_of_n b
  | ShChar, SChar c -> string_of_n c
  | (ShStr _, SStr b | ShDisplayStr, SCollectStr b | ShBytes _, SBytes b) -> "h" ^ hex_or_dash b
  | ShOption _, SNone -> "null"
  | ShOption a, SSome x -> "some(" ^ show_s a x ^ ")"
  | ShUnit, SUnit | ShUnitStruct, SUnitStruct | ShIgnored, _ -> "()"
  | ShNewtypeStruct a, SNewtypeStruct x -> show_s a x
  | ShSeq (_, a), SSeq (_, l) -> show_list (show_s a) l
  | ShTuple ss, STuple (_, l) when List.length ss = List.length l -> "[" ^ String.concat "," (List.map2 show_s ss l) ^ "]"
  | ShTupleStruct ss, STupleStruct (_, l) when List.length ss = List.length l -> "[" ^ String.concat "," (List.map2 show_s ss l) ^ "]"
  | ShMap (_, k, vd), SMap (_, l) ->
      let tbl = Hashtbl.create 16 in
      let rec go l = (match l with kk :: vv :: r -> Hashtbl.replace tbl (show_s k kk) (show_s vd vv); go r | _ -> ()) in
      go l;
      let ps = List.sort compare (Hashtbl.fold (fun a b acc -> (a, b) :: acc) tbl []) in
      "[" ^ String.concat "," (List.map (fun (a, b) -> a ^ "," ^ b) ps) ^ "]"
  | ShStruct fs, SStruct (_, l) when List.length fs = List.length l ->
      "[" ^ String.concat "," (List.map2 (fun (_, a) (_, x) -> show_s a x) fs l) ^ "]"
  | ShEnum vs, SUnitVariant (i, _) -> Printf.sprintf "v%d(())" (int_of_n i)
  | ShEnum vs, SNewtypeVariant (i, _, x) -> let (_, (_, s)) = List.nth vs (int_of_n i) in Printf.sprintf "v%d(%s)" (int_of_n i) (show_s s x)
  | ShEnum vs, STupleVariant (i, _, k, l) -> let (_, (_, s)) = List.nth vs (int_of_n i) in Printf.sprintf "v%d(%s)" (int_of_n i) (show_s s (STuple (k, l)))
  | ShEnum vs, SStructVariant (i, _, k, l) -> let (_, (_, s)) = List.nth vs (int_of_n i) in Printf.sprintf "v%d(%s)" (int_of_n i) (show_s s (SStruct (k, l)))
  | ShInternal (tag, vs), _ ->
      let name = (match v with
        | SStruct (_, (_, SStr n) :: _) -> Some n
        | SMap (_, _ :: SStr n :: _) -> Some n
        | _ -> None) in
      (match name with
       | None -> "?internal"
       | Some n ->
         (match index_of (fun (vn, _) -> vn = n) vs 0 with
          | None -> "?internal"
          | Some i ->
            let (_, (k, s)) = List.nth vs i in
            (match k with
             | KUnit -> Printf.sprintf "v%d(())" i
             | _ -> Printf.sprintf "v%d(%s)" i (show_s s (untag s v)))))
  | ShAdjacent (_, _, vs), SStruct (_, (_, SUnitVariant (i, _)) :: rest) ->
      let i = int_of_n i in
      let (_, (k, s)) = List.nth vs i in
      (match k, rest with
       | KUnit, _ -> Printf.sprintf "v%d(())" i
       | _, [(_, x)] -> Printf.sprintf "v%d(%s)" i (show_s s x)
       | _, _ -> "?adjacent")
  | ShUntagged vs, _ ->
      (match index_of (fun (k, s) -> match k with KUnit -> v = SUnit | _ -> conforms s v) vs 0 with
       | Some i -> let (k, s) = List.nth vs i in
                   Printf.sprintf "v%d(%s)" i (match k with KUnit -> "()" | _ -> show_s s v)
       | None -> "?untagged")
  | ShFlat fs, SMap (_, es) ->
      let rest = ref es in
      let parts = List.map (fun (_, (fl, s)) ->
        if not fl then (match !rest with _ :: x :: r -> rest := r; show_s s x | _ -> "?flat")
        else (match s with
              | ShStruct ifs ->
                  let (mine, r) = take (2 * List.length ifs) !rest in
                  rest := r;
                  let rec vals l = (match l with _ :: x :: t -> x :: vals t | _ -> []) in
                  let vs = vals mine in
                  if List.length vs = List.length ifs then show_s s (SStruct (nlen vs, List.map2 (fun (n, _) x -> (n, x)) ifs vs)) else "?flat"
              | ShMap _ -> let mine = !rest in rest := []; show_s s (SMap (None, mine))     (* a flattened map is the last field *)
              | ShUnit -> "()"
              | _ -> "?flat")) fs in
      "[" ^ String.concat "," parts ^ "]"
  | ShAny, _ -> show_any v
  | _, _ -> "?ill-typed"

(* ---- type keys ---- *)
let shape_cache : (string, shape) Hashtbl.t = Hashtbl.create 64
let shape_of_key (k : string) : shape =
  match Hashtbl.find_opt shape_cache k with
  | Some s -> s
  | None -> let s = shape_of_expr k in Hashtbl.replace shape_cache k s; s

let bytes_of_chunks_opt = function Some cs -> Some (flat cs) | None -> None

(* SER <type> <value>: "<bytes>;<outcome of reading them back as the same type>"
   S= the documented representation (Spec/SerdeDoc.v) in preferred form, which must be exactly one well-formed
   item (reference parser of Spec/Cbor.v), read back to the same value with all bytes consumed *)
let ser_handler (args : string list) : string =
  match args with
  | [t; v] ->
      let sh = shape_of_key t in
      let value = parse_s sh { s = v; i = 0 } in
      let spec_bytes = ser (prefer (serde_doc_tree value)) in
      let spec_wf = (match one_item spec_bytes with Some e -> wf e | None -> false) in
      let vtext = (skip_filter := false; let full = parse_s sh { s = v; i = 0 } in skip_filter := true; show_s sh full) in
      let spec =
        if not spec_wf then "?spec-not-one-item"
        else if opt_in_opt sh then "-"
        else Printf.sprintf "%s;ok:%s@%d" (hex_of_bytes spec_bytes) vtext (List.length spec_bytes) in
      (* F= the complement of finding F12 evaluated by the Coq predicate (Spec/SerdeAny.v f12_free; checks/C17.py
         compares it with its own f12_hit on every case); H= every hypothesis of C17_roundtrip_any holds for this
         case (then the model must have read the value back: cross_check) *)
      let free = f12_free sh value in
      let hyp = shape_ok_any sh && not (opt_in_opt sh) && untagged_disjoint sh && conf_any sh value && free && sval_ok value in
      let aux = Printf.sprintf "\tF=%s\tH=%s\tD=%s" (if free then "free" else "hit") (if hyp then "1" else "0")
                  (if shape_ok_any sh && untagged_disjoint sh then "1" else "0") in
      (match ser_s cfg_full value with
       | None -> with_spec "refused;-" spec ^ aux
       | Some cs ->
           let bs = flat cs in
           with_spec (Printf.sprintf "%s;%s" (hex_of_bytes bs) (show_run (show_s sh) (de_auto cfg_full sh (start bs)))) spec ^ aux)
  | _ -> "?bad-SER"

(* DE <type> <hex>: deserialise arbitrary bytes *)
let de_handler (args : string list) : string =
  match args with
  | [t; hex] ->
      let sh = shape_of_key t in
      show_run (show_s sh) (de_auto cfg_full sh (start (bytes_of_hex hex)))
  | _ -> "?bad-DE"

(* the same two operations at a given configuration, without the S= column (C20) *)
let ser_at (c : cfg) (t : string) (v : string) : string =
  let sh = shape_of_key t in
  let value = parse_s sh { s = v; i = 0 } in
  (match ser_s c value with
   | None -> "refused;-"
   | Some cs -> let bs = flat cs in Printf.sprintf "%s;%s" (hex_of_bytes bs) (show_run (show_s sh) (de_auto c sh (start bs))))

let de_at (c : cfg) (t : string) (hex : string) : string =
  let sh = shape_of_key t in
  show_run (show_s sh) (de_auto c sh (start (bytes_of_hex hex)))

(* SERD <kind> <depth>: recursive Rust types are outside the shape universe; the implementation-side oracle decides (harness) *)
let () = register "SERD" (fun args -> match args with [_; d] -> "depth=" ^ d ^ ";ok" | _ -> "?bad-SERD")

let () =
  register "SER" ser_handler;
  register "DE" de_handler
