(* ops_io.ml — case handlers for the four minicbor-io machines (C14, C15, C16).
     IOR  max=<n> frames=<items> dec=<bits> cut=<k|-> sched=<toks>          blocking Reader
     IOW  max=<n> vals=<items | F | M<n>> sink=<A/E per item|->               blocking Writer (F flush, M<n> set_max_len)
     AIOR max=<n> frames=<items> dec=<bits> cut=<k|-> src=<toks> calls=<P/X string|->     AsyncReader
     AIOW max=<n> vals=<items> sink=<toks> calls=<P/X string|-> [ops=<gaps>] [fl=<toks>]   AsyncWriter
   frames items (comma separated, `-` = none): <hex> a frame with that payload, `.` a frame with the empty
   payload, r<hex> raw bytes put into the stream as they are.  dec: one bit per non-raw item, 1 = the
   payload decodes.  vals items: <hex> / `.` the content of a byte string value, !<hex> / `!.` a value
   whose Encode impl fails after having written those raw bytes.
   Result lines: see the show_* functions; the Rust harness (harness/src/ops_io.rs) prints the same text. *)
open Model
open Util
module ZA = Util.ZA

let kv (args : string list) (key : string) : string =
  let pre = key ^ "=" in
  let l = String.length pre in
  match List.find_opt (fun a -> String.length a >= l && String.sub a 0 l = pre) args with
  | Some a -> String.sub a l (String.length a - l)
  | None -> "-"

let items (s : string) : string list = if s = "-" || s = "" then [] else String.split_on_char ',' s
let hexdot (s : string) : bytes = if s = "." then [] else bytes_of_hex s

let show_ioerr (e : io_err) : string =
  match e with
  | IoInvalidLen -> "len" | IoUnexpectedEof -> "eof" | IoInner -> "io"
  | IoWriteZero -> "wz" | IoDecode -> "dec" | IoEncode -> "enc"

let show_outcome (o : bytes outcome) : string =
  match o with
  | OVal v -> "v:" ^ hex_or_dash v
  | OEnd -> "end"
  | OErr e -> "e:" ^ show_ioerr e
  | OPanic -> "panic"
  | OFuel -> "fuel"

let show_list_or_dash (l : string list) : string = if l = [] then "-" else String.concat "," l
let show_chunks (cs : bytes list) : string = if cs = [] then "-" else String.concat "|" (List.map hex_or_dash cs)

(* the byte stream and the decode table of a reader case *)
let reader_input (args : string list) : bytes * bytes list =
  let its = items (kv args "frames") in
  let bits = kv args "dec" in
  let bi = ref 0 in
  let ok = ref [] in
  let parts = List.map (fun it ->
    if String.length it > 0 && it.[0] = 'r' then bytes_of_hex (String.sub it 1 (String.length it - 1))
    else begin
      let p = hexdot it in
      let b = (!bi < String.length bits && bits.[!bi] = '1') in
      incr bi;
      if b then ok := p :: !ok;
      frame_of p
    end) its in
  let data = List.concat parts in
  let data = (match kv args "cut" with
    | "-" -> data
    | k -> fst (splitN data (n_of_string k))) in
  (data, !ok)

let ior_handler (args : string list) : string =
  let max = n_of_string (kv args "max") in
  let (data, ok) = reader_input args in
  let sched = List.map (fun t -> match t with "I" -> RIntr | "E" -> RErr | k -> RData (n_of_string k)) (items (kv args "sched")) in
  let ((outs, r), s) = fio_read_run max ok data sched in
  with_spec
    (Printf.sprintf "%s rest=%d reads=%s buflen=%d" (show_list_or_dash (List.map show_outcome outs))
       (List.length s.s_data) (string_of_n s.s_calls) (List.length r.r_buf))
    "-"

let aior_handler (args : string list) : string =
  let max = n_of_string (kv args "max") in
  let (data, ok) = reader_input args in
  let sched = List.map (fun t -> match t with "P" -> APend | "E" -> AErr | k -> AData (n_of_string k)) (items (kv args "src")) in
  let cs = kv args "calls" in
  let calls = if cs = "-" then [] else List.init (String.length cs) (fun i -> if cs.[i] = 'X' then CDrop else CPoll) in
  let ((outs, r), s) = aio_read_run max ok data sched calls in
  with_spec
    (Printf.sprintf "%s rest=%d polls=%s buflen=%d" (show_list_or_dash (List.map show_outcome outs))
       (List.length s.a_data) (string_of_n s.a_calls) (List.length r.ar_buf))
    "-"

(* the encoding outcome of a value item; a byte string is encoded by the Encoder model (Encoder.enc_bytes) *)
let enc_of_item (it : string) : enc_res =
  if String.length it > 0 && it.[0] = '!' then EncFail (hexdot (String.sub it 1 (String.length it - 1)))
  else EncOk (flat (enc_bytes (hexdot it)))

let show_wres (pre : string) (r : wres) : string =
  match r with
  | WOk n -> pre ^ ":" ^ string_of_n n
  | WErr e -> pre ^ "e:" ^ show_ioerr e
  | WPanic -> pre ^ "panic"
  | WFuel -> pre ^ "fuel"

let show_sres (r : sres) : string =
  match r with
  | SOk -> "s" | SErr e -> "se:" ^ show_ioerr e | SPanic -> "spanic" | SFuel -> "sfuel"

(* vals items of IOW may also be caller operations: F (Writer::flush; the sink letter of that position says whether
   the inner flush succeeds) and M<n> (set_max_len n; its sink letter is ignored) *)
let iow_handler (args : string list) : string =
  let max = n_of_string (kv args "max") in
  let vals = items (kv args "vals") in
  let sk = kv args "sink" in
  let ops = List.mapi (fun i it ->
    let ok = not (sk <> "-" && i < String.length sk && sk.[i] = 'E') in
    if it = "F" then WopFlush ok
    else if String.length it > 1 && it.[0] = 'M' then WopSetMax (n_of_string (String.sub it 1 (String.length it - 1)))
    else WopVal (enc_of_item it, ok)) vals in
  let ((rs, w), chunks) = fio_write_run_ops max ops in
  let show r = (match r with
    | WrVal r -> show_wres "w" r
    | WrFlush true -> "f" | WrFlush false -> "fe:io"
    | WrSetMax v -> "m" ^ string_of_n v) in
  with_spec
    (Printf.sprintf "%s sink=%s buf=%s" (show_list_or_dash (List.map show rs)) (show_chunks chunks) (hex_or_dash w.w_buf))
    "-"

(* caller operations between the protocol calls (ops=): a stream of gaps separated by `/`, one gap consumed at
   every point where the caller holds no pending future (before each write, before each (re-)issued sync, before
   the final sync); a gap is `-` or a comma separated list of  F[PX]*  (flush; after every Pending of poll_flush
   the next letter decides: P poll again, X drop; no letter left = poll again; `Fx` = `FX`)  and  M<n>
   (set_max_len n).  fl= is the poll_flush script of the sink: R / P / E per inner poll_flush, then Ready. *)
let op_of_tok (t : string) : cop =
  if String.length t > 0 && t.[0] = 'F' then
    OpFlush (List.init (String.length t - 1) (fun i -> if t.[i + 1] = 'X' || t.[i + 1] = 'x' then CDrop else CPoll))
  else if String.length t > 1 && t.[0] = 'M' then OpSetMax (n_of_string (String.sub t 1 (String.length t - 1)))
  else failwith ("bad op token " ^ t)

let gaps_of (s : string) : cop list list =
  if s = "-" || s = "" then [] else List.map (fun g -> List.map op_of_tok (items g)) (String.split_on_char '/' s)

let show_flres (r : flres) : string =
  match r with FlOk -> "f" | FlErr e -> "fe:" ^ show_ioerr e | FlDropped -> "fx" | FlFuel -> "ffuel"

let aiow_handler (args : string list) : string =
  let max = n_of_string (kv args "max") in
  let es = List.map enc_of_item (items (kv args "vals")) in
  let sched = List.map (fun t -> match t with "P" -> KPend | "E" -> KErr | k -> KAccept (n_of_string k)) (items (kv args "sink")) in
  let fsched = List.map (fun t -> match t with "P" -> KfPend | "E" -> KfErr | "R" -> KfReady | t -> failwith ("bad fl token " ^ t)) (items (kv args "fl")) in
  let cs = kv args "calls" in
  let calls = if cs = "-" then [] else List.init (String.length cs) (fun i -> if cs.[i] = 'X' then CDrop else CPoll) in
  let gaps = gaps_of (kv args "ops") in
  let ((((evss, finevs), fin), w), s) = aio_write_run_ops max es sched fsched calls gaps in
  let show_ev e = (match e with
    | OEvW (EvW r) -> show_wres "w" r | OEvW (EvS r) -> show_sres r
    | OEvF r -> show_flres r | OEvM v -> "m" ^ string_of_n v) in
  let evtxt = if evss = [] then "-" else String.concat ";" (List.map (fun (pre, evs) -> String.concat "," (List.map show_ev (pre @ evs))) evss) in
  let fintxt = String.concat "," (List.map show_ev finevs @ [(match fin with SyReady r -> show_sres r | SyPend -> "pend")]) in
  let k = s.os_w in
  with_spec
    (Printf.sprintf "%s fin=%s sink=%s calls=%s fl=%s buf=%s" evtxt fintxt (show_chunks k.k_out) (string_of_n k.k_calls)
       (string_of_n s.os_f.kf_calls) (hex_or_dash w.aw_buf))
    "-"

let () =
  register "IOR" ior_handler;
  register "IOW" iow_handler;
  register "AIOR" aior_handler;
  register "AIOW" aiow_handler
