(* ops_derive.ml — DENC / DDEC / DRT / DCOMPAT / DMETA: the derive macros as interpreted by Model/Derive*.v,
   with the documented format of Spec/DeriveDoc.v as the S= expectation.
   Schema text (checks/derivegen.py schema_text):
     schema  := def ; def ; …
     def     := S(enc,tag,transparent,dshape,[field,…]) | E(enc,tag,index_only,[variant,…])
     variant := v(idx,enc,tag,dshape,[field,…])
     field   := f(idx,b,tag,codec,synopt,fty) | k(fty)                       (k = #[cbor(skip)])
     fty     := T{descriptor of ops_types.ml} | R<def> | O(fty) | Q(fty)
     enc := a | m | -     tag := <n> | -     dshape := u | t | n     codec := d | y | c0 | c1 *)
open Model
open Util
open Ops_types
module ZA = Util.ZA

type fdesc = FD of desc | FR of int | FO of fdesc | FS of fdesc
type ddesc = DS of fdesc list | DE of (int * fdesc list) list      (* value-text view of a definition *)

let rec fty_of (d : fdesc) : fty =
  match d with FD a -> FTy (ty_of a) | FR k -> FRef (nat_of_int k) | FO a -> FOpt (fty_of a) | FS a -> FSeq (fty_of a)

(* ---- schema parser ---- *)
let until p (stop : char -> bool) : string =
  let st = p.i in
  while p.i < String.length p.s && not (stop p.s.[p.i]) do p.i <- p.i + 1 done;
  String.sub p.s st (p.i - st)
let atom p = until p (fun c -> c = ',' || c = ')' || c = ']')
let opt_n s = if s = "-" then None else Some (n_of_string s)
let enc_of s = match s with "a" -> Some AsArray | "m" -> Some AsMap | _ -> None
let shape_of s = match s with "u" -> DsUnit | "t" -> DsTuple | _ -> DsNamed

let rec parse_fty p : fdesc =
  match peek p with
  | 'T' -> p.i <- p.i + 1; eat p '{'; let s = until p (fun c -> c = '}') in eat p '}'; FD (parse_desc s)
  | 'R' -> p.i <- p.i + 1; FR (ZA.to_int (num p))
  | 'O' -> p.i <- p.i + 1; eat p '('; let a = parse_fty p in eat p ')'; FO a
  | 'Q' -> p.i <- p.i + 1; eat p '('; let a = parse_fty p in eat p ')'; FS a
  | _ -> failwith "fty"

let parse_field p : field * fdesc =
  match peek p with
  | 'k' -> p.i <- p.i + 1; eat p '('; let t = parse_fty p in eat p ')';
      ({ f_idx = N0; f_b = false; f_tag = None; f_codec = CoDefault; f_synopt = false; f_skip = true; f_ty = fty_of t }, t)
  | _ ->
      eat p 'f'; eat p '(';
      let idx = n_of_string (atom p) in eat p ',';
      let b = atom p = "1" in eat p ',';
      let tag = opt_n (atom p) in eat p ',';
      let codec = (match atom p with "y" -> CoBytes | "c0" -> CoCustom false | "c1" -> CoCustom true | _ -> CoDefault) in eat p ',';
      let syn = atom p = "1" in eat p ',';
      let t = parse_fty p in eat p ')';
      ({ f_idx = idx; f_b = b; f_tag = tag; f_codec = codec; f_synopt = syn; f_skip = false; f_ty = fty_of t }, t)

let parse_fields p = plist p (fun () -> parse_field p)

let parse_def p : def * ddesc =
  match peek p with
  | 'S' ->
      p.i <- p.i + 1; eat p '(';
      let e = enc_of (atom p) in eat p ',';
      let tag = opt_n (atom p) in eat p ',';
      let tr = atom p = "1" in eat p ',';
      let sh = shape_of (atom p) in eat p ',';
      let fs = parse_fields p in eat p ')';
      (DStruct (e, tag, tr, sh, List.map fst fs), DS (List.map snd fs))
  | _ ->
      eat p 'E'; eat p '(';
      let e = enc_of (atom p) in eat p ',';
      let tag = opt_n (atom p) in eat p ',';
      let io = atom p = "1" in eat p ',';
      let vs = plist p (fun () ->
        eat p 'v'; eat p '(';
        let idx = n_of_string (atom p) in eat p ',';
        let ve = enc_of (atom p) in eat p ',';
        let vt = opt_n (atom p) in eat p ',';
        let sh = shape_of (atom p) in eat p ',';
        let fs = parse_fields p in eat p ')';
        ({ v_idx = idx; v_enc = ve; v_tag = vt; v_shape = sh; v_fields = List.map fst fs }, (int_of_n idx, List.map snd fs))) in
      eat p ')';
      (DEnum (e, tag, io, List.map fst vs), DE (List.map snd vs))

let schema_cache : (string, schema * ddesc array) Hashtbl.t = Hashtbl.create 64
let parse_schema (s : string) : schema * ddesc array =
  match Hashtbl.find_opt schema_cache s with
  | Some r -> r
  | None ->
      let p = { s; i = 0 } in
      let defs = ref [] in
      let continue = ref true in
      while !continue do
        defs := parse_def p :: !defs;
        if peek p = ';' then p.i <- p.i + 1 else continue := false
      done;
      let l = List.rev !defs in
      let r = (List.map fst l, Array.of_list (List.map snd l)) in
      if Hashtbl.length schema_cache > 4096 then Hashtbl.reset schema_cache;
      Hashtbl.replace schema_cache s r; r

(* ---- values ---- *)
let rec parse_fval (dd : ddesc array) (d : fdesc) p : value =
  match d with
  | FD a -> parse_val a p
  | FR k -> parse_dval dd k p
  | FO a -> if lit p "null" then VNone else (ignore (lit p "some("); let v = parse_fval dd a p in eat p ')'; VSome v)
  | FS a -> VList (plist p (fun () -> parse_fval dd a p))
and parse_fvals dd (fs : fdesc list) p : value =
  eat p '[';
  let vs = List.mapi (fun i a -> if i > 0 then eat p ','; parse_fval dd a p) fs in
  eat p ']'; VList vs
and parse_dval dd (k : int) p : value =
  match dd.(k) with
  | DS fs -> parse_fvals dd fs p
  | DE vs -> eat p 'v'; let i = ZA.to_int (num p) in eat p '('; let v = parse_fvals dd (List.assoc i vs) p in eat p ')'; VVar (n_of_int i, v)

let rec show_fval (dd : ddesc array) (d : fdesc) (v : value) : string =
  match d, v with
  | FD a, _ -> show_val a v
  | FR k, _ -> show_dval dd k v
  | FO _, VNone -> "null"
  | FO a, VSome x -> "some(" ^ show_fval dd a x ^ ")"
  | FS a, VList l -> show_list (show_fval dd a) l
  | _, _ -> "?ill-typed"
and show_fvals dd fs v =
  match v with
  | VList l when List.length l = List.length fs -> "[" ^ String.concat "," (List.map2 (show_fval dd) fs l) ^ "]"
  | _ -> "?ill-typed"
and show_dval dd k v =
  match dd.(k), v with
  | DS fs, _ -> show_fvals dd fs v
  | DE vs, VVar (i, x) -> (match List.assoc_opt (int_of_n i) vs with Some fs -> Printf.sprintf "v%d(%s)" (int_of_n i) (show_fvals dd fs x) | None -> "?variant")
  | _, _ -> "?ill-typed"

let value_of dd k s = parse_dval dd k { s; i = 0 }

(* ---- ops ---- *)
let enc_result sc k v : string * bytes option =
  let ln = string_of_n (gen_len sc (nat_of_int k) v) in
  match gen_encode sc (nat_of_int k) v with
  | None -> (Printf.sprintf "refused;len=%s" ln, None)
  | Some cs -> let bs = flat cs in (Printf.sprintf "%s;len=%s" (hex_or_dash bs) ln, Some bs)

let doc_result sc k v : string =
  match doc_bytes sc (nat_of_int k) v with
  | Some bs -> Printf.sprintf "%s;len=%d" (hex_or_dash bs) (List.length bs)
  | None -> "-"

let dec_result sc dd k (bs : bytes) : string =
  show_run (show_dval dd k) (gen_decode cfg_full sc (nat_of_int k) (start bs))

let dlen_handler args =
  match args with
  | _ :: st :: k :: v :: _ ->
      let (sc, dd) = parse_schema st in
      let k = int_of_string k in
      let value = value_of dd k v in
      (* no specification side here: the property (length = bytes written) is the harness oracle O= *)
      with_spec (fst (enc_result sc k value)) "-"
  | _ -> "?bad-DLEN"

let denc_handler args =
  match args with
  | _ :: st :: k :: v :: _ ->
      let (sc, dd) = parse_schema st in
      let k = int_of_string k in
      let value = value_of dd k v in
      let r = (match snd (enc_result sc k value) with Some bs -> hex_or_dash bs | None -> "refused") in
      with_spec r (match doc_bytes sc (nat_of_int k) value with Some bs -> hex_or_dash bs | None -> "-")
  | _ -> "?bad-DENC"

let ddec_handler args =
  match args with
  | _ :: st :: k :: hex :: _ -> let (sc, dd) = parse_schema st in dec_result sc dd (int_of_string k) (bytes_of_hex hex)
  | _ -> "?bad-DDEC"

(* DRT sid schema def value expect [hex …] [c=<k,k,…>]: when a choice list is given, the FIRST re-framed encoding is not
   taken from the case line but computed by the extracted DeriveReframe.reframe_with (the domain of theorem
   C09_roundtrip_reframed) and echoed as `R<hex>:<outcome>`; the harness echoes the hex of the case line in the same
   place, so the generator's reference re-framer is compared with the Coq definition byte for byte. *)
let drt_handler args =
  match args with
  | _ :: st :: k :: v :: _expect :: rest ->
      let (sc, dd) = parse_schema st in
      let k = int_of_string k in
      let value = value_of dd k v in
      let is_choice h = String.length h >= 2 && String.sub h 0 2 = "c=" in
      let choices = List.find_opt is_choice rest in
      let reframed = List.filter (fun h -> not (is_choice h)) rest in
      (match gen_encode sc (nat_of_int k) value with
       | None -> "refused"
       | Some cs ->
           let bs = flat cs in
           let plain h = dec_result sc dd k (bytes_of_hex h) in
           let outs =
             (match choices, reframed with
              | Some c, _ :: more ->
                  let body = String.sub c 2 (String.length c - 2) in
                  let ch = if body = "" || body = "-" then [] else List.map n_of_string (String.split_on_char ',' body) in
                  (match reframe_with ch sc (nat_of_int k) value with
                   | Some rb -> Printf.sprintf "R%s:%s" (hex_or_dash rb) (dec_result sc dd k rb)
                   | None -> "Rrefused") :: List.map plain more
              | _, l -> List.map plain l) in
           String.concat ";" (hex_or_dash bs :: dec_result sc dd k bs :: outs))
  | _ -> "?bad-DRT"

(* DCOMPAT sidW schemaW sidR schemaR def value expect: S= is what theorem C10_compat promises — the extracted
   DeriveMigrate.migrate of the writer's value, read at the end of the writer's encoding; for a value with a variant the reader
   does not know outside every optional field (migrate = None) only the bytes are pinned.  Cases of the "mandatory field
   dropped" stream (expect = !missing… / !err: the pair is not schema_compat) carry no such expectation. *)
let dcompat_handler args =
  match args with
  | _ :: stw :: _ :: str :: k :: v :: rest ->
      let (scw, ddw) = parse_schema stw in
      let (scr, ddr) = parse_schema str in
      let k = int_of_string k in
      let value = value_of ddw k v in
      let outside = (match rest with e :: _ -> String.length e >= 2 && (String.sub e 0 2 = "!m" || String.sub e 0 2 = "!e") | [] -> true) in
      (match gen_encode scw (nat_of_int k) value with
       | None -> "refused"
       | Some cs ->
           let bs = flat cs in
           let r = Printf.sprintf "%s;%s" (hex_or_dash bs) (dec_result scr ddr k bs) in
           if outside then r
           else
             (match migrate scw scr (nat_of_int k) value with
              | Some v' -> with_spec r (Printf.sprintf "%s;ok:%s@%d" (hex_or_dash bs) (show_dval ddr k v') (List.length bs))
              | None -> with_spec r (hex_or_dash bs ^ ";*")))
  | _ -> "?bad-DCOMPAT"

let dmeta_handler args =
  match args with
  | _ :: sta :: _ :: stb :: k :: va :: vb :: _ ->
      let (sca, dda) = parse_schema sta in
      let (scb, ddb) = parse_schema stb in
      let k = int_of_string k in
      with_spec (fst (enc_result sca k (value_of dda k va))) (fst (enc_result scb k (value_of ddb k vb)))
  | _ -> "?bad-DMETA"

let () =
  (* DNEG <name> <schema>: does the model's acceptance predicate take the definition? *)
  register "DNEG" (fun args -> match args with _ :: st :: _ -> if schema_ok (fst (parse_schema st)) then "accepted" else "rejected" | _ -> "?bad-DNEG");
  (* DBIG: two hand-written definitions with the indices 4294967294 / 4294967295 (above idx_max: derived CborLen does not compile
     for them, so they are outside the schema model); the documented format written out by hand: map entries in ascending key order,
     absent optional values omitted; [variant index, body] *)
  register "DBIG" (fun args ->
    let b1 n = Printf.sprintf "%02x" n in
    let u8 s = let n = int_of_string s in if n < 24 then b1 n else "18" ^ b1 n in
    match args with
    | ["m"; v; e; o] ->
        let ents = [("00", Some v); ("1afffffffe", (if o = "-" then None else Some o)); ("1affffffff", (if e = "-" then None else Some e))] in
        let present = List.filter_map (fun (k, x) -> match x with Some x -> Some (k ^ u8 x) | None -> None) ents in
        Printf.sprintf "a%d%s" (List.length present) (String.concat "" present)
    | ["e"; "0"; _] -> "820080"
    | ["e"; _; x] -> "821affffffff81" ^ u8 x
    | _ -> "?bad-DBIG");
  register "DENC" denc_handler;
  register "DLEN" dlen_handler;
  register "DDEC" ddec_handler;
  register "DRT" drt_handler;
  register "DCOMPAT" dcompat_handler;
  register "DMETA" dmeta_handler
