(* ops_cfg.ml — C20: the operations of harness-cfg/ evaluated on the model *at a configuration*
   (last token of the case: letters a = alloc, s = std, h = half, or "-"). *)
open Model
open Util

let cfg_of s = Ops_core.cfg_of_string s
let needs_alloc k = List.mem k ["seq(u8)"; "string"; "seq(range(u8))"]
let cfg_types = ["u8"; "u64"; "i16"; "i64"; "usize"; "isize"; "int"; "bool"; "char"; "f32"; "f64"; "nzu8"; "nzi64"; "strref"; "bytesref";
  "bytearr4"; "cstrref"; "unit"; "opt(u8)"; "opt(opt(u8))"; "result(u8,i8)"; "arr0(u8)"; "arr3(u16)"; "arr2(opt(u8))"; "tup(u8,i8)";
  "tup(u8,u8,u8,u8)"; "range(u8)"; "rangefrom(u32)"; "rangeincl(i16)"; "bound(i32)"; "duration"; "tag"; "tagged7(u8)"; "tagged24(opt(u8))";
  "cell(u16)"; "wrapping(u8)"; "seq(u8)"; "string"; "seq(range(u8))"]
let len_types = ["u8"; "u64"; "i64"; "int"; "char"; "bool"; "f32"; "f64"; "opt(u8)"; "arr3(u16)"; "tup(u8,i8)"; "range(u8)"; "bound(i32)";
  "duration"; "tagged7(u8)"; "unit"; "tag"; "strref"; "bytesref"]

let cd_handler (args : string list) : string =
  match args with
  | [a; hex; pos; c] ->
      let c = cfg_of c in
      let st = at_pos (bytes_of_hex hex) (n_of_string pos) in
      if a = "datatype" then show_run show_ctype (datatype st)
      else if a = "f16" && not c.c_half then "absent"
      else (match Ops_core.acc_of_string a with
            | Some ac -> show_run Ops_core.show_aval (run_acc c ac st)
            | None -> "?bad-acc")
  | _ -> "?bad-CD"

let ct_handler (args : string list) : string =
  match args with
  | [k; hex; pos; c] ->
      let c = cfg_of c in
      if not (List.mem k cfg_types) || (needs_alloc k && not c.c_alloc) then "absent"
      else
        let d = Ops_types.parse_desc k in
        show_run (Ops_types.show_val d) (decode_auto c (Ops_types.ty_of d) (at_pos (bytes_of_hex hex) (n_of_string pos)))
  | _ -> "?bad-CT"

let ce_handler (args : string list) : string =
  match args with
  | [m; a; c] ->
      let c = cfg_of c in
      if m = "f16" && not c.c_half then "absent"
      else
        (* the same methods as E; result flattened (the feature matrix harness writes into one slice) *)
        let r = Ops_core.e_handler [m; a] in
        let main = (match String.index_opt r '\t' with Some i -> String.sub r 0 i | None -> r) in
        String.concat "" (String.split_on_char '|' main)
  | [m; c] -> let r = Ops_core.e_handler [m] in (match String.index_opt r '\t' with Some i -> String.sub r 0 i | None -> r)
  | _ -> "?bad-CE"

let cl_handler (args : string list) : string =
  match args with
  | [k; hex; c] ->
      let c = cfg_of c in
      if not (List.mem k len_types) then "absent"
      else
        let d = Ops_types.parse_desc k in
        let ty = Ops_types.ty_of d in
        (match decode_auto c ty (start (bytes_of_hex hex)) with
         | (Ok v, _) ->
             let n = string_of_n (len_ty ty v) in
             (match encode_ty ty v with Some cs -> n ^ ";" ^ hex_of_bytes (flat cs) | None -> n ^ ";err")
         | (Err e, _) -> "err:" ^ show_err e
         | (Panic, _) -> "panic" | (OutOfFuel, _) -> "outoffuel")
  | _ -> "?bad-CL"

(* the serde bridge at a configuration *)
let cser_handler (args : string list) : string =
  match args with [t; v; c] -> Ops_serde.ser_at (cfg_of c) t v | _ -> "?bad-CSER"
let cdes_handler (args : string list) : string =
  match args with [t; hex; c] -> Ops_serde.de_at (cfg_of c) t hex | _ -> "?bad-CDES"

let () =
  register "CSER" cser_handler;
  register "CDES" cdes_handler;
  register "CD" cd_handler;
  register "CT" ct_handler;
  register "CE" ce_handler;
  register "CL" cl_handler
