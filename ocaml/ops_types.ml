(* ops_types.ml — RT / DT: the built-in codec impls through the type-descriptor universe (Model/Types.v).
   The descriptor text is the registry key of harness/src/ops_types.rs. *)
open Model
open Util
module ZA = Util.ZA

type order = Ordered | Multiset | Set
type desc =
  | Leaf of ty
  | DOpt of desc
  | DSeq of desc * order
  | DArr of int * desc
  | DMap of desc * desc
  | DTup of desc list          (* TyTuple *)
  | DFields of desc list       (* TyFields *)
  | DEnum of desc list
  | DBound of desc
  | DTagged of n * desc
  | DSysTime

let rec ty_of (d : desc) : ty =
  match d with
  | Leaf t -> t
  | DOpt a -> TyOpt (ty_of a)
  | DSeq (a, _) -> TySeq (ty_of a)
  | DArr (k, a) -> TyArr (n_of_int k, ty_of a)
  | DMap (k, v) -> TyMap (ty_of k, ty_of v)
  | DTup l -> TyTuple (List.map ty_of l)
  | DFields l -> TyFields (List.map ty_of l)
  | DEnum l -> TyEnum (List.map ty_of l)
  | DBound a -> TyBound (ty_of a)
  | DTagged (k, a) -> TyTagged (k, ty_of a)
  | DSysTime -> TySystemTime

(* ---- descriptor parser: name | name(arg,arg,…) ---- *)
let split_args (s : string) : string list =
  (* split at top-level commas *)
  let out = ref [] and depth = ref 0 and st = ref 0 in
  String.iteri (fun i c ->
    if c = '(' then incr depth else if c = ')' then decr depth
    else if c = ',' && !depth = 0 then (out := String.sub s !st (i - !st) :: !out; st := i + 1)) s;
  List.rev (String.sub s !st (String.length s - !st) :: !out)

let starts_with p s = String.length s >= String.length p && String.sub s 0 (String.length p) = p
let num_suffix p s = int_of_string (String.sub s (String.length p) (String.length s - String.length p))

let ipv4 = Leaf (TyByteArr (n_of_int 4))
let ipv6 = Leaf (TyByteArr (n_of_int 16))
let sockv4 = DFields [ipv4; Leaf (TyU B16)]
let sockv6 = DFields [ipv6; Leaf (TyU B16)]
let duration = Leaf TyDuration

let rec parse_desc (s : string) : desc =
  match String.index_opt s '(' with
  | None ->
      (match s with
       | "u8" | "au8" -> Leaf (TyU B8) | "u16" | "au16" -> Leaf (TyU B16) | "u32" | "au32" -> Leaf (TyU B32)
       | "u64" | "usize" | "au64" | "ausize" -> Leaf (TyU B64)
       | "i8" | "ai8" -> Leaf (TyI B8) | "i16" | "ai16" -> Leaf (TyI B16) | "i32" | "ai32" -> Leaf (TyI B32)
       | "i64" | "isize" | "ai64" | "aisize" -> Leaf (TyI B64)
       | "int" -> Leaf TyInt | "bool" | "abool" -> Leaf TyBool | "char" -> Leaf TyChar | "f32" -> Leaf TyF32 | "f64" -> Leaf TyF64
       | "nzu8" -> Leaf (TyNZU B8) | "nzu16" -> Leaf (TyNZU B16) | "nzu32" -> Leaf (TyNZU B32) | "nzu64" | "nzusize" -> Leaf (TyNZU B64)
       | "nzi8" -> Leaf (TyNZI B8) | "nzi16" -> Leaf (TyNZI B16) | "nzi32" -> Leaf (TyNZI B32) | "nzi64" | "nzisize" -> Leaf (TyNZI B64)
       | "string" | "boxstr" | "cowstr" | "pathbuf" | "boxpath" | "strref" | "pathref" -> Leaf TyStr
       | "bytevec" | "bytesref" -> Leaf TyBytes
       | "cstring" | "cstrref" -> Leaf TyCStr
       | "unit" | "phantom" -> Leaf TyUnit
       | "duration" -> duration | "systemtime" -> DSysTime
       | "ipv4" -> ipv4 | "ipv6" -> ipv6 | "ip" -> DEnum [ipv4; ipv6]
       | "sockv4" -> sockv4 | "sockv6" -> sockv6 | "sock" -> DEnum [sockv4; sockv6]
       | "tag" -> Leaf TyTag
       | "tup16" -> DTup (List.map parse_desc ["u8"; "u16"; "u32"; "u64"; "i8"; "i16"; "i32"; "i64"; "bool"; "char"; "string"; "opt(u8)"; "u8"; "u8"; "u8"; "u8"])
       | _ when starts_with "bytearr" s -> Leaf (TyByteArr (n_of_int (num_suffix "bytearr" s)))
       | _ -> failwith ("bad type " ^ s))
  | Some i ->
      let name = String.sub s 0 i in
      let args = List.map parse_desc (split_args (String.sub s (i + 1) (String.length s - i - 2))) in
      let one () = (match args with [a] -> a | _ -> failwith "arity") in
      (match name with
       | "opt" -> DOpt (one ())
       | "result" -> DEnum args
       | "seq" | "deque" | "llist" -> DSeq (one (), Ordered)
       | "heap" -> DSeq (one (), Multiset)
       | "bset" | "hset" -> DSeq (one (), Set)
       | "bmap" | "hmap" -> (match args with [k; v] -> DMap (k, v) | _ -> failwith "arity")
       | "tup" -> DTup args
       | "range" | "rangeincl" -> let a = one () in DFields [a; a]
       | "rangefrom" | "rangeto" | "rangetoincl" -> DFields [one ()]
       | "bound" -> DBound (one ())
       | "box" | "wrapping" | "cell" | "refcell" -> one ()
       | _ when starts_with "arr" name -> DArr (num_suffix "arr" name, one ())
       | _ when starts_with "tagged" name -> DTagged (n_of_string (String.sub name 6 (String.length name - 6)), one ())
       | _ -> failwith ("bad type " ^ s))

(* ---- value text: type-directed parser (mirror of harness/src/canon.rs) ---- *)
type ps = { s : string; mutable i : int }
let peek p = if p.i < String.length p.s then p.s.[p.i] else '\000'
let eat p c = if peek p <> c then failwith (Printf.sprintf "expected %c at %d in %s" c p.i p.s); p.i <- p.i + 1
let lit p l = let k = String.length l in
  if p.i + k <= String.length p.s && String.sub p.s p.i k = l then (p.i <- p.i + k; true) else false
let num p =
  let st = p.i in
  if peek p = '-' then p.i <- p.i + 1;
  while (match peek p with '0' .. '9' -> true | _ -> false) do p.i <- p.i + 1 done;
  ZA.of_string (String.sub p.s st (p.i - st))
let hexb p =
  eat p 'h';
  if peek p = '-' then (p.i <- p.i + 1; [])
  else begin
    let st = p.i in
    while (match peek p with '0' .. '9' | 'a' .. 'f' -> true | _ -> false) do p.i <- p.i + 1 done;
    bytes_of_hex (String.sub p.s st (p.i - st))
  end
let plist p (f : unit -> 'a) : 'a list =
  eat p '[';
  if peek p = ']' then (p.i <- p.i + 1; [])
  else begin
    let out = ref [] in
    let continue = ref true in
    while !continue do
      out := f () :: !out;
      if peek p = ',' then p.i <- p.i + 1 else (eat p ']'; continue := false)
    done;
    List.rev !out
  end

let rec parse_val (d : desc) (p : ps) : value =
  match d with
  | Leaf t ->
      (match t with
       | TyU _ | TyNZU _ | TyChar | TyTag -> VNat (n_of_zt (num p))
       | TyI _ | TyNZI _ | TyInt -> VInt (z_of_zt (num p))
       | TyBool -> if lit p "true" then VBool true else (ignore (lit p "false"); VBool false)
       | TyF32 | TyF64 -> eat p 'f'; VFloat (n_of_zt (num p))
       | TyStr | TyBytes | TyByteArr _ | TyCStr -> VBlob (hexb p)
       | TyUnit -> ignore (lit p "()"); VUnit
       | TyDuration -> VList (plist p (fun () -> VNat (n_of_zt (num p))))
       | _ -> failwith "leaf")
  | DOpt a -> if lit p "null" then VNone else (ignore (lit p "some("); let v = parse_val a p in eat p ')'; VSome v)
  | DSeq (a, _) | DArr (_, a) -> VList (plist p (fun () -> parse_val a p))
  | DMap (k, v) ->
      eat p '[';
      if peek p = ']' then (p.i <- p.i + 1; VList [])
      else begin
        let out = ref [] in
        let continue = ref true in
        while !continue do
          let kk = parse_val k p in eat p ','; let vv = parse_val v p in
          out := vv :: kk :: !out;
          if peek p = ',' then p.i <- p.i + 1 else (eat p ']'; continue := false)
        done;
        VList (List.rev !out)
      end
  | DTup l | DFields l ->
      eat p '[';
      let vs = List.mapi (fun i a -> if i > 0 then eat p ','; parse_val a p) l in
      eat p ']'; VList vs
  | DEnum l -> eat p 'v'; let i = ZA.to_int (num p) in eat p '('; let v = parse_val (List.nth l i) p in eat p ')'; VVar (n_of_int i, v)
  | DBound a -> eat p 'v'; let i = ZA.to_int (num p) in eat p '(';
      let v = if i < 2 then parse_val a p else (ignore (lit p "()"); VUnit) in eat p ')'; VVar (n_of_int i, v)
  | DTagged (_, a) -> parse_val a p
  | DSysTime -> eat p 'v'; let i = ZA.to_int (num p) in eat p '('; let v = parse_val duration p in eat p ')'; VVar (n_of_int i, v)

(* ---- value printer with the canonicalisation the harness applies to unordered collections ---- *)
let rec dedup_sorted l = match l with a :: (b :: _ as r) -> if a = b then dedup_sorted r else a :: dedup_sorted r | _ -> l

let rec show_val (d : desc) (v : value) : string =
  match d, v with
  | Leaf t, VNat x -> string_of_n x
  | Leaf t, VInt x -> string_of_z x
  | Leaf _, VBool b -> show_bool b
  | Leaf _, VFloat b -> "f" ^ string_of_n b
  | Leaf _, VBlob b -> "h" ^ hex_or_dash b
  | Leaf _, VUnit -> "()"
  | Leaf TyDuration, VList l -> show_list (show_val (Leaf (TyU B64))) l
  | DOpt _, VNone -> "null"
  | DOpt a, VSome x -> "some(" ^ show_val a x ^ ")"
  | DSeq (a, o), VList l ->
      let ss = List.map (show_val a) l in
      let ss = (match o with Ordered -> ss | Multiset -> List.sort compare ss | Set -> dedup_sorted (List.sort compare ss)) in
      "[" ^ String.concat "," ss ^ "]"
  | DArr (_, a), VList l -> show_list (show_val a) l
  | DMap (k, vd), VList l ->
      (* last value wins per key, then sorted by key text *)
      let tbl = Hashtbl.create 16 in
      let rec go l = (match l with kk :: vv :: r -> Hashtbl.replace tbl (show_val k kk) (show_val vd vv); go r | _ -> ()) in
      go l;
      let ps = List.sort compare (Hashtbl.fold (fun a b acc -> (a, b) :: acc) tbl []) in
      "[" ^ String.concat "," (List.map (fun (a, b) -> a ^ "," ^ b) ps) ^ "]"
  | (DTup ds | DFields ds), VList l when List.length ds = List.length l -> "[" ^ String.concat "," (List.map2 show_val ds l) ^ "]"
  | DEnum ds, VVar (i, x) -> Printf.sprintf "v%d(%s)" (int_of_n i) (show_val (List.nth ds (int_of_n i)) x)
  | DBound a, VVar (i, x) -> if int_of_n i < 2 then Printf.sprintf "v%d(%s)" (int_of_n i) (show_val a x) else "v2(())"
  | DTagged (_, a), x -> show_val a x
  | DSysTime, VVar (i, x) -> Printf.sprintf "v%d(%s)" (int_of_n i) (show_val duration x)
  | _, _ -> "?ill-typed"

let rt_handler (args : string list) : string =
  match args with
  | [t; v] ->
      let d = parse_desc t in
      let ty = ty_of d in
      let value = parse_val d { s = v; i = 0 } in
      let ln = string_of_n (len_ty ty value) in
      (match encode_ty ty value with
       | None -> Printf.sprintf "refused;-;len=%s" ln
       | Some cs ->
           let bs = flat cs in
           let r = decode_auto cfg_full ty (start bs) in
           Printf.sprintf "%s;%s;len=%s" (hex_of_bytes bs) (show_run (show_val d) r) ln)
  | _ -> "?bad-RT"

let rec firstn k l = if k <= 0 then [] else (match l with [] -> [] | x :: r -> x :: firstn (k - 1) r)

let pfx_handler (args : string list) : string =
  match args with
  | [t; v] ->
      let d = parse_desc t in
      let ty = ty_of d in
      let value = parse_val d { s = v; i = 0 } in
      (match encode_ty ty value with
       | None -> "refused"
       | Some cs ->
           let bs = flat cs in
           let n = List.length bs in
           let bad = ref [] in
           for k = 0 to n - 1 do
             let out = show_run (show_val d) (decode_auto cfg_full ty (start (firstn k bs))) in
             if not (String.length out >= 7 && String.sub out 0 7 = "err:eoi") then bad := Printf.sprintf "%d:%s" k out :: !bad
           done;
           Printf.sprintf "n=%d;bad=[%s]" n (String.concat "," (List.rev !bad)))
  | _ -> "?bad-PFX"

let contains (s : string) (sub : string) : bool =
  let n = String.length s and m = String.length sub in
  let rec go i = i + m <= n && (String.sub s i m = sub || go (i + 1)) in go 0

let dt_handler (args : string list) : string =
  match args with
  | t :: hex :: rest ->
      let d = parse_desc t in
      let inp = bytes_of_hex hex in
      let pos = (match List.filter (fun x -> String.length x > 0 && x.[0] <> '=') rest with p :: _ -> n_of_string p | [] -> N0) in
      let r = decode_auto cfg_full (ty_of d) (at_pos inp pos) in
      let main = show_run (show_val d) r in
      let main = (match r with
        | (Ok v, _) when not (List.mem t ["strref"; "bytesref"; "cstrref"; "pathref"]) && not (contains t "set(" || contains t "heap(" || contains t "map(") ->
            main ^ ";re=" ^ (match encode_ty (ty_of d) v with Some cs -> hex_or_dash (flat cs) | None -> "refused")
        | _ -> main) in
      (* S=: only for cases that ask for it with an argument starting with '=' (the C04 plugin; C02 feeds DT arbitrary bytes
         and judges robustness only).  `=?` asks for what Spec/TypeSem.v (spec_ty, all features) assigns to the tree the
         reference parser finds at pos (spec_ty_lenient: the specification, open records), when the input there is one well-formed item followed by anything:
         ok:<value>@<end> / err / nothing (TXAny, or no item).  `=<value>@<pos>` additionally carries the generator's own
         expectation (a re-framed encoding of a known value: "that value at that position, or an error"); it is used when
         spec_ty does not decide, and cross-checks spec_ty when it does. *)
      let carried = (match List.filter (fun x -> String.length x > 0 && x.[0] = '=') rest with
                     | e :: _ -> Some (String.sub e 1 (String.length e - 1)) | [] -> None) in
      let st = at_pos inp pos in
      let spec =
        if carried = None || List.length st.drest > Ops_core.spec_max_len || not (tag_top (ty_of d)) then None else
        (match parse (S (nat_of_int (List.length st.drest))) st.drest with
         | Some (e, _) when wf e ->
             (match spec_ty_lenient (ty_of d) e with
              | TXOk (v, k) -> Some (Printf.sprintf "ok:%s@%s" (show_val d v) (ZA.to_string (ZA.add (zt_of_n pos) (zt_of_n k))))
              | TXErr -> Some "err"
              | TXAny -> None)
         | _ -> None) in
      let carried = (match carried with Some "?" -> None | x -> x) in
      (match spec, carried with
       | Some "err", _ -> main ^ "\tS=err"
       | Some sp, Some ca when sp <> "ok:" ^ ca -> main ^ "\tS=SPEC-DISAGREES-WITH-GENERATOR:" ^ sp ^ "<>" ^ ca
       | Some sp, _ -> main ^ "\tS=" ^ sp ^ ";*"
       | None, Some ca -> main ^ "\tS=ok:" ^ ca ^ ";*||err"
       | None, None -> main)
  | _ -> "?bad-DT"

let () =
  register "RT" rt_handler;
  register "DT" dt_handler;
  (* AIT <elem> <hex> [pos] / MIT <k> <v> <hex> [pos]: the context-free typed iterators, collected: the model of `DT seq(elem)` /
     `DT bmap(k,v)` (the built-in impls collect the `_with` twins of the same iterators) *)
  register "PNU" (fun args -> match args with [h] -> (match String.split_on_char ';' (rt_handler ["pathbuf"; "h" ^ h]) with b :: _ -> b | [] -> "?") | _ -> "?bad-PNU");
  register "RCB" (fun args -> match args with [v] -> (match String.split_on_char ';' (rt_handler ["refcell(seq(u8))"; v]) with b :: _ -> b | [] -> "?") | _ -> "?bad-RCB");
  register "AIT" (fun args -> match args with e :: rest -> dt_handler (("seq(" ^ e ^ ")") :: rest) | _ -> "?bad-AIT");
  register "MIT" (fun args -> match args with k :: v :: rest -> dt_handler (("bmap(" ^ k ^ "," ^ v ^ ")") :: rest) | _ -> "?bad-MIT");
  register "PFX" pfx_handler
