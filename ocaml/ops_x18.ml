(* ops_x18.ml — X18 / XR: the serde bridge against the native codecs on the shared data model (C18). *)
open Model
open Util
module ZA = Util.ZA

(* the value of a shared type as the native universe's `value`, to print it with the same canonical text
   (sets sorted by text, maps by key text) as the native side *)
let rec value_of_sval (v : sval) : value =
  match v with
  | SU (_, x) | SChar x -> VNat x
  | SI (_, z) -> VInt z
  | SBool b -> VBool b
  | SF32 b | SF64 b -> VFloat b
  | SStr b | SCollectStr b | SBytes b -> VBlob b
  | SNone -> VNone
  | SSome x -> VSome (value_of_sval x)
  | SSeq (_, l) | STuple (_, l) | STupleStruct (_, l) | SMap (_, l) -> VList (List.map value_of_sval l)
  | _ -> VUnit

(* X18 <shared type> <value>: bridge bytes; native bytes; native bytes read by the bridge; bridge bytes read natively *)
let x18_handler (args : string list) : string =
  match args with
  | [t; v] ->
      let d = Ops_types.parse_desc t in
      let ty = Ops_types.ty_of d in
      let value = Ops_types.parse_val d { Ops_types.s = v; i = 0 } in
      let sh = shape_of ty in
      let sb = Ops_serde.bytes_of_chunks_opt (ser_s cfg_full (embed ty value)) in
      let nb = Ops_serde.bytes_of_chunks_opt (encode_ty ty value) in
      let h = function Some b -> hex_of_bytes b | None -> "refused" in
      let r1 = (match nb with Some b -> show_run (fun x -> Ops_types.show_val d (value_of_sval x)) (de_auto cfg_full sh (start b)) | None -> "-") in
      let r2 = (match sb with Some b -> show_run (Ops_types.show_val d) (decode_auto cfg_full ty (start b)) | None -> "-") in
      Printf.sprintf "%s;%s;%s;%s" (h sb) (h nb) r1 r2
  | _ -> "?bad-X18"

(* XR <shared type> <hex>: an alternative encoding read by both decoders: "<bridge outcome>;<native outcome>" *)
let xr_handler (args : string list) : string =
  match args with
  | [t; hex] ->
      let d = Ops_types.parse_desc t in
      let ty = Ops_types.ty_of d in
      let sh = shape_of ty in
      let b = bytes_of_hex hex in
      Printf.sprintf "%s;%s" (show_run (fun x -> Ops_types.show_val d (value_of_sval x)) (de_auto cfg_full sh (start b))) (show_run (Ops_types.show_val d) (decode_auto cfg_full ty (start b)))
  | _ -> "?bad-XR"

let () =
  register "X18" x18_handler;
  register "XR" xr_handler
