(* ops_iana.ml — IANA <i>: the i-th IanaTag (declaration order): tag number, encoding, cbor_len, and the way back;
   IANAT <n>: TryFrom<Tag> for IanaTag on an arbitrary tag number.  S= carries the IANA registry number (Spec/IanaReg.v). *)
open Model
open Util

let index_of (t : iana) : int =
  let rec go i = function [] -> -1 | x :: r -> if x = t then i else go (i + 1) r in go 0 iana_all

let iana_handler (args : string list) : string =
  match args with
  | [i] ->
      (match List.nth_opt iana_all (int_of_string i) with
       | Some t ->
           let n = iana_to_tag t in
           let back = (match iana_of_tag n with Some u -> string_of_int (index_of u) | None -> "none") in
           let main = Printf.sprintf "tag=%s;enc=%s;len=%s;back=%s" (string_of_n n) (hex_of_bytes (List.concat (enc_iana t))) (string_of_n (len_iana t)) back in
           main ^ "\tS=tag=" ^ string_of_n (iana_registry t) ^ ";*"
       | None -> "?no-such-variant")
  | _ -> "?bad-IANA"

let ianat_handler (args : string list) : string =
  match args with
  | [n] -> (match iana_of_tag (n_of_string n) with Some t -> "of=" ^ string_of_int (index_of t) | None -> "of=none")
  | _ -> "?bad-IANAT"

let () =
  register "IANA" iana_handler;
  register "IANAT" ianat_handler
