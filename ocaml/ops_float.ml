(* ops_float.ml — case handlers for property C12 (floats).
     F16D <h>                 the item f9 hh hh through Decoder::f16 / f32 / f64, and the f16 result re-encoded
     F16E <f32 bits>          Encoder::f16
     FRT32 <bits> [rest]      Encoder::f32, then Decoder::f32 / f64 (wider) / f16 (narrower, has to fail)
     FRT64 <bits> [rest]      Encoder::f64, then Decoder::f64 / f32 / f16 (both have to fail)
     F16EBLK <start> <count>  FNV-1a 64 over the two result bytes of Encoder::f16 for count consecutive f32 patterns
     F16EORA <start> <count>  harness-side reference oracle over count consecutive f32 patterns (no model work)
   Floats are printed as bit patterns ("f<decimal bits>"); an f64 obtained by widening prints as "nan" when it is a
   NaN (the payload of a widened NaN is platform-defined; same canonicalisation in harness/src/ops_float.rs).
   S= comes from Spec/Float16.v only (fdecode / feq / widen / rne16) and Spec/Cbor.v (framing). *)
open Model
open Util
module ZA = Util.ZA

let showf (b : n) : string = "f" ^ string_of_n b
let showf64c (b : n) : string = if is_nan64 b then "nan" else showf b

(* wrong-width accessors: outcome class only (error positions belong to C02/C04) *)
let show_run_nopos (show : 'a -> string) ((r, s) : 'a result * dst) : string =
  match r with
  | Err e -> "err:" ^ show_err e
  | _ -> show_run show (r, s)

let hex2 (h : n) : string = hex_of_bytes (be (nat_of_int 2) h)

(* the pattern in the wider format denoting exactly the same datum, checked with the exact-value comparison *)
let spec_widen (from : fmt) (to_ : fmt) (b : n) : string =
  match widen from to_ b with
  | None -> "nan"
  | Some y -> if feq (fdecode to_ y) (fdecode from b) then showf y else "spec:not-representable"

let f16d_handler (args : string list) : string =
  match args with
  | h :: _ ->
      let h = n_of_string h in
      let inp = n_of_int 0xf9 :: be (nat_of_int 2) h in
      let st = start inp in
      let (r16, _) as o16 = dec_f16 st in
      let re = (match r16 with Ok y -> hex_of_chunks (enc_f16_bits (f32_to_f16 y)) | _ -> "none") in
      let r = Printf.sprintf "f16=%s;f32=%s;f64=%s;re=%s" (show_run showf o16) (show_run showf (dec_f32 cfg_full st))
                (show_run showf64c (dec_f64 cfg_full st)) re in
      let spec =
        if fv_is_nan (fdecode binary16 h) then "-"
        else
          let y32 = spec_widen binary16 binary32 h in
          Printf.sprintf "f16=ok:%s@3;f32=ok:%s@3;f64=ok:%s@3;re=f9%s" y32 y32 (spec_widen binary16 binary64 h) (hex2 h) in
      with_spec r spec
  | _ -> "?bad-F16D"

let f16e_handler (args : string list) : string =
  match args with
  | x :: _ ->
      let x = n_of_string x in
      with_spec (hex_of_chunks (enc_f16_bits (f32_to_f16 x))) ("f9" ^ hex2 (rne16 x))
  | _ -> "?bad-F16E"

let rest_of (args : string list) : bytes = match args with _ :: r :: _ -> bytes_of_hex r | _ -> []

let frt32_handler (args : string list) : string =
  match args with
  | x :: _ ->
      let x = n_of_string x in
      let cs = enc_f32 x in
      let st = start (flat cs @ rest_of args) in
      let r = Printf.sprintf "enc=%s;f32=%s;f64=%s;f16=%s" (hex_of_chunks cs) (show_run showf (dec_f32 cfg_full st))
                (show_run showf64c (dec_f64 cfg_full st)) (show_run_nopos showf (dec_f16 st)) in
      let spec = Printf.sprintf "enc=%s;f32=ok:%s@5;f64=ok:%s@5;f16=err:type:f32" (hex_of_bytes (enc_pref (IF32 x))) (showf x)
                   (spec_widen binary32 binary64 x) in
      with_spec r spec
  | _ -> "?bad-FRT32"

let frt64_handler (args : string list) : string =
  match args with
  | x :: _ ->
      let x = n_of_string x in
      let cs = enc_f64 x in
      let st = start (flat cs @ rest_of args) in
      let r = Printf.sprintf "enc=%s;f64=%s;f32=%s;f16=%s" (hex_of_chunks cs) (show_run showf (dec_f64 cfg_full st))
                (show_run_nopos showf (dec_f32 cfg_full st)) (show_run_nopos showf (dec_f16 st)) in
      let spec = Printf.sprintf "enc=%s;f64=ok:%s@9;f32=err:type:f64;f16=err:type:f64" (hex_of_bytes (enc_pref (IF64 x))) (showf x) in
      with_spec r spec
  | _ -> "?bad-FRT64"

(* FNV-1a, 64 bit *)
let fnv_init = 0xcbf29ce484222325L
let fnv_byte (h : int64) (b : int) : int64 = Int64.mul (Int64.logxor h (Int64.of_int b)) 0x100000001b3L
let fnv_u16 (h : int64) (v : int) : int64 = fnv_byte (fnv_byte h (v lsr 8)) (v land 255)

let f16eblk_handler (args : string list) : string =
  match args with
  | [start; count] ->
      let s = ZA.of_string start and c = int_of_string count in
      let hm = ref fnv_init and hs = ref fnv_init in
      for i = 0 to c - 1 do
        let x = n_of_zt (ZA.add s (ZA.of_int i)) in
        hm := fnv_u16 !hm (int_of_n (f32_to_f16 x));
        hs := fnv_u16 !hs (int_of_n (rne16 x))
      done;
      with_spec (Printf.sprintf "%016Lx" !hm) (Printf.sprintf "%016Lx" !hs)
  | _ -> "?bad-F16EBLK"

(* F16EORA <start> <count>: implementation-side oracle sweep; the model has nothing to compute *)
let f16eora_handler (args : string list) : string =
  match args with
  | [_; count] -> with_spec ("checked:" ^ count) "-"
  | _ -> "?bad-F16EORA"

let () =
  register "F16EORA" f16eora_handler;
  register "F16D" f16d_handler;
  register "F16E" f16e_handler;
  register "FRT32" frt32_handler;
  register "FRT64" frt64_handler;
  register "F16EBLK" f16eblk_handler
