(* util.ml — glue between the case-file text protocol and the extracted model (trusted; see DESIGN.md 7). *)
module ZA = Z
open Model

(* ---- numbers: decimal text <-> Zarith <-> the extracted inductive N / Z / positive ---- *)
let rec pos_of_zt (x : ZA.t) : positive =
  if ZA.equal x ZA.one then XH
  else if ZA.testbit x 0 then XI (pos_of_zt (ZA.shift_right x 1))
  else XO (pos_of_zt (ZA.shift_right x 1))

let rec zt_of_pos (p : positive) : ZA.t =
  match p with
  | XH -> ZA.one
  | XO q -> ZA.shift_left (zt_of_pos q) 1
  | XI q -> ZA.succ (ZA.shift_left (zt_of_pos q) 1)

let n_of_zt (x : ZA.t) : n = if ZA.sign x <= 0 then N0 else Npos (pos_of_zt x)
let zt_of_n (x : n) : ZA.t = match x with N0 -> ZA.zero | Npos p -> zt_of_pos p
let z_of_zt (x : ZA.t) : z =
  if ZA.sign x = 0 then Z0 else if ZA.sign x > 0 then Zpos (pos_of_zt x) else Zneg (pos_of_zt (ZA.neg x))
let zt_of_z (x : z) : ZA.t = match x with Z0 -> ZA.zero | Zpos p -> zt_of_pos p | Zneg p -> ZA.neg (zt_of_pos p)

let n_of_int (i : int) : n = n_of_zt (ZA.of_int i)
let int_of_n (x : n) : int = ZA.to_int (zt_of_n x)
let n_of_string (s : string) : n = n_of_zt (ZA.of_string s)
let z_of_string (s : string) : z = z_of_zt (ZA.of_string s)
let string_of_n (x : n) : string = ZA.to_string (zt_of_n x)
let string_of_z (x : z) : string = ZA.to_string (zt_of_z x)

let rec nat_of_int (i : int) : nat = if i <= 0 then O else S (nat_of_int (i - 1))
let rec int_of_nat (x : nat) : int = match x with O -> 0 | S y -> 1 + int_of_nat y

(* ---- bytes <-> hex ---- *)
let bytes_of_hex (s : string) : bytes =
  let s = if s = "-" then "" else s in
  let l = String.length s / 2 in
  List.init l (fun i -> n_of_int (int_of_string ("0x" ^ String.sub s (2 * i) 2)))

let hex_of_bytes (b : bytes) : string =
  let buf = Buffer.create 64 in
  List.iter (fun x -> Buffer.add_string buf (Printf.sprintf "%02x" (int_of_n x))) b;
  Buffer.contents buf

let hex_or_dash b = match b with [] -> "-" | _ -> hex_of_bytes b

let hex_of_chunks (cs : bytes list) : string = String.concat "|" (List.map hex_of_bytes cs)

(* ---- printing outcomes: the same text the Rust harness prints ---- *)
let show_ctype (t : ctype) : string =
  match t with
  | TBool -> "bool" | TNull -> "null" | TUndefined -> "undefined"
  | TU8 -> "u8" | TU16 -> "u16" | TU32 -> "u32" | TU64 -> "u64"
  | TI8 -> "i8" | TI16 -> "i16" | TI32 -> "i32" | TI64 -> "i64" | TInt -> "int"
  | TF16 -> "f16" | TF32 -> "f32" | TF64 -> "f64" | TSimple -> "simple"
  | TBytes -> "bytes" | TBytesIndef -> "indefinite_bytes"
  | TString -> "string" | TStringIndef -> "indefinite_string"
  | TArray -> "array" | TArrayIndef -> "indefinite_array"
  | TMap -> "map" | TMapIndef -> "indefinite_map"
  | TTag -> "tag" | TBreak -> "break"
  | TUnknown n -> Printf.sprintf "0x%x" (int_of_n n)

let show_err (e : err) : string =
  match e with
  | EndOfInput -> "eoi"
  | TypeMismatch t -> "type:" ^ show_ctype t
  | Overflow n -> "overflow:" ^ string_of_n n
  | InvalidChar n -> "invalidchar:" ^ string_of_n n
  | Utf8 -> "utf8"
  | TagMismatch t -> "tag:" ^ string_of_n t
  | UnknownVariant n -> "variant:" ^ string_of_n n
  | MissingValue n -> "missing:" ^ string_of_n n
  | Message -> "message"
  | Custom -> "custom"

(* outcome of an M computation: "ok:<v>@<pos>" | "err:<class>@<pos>" | "panic" | "outoffuel" *)
let show_run (show : 'a -> string) ((r, s) : 'a result * dst) : string =
  match r with
  | Ok a -> Printf.sprintf "ok:%s@%s" (show a) (string_of_n s.dpos)
  | Err e -> Printf.sprintf "err:%s@%s" (show_err e) (string_of_n s.dpos)
  | Panic -> "panic"
  | OutOfFuel -> "outoffuel"

let show_bool b = if b then "true" else "false"
let show_unit () = "()"
let show_opt show o = match o with Some x -> show x | None -> "none"
let show_list show l = "[" ^ String.concat "," (List.map show l) ^ "]"

(* ---- handler registry: first token of a case line -> handler (rest of tokens -> result line) ---- *)
let handlers : (string, string list -> string) Hashtbl.t = Hashtbl.create 64
let register (op : string) (h : string list -> string) = Hashtbl.replace handlers op h

let split_ws (s : string) : string list =
  List.filter (fun x -> x <> "") (String.split_on_char ' ' s)

(* result [TAB S=<spec expectation>] *)
let with_spec (r : string) (s : string) : string = r ^ "\tS=" ^ s
