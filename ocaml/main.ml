(* main.ml — driver: one case per input line, one result per output line, same order. *)
let () =
  let ic = if Array.length Sys.argv > 1 then open_in Sys.argv.(1) else stdin in
  let oc = if Array.length Sys.argv > 2 then open_out Sys.argv.(2) else stdout in
  (try
     while true do
       let line = input_line ic in
       let out =
         (match Util.split_ws line with
          | [] -> ""
          | op :: args ->
              (match Hashtbl.find_opt Util.handlers op with
               | Some h -> (try h args with Stack_overflow -> "?stack-overflow" | e -> "?exn:" ^ Printexc.to_string e)
               | None -> "?unknown-op")) in
       output_string oc out; output_char oc '\n'
     done
   with End_of_file -> ());
  close_out oc
