(* ops_seq.ml — SEQ: sequences of decoder calls on one decoder; SZ: Size::head/tail; DROPS (class and position only). *)
open Model
open Util

let show_oval (d : Ops_types.desc option) (v : oval) : string =
  match v with
  | RV a -> Ops_core.show_aval a
  | RT x -> (match d with Some d -> Ops_types.show_val d x | None -> "?")
  | RC t -> show_ctype t
  | RP p -> string_of_n p
  | RU -> "()"

let seq_handler (args : string list) : string =
  match args with
  | hex :: rest ->
      let inp = bytes_of_hex hex in
      let ops = (match rest with o :: _ -> List.filter (fun x -> x <> "") (String.split_on_char ';' o) | [] -> []) in
      let st = ref (start inp) in
      let outs = List.map (fun op ->
        let (kind, arg) = (match String.index_opt op ':' with
          | Some i -> (String.sub op 0 i, String.sub op (i + 1) (String.length op - i - 1)) | None -> (op, "")) in
        let (dop, desc) = (match kind with
          | "a" -> ((match Ops_core.acc_of_string arg with Some a -> Some (OAcc a) | None -> None), None)
          | "p" -> ((match Ops_core.acc_of_string arg with Some a -> Some (OProbe a) | None -> None), None)
          | "t" -> let d = Ops_types.parse_desc arg in (Some (OType (Ops_types.ty_of d)), Some d)
          | "dt" -> (Some ODatatype, None)
          | "sp" -> (Some (OSetPos (n_of_string arg)), None)
          | "pos" -> (Some OPosition, None)
          | _ -> (None, None)) in
        match dop with
        | None -> "?bad-op"
        | Some o ->
            let (r, s') = run_op cfg_full inp o !st in
            st := s';
            show_run (show_oval desc) (r, s')) ops in
      String.concat "," outs
  | _ -> "?bad-SEQ"

let sz_handler (args : string list) : string =
  match args with
  | ["head"; b] -> (match size_head (n_of_string b) with Some n -> "ok:" ^ string_of_n n | None -> "err")
  | ["tail"; hex] ->
      (match size_tail (bytes_of_hex hex) with
       | Ok SzHead -> "ok:head"
       | Ok (SzBytes n) -> "ok:bytes:" ^ string_of_n n
       | Ok (SzItems n) -> "ok:items:" ^ string_of_n n
       | Ok SzIndef -> "ok:indef"
       | Err e -> "err:" ^ show_err e
       | Panic -> "panic" | OutOfFuel -> "outoffuel")
  | _ -> "?bad-SZ"

let drops_handler (args : string list) : string =
  match args with
  | [k; hex] ->
      let key = (match k with
        | "arr0" -> "arr0(u8)" | "arr1" -> "arr1(u8)" | "arr3" -> "arr3(u8)" | "arr8" -> "arr8(u8)" | "seq" -> "seq(u8)"
        | "opt" -> "opt(u8)" | "tup3" -> "tup(u8,u8,u8)" | "bset" -> "bset(u8)" | "range" -> "range(u8)" | _ -> failwith "kind") in
      let d = Ops_types.parse_desc key in
      (match decode_auto cfg_full (Ops_types.ty_of d) (start (bytes_of_hex hex)) with
       | (Ok _, s) -> "ok@" ^ string_of_n s.dpos
       | (Err e, s) -> Printf.sprintf "err:%s@%s" (show_err e) (string_of_n s.dpos)
       | (Panic, _) -> "panic" | (OutOfFuel, _) -> "outoffuel")
  | _ -> "?bad-DROPS"

let () =
  register "SEQ" seq_handler;
  register "SZ" sz_handler;
  register "DROPS" drops_handler
