(* ops_token.ml — case handlers for C11 / C19: TK (tokenise + re-encode), TKE (encode tokens, tokenise
   back), DP (diagnostic display).  Result texts must match harness/src/ops_token.rs exactly. *)
open Model
open Util
module ZA = Util.ZA

(* ---- canonical token text ---- *)
let show_int_pair ((neg, v) : bool * n) : string =
  if neg then ZA.to_string (ZA.pred (ZA.neg (zt_of_n v))) else string_of_n v

let show_token (t : token) : string =
  match t with
  | TkBool b -> "Bool(" ^ show_bool b ^ ")"
  | TkU8 x -> "U8(" ^ string_of_n x ^ ")" | TkU16 x -> "U16(" ^ string_of_n x ^ ")"
  | TkU32 x -> "U32(" ^ string_of_n x ^ ")" | TkU64 x -> "U64(" ^ string_of_n x ^ ")"
  | TkI8 x -> "I8(" ^ string_of_z x ^ ")" | TkI16 x -> "I16(" ^ string_of_z x ^ ")"
  | TkI32 x -> "I32(" ^ string_of_z x ^ ")" | TkI64 x -> "I64(" ^ string_of_z x ^ ")"
  | TkInt i -> "Int(" ^ show_int_pair i ^ ")"
  | TkF16 x -> "F16(" ^ string_of_n x ^ ")" | TkF32 x -> "F32(" ^ string_of_n x ^ ")"
  | TkF64 x -> "F64(" ^ string_of_n x ^ ")"
  | TkBytes b -> "Bytes(" ^ hex_or_dash b ^ ")" | TkString b -> "String(" ^ hex_or_dash b ^ ")"
  | TkArray x -> "Array(" ^ string_of_n x ^ ")" | TkMap x -> "Map(" ^ string_of_n x ^ ")"
  | TkTag x -> "Tag(" ^ string_of_n x ^ ")" | TkSimple x -> "Simple(" ^ string_of_n x ^ ")"
  | TkBreak -> "Break" | TkNull -> "Null" | TkUndefined -> "Undefined"
  | TkBeginBytes -> "BeginBytes" | TkBeginString -> "BeginString"
  | TkBeginArray -> "BeginArray" | TkBeginMap -> "BeginMap"

let show_titem (i : titem) : string =
  match i with IOk t -> show_token t | IErr e -> "Err(" ^ show_err e ^ ")"

let show_list_dash show l = match l with [] -> "-" | _ -> String.concat "," (List.map show l)

let parse_token (s : string) : token =
  let name, arg =
    match String.index_opt s '(' with
    | Some i -> (String.sub s 0 i, String.sub s (i + 1) (String.length s - i - 2))
    | None -> (s, "") in
  match name with
  | "Bool" -> TkBool (arg = "true")
  | "U8" -> TkU8 (n_of_string arg) | "U16" -> TkU16 (n_of_string arg)
  | "U32" -> TkU32 (n_of_string arg) | "U64" -> TkU64 (n_of_string arg)
  | "I8" -> TkI8 (z_of_string arg) | "I16" -> TkI16 (z_of_string arg)
  | "I32" -> TkI32 (z_of_string arg) | "I64" -> TkI64 (z_of_string arg)
  | "Int" ->
      let v = ZA.of_string arg in
      if ZA.sign v < 0 then TkInt (true, n_of_zt (ZA.pred (ZA.neg v))) else TkInt (false, n_of_zt v)
  | "F16" -> TkF16 (n_of_string arg) | "F32" -> TkF32 (n_of_string arg) | "F64" -> TkF64 (n_of_string arg)
  | "Bytes" -> TkBytes (bytes_of_hex arg) | "String" -> TkString (bytes_of_hex arg)
  | "Array" -> TkArray (n_of_string arg) | "Map" -> TkMap (n_of_string arg)
  | "Tag" -> TkTag (n_of_string arg) | "Simple" -> TkSimple (n_of_string arg)
  | "Break" -> TkBreak | "Null" -> TkNull | "Undefined" -> TkUndefined
  | "BeginBytes" -> TkBeginBytes | "BeginString" -> TkBeginString
  | "BeginArray" -> TkBeginArray | "BeginMap" -> TkBeginMap
  | _ -> failwith ("bad token " ^ s)

let ok_tokens (l : titem list) : token list =
  List.filter_map (fun i -> match i with IOk t -> Some t | IErr _ -> None) l

let show_reenc (ts : token list) : string =
  match enc_tokens ts with
  | Some cs -> (match cs with [] -> "-" | _ -> hex_of_chunks cs)
  | None -> "err"

(* the reference parser's view of the whole input as a sequence of well-formed items *)
let ref_items (bs : bytes) : enc list option =
  match items (S (nat_of_int (List.length bs))) bs with
  | Some es when List.for_all wf es -> Some es
  | _ -> None

(* ---- TK <hex> [pref] ---- *)
let tk_handler (args : string list) : string =
  match args with
  | hex :: rest ->
      let bs = bytes_of_hex hex in
      let flag = (match rest with "pref" :: _ -> true | _ -> false) in
      let r =
        (match tokenise cfg_full bs with
         | Ok l -> show_list_dash show_titem l ^ ";" ^ show_reenc (ok_tokens l)
         | Err _ -> "?err" | Panic -> "panic" | OutOfFuel -> "outoffuel") in
      let es = ref_items bs in
      let side = (match es with Some es -> List.for_all utf8_ok es | None -> false) in
      let nosnan = (match es with Some es -> List.for_all no_snan16 es | None -> false) in
      (* preferred serialisation in the sense of C11: every head minimal, indefinite containers allowed *)
      let is_pref = (match es with Some es -> List.concat_map (fun e -> ser (prefer e)) es = bs | None -> false) in
      let spec =
        (match es with
         | Some es when side && nosnan ->
             let ts = List.concat_map toks es in
             show_list_dash show_token ts ^ ";" ^ hex_or_dash (List.concat_map (fun e -> ser (prefer e)) es)
         | _ -> "-") in
      (* a `pref` flag that the reference parser does not confirm is a generator bug: make it visible *)
      let r = if flag && not (side && nosnan && is_pref) then "?bad-flag:" ^ r else r in
      with_spec r spec
  | _ -> "?bad-TK"

(* ---- TKE <token,token,...> ---- *)
let show_tval (v : tval) : string =
  match v with
  | TVInt z -> "i" ^ string_of_z z
  | TVFloat (w, b) -> "f" ^ string_of_n w ^ ":" ^ string_of_n b
  | VBytes' b -> "b" ^ hex_or_dash b | VText b -> "t" ^ hex_or_dash b
  | VArrayH x -> "A" ^ string_of_n x | VMapH x -> "M" ^ string_of_n x | VTagH x -> "T" ^ string_of_n x
  | VSimple' x -> "s" ^ string_of_n x
  | VBreak -> "brk" | VBeginBytes -> "bb" | VBeginText -> "bt" | VBeginArray -> "ba" | VBeginMap -> "bm"

let tke_handler (args : string list) : string =
  match args with
  | [txt] ->
      let ts = if txt = "-" then [] else List.map parse_token (String.split_on_char ',' txt) in
      (match enc_tokens ts with
       | None -> with_spec "err" (if tokens_ok ts then "?spec-expects-success" else "-")
       | Some cs ->
           let bs = List.concat cs in
           let lens = String.concat "," (List.map (fun t -> string_of_n (len_token t)) ts) in
           let back, veq =
             (match tokenise cfg_full bs with
              | Ok l ->
                  (show_list_dash show_titem l,
                   List.length l = List.length ts &&
                   List.for_all2 (fun i t -> match i with IOk t' -> tok_val t' = tok_val t | IErr _ -> false) l ts)
              | Err _ -> ("?err", false) | Panic -> ("panic", false) | OutOfFuel -> ("outoffuel", false)) in
           let r = Printf.sprintf "%s;len=%s;%s;veq=%b" (match cs with [] -> "-" | _ -> hex_of_chunks cs)
                     (if lens = "" then "-" else lens) back veq in
           (* C11_converse: for tokens_ok sequences the values must come back *)
           if tokens_ok ts && not veq then with_spec r "?spec-expects-veq" else with_spec r "-")
  | _ -> "?bad-TKE"

(* ---- DP <hex> ---- *)
let esc_byte (buf : Buffer.t) (b : int) : unit =
  if b <= 0x20 || b >= 0x7f || b = 0x25 || b = 0x3c || b = 0x3e then Buffer.add_string buf (Printf.sprintf "%%%02x" b)
  else Buffer.add_char buf (Char.chr b)

let show_pieces (ps : piece list) : string =
  let buf = Buffer.create 256 in
  List.iter (fun p ->
    match p with
    | PLit b -> List.iter (fun x -> esc_byte buf (int_of_n x)) b
    | PFloat (w, x) -> Buffer.add_string buf (Printf.sprintf "<f%s:%s>" (string_of_n w) (string_of_n x))
    | PErr e -> Buffer.add_string buf ("<err:" ^ show_err e ^ ">")) ps;
  Buffer.contents buf

let fnv1a (s : string) : string =
  let h = ref 0xcbf29ce484222325L in
  String.iter (fun c -> h := Int64.mul (Int64.logxor !h (Int64.of_int (Char.code c))) 0x100000001b3L) s;
  Printf.sprintf "%016Lx" !h

let summarise (s : string) : string =
  if String.length s <= 2000 then (if s = "" then "-" else s)
  else Printf.sprintf "len=%d;fnv=%s" (String.length s) (fnv1a s)

let dp_handler (args : string list) : string =
  match args with
  | hex :: _ ->
      let bs = bytes_of_hex hex in
      let r =
        (match display cfg_full bs with
         | DDone ps -> summarise (show_pieces ps)
         | DPanic -> "panic" | DFuel -> "outoffuel") in
      let spec =
        (match one_item bs with
         | Some e when wf e && utf8_ok e -> summarise (show_pieces (render32 e))
         | _ -> "-") in
      with_spec r spec
  | _ -> "?bad-DP"

let () =
  register "TK" tk_handler;
  register "TKE" tke_handler;
  register "DP" dp_handler
