(* ops_sink.ml — SINK: raw write_all sequences on a sink; SINKE: encode a registry value into a sink. *)
open Model
open Util

let kind_of_string s =
  match s with
  | "slice" -> KSlice | "cursor_slice" -> KCursorSlice | "cursor_array" -> KCursorArray
  | "cursor_box" -> KCursorBox | "vec" -> KVec | "io_vec" -> KIoVec | "io_slice" -> KIoSlice | "io_trickle" -> KIoTrickle
  | _ -> failwith "kind"

let show_sink ((ok, s) : bool * sink) : string =
  Printf.sprintf "%s;written=%s;pos=%s" (if ok then "ok" else "err") (hex_or_dash s.s_written) (string_of_n s.s_pos)

let sink_handler (args : string list) : string =
  match args with
  | [k; cap; chunks] ->
      let cs = if chunks = "." then [] else List.map bytes_of_hex (String.split_on_char '|' chunks) in
      show_sink (run_sink (sink_new (kind_of_string k) (n_of_string cap)) cs)
  | _ -> "?bad-SINK"

let sinke_handler (args : string list) : string =
  match args with
  | [k; cap; t; v] ->
      let d = Ops_types.parse_desc t in
      let value = Ops_types.parse_val d { Ops_types.s = v; i = 0 } in
      (match encode_ty (Ops_types.ty_of d) value with
       | None -> "refused"
       | Some cs -> show_sink (run_sink (sink_new (kind_of_string k) (n_of_string cap)) cs))
  | _ -> "?bad-SINKE"

(* EWM <cap>: hand-written nested Encode impls (12 bytes) into a slice: fits iff cap >= 12 (C13_sinks); the error kind is judged by the harness *)
let () = register "EWM" (fun args -> match args with [c] -> if int_of_string c >= 12 then "ok" else "err" | _ -> "?bad-EWM")

let () =
  register "SINK" sink_handler;
  register "SINKE" sinke_handler
