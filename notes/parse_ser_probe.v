From Coq Require Import List NArith Lia Bool.
Import ListNotations.
Local Open Scope N_scope.

Inductive width := W0 | W1 | W2.
Definition fits (w : width) (n : N) : bool :=
  match w with W0 => n <? 24 | W1 => n <? 256 | W2 => n <? 65536 end.
Definition head (mt : N) (w : width) (n : N) : list N :=
  match w with
  | W0 => [mt * 32 + n]
  | W1 => [mt * 32 + 24; n]
  | W2 => [mt * 32 + 25; n / 256; n mod 256]
  end.

Inductive enc :=
| EU (w : width) (n : N)
| EArr (w : width) (es : list enc)
| EArrI (es : list enc)
| ETag (w : width) (t : N) (e : enc).

Fixpoint ser (e : enc) : list N :=
  match e with
  | EU w n => head 0 w n
  | EArr w es => head 4 w (N.of_nat (length es)) ++ flat_map ser es
  | EArrI es => [159] ++ flat_map ser es ++ [255]
  | ETag w t e => head 6 w t ++ ser e
  end.

Fixpoint wf (e : enc) : bool :=
  match e with
  | EU w n => fits w n
  | EArr w es => fits w (N.of_nat (length es)) && forallb wf es
  | EArrI es => forallb wf es
  | ETag w t e => fits w t && wf e
  end.

Fixpoint size (e : enc) : nat :=
  match e with
  | EU _ _ => 1
  | EArr _ es => S (fold_right (fun e a => size e + a)%nat 0%nat es)
  | EArrI es => S (fold_right (fun e a => size e + a)%nat 0%nat es)
  | ETag _ _ e => S (size e)
  end.

(* reference parser *)
Definition read_head (bs : list N) : option (N * width * N * list N) :=
  match bs with
  | [] => None
  | b :: r =>
    let mt := b / 32 in let ai := b mod 32 in
    if ai <? 24 then Some (mt, W0, ai, r)
    else if ai =? 24 then match r with x :: r' => Some (mt, W1, x, r') | _ => None end
    else if ai =? 25 then match r with x :: y :: r' => Some (mt, W2, x * 256 + y, r') | _ => None end
    else None
  end.



Definition parser := list N -> option (enc * list N).
Fixpoint parse_n (p : parser) (k : nat) (bs : list N) (acc : list enc) : option (list enc * list N) :=
  match k with
  | O => Some (rev acc, bs)
  | S k => match p bs with Some (e, r) => parse_n p k r (e :: acc) | None => None end
  end.
Definition starts (b : N) (bs : list N) : bool := match bs with x :: _ => x =? b | [] => false end.
Fixpoint parse_brk (p : parser) (k : nat) (bs : list N) (acc : list enc) : option (list enc * list N) :=
  match k with O => None | S k =>
  if starts 255 bs then Some (rev acc, tl bs)
  else match p bs with Some (e, r) => parse_brk p k r (e :: acc) | None => None end
  end.
Definition dispatch (p : parser) (bs : list N) : option (enc * list N) :=
  if starts 159 bs then
    match parse_brk p (S (length bs)) (tl bs) [] with Some (es, r') => Some (EArrI es, r') | None => None end
  else match read_head bs with
  | Some (mt, w, n, r) =>
      if mt =? 0 then Some (EU w n, r)
      else if mt =? 4 then match parse_n p (N.to_nat n) r [] with Some (es, r') => Some (EArr w es, r') | None => None end
      else if mt =? 6 then match p r with Some (e, r') => Some (ETag w n e, r') | None => None end
      else None
  | None => None
  end.
Fixpoint parse (fuel : nat) (bs : list N) {struct fuel} : option (enc * list N) :=
  match fuel with O => None | S fuel => dispatch (parse fuel) bs end.

Definition byte_ok (b : N) := b < 256.

(* custom induction principle *)
Section ind.
  Variable P : enc -> Prop.
  Hypothesis HU : forall w n, P (EU w n).
  Hypothesis HA : forall w es, Forall P es -> P (EArr w es).
  Hypothesis HI : forall es, Forall P es -> P (EArrI es).
  Hypothesis HT : forall w t e, P e -> P (ETag w t e).
  Fixpoint enc_ind' (e : enc) : P e :=
    match e with
    | EU w n => HU w n
    | EArr w es => HA w es ((fix go l : Forall P l := match l with [] => Forall_nil _ | x :: l' => Forall_cons _ (enc_ind' x) (go l') end) es)
    | EArrI es => HI es ((fix go l : Forall P l := match l with [] => Forall_nil _ | x :: l' => Forall_cons _ (enc_ind' x) (go l') end) es)
    | ETag w t e => HT w t e (enc_ind' e)
    end.
End ind.

Lemma read_head_head mt w n r : mt < 8 -> fits w n = true ->
  read_head (head mt w n ++ r) = Some (mt, w, n, r).
Proof.
  intros Hmt Hf. destruct w; cbn [fits] in Hf; apply N.ltb_lt in Hf; unfold head, read_head; cbn [app].
  - replace ((mt * 32 + n) / 32) with mt by (apply N.div_unique with n; lia).
    replace ((mt * 32 + n) mod 32) with n by (apply N.mod_unique with mt; lia).
    destruct (N.ltb_spec n 24); [reflexivity|lia].
  - replace ((mt * 32 + 24) / 32) with mt by (apply N.div_unique with 24; lia).
    replace ((mt * 32 + 24) mod 32) with 24 by (apply N.mod_unique with mt; lia).
    reflexivity.
  - replace ((mt * 32 + 25) / 32) with mt by (apply N.div_unique with 25; lia).
    replace ((mt * 32 + 25) mod 32) with 25 by (apply N.mod_unique with mt; lia).
    cbn. f_equal. f_equal. f_equal.
    rewrite N.mul_comm. symmetry. apply N.div_mod. lia.
Qed.
Print Assumptions read_head_head.


Lemma head_first mt w n : mt < 8 -> fits w n = true ->
  exists b tl, head mt w n = b :: tl /\ b <> 255 /\ (b = 159 -> False).
Proof.
  intros Hm Hf. destruct w; cbn [fits] in Hf; apply N.ltb_lt in Hf; unfold head;
  eexists; eexists; (split; [reflexivity|]); split; lia.
Qed.

Lemma ser_first e : wf e = true -> exists b tl, ser e = b :: tl /\ b <> 255.
Proof.
  destruct e; cbn [ser wf]; intro H.
  - destruct (head_first 0 w n) as (b & tl & E & ? & ?); [lia|exact H|]. rewrite E. eauto.
  - apply andb_prop in H as [H _]. destruct (head_first 4 w (N.of_nat (length es))) as (b & tl & E & ? & ?); [lia|exact H|].
    rewrite E. cbn. eauto.
  - cbn. exists 159, (flat_map ser es ++ [255]). split; [reflexivity|lia].
  - apply andb_prop in H as [H _]. destruct (head_first 6 w t) as (b & tl & E & ? & ?); [lia|exact H|].
    rewrite E. cbn. eauto.
Qed.

Definition good (p : parser) (e : enc) := forall r, p (ser e ++ r) = Some (e, r).

Lemma parse_n_ok p es : Forall (good p) es -> forall r acc,
  parse_n p (length es) (flat_map ser es ++ r) acc = Some (rev acc ++ es, r).
Proof.
  induction 1 as [|e es He _ IH]; intros r acc; cbn [length parse_n flat_map app].
  - rewrite app_nil_r. reflexivity.
  - rewrite <- app_assoc, He, IH. cbn [rev]. rewrite <- app_assoc. reflexivity.
Qed.

Lemma parse_brk_ok p es : Forall (good p) es -> Forall (fun e => wf e = true) es -> forall r acc k,
  (length es < k)%nat ->
  parse_brk p k (flat_map ser es ++ 255 :: r) acc = Some (rev acc ++ es, r).
Proof.
  induction 1 as [|e es He _ IH]; intros Hw r acc k Hk; destruct k as [|k]; cbn [length] in Hk; try lia;
  cbn [parse_brk flat_map app].
  - cbn. rewrite app_nil_r. reflexivity.
  - inversion Hw as [|? ? We Ws]; subst.
    destruct (ser_first e We) as (b & t & E & Hb).
    rewrite <- app_assoc.
    assert (S0: starts 255 (ser e ++ flat_map ser es ++ 255 :: r) = false).
    { rewrite E. cbn. apply N.eqb_neq. exact Hb. }
    rewrite S0, He, IH by (auto; lia). cbn [rev]. rewrite <- app_assoc. reflexivity.
Qed.

Lemma size_ge es : Forall (fun e => (1 <= size e)%nat) es.
Proof. induction es; constructor; auto. destruct a; cbn; lia. Qed.

Lemma len_ser_pos e : (1 <= length (ser e))%nat.
Proof. destruct e; cbn [ser]; try destruct w; cbn; rewrite ?app_length; cbn; lia. Qed.

Lemma len_flat es : (length es <= length (flat_map ser es))%nat.
Proof. induction es as [|e es IH]; cbn; [lia|]. rewrite app_length. pose proof (len_ser_pos e). lia. Qed.

Theorem parse_ser : forall e, wf e = true -> forall fuel, (size e <= fuel)%nat -> good (parse fuel) e.
Proof.
  induction e as [w n|w es IH|es IH|w t e IH] using enc_ind'; cbn [wf size]; intros Hw fuel Hf r;
  (destruct fuel as [|fuel]; [lia|]); cbn [parse ser]; unfold dispatch.
  - destruct (head_first 0 w n) as (b & tl & E & _ & Hb); [lia|exact Hw|].
    assert (S0: starts 159 (head 0 w n ++ r) = false).
    { rewrite E. cbn. apply N.eqb_neq. intro; subst; auto. }
    rewrite S0, read_head_head by (auto; lia). reflexivity.
  - apply andb_prop in Hw as [Hw1 Hw2].
    destruct (head_first 4 w (N.of_nat (length es))) as (b & tl & E & _ & Hb); [lia|exact Hw1|].
    rewrite <- app_assoc.
    assert (S0: starts 159 (head 4 w (N.of_nat (length es)) ++ flat_map ser es ++ r) = false).
    { rewrite E. cbn. apply N.eqb_neq. intro; subst; auto. }
    rewrite S0, read_head_head by (auto; lia). cbn [N.eqb].
    rewrite Nnat.Nat2N.id.
    rewrite parse_n_ok; [reflexivity|].
    rewrite forallb_forall in Hw2. rewrite Forall_forall in *. intros x Hx. apply IH; auto.
    clear - Hf Hx. induction es as [|y es IHs]; [destruct Hx|]. cbn in *. destruct Hx; [subst; lia|]. specialize (IHs ltac:(lia) H). lia.
  - cbn [app starts]. rewrite N.eqb_refl. cbn [tl].
    rewrite <- app_assoc. cbn [app].
    rewrite parse_brk_ok with (acc := []); [reflexivity| | |].
    + rewrite forallb_forall in Hw. rewrite Forall_forall in *. intros x Hx. apply IH; auto.
      clear - Hf Hx. induction es as [|y es IHs]; [destruct Hx|]. cbn in *. destruct Hx; [subst; lia|]. specialize (IHs ltac:(lia) H). lia.
    + rewrite forallb_forall in Hw. rewrite Forall_forall. auto.
    + cbn [length]. rewrite !app_length. pose proof (len_flat es). cbn. lia.
  - apply andb_prop in Hw as [Hw1 Hw2].
    destruct (head_first 6 w t) as (b & tl & E & _ & Hb); [lia|exact Hw1|].
    rewrite <- app_assoc.
    assert (S0: starts 159 (head 6 w t ++ ser e ++ r) = false).
    { rewrite E. cbn. apply N.eqb_neq. intro; subst; auto. }
    rewrite S0, read_head_head by (auto; lia). cbn [N.eqb Pos.eqb].
    rewrite IH by (auto; lia). reflexivity.
Qed.
Print Assumptions parse_ser.
