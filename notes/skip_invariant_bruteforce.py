# Brute-force validation of the skip() simulation invariant proposed for C06 (design-time experiment).
import itertools, sys
M64 = (1<<64)-1
# token stream of well-formed items. tokens: 'S' scalar, ('A',k) definite array k elems, ('M',k) map k pairs, 'I' indef start, 'B' break, 'T' tag
def gen(depth, budget):
    """yield (tokens) for all item trees with <= budget nodes"""
    if budget <= 0: return
    yield ['S']
    if depth == 0: return
    # tag
    for t in gen(depth-1, budget-1): yield ['T'] + t
    for kind in ('A','I','M','IM'):
        for n in range(0, 3):
            cnt = n*2 if kind in ('M','IM') else n
            for parts in seqs(depth-1, budget-1, cnt):
                body = [x for p in parts for x in p]
                if kind == 'A': yield [('A', n)] + body
                elif kind == 'M': yield [('M', n)] + body
                else: yield ['I'] + body + ['B']
def seqs(depth, budget, cnt):
    if cnt == 0: yield []; return
    for first in gen(depth, budget - (cnt-1)):
        used = sum(1 for t in first if t != 'B')
        for rest in seqs(depth, budget - used, cnt-1):
            yield [first] + rest

def norm(t):  # pop exhausted D frames
    while t and t[-1] != 'I' and t[-1] == 0: t.pop()
def consume(t):
    norm(t)
    if t and t[-1] != 'I': t[-1] -= 1
    norm(t)
def segs(st, none):  # split by separator; return list of sums
    out=[0]
    for f in st:
        if f == none: out.append(0)
        else: out[-1] += f
    return out

def check(tokens, extra):
    toks = tokens + extra
    true = [1]
    n, i, stack = 1, 0, []
    pos = 0
    def inv(where):
        s = segs(true, 'I')
        m = len(s)-1
        if not stack and (n>0 or i>0):  # counting mode
            assert m == i, (where, 'm', true, n, i)
            if i == 0: assert n == s[0], (where, 'exact', true, n)
            else:
                assert s[0] == 0, (where, 's0', true, n, i)
                assert n <= s[m], (where, 'n<=s', true, n, i)
        elif stack:
            assert n == 0 and i == 0
            c = segs(stack, None)
            assert len(c)-1 == m, (where, 'm', true, stack)
            if m == 0:
                assert c[0] == s[0]-1 and s[0] >= 1, (where, 'bottom-top', true, stack)
            else:
                assert c[0] == s[0], (where, 'bottom', true, stack)
                for j in range(1, m): assert c[j] <= s[j], (where, 'mid', true, stack)
                if stack[-1] is None: assert c[m] == 0
                else: assert c[m] <= s[m]-1, (where, 'top', true, stack)
        else:
            assert not true, (where, 'end', true)
    while n > 0 or i > 0 or stack:
        inv(pos)
        assert true, ('true ended early', pos)
        if pos >= len(toks): return ('EOI', pos)
        tk = toks[pos]; pos += 1
        # true machine
        if tk == 'T': continue
        if tk == 'S': consume(true)
        elif tk == 'I': consume(true); true.append('I')
        elif tk == 'B':
            norm(true); assert true and true[-1] == 'I'; true.pop(); norm(true)
        else:
            k = tk[1] * (2 if tk[0]=='M' else 1)
            consume(true)
            if k > 0: true.append(k)
        # concrete machine
        if tk == 'S': pass
        elif tk == 'I':
            if n == 0 and i == 0: stack.append(None)
            elif n < 2: i += 1
            else:
                stack.extend([None]*i); stack.append(n-1); stack.append(None); n = 0; i = 0
        elif tk == 'B':
            if n == 0 and i == 0:
                if stack and stack[-1] is None: stack.pop()
            else: i = max(i-1, 0)
        else:
            k = tk[1] * (2 if tk[0]=='M' else 1)
            if k > 0:
                if n == 0 and i == 0: stack.append(k)
                else: n += k
        if n == 0 and i == 0:
            while stack and stack[-1] == 0: stack.pop()
            if stack:
                if stack[-1] is not None: stack[-1] -= 1
            else: break
        else: n = max(n-1, 0)
    assert not true, ('concrete ended early', pos, true)
    return ('OK', pos)

cnt = 0
for toks in gen(4, 7):
    r = check(toks, ['S','B',('A',2)])
    assert r == ('OK', len(toks)), (toks, r)
    for cut in range(len(toks)):
        r = check(toks[:cut], [])
        assert r[0] == 'EOI', (toks, cut, r)
    cnt += 1
print('trees checked', cnt)
