(* Model/DeriveSchema.v — the schema universe of the derive macros: exactly the value-affecting part of
   what minicbor-derive parses (attrs.rs, fields.rs, variants.rs).  Names do not exist; the position of
   a field / variant in its list is its declaration position.
   Values reuse Types.value: a struct value is VList of the field values in declaration order (skipped
   fields included), an enum value is VVar i (VList fields) with i the CBOR index of the variant. *)
From MC Require Export Types.
Local Open Scope N_scope.

Inductive encoding := AsArray | AsMap.            (* attrs/encoding.rs; default Array *)

(* attrs/codec.rs, reduced to the three kinds the generated sources use *)
Inductive codec :=
| CoDefault                         (* no codec attribute: the Encode / Decode / CborLen impls of the type *)
| CoBytes                           (* with = "minicbor::bytes" (or encode_with/decode_with to its functions) *)
| CoCustom (nil_aware : bool).      (* the generated module `nz` over u64, value 0 is nil and is written as null;
                                      nil_aware = has_nil / is_nil + nil paths given *)

(* field types: a built-in type, another definition of the schema, Option / Vec of such *)
Inductive fty :=
| FTy (t : ty)
| FRef (d : nat)
| FOpt (f : fty)
| FSeq (f : fty).

Record field := mkfield {
  f_idx : N;              (* #[n(i)] / #[b(i)] *)
  f_b : bool;             (* b instead of n: only Cow borrowing depends on it *)
  f_tag : option N;       (* #[cbor(tag(t))] *)
  f_codec : codec;
  f_synopt : bool;        (* the type is spelled Option<..> (lib.rs:519 is_option tests syntax) *)
  f_skip : bool;          (* #[cbor(skip)]: no other attribute allowed (attrs.rs:111) *)
  f_ty : fty }.

Inductive dshape := DsUnit | DsTuple | DsNamed.

Record variant := mkvariant {
  v_idx : N;
  v_enc : option encoding;        (* #[cbor(array|map)] on the variant *)
  v_tag : option N;
  v_shape : dshape;
  v_fields : list field }.

Inductive def :=
| DStruct (enc : option encoding) (tag : option N) (transparent : bool) (sh : dshape) (fs : list field)
| DEnum (enc : option encoding) (tag : option N) (index_only : bool) (vs : list variant).

Definition schema := list def.

Definition enc_or (o : option encoding) (dflt : encoding) : encoding :=
  match o with Some e => e | None => dflt end.

(* encode.rs:36 / 93,108: struct level default Array; variant inherits the enum's, which defaults to Array *)
Definition struct_encoding (o : option encoding) : encoding := enc_or o AsArray.
Definition variant_encoding (enum_enc : option encoding) (v : variant) : encoding :=
  enc_or (v_enc v) (enc_or enum_enc AsArray).

Definition has_tag (f : field) : bool := match f_tag f with Some _ => true | None => false end.

Definition is_unit (s : dshape) : bool := match s with DsUnit => true | _ => false end.
Definition is_named (s : dshape) : bool := match s with DsNamed => true | _ => false end.

(* ---- Fields::try_from (fields.rs:31): split off skipped fields, remember positions, sort by index ---- *)
Fixpoint insert_by {A} (key : A -> N) (x : A) (l : list A) : list A :=
  match l with
  | [] => [x]
  | y :: r => if key x <=? key y then x :: l else y :: insert_by key x r
  end.
Fixpoint sort_by {A} (key : A -> N) (l : list A) : list A :=       (* sort_unstable_by_key; keys are unique *)
  match l with [] => [] | x :: r => insert_by key x (sort_by key r) end.

(* a non-skipped field with its declaration position and (encoder side) its value *)
Record pfield := mkpf { pf_pos : nat; pf_fld : field }.

Fixpoint with_pos (fs : list field) (p : nat) : list pfield :=
  match fs with [] => [] | f :: r => mkpf p f :: with_pos r (S p) end.

Definition pf_idx (pf : pfield) : N := f_idx (pf_fld pf).
Definition active (fs : list field) : list pfield :=
  filter (fun pf => negb (f_skip (pf_fld pf))) (with_pos fs 0).
Definition sorted_fields (fs : list field) : list pfield := sort_by pf_idx (active fs).

Definition value_at (vs : list value) (p : nat) : value := nth p vs VUnit.

Fixpoint find_variant (vs : list variant) (i : N) : option variant :=
  match vs with
  | [] => None
  | v :: r => if v_idx v =? i then Some v else find_variant r i
  end.

(* ---- which schemas the macros accept (and the generated code type-checks), as a boolean ---- *)
Fixpoint nodupN (l : list N) : bool :=
  match l with [] => true | x :: r => negb (existsb (N.eqb x) r) && nodupN r end.

Definition bytes_like (t : ty) : bool :=          (* types with EncodeBytes/DecodeBytes impls (bytes.rs:310-470) *)
  match t with
  | TyBytes | TyByteArr _ => true
  | TyOpt TyBytes | TyOpt (TyByteArr _) => true
  | _ => false
  end.

Definition is_opt_fty (f : fty) : bool :=
  match f with FOpt _ | FTy (TyOpt _) => true | _ => false end.

(* Default::default() of the types a skipped field may have *)
Definition default_ty (t : ty) : option value :=
  match t with
  | TyU _ => Some (VNat 0) | TyI _ => Some (VInt 0) | TyBool => Some (VBool false)
  | TyF32 | TyF64 => Some (VFloat 0)
  | TyStr | TyBytes => Some (VBlob [])
  | TyUnit => Some VUnit
  | TyOpt _ => Some VNone
  | TySeq _ => Some (VList [])
  | TyMap _ _ => Some (VList [])
  | _ => None
  end.
Definition default_fty (f : fty) : option value :=
  match f with
  | FTy t => default_ty t
  | FOpt _ => Some VNone
  | FSeq _ => Some (VList [])
  | FRef _ => None
  end.

Fixpoint fty_ok (d : nat) (f : fty) : bool :=       (* references point to earlier definitions only *)
  match f with
  | FTy _ => true
  | FRef d' => Nat.ltb d' d
  | FOpt f' | FSeq f' => fty_ok d f'
  end.

Definition idx_max : N := 2147483647.   (* unsuffixed index literals are i32 in `#idx.cbor_len()` and in the
                                           indefinite array loop (decode.rs:349): larger ones do not compile *)

Definition field_ok (d : nat) (f : field) : bool :=
  fty_ok d (f_ty f) &&
  if f_skip f then
    match default_fty (f_ty f) with Some _ => true | None => false end
  else
    (f_idx f <=? idx_max) &&
    match f_tag f with Some t => t <=? u64_max | None => true end &&
    implb (f_synopt f) (is_opt_fty (f_ty f)) &&
    match f_codec f with
    | CoDefault => true
    | CoBytes => match f_ty f with FTy t => bytes_like t | _ => false end
    | CoCustom _ => match f_ty f with FTy (TyU B64) => true | _ => false end
    end.

Definition fields_ok (d : nat) (fs : list field) : bool :=
  forallb (field_ok d) fs && nodupN (map pf_idx (active fs)).

Definition tag_ok (t : option N) : bool := match t with Some n => n <=? u64_max | None => true end.

Definition variant_ok (d : nat) (index_only : bool) (v : variant) : bool :=
  (v_idx v <=? idx_max) && tag_ok (v_tag v) && fields_ok d (v_fields v) &&
  (if is_unit (v_shape v) then match v_fields v with [] => true | _ => false end else negb index_only).

Definition def_ok (d : nat) (df : def) : bool :=
  match df with
  | DStruct _ tag transparent sh fs =>
      tag_ok tag && fields_ok d fs &&
      (if is_unit sh then match fs with [] => true | _ => false end else true) &&
      (if transparent then
         match tag, fs with
         | None, [f] => negb (f_skip f)
         | _, _ => false
         end
       else true)
  | DEnum _ tag index_only vs =>
      tag_ok tag && (if index_only then match tag with None => true | Some _ => false end else true) &&
      forallb (variant_ok d index_only) vs && nodupN (map v_idx vs)
  end.

Fixpoint defs_ok (S : list def) (d : nat) : bool :=
  match S with [] => true | df :: r => def_ok d df && defs_ok r (Datatypes.S d) end.
Definition schema_ok (S : schema) : bool := defs_ok S 0.
