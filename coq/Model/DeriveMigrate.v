(* Model/DeriveMigrate.v — C10 at schema level: two whole schemas (the writer's ScW, the reader's ScR; definition d of
   the one is the older / newer version of definition d of the other) related definition-wise by the documented-compatible
   edits (minicbor-derive/src/lib.rs:8-45), and the reader's view `migrate` of a writer value, through references, Option
   and Vec, with every nested definition in its own two versions.  Definitions only; theorem C10_compat in Props/C10.v.

   schema_compat — per definition:
     struct  : same tag and transparency; the bodies related by body_compat (Model/DeriveCompat.v: fields with the same
               index are the same field — names, declaration order, n/b, named / tuple shape are free —, fields only the
               reader knows are optional, fields only the writer knows are arbitrary) under the same effective encoding;
               transparent: the one field is the same field;
     enum    : same tag, same index_only; for every index both versions know: same variant tag, and either the reader's
               variant is a unit variant (whatever the writer wrote as body is skipped) or both have the same effective
               encoding and their field lists are related by body_compat — with a unit variant counting as the empty
               field list, so "unit variant -> variant with only optional fields" and back are instances;
               variants only the reader knows are free; variants only the writer knows are allowed everywhere:
   migrate — returns None exactly when the writer's value contains a variant the reader does not know at a place that is
             not (transitively) inside a field that has the unknown-variant arm (decode.rs:269-295: optional fields); there
             the reader must answer UnknownVariant (guarantee 4 of the documentation speaks only about optional fields),
             and an unknown variant anywhere inside the value of such a field turns the whole field into its nil value. *)
From MC Require Export DeriveCompat DeriveKnown.
From MC Require Import Acc.
Local Open Scope N_scope.

Section Mig.
Variable rec : nat -> value -> option value.       (* the nested definitions, each in its two versions *)

Fixpoint mig_fty (f : fty) (v : value) {struct f} : option value :=
  match f, v with
  | FRef d, _ => rec d v
  | FOpt f', VSome v' => option_map VSome (mig_fty f' v')
  | FSeq f', VList l => option_map VList (omap_list (mig_fty f') l)
  | _, _ => Some v
  end.

(* what the reader's decode function makes of the writer's value of the same field *)
Definition mig_raw (f : field) (v : value) : option value :=
  match f_codec f with CoDefault => mig_fty (f_ty f) v | _ => Some v end.

(* … and the field action: an unknown variant inside is caught by a field that has the handler *)
Definition mig_value (f : field) (v : value) : option value :=
  match mig_raw f v with
  | Some x => Some x
  | None => if has_handler f then Some (nil_or_unit f) else None
  end.

Definition mig_field (fsW : list field) (vsW : list value) (f : field) : option value :=
  match at_index (decl fsW vsW) (f_idx f) with
  | Some (_, v) => mig_value f v
  | None => Some (nil_or_unit f)
  end.

Definition mig_fields (fsW : list field) (vsW : list value) (fsR : list field) : option (list value) :=
  omap_list (fun f => if f_skip f then Some (match default_fty (f_ty f) with Some dv => dv | None => VUnit end)
                      else mig_field fsW vsW f) fsR.

Definition mig_def (dW dR : def) (v : value) : option value :=
  match dW, dR, v with
  | DStruct _ _ trW _ fsW, DStruct _ _ _ _ fsR, VList vs =>
      if trW then
        match sorted_fields fsR, vs with
        | [pf], [x] => option_map (fun y => VList [y]) (mig_raw (pf_fld pf) x)
        | _, _ => None
        end
      else option_map VList (mig_fields fsW vs fsR)
  | DEnum _ _ _ varsW, DEnum _ _ _ varsR, VVar i (VList vs) =>
      match find_variant varsW i, find_variant varsR i with
      | Some vaW, Some vaR =>
          if is_unit (v_shape vaR) then Some (VVar i (VList []))
          else option_map (fun l => VVar i (VList l)) (mig_fields (v_fields vaW) vs (v_fields vaR))
      | _, _ => None                                   (* a variant the reader does not know *)
      end
  | _, _, _ => None
  end.
End Mig.

Fixpoint migrate_f (k : nat) (ScW ScR : schema) (d : nat) (v : value) : option value :=
  match k with
  | O => None
  | S k' =>
      match nth_error ScW d, nth_error ScR d with
      | Some dW, Some dR => mig_def (fun d' v' => if Nat.ltb d' d then migrate_f k' ScW ScR d' v' else None) dW dR v
      | _, _ => None
      end
  end.
Definition migrate (ScW ScR : schema) (d : nat) (v : value) : option value := migrate_f (S d) ScW ScR d v.

(* ---- the relation between the two versions ---- *)
Definition variant_compat (eW eR : option encoding) (vW vR : variant) : Prop :=
  v_tag vW = v_tag vR /\
  (is_unit (v_shape vR) = true \/
   (variant_encoding eW vW = variant_encoding eR vR /\ body_compat (v_fields vW) (v_fields vR))).

Definition def_compat (dW dR : def) : Prop :=
  match dW, dR with
  | DStruct eW tW trW _ fsW, DStruct eR tR trR _ fsR =>
      tW = tR /\ trW = trR /\
      if trW then exists fW fR, fsW = [fW] /\ fsR = [fR] /\ eraseb fW = eraseb fR
      else struct_encoding eW = struct_encoding eR /\ body_compat fsW fsR
  | DEnum eW tW ioW varsW, DEnum eR tR ioR varsR =>
      tW = tR /\ ioW = ioR /\
      forall i vW vR, find_variant varsW i = Some vW -> find_variant varsR i = Some vR -> variant_compat eW eR vW vR
  | _, _ => False
  end.

Definition schema_compat (ScW ScR : schema) : Prop :=
  forall d dW, nth_error ScW d = Some dW -> exists dR, nth_error ScR d = Some dR /\ def_compat dW dR.

(* ---- the writer's value: its text strings are valid UTF-8 (a Rust String / &str always is; the model's value universe
   lets a string leaf carry arbitrary bytes, and skip() validates text) ---- *)
Section TextOk.
Variable rec : nat -> value -> bool.

Fixpoint text_fty (f : fty) (v : value) {struct f} : bool :=
  match f, v with
  | FTy t, _ => match ty_tree t v with Some e => Acc.utf8_ok e | None => true end
  | FRef d, _ => rec d v
  | FOpt f', VSome v' => text_fty f' v'
  | FSeq f', VList l => forallb (text_fty f') l
  | _, _ => true
  end.

Definition text_field (vs : list value) (pf : pfield) : bool :=
  match f_codec (pf_fld pf) with
  | CoCustom _ => true
  | _ => text_fty (f_ty (pf_fld pf)) (pf_val vs pf)
  end.

Definition text_def (df : def) (v : value) : bool :=
  match df, v with
  | DStruct _ _ _ _ fs, VList vs => forallb (text_field vs) (sorted_fields fs)
  | DEnum _ _ _ vars, VVar i (VList vs) =>
      match find_variant vars i with
      | Some va => forallb (text_field vs) (sorted_fields (v_fields va))
      | None => true
      end
  | _, _ => true
  end.
End TextOk.

Fixpoint text_f (k : nat) (Sc : schema) (d : nat) (v : value) : bool :=
  match k with
  | O => true
  | S k' =>
      match nth_error Sc d with
      | Some df => text_def (fun d' v' => if Nat.ltb d' d then text_f k' Sc d' v' else true) df v
      | None => true
      end
  end.
Definition value_text_ok (Sc : schema) (d : nat) (v : value) : bool := text_f (S d) Sc d v.

(* what C10_compat asks of the writer's value beyond being accepted by the derived encoder: valid UTF-8 text, and outside the
   recorded class F14 (Model/DeriveKnown.v: a codec on a field whose Option is hidden behind a type alias, value None — there the
   bytes are not the documented format; they are still read back, but this proof goes through the documented tree) *)
Definition writer_value_ok (Sc : schema) (d : nat) (v : value) : bool :=
  negb (known_alias_nil Sc d v) && value_text_ok Sc d v.
