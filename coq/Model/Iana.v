(* Model/Iana.v — data::IanaTag (data.rs:113-262): the enum, `From<IanaTag> for Tag`, `TryFrom<Tag> for IanaTag`, and its
   Encode / CborLen impls (encode.rs:424-434).  Transliteration with the code's own hexadecimal literals. *)
From MC Require Import Bytes Encoder Types.
Local Open Scope N_scope.

Inductive iana :=                                                         (* data.rs:117, declaration order *)
  | IaDateTime
  | IaTimestamp
  | IaPosBignum
  | IaNegBignum
  | IaDecimal
  | IaBigfloat
  | IaToBase64Url
  | IaToBase64
  | IaToBase16
  | IaCbor
  | IaUri
  | IaBase64Url
  | IaBase64
  | IaRegex
  | IaMime
  | IaHomogenousArray
  | IaTypedArrayU8
  | IaTypedArrayU8Clamped
  | IaTypedArrayU16B
  | IaTypedArrayU32B
  | IaTypedArrayU64B
  | IaTypedArrayU16L
  | IaTypedArrayU32L
  | IaTypedArrayU64L
  | IaTypedArrayI8
  | IaTypedArrayI16B
  | IaTypedArrayI32B
  | IaTypedArrayI64B
  | IaTypedArrayI16L
  | IaTypedArrayI32L
  | IaTypedArrayI64L
  | IaTypedArrayF16B
  | IaTypedArrayF32B
  | IaTypedArrayF64B
  | IaTypedArrayF128B
  | IaTypedArrayF16L
  | IaTypedArrayF32L
  | IaTypedArrayF64L
  | IaTypedArrayF128L
  | IaMultiDimArrayR
  | IaMultiDimArrayC.

Definition iana_all : list iana :=
  [IaDateTime; IaTimestamp; IaPosBignum; IaNegBignum; IaDecimal; IaBigfloat; IaToBase64Url; IaToBase64; IaToBase16; IaCbor; IaUri; IaBase64Url; IaBase64; IaRegex; IaMime; IaHomogenousArray; IaTypedArrayU8; IaTypedArrayU8Clamped; IaTypedArrayU16B; IaTypedArrayU32B; IaTypedArrayU64B; IaTypedArrayU16L; IaTypedArrayU32L; IaTypedArrayU64L; IaTypedArrayI8; IaTypedArrayI16B; IaTypedArrayI32B; IaTypedArrayI64B; IaTypedArrayI16L; IaTypedArrayI32L; IaTypedArrayI64L; IaTypedArrayF16B; IaTypedArrayF32B; IaTypedArrayF64B; IaTypedArrayF128B; IaTypedArrayF16L; IaTypedArrayF32L; IaTypedArrayF64L; IaTypedArrayF128L; IaMultiDimArrayR; IaMultiDimArrayC].

Definition iana_to_tag (t : iana) : N :=                                  (* data.rs:219 From<IanaTag> for Tag *)
  match t with
  | IaDateTime => 0  (* 0x00 *)
  | IaTimestamp => 1  (* 0x01 *)
  | IaPosBignum => 2  (* 0x02 *)
  | IaNegBignum => 3  (* 0x03 *)
  | IaDecimal => 4  (* 0x04 *)
  | IaBigfloat => 5  (* 0x05 *)
  | IaToBase64Url => 21  (* 0x15 *)
  | IaToBase64 => 22  (* 0x16 *)
  | IaToBase16 => 23  (* 0x17 *)
  | IaCbor => 24  (* 0x18 *)
  | IaUri => 32  (* 0x20 *)
  | IaBase64Url => 33  (* 0x21 *)
  | IaBase64 => 34  (* 0x22 *)
  | IaRegex => 35  (* 0x23 *)
  | IaMime => 36  (* 0x24 *)
  | IaMultiDimArrayR => 40  (* 0x28 *)
  | IaHomogenousArray => 41  (* 0x29 *)
  | IaTypedArrayU8 => 64  (* 0x40 *)
  | IaTypedArrayU16B => 65  (* 0x41 *)
  | IaTypedArrayU32B => 66  (* 0x42 *)
  | IaTypedArrayU64B => 67  (* 0x43 *)
  | IaTypedArrayU8Clamped => 68  (* 0x44 *)
  | IaTypedArrayU16L => 69  (* 0x45 *)
  | IaTypedArrayU32L => 70  (* 0x46 *)
  | IaTypedArrayU64L => 71  (* 0x47 *)
  | IaTypedArrayI8 => 72  (* 0x48 *)
  | IaTypedArrayI16B => 73  (* 0x49 *)
  | IaTypedArrayI32B => 74  (* 0x4a *)
  | IaTypedArrayI64B => 75  (* 0x4b *)
  | IaTypedArrayI16L => 77  (* 0x4d *)
  | IaTypedArrayI32L => 78  (* 0x4e *)
  | IaTypedArrayI64L => 79  (* 0x4f *)
  | IaTypedArrayF16B => 80  (* 0x50 *)
  | IaTypedArrayF32B => 81  (* 0x51 *)
  | IaTypedArrayF64B => 82  (* 0x52 *)
  | IaTypedArrayF128B => 83  (* 0x53 *)
  | IaTypedArrayF16L => 84  (* 0x54 *)
  | IaTypedArrayF32L => 85  (* 0x55 *)
  | IaTypedArrayF64L => 86  (* 0x56 *)
  | IaTypedArrayF128L => 87  (* 0x57 *)
  | IaMultiDimArrayC => 1040  (* 0x410 *)
  end.

Definition iana_of_tag (n : N) : option iana :=                           (* data.rs:168 TryFrom<Tag> for IanaTag *)
  if n =? 0 then Some IaDateTime else  (* 0x00 *)
  if n =? 1 then Some IaTimestamp else  (* 0x01 *)
  if n =? 2 then Some IaPosBignum else  (* 0x02 *)
  if n =? 3 then Some IaNegBignum else  (* 0x03 *)
  if n =? 4 then Some IaDecimal else  (* 0x04 *)
  if n =? 5 then Some IaBigfloat else  (* 0x05 *)
  if n =? 21 then Some IaToBase64Url else  (* 0x15 *)
  if n =? 22 then Some IaToBase64 else  (* 0x16 *)
  if n =? 23 then Some IaToBase16 else  (* 0x17 *)
  if n =? 24 then Some IaCbor else  (* 0x18 *)
  if n =? 32 then Some IaUri else  (* 0x20 *)
  if n =? 33 then Some IaBase64Url else  (* 0x21 *)
  if n =? 34 then Some IaBase64 else  (* 0x22 *)
  if n =? 35 then Some IaRegex else  (* 0x23 *)
  if n =? 36 then Some IaMime else  (* 0x24 *)
  if n =? 40 then Some IaMultiDimArrayR else  (* 0x28 *)
  if n =? 41 then Some IaHomogenousArray else  (* 0x29 *)
  if n =? 64 then Some IaTypedArrayU8 else  (* 0x40 *)
  if n =? 65 then Some IaTypedArrayU16B else  (* 0x41 *)
  if n =? 66 then Some IaTypedArrayU32B else  (* 0x42 *)
  if n =? 67 then Some IaTypedArrayU64B else  (* 0x43 *)
  if n =? 68 then Some IaTypedArrayU8Clamped else  (* 0x44 *)
  if n =? 69 then Some IaTypedArrayU16L else  (* 0x45 *)
  if n =? 70 then Some IaTypedArrayU32L else  (* 0x46 *)
  if n =? 71 then Some IaTypedArrayU64L else  (* 0x47 *)
  if n =? 72 then Some IaTypedArrayI8 else  (* 0x48 *)
  if n =? 73 then Some IaTypedArrayI16B else  (* 0x49 *)
  if n =? 74 then Some IaTypedArrayI32B else  (* 0x4a *)
  if n =? 75 then Some IaTypedArrayI64B else  (* 0x4b *)
  if n =? 77 then Some IaTypedArrayI16L else  (* 0x4d *)
  if n =? 78 then Some IaTypedArrayI32L else  (* 0x4e *)
  if n =? 79 then Some IaTypedArrayI64L else  (* 0x4f *)
  if n =? 80 then Some IaTypedArrayF16B else  (* 0x50 *)
  if n =? 81 then Some IaTypedArrayF32B else  (* 0x51 *)
  if n =? 82 then Some IaTypedArrayF64B else  (* 0x52 *)
  if n =? 83 then Some IaTypedArrayF128B else  (* 0x53 *)
  if n =? 84 then Some IaTypedArrayF16L else  (* 0x54 *)
  if n =? 85 then Some IaTypedArrayF32L else  (* 0x55 *)
  if n =? 86 then Some IaTypedArrayF64L else  (* 0x56 *)
  if n =? 87 then Some IaTypedArrayF128L else  (* 0x57 *)
  if n =? 1040 then Some IaMultiDimArrayC else  (* 0x410 *)
  None.

Definition enc_iana (t : iana) : list chunk := enc_tag (iana_to_tag t).   (* encode.rs:424: e.tag of self *)
Definition len_iana (t : iana) : N := len_u64 (iana_to_tag t).            (* encode.rs:430: self.tag().cbor_len(ctx) *)
