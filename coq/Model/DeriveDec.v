(* Model/DeriveDec.v — what `#[derive(Decode)]` generates (minicbor-derive/src/decode.rs), executed on input.
   Every step is an M computation (outcome and the state left behind); the unknown-variant handler
   (decode.rs:269-295) re-positions to the first byte of the field's value before it calls `skip()`. *)
From MC Require Export DeriveEnc.
Local Open Scope N_scope.

(* the generated codec module `nz`:
     decode: if d.datatype()? == Null { d.skip()?; Ok(0) } else { d.u64() }      nil: Some(0) *)
Definition cust_decode (c : cfg) : M value :=
  dt <- datatype ;;
  if ctype_is_null dt then skip_auto c ;;; ret (VNat 0) else fmap VNat dec_u64.

(* decode.rs:459 nil(f): the value an unfilled slot takes, if any *)
Definition nil_of (f : field) : option value :=
  match f_codec f with
  | CoDefault => if is_opt_fty (f_ty f) then Some VNone else None       (* <T as Decode>::nil(): only Option (decode.rs:124) *)
  | CoCustom true => Some (VNat 0)                                      (* to_nil_path *)
  | CoBytes | CoCustom false => if f_synopt f then Some VNone else None  (* Some(None) / None, by syntax *)
  end.

(* decode.rs:269-295: is there an `Err(e) if e.is_unknown_variant() …` arm, and does its guard hold *)
Definition has_handler (f : field) : bool :=
  match f_codec f with
  | CoCustom true => true                                               (* && #p().is_some() *)
  | CoBytes | CoCustom false => f_synopt f
  | CoDefault => if f_synopt f then true else is_opt_fty (f_ty f)       (* && <T as Decode>::nil().is_some() *)
  end.

(* decode.rs:325: slots start as Some(None) for syntactic Options, else None *)
Definition init_slot (pf : pfield) : option value :=
  if f_synopt (pf_fld pf) then Some VNone else None.

Definition out_of_fuel {A} : M A := fun s => (OutOfFuel, s).

(* decode.rs:475 decode_tag *)
Definition dec_tag_check (t : option N) : M unit :=
  match t with
  | None => ret tt
  | Some n => g <- dec_tag ;; if g =? n then ret tt else fail (TagMismatch g)
  end.

Definition set_slot_nth {A} (k : nat) (x : A) (l : list A) : list A := firstn k l ++ x :: skipn (S k) l.

Fixpoint find_field (l : list pfield) (i : N) (k : nat) : option (nat * pfield) :=
  match l with
  | [] => None
  | pf :: r => if pf_idx pf =? i then Some (k, pf) else find_field r i (S k)
  end.

(* for __i777 in 0 .. __len777 (decode.rs:342, 364) *)
Fixpoint loop_n {St} (step : N -> St -> M St) (i n : N) (fuel : nat) (st : St) : M St :=
  if n =? 0 then ret st
  else match fuel with
       | O => out_of_fuel
       | S fuel' => st' <- step i st ;; loop_n step (i + 1) (N.pred n) fuel' st'
       end.

Section Dec.
Variable c : cfg.
Variable rec : nat -> nat -> M value.       (* the derived Decode impl of another definition, with loop fuel *)

(* while Type::Break != d.datatype()? { … } d.skip()? (decode.rs:350-357, 371-377) *)
Fixpoint loop_brk {St} (step : N -> St -> M St) (i : N) (fuel : nat) (st : St) : M St :=
  match fuel with
  | O => out_of_fuel
  | S fuel' =>
      t <- datatype ;;
      if ctype_is_break t then skip_auto c ;;; ret st
      else st' <- step i st ;; loop_brk step (i + 1) fuel' st'
  end.

Fixpoint dec_fty (f : fty) (fuel : nat) {struct f} : M value :=
  match f with
  | FTy t => decode_ty c t fuel
  | FRef d => rec d fuel
  | FOpt f' =>                                                            (* minicbor decode.rs:115 *)
      dt <- datatype ;;
      if ctype_is_null dt then skip_auto c ;;; ret VNone else fmap VSome (dec_fty f' fuel)
  | FSeq f' => fmap VList (dec_seq (dec_fty f' fuel) fuel)                (* minicbor decode.rs:396 *)
  end.

(* the decode function the generated code calls for a field (decode.rs:265) *)
Definition dec_field_fn (f : field) (fuel : nat) : M value :=
  match f_codec f with
  | CoDefault => dec_fty (f_ty f) fuel
  | CoBytes => dec_fty (f_ty f) fuel      (* minicbor::bytes::decode: DecodeBytes (bytes.rs:317-446) *)
  | CoCustom _ => cust_decode c
  end.

(* decode.rs:316-320: Ok => fill the slot; unknown variant with a handler => go back to where the value began
   (`__d777.set_position(__p779)`: the state before the decode function ran) and skip it as one item, leaving
   the slot alone; any other error is returned *)
Definition try_unknown (handler : bool) (m : M value) : M (option value) := fun s =>
  match m s with
  | (Ok v, s') => (Ok (Some v), s')
  | (Err (UnknownVariant n), s') =>
      if handler then (skip_auto c ;;; ret None) s else (Err (UnknownVariant n), s')
  | (Err e, s') => (Err e, s')
  | (Panic, s') => (Panic, s')
  | (OutOfFuel, s') => (OutOfFuel, s')
  end.

(* one `#indices => #actions` arm (decode.rs:311-346): a tagged optional field (the fields that have the
   unknown-variant arm) accepts the bare null of an index gap and leaves its slot alone; otherwise tag check,
   then the decode function *)
Definition field_action (f : field) (fuel : nat) : M (option value) :=
  let action := dec_tag_check (f_tag f) ;;; try_unknown (has_handler f) (dec_field_fn f fuel) in
  if has_tag f && has_handler f then
    dt <- datatype ;;
    if ctype_is_null dt then skip_auto c ;;; ret None else action
  else action.

Definition slots := list (option value).

(* match on the index: a known field runs its action, anything else is skipped (decode.rs:343-346) *)
Definition step_at (sf : list pfield) (fuel : nat) (i : N) (sl : slots) : M slots :=
  match find_field sf i 0 with
  | Some (k, pf) =>
      r <- field_action (pf_fld pf) fuel ;;
      ret (match r with Some v => set_slot_nth k (Some v) sl | None => sl end)
  | None => skip_auto c ;;; ret sl
  end.

Definition step_map (sf : list pfield) (fuel : nat) (_ : N) (sl : slots) : M slots :=
  k <- dec_u32 ;; step_at sf fuel k sl.

(* gen_statements (decode.rs:261-381) *)
Definition dec_statements (e : encoding) (sf : list pfield) (fuel : nat) : M slots :=
  let init := map init_slot sf in
  match e with
  | AsArray =>
      r <- dec_array ;;
      match r with
      | Some n => loop_n (step_at sf fuel) 0 n fuel init
      | None => loop_brk (step_at sf fuel) 0 fuel init
      end
  | AsMap =>
      r <- dec_map ;;
      match r with
      | Some n => loop_n (step_map sf fuel) 0 n fuel init
      | None => loop_brk (step_map sf fuel) 0 fuel init
      end
  end.

(* decode.rs:84-90 / field_inits (decode.rs:505): the slot, else nil(), else missing_value(index).
   Named shapes evaluate the initialisers in index order, tuple shapes in declaration order. *)
Definition resolve_slot (pf : pfield) (sl : option value) : value + N :=
  match sl with
  | Some x => Datatypes.inl x
  | None => match nil_of (pf_fld pf) with Some z => Datatypes.inl z | None => Datatypes.inr (pf_idx pf) end
  end.

Definition by_pos (x : pfield * option value) : N := N.of_nat (pf_pos (fst x)).

Fixpoint first_missing_slot (l : list (pfield * option value)) : option N :=
  match l with
  | [] => None
  | (pf, sl) :: r => match resolve_slot pf sl with Datatypes.inr i => Some i | Datatypes.inl _ => first_missing_slot r end
  end.

Fixpoint lookup_pos (l : list (pfield * option value)) (p : nat) : option value :=
  match l with
  | [] => None
  | (pf, sl) :: r =>
      if Nat.eqb (pf_pos pf) p then match resolve_slot pf sl with Datatypes.inl v => Some v | Datatypes.inr _ => None end
      else lookup_pos r p
  end.

Fixpoint assemble (fs : list field) (p : nat) (filled : list (pfield * option value)) : list value :=
  match fs with
  | [] => []
  | f :: r =>
      (if f_skip f then match default_fty (f_ty f) with Some dv => dv | None => VUnit end      (* decode.rs:91, 523 *)
       else match lookup_pos filled p with Some v => v | None => VUnit end)
      :: assemble r (S p) filled
  end.

Definition resolve (named : bool) (fs : list field) (sf : list pfield) (sl : slots) : M (list value) :=
  let filled := combine sf sl in
  match first_missing_slot (if named then filled else sort_by by_pos filled) with
  | Some i => fail (MissingValue i)
  | None => ret (assemble fs 0 filled)
  end.

Definition dec_body (e : encoding) (sh : dshape) (fs : list field) (fuel : nat) : M value :=
  sl <- dec_statements e (sorted_fields fs) fuel ;;
  vs <- resolve (is_named sh) fs (sorted_fields fs) sl ;;
  ret (VList vs).

(* on_struct (decode.rs:27), make_transparent_impl (decode.rs:384), on_enum (decode.rs:118) *)
Definition dec_def (df : def) (fuel : nat) : M value :=
  match df with
  | DStruct e tag transparent sh fs =>
      if transparent then
        match sorted_fields fs with
        | [pf] => v <- dec_field_fn (pf_fld pf) fuel ;; ret (VList [v])
        | _ => fail Message
        end
      else dec_tag_check tag ;;; dec_body (struct_encoding e) sh fs fuel
  | DEnum e tag index_only vars =>
      dec_tag_check tag ;;;
      (if index_only then ret tt
       else r <- dec_array ;;
            match r with
            | Some n => if n =? 2 then ret tt else fail Message       (* "expected enum (2-element array)" *)
            | None => fail Message
            end) ;;;
      i <- dec_u32 ;;
      match find_variant vars i with
      | None => fail (UnknownVariant i)                                (* decode.rs:236 *)
      | Some va =>
          if is_unit (v_shape va) then
            if index_only then ret (VVar i (VList []))                 (* decode.rs:143 *)
            else dec_tag_check (v_tag va) ;;; skip_auto c ;;; ret (VVar i (VList []))   (* decode.rs:145-149 *)
          else
            dec_tag_check (v_tag va) ;;;
            v <- dec_body (variant_encoding e va) (v_shape va) (v_fields va) fuel ;;
            ret (VVar i v)
      end
  end.
End Dec.

Fixpoint gen_decode_f (k : nat) (c : cfg) (Sc : schema) (d : nat) (fuel : nat) : M value :=
  match k with
  | O => out_of_fuel
  | S k' =>
      match nth_error Sc d with
      | Some df => dec_def c (fun d' fl => if Nat.ltb d' d then gen_decode_f k' c Sc d' fl else out_of_fuel) df fuel
      | None => fail Message
      end
  end.

Definition gen_decode (c : cfg) (Sc : schema) (d : nat) : M value :=
  fun s => gen_decode_f (S d) c Sc d (fuel_of s) s.

(* ---- what decoding returns for an encoded value: skipped fields take their default (C09) ---- *)
Section Dflt.
Variable rec : nat -> value -> value.

Fixpoint dflt_fty (f : fty) (v : value) {struct f} : value :=
  match f, v with
  | FRef d, _ => rec d v
  | FOpt f', VSome v' => VSome (dflt_fty f' v')
  | FSeq f', VList l => VList (map (dflt_fty f') l)
  | _, _ => v
  end.

Fixpoint dflt_fields (fs : list field) (vs : list value) : list value :=
  match fs, vs with
  | f :: fr, v :: vr =>
      (if f_skip f then match default_fty (f_ty f) with Some dv => dv | None => VUnit end
       else match f_codec f with CoDefault => dflt_fty (f_ty f) v | _ => v end)
      :: dflt_fields fr vr
  | _, _ => []
  end.

Definition dflt_def (df : def) (v : value) : value :=
  match df, v with
  | DStruct _ _ _ _ fs, VList vs => VList (dflt_fields fs vs)
  | DEnum _ _ _ vars, VVar i (VList vs) =>
      match find_variant vars i with
      | Some va => VVar i (VList (dflt_fields (v_fields va) vs))
      | None => v
      end
  | _, _ => v
  end.
End Dflt.

Fixpoint default_skipped_f (k : nat) (Sc : schema) (d : nat) (v : value) : value :=
  match k with
  | O => v
  | S k' =>
      match nth_error Sc d with
      | Some df => dflt_def (fun d' v' => if Nat.ltb d' d then default_skipped_f k' Sc d' v' else v') df v
      | None => v
      end
  end.
Definition default_skipped (Sc : schema) (d : nat) (v : value) : value := default_skipped_f (S d) Sc d v.
