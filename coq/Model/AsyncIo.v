(* Model/AsyncIo.v — transliteration of minicbor-io/src/async_reader.rs (AsyncReader::read_with) and
   async_writer.rs (AsyncWriter::write_with / sync / flush / set_max_len).  Definitions only (proofs: Proofs/AsyncIoFacts.v).

   What is modelled.  `self` of the reader / writer (state enum, buffer, max_len) is a record.  The
   future returned by `read_with` / `write_with` / `sync` is a separate value (`rfut`, `wfut`, `sfut`):
   the program point at which it is suspended.  The real futures own nothing else across an `.await` —
   `read_with` holds `ref mut` borrows into `self.state` / `self.buffer` and the inner
   `futures_util::io::Read` future, which itself holds only `&mut reader` and the `&mut [u8]` slice it was
   created with; likewise for `Write`.  One `poll` of the future is a function
   (future, self, source) -> (Ready result | Pending future', self', source').  Dropping a pending future
   is the transition that forgets `future'` and keeps `self'`: in `ar_read` / `aw_session` the next
   future is created with the start point.  Cancellation safety is therefore a theorem about this model.

   The inner `AsyncRead::poll_read` / `AsyncWrite::poll_write` are scripted: one token per inner poll;
   when the script is exhausted the source delivers everything asked for and the sink accepts everything
   offered.  futures_util's `Read` / `Write` futures call the inner poll exactly once per poll and return
   its result (futures-util 0.3 src/io/read.rs, write.rs). *)
From MC Require Export FrameIo.
Local Open Scope N_scope.

(* ------------------------------------------------------------------------------------------ *)
(* scripted AsyncRead *)
Inductive atok := AData (k : N) | APend | AErr.
Record asrc := mkasrc { a_data : bytes; a_sched : list atok; a_calls : N }.
Inductive poll_res := PrData (got : bytes) | PrPending | PrErr.

(* one `poll_read(cx, b)` with |b| = want *)
Definition asrc_poll (s : asrc) (want : N) : poll_res * asrc :=
  match a_sched s with
  | [] => let '(got, rest) := splitN (a_data s) want in (PrData got, mkasrc rest [] (a_calls s + 1))
  | AData k :: t => let '(got, rest) := splitN (a_data s) (N.min k want) in (PrData got, mkasrc rest t (a_calls s + 1))
  | APend :: t => (PrPending, mkasrc (a_data s) t (a_calls s + 1))
  | AErr :: t => (PrErr, mkasrc (a_data s) t (a_calls s + 1))
  end.

Definition asrc_fuel (s : asrc) : nat := length (a_sched s) + 6.

(* async_reader.rs:19-33 *)
Inductive rstate := ReadLen (buf : bytes) (o : N) | ReadVal (o : N).
Definition rstate_new : rstate := ReadLen [0; 0; 0; 0] 0.

(* async_reader.rs:11-16; ar_peak is instrumentation (largest Vec::resize argument) *)
Record areader := mkareader { ar_buf : bytes; ar_max : N; ar_state : rstate; ar_peak : N }.
Definition set_rstate (r : areader) (st : rstate) : areader := mkareader (ar_buf r) (ar_max r) st (ar_peak r).
Definition set_abuf (r : areader) (b : bytes) : areader := mkareader b (ar_max r) (ar_state r) (ar_peak r).

(* suspension points of the read_with future: not yet polled / at the .await of line 101 / of line 116 *)
Inductive rfut := FStart | FAtLen | FAtVal.

Inductive poll_out (V : Type) := Ready (o : outcome V) | Pend (f : rfut).
Arguments Ready {V} o. Arguments Pend {V} f.

Inductive ctok := CPoll | CDrop.     (* caller decision after a poll returned Pending *)

Section Codec.
Variable V : Type.
Variable dec : bytes -> option V.

Definition rk := areader -> asrc -> poll_out V * areader * asrc.

(* async_reader.rs:100-110  State::ReadLen(ref mut buf, ref mut o) *)
Definition len_arm (k : rk) (r : areader) (s : asrc) (buf : bytes) (o : N) : poll_out V * areader * asrc :=
  if 4 <? o then (Ready OPanic, r, s)                                  (* buf[usize::from( *o ) ..] *)
  else
    let '(pr, s1) := asrc_poll s (4 - o) in                            (* :101 self.reader.read(..).await? *)
    match pr with
    | PrPending => (Pend FAtLen, r, s1)
    | PrErr => (Ready (OErr IoInner), r, s1)
    | PrData got =>
        let n := len got in
        if n =? 0 then                                                  (* :102-108 *)
          (Ready (if o =? 0 then OEnd else OErr IoUnexpectedEof), r, s1)
        else
          let n8 := n mod 256 in                                        (* :109 n as u8 *)
          if 255 <? o + n8 then (Ready OPanic, set_rstate r (ReadLen (write_at buf o got) o), s1)    (* u8 `+=` overflow *)
          else k (set_rstate r (ReadLen (write_at buf o got) (o + n8))) s1
    end.

(* async_reader.rs:115-121  State::ReadVal(ref mut o), reached only with o < buffer.len() *)
Definition val_arm (k : rk) (r : areader) (s : asrc) (o : N) : poll_out V * areader * asrc :=
  let '(pr, s1) := asrc_poll s (len (ar_buf r) - o) in                 (* :116 read(&mut self.buffer[*o ..]).await? *)
  match pr with
  | PrPending => (Pend FAtVal, r, s1)
  | PrErr => (Ready (OErr IoInner), r, s1)
  | PrData got =>
      let n := len got in
      if n =? 0 then (Ready (OErr IoUnexpectedEof), r, s1)              (* :117-119 *)
      else
        let r1 := set_abuf r (write_at (ar_buf r) o got) in
        if two64 <=? o + n then (Ready OPanic, r1, s1)                  (* :120 usize `+=` overflow *)
        else k (set_rstate r1 (ReadVal (o + n))) s1
  end.

(* async_reader.rs:89-123  loop { match self.state { … } } *)
Fixpoint ar_loop (fuel : nat) (r : areader) (s : asrc) : poll_out V * areader * asrc :=
  match fuel with
  | O => (Ready OFuel, r, s)
  | S f =>
      match ar_state r with
      | ReadLen buf o =>
          if o =? 4 then                                                (* :91 State::ReadLen(buf, 4) *)
            let n := of_be buf in                                       (* :92 *)
            if ar_max r <? n then (Ready (OErr IoInvalidLen), r, s)     (* :93-95, state left as it is *)
            else ar_loop f (mkareader (zeros n) (ar_max r) (ReadVal 0) (N.max (ar_peak r) n)) s   (* :96-98 *)
          else len_arm (ar_loop f) r s buf o
      | ReadVal o =>
          if len (ar_buf r) <=? o then                                  (* :111 if o >= self.buffer.len() *)
            (Ready (decode_outcome V dec (ar_buf r)), set_rstate r rstate_new, s)    (* :112-113 state reset, then decode *)
          else val_arm (ar_loop f) r s o
      end
  end.

(* one Future::poll of the read_with future *)
Definition ar_poll (fuel : nat) (fut : rfut) (r : areader) (s : asrc) : poll_out V * areader * asrc :=
  match fut with
  | FStart => ar_loop (S fuel) r s
  | FAtLen =>
      match ar_state r with
      | ReadLen buf o => if o =? 4 then (Ready OPanic, r, s) else len_arm (ar_loop fuel) r s buf o
      | ReadVal _ => (Ready OPanic, r, s)
      end
  | FAtVal =>
      match ar_state r with
      | ReadVal o => if len (ar_buf r) <=? o then (Ready OPanic, r, s) else val_arm (ar_loop fuel) r s o
      | ReadLen _ _ => (Ready OPanic, r, s)
      end
  end.

(* One call of `read`, driven until its future (or, after drops, a successor) is Ready.
   After each Pending the caller either polls the same future again (CPoll, also the default once the
   caller script is exhausted) or drops it and calls `read` again (CDrop): the successor starts at FStart
   and sees only `self`. *)
Fixpoint ar_read (fuel : nat) (calls : list ctok) (fut : rfut) (r : areader) (s : asrc)
  : outcome V * list ctok * areader * asrc :=
  match fuel with
  | O => (OFuel, calls, r, s)
  | S f =>
      match ar_poll (asrc_fuel s) fut r s with
      | (Ready o, r1, s1) => (o, calls, r1, s1)
      | (Pend fut1, r1, s1) =>
          match calls with
          | CDrop :: c => ar_read f c FStart r1 s1
          | CPoll :: c => ar_read f c fut1 r1 s1
          | [] => ar_read f [] fut1 r1 s1
          end
      end
  end.

Definition ar_read_call (calls : list ctok) (r : areader) (s : asrc) :=
  ar_read (length (a_sched s) + 2) calls FStart r s.

(* the caller keeps calling read; an inner I/O error and a decode error are not the end *)
Definition aterminal (o : outcome V) : bool :=
  match o with OVal _ => false | OErr IoDecode => false | OErr IoInner => false | _ => true end.

Fixpoint ar_run (fuel : nat) (calls : list ctok) (r : areader) (s : asrc) : list (outcome V) * areader * asrc :=
  match fuel with
  | O => ([OFuel], r, s)
  | S f =>
      let '(o, c1, r1, s1) := ar_read_call calls r s in
      if aterminal o then ([o], r1, s1)
      else let '(os, r2, s2) := ar_run f c1 r1 s1 in (o :: os, r2, s2)
  end.

(* bytes the reader has taken from the source for the frame in progress *)
Definition state_bytes (r : areader) : bytes :=
  match ar_state r with
  | ReadLen buf o => firstn (N.to_nat o) buf
  | ReadVal o => be 4 (len (ar_buf r)) ++ firstn (N.to_nat o) (ar_buf r)
  end.

Definition ar_run_fuel (r : areader) (s : asrc) : nat :=
  length (a_sched s) + length (state_bytes r) + length (a_data s) + 2.

Definition ar_stream (calls : list ctok) (r : areader) (s : asrc) := ar_run (ar_run_fuel r s) calls r s.

End Codec.

Definition areader_new (max : N) : areader := mkareader [] max rstate_new 0.

(* ------------------------------------------------------------------------------------------ *)
(* scripted AsyncWrite: records what each successful poll_write accepted *)
Inductive ktok := KAccept (k : N) | KPend | KErr.
Record asink := mkasink { k_out : list bytes; k_sched : list ktok; k_calls : N }.
Inductive pw_res := PwOk (n : N) | PwPending | PwErr.

Definition asink_poll (k : asink) (offered : bytes) : pw_res * asink :=
  match k_sched k with
  | [] => (PwOk (len offered), mkasink (k_out k ++ [offered]) [] (k_calls k + 1))
  | KAccept j :: t => let '(a, _) := splitN offered j in
                      (PwOk (len a), mkasink (k_out k ++ [a]) t (k_calls k + 1))
  | KPend :: t => (PwPending, mkasink (k_out k) t (k_calls k + 1))
  | KErr :: t => (PwErr, mkasink (k_out k) t (k_calls k + 1))
  end.

Definition asink_fuel (k : asink) : nat := length (k_sched k) + 3.

(* async_writer.rs:19-25 *)
Inductive wstate := WNone | WriteFrom (o : N).
(* async_writer.rs:11-16 *)
Record awriter := mkawriter { aw_buf : bytes; aw_max : N; aw_state : wstate }.
Definition set_wstate (w : awriter) (st : wstate) : awriter := mkawriter (aw_buf w) (aw_max w) st.

Inductive sres := SOk | SErr (e : io_err) | SPanic | SFuel.         (* Result<(), Error> of sync *)
Inductive spoll := SyReady (r : sres) | SyPend.
Inductive sfut := SStart | SAtWrite.                                 (* sync future: fresh / at the .await of line 112 *)

Definition sk := awriter -> asink -> spoll * awriter * asink.

(* async_writer.rs:111-117  State::WriteFrom(ref mut o), reached only with o < buffer.len() *)
Definition write_arm (kont : sk) (w : awriter) (k : asink) (o : N) : spoll * awriter * asink :=
  let '(pr, k1) := asink_poll k (skipn (N.to_nat o) (aw_buf w)) in    (* :112 self.writer.write(&self.buffer[*o ..]).await? *)
  match pr with
  | PwPending => (SyPend, w, k1)
  | PwErr => (SyReady (SErr IoInner), w, k1)
  | PwOk n =>
      if n =? 0 then (SyReady (SErr IoWriteZero), w, k1)               (* :113-115 *)
      else if two64 <=? o + n then (SyReady SPanic, w, k1)             (* :116 usize `+=` overflow *)
      else kont (set_wstate w (WriteFrom (o + n))) k1
  end.

(* async_writer.rs:101-120  sync: loop { match self.state { … } } *)
Fixpoint sync_loop (fuel : nat) (w : awriter) (k : asink) : spoll * awriter * asink :=
  match fuel with
  | O => (SyReady SFuel, w, k)
  | S f =>
      match aw_state w with
      | WNone => (SyReady SOk, w, k)                                    (* :104-106 *)
      | WriteFrom o =>
          if len (aw_buf w) <=? o then (SyReady SOk, set_wstate w WNone, k)    (* :107-110 *)
          else write_arm (sync_loop f) w k o
      end
  end.

Definition sync_poll (fuel : nat) (fut : sfut) (w : awriter) (k : asink) : spoll * awriter * asink :=
  match fut with
  | SStart => sync_loop (S fuel) w k
  | SAtWrite =>
      match aw_state w with
      | WriteFrom o => if len (aw_buf w) <=? o then (SyReady SPanic, w, k) else write_arm (sync_loop fuel) w k o
      | WNone => (SyReady SPanic, w, k)
      end
  end.

(* write_with future: not yet polled (it still owns the value) / suspended inside self.sync().await (:91) *)
Inductive wfut := WfStart | WfInSync.
Inductive wpoll := WReady (r : wres) | WPend.

Definition finish_write (x : spoll * awriter * asink) : wpoll * awriter * asink :=
  let '(sp, w, k) := x in
  match sp with
  | SyPend => (WPend, w, k)
  | SyReady SOk =>
      if len (aw_buf w) <? 4 then (WReady WPanic, w, k)
      else (WReady (WOk (len (aw_buf w) - 4)), w, k)                    (* :93 Ok(self.buffer.len() - 4) *)
  | SyReady (SErr e) => (WReady (WErr e), w, k)                         (* :91 `?` *)
  | SyReady SPanic => (WReady WPanic, w, k)
  | SyReady SFuel => (WReady WFuel, w, k)
  end.

(* async_writer.rs:81-94  one Future::poll of the write_with future for the value whose encoding outcome is e *)
Definition aw_poll (fuel : nat) (fut : wfut) (e : enc_res) (w : awriter) (k : asink)
  : wpoll * awriter * asink :=
  match fut with
  | WfStart =>
      match build_frame (aw_buf w) (aw_max w) e with                   (* :82-88 *)
      | BErr er b => (WReady (WErr er), mkawriter b (aw_max w) (aw_state w), k)     (* state not touched *)
      | BPanic b => (WReady WPanic, mkawriter b (aw_max w) (aw_state w), k)
      | BOk b => finish_write (sync_poll fuel SStart (mkawriter b (aw_max w) (WriteFrom 0)) k)   (* :89, :91 *)
      end
  | WfInSync => finish_write (sync_poll fuel SAtWrite w k)
  end.

Inductive wev := EvW (r : wres) | EvS (r : sres).      (* a write call / a sync call returned r *)
Inductive wmode := MWrite (f : wfut) | MSync (f : sfut).

(* The caller protocol of C16 for one value: call write; if its future is dropped while pending, or
   returns an error, call sync and drive it (re-creating it when dropped or when it returns an error)
   until it returns Ok. *)
Fixpoint aw_session (fuel : nat) (calls : list ctok) (m : wmode) (e : enc_res) (w : awriter) (k : asink)
  : list wev * list ctok * awriter * asink :=
  match fuel with
  | O => ([EvS SFuel], calls, w, k)
  | S f =>
      match m with
      | MWrite fu =>
          match aw_poll (asink_fuel k) fu e w k with
          | (WReady (WErr er), w1, k1) =>
              let '(evs, c, w2, k2) := aw_session f calls (MSync SStart) e w1 k1 in (EvW (WErr er) :: evs, c, w2, k2)
          | (WReady r, w1, k1) => ([EvW r], calls, w1, k1)
          | (WPend, w1, k1) =>
              match calls with
              | CDrop :: c => aw_session f c (MSync SStart) e w1 k1
              | CPoll :: c => aw_session f c (MWrite WfInSync) e w1 k1
              | [] => aw_session f [] (MWrite WfInSync) e w1 k1
              end
          end
      | MSync fu =>
          match sync_poll (asink_fuel k) fu w k with
          | (SyReady (SErr er), w1, k1) =>
              let '(evs, c, w2, k2) := aw_session f calls (MSync SStart) e w1 k1 in (EvS (SErr er) :: evs, c, w2, k2)
          | (SyReady r, w1, k1) => ([EvS r], calls, w1, k1)
          | (SyPend, w1, k1) =>
              match calls with
              | CDrop :: c => aw_session f c (MSync SStart) e w1 k1
              | CPoll :: c => aw_session f c (MSync SAtWrite) e w1 k1
              | [] => aw_session f [] (MSync SAtWrite) e w1 k1
              end
          end
      end
  end.

Definition aw_write_call (calls : list ctok) (e : enc_res) (w : awriter) (k : asink) :=
  aw_session (2 * length (k_sched k) + 4) calls (MWrite WfStart) e w k.

(* all values in order, then one sync on the idle writer *)
Fixpoint aw_run (calls : list ctok) (es : list enc_res) (w : awriter) (k : asink)
  : list (list wev) * spoll * awriter * asink :=
  match es with
  | [] => let '(sp, w1, k1) := sync_poll (asink_fuel k) SStart w k in ([], sp, w1, k1)
  | e :: t =>
      let '(evs, c1, w1, k1) := aw_write_call calls e w k in
      let '(rest, fin, w2, k2) := aw_run c1 t w1 k1 in
      (evs :: rest, fin, w2, k2)
  end.

(* ------------------------------------------------------------------------------------------ *)
(* The two other public operations of AsyncWriter a caller may interleave: flush and set_max_len.

   The inner AsyncWrite has a second scripted method, poll_flush: one token per inner poll_flush (Ready(Ok) /
   Pending / Ready(Err)); when the script is exhausted it is Ready(Ok).  The whole inner object is the pair
   `osink` of the poll_write part (the `asink` above, unchanged) and the poll_flush part. *)
Inductive ftok := KfReady | KfPend | KfErr.
Record fsink := mkfsink { kf_sched : list ftok; kf_calls : N }.
Record osink := mkosink { os_w : asink; os_f : fsink }.

(* one `poll_flush(cx)` of the scripted inner object: it touches only its own script *)
Definition osink_poll_flush (s : osink) : ftok * osink :=
  match kf_sched (os_f s) with
  | [] => (KfReady, mkosink (os_w s) (mkfsink [] (kf_calls (os_f s) + 1)))
  | t :: r => (t, mkosink (os_w s) (mkfsink r (kf_calls (os_f s) + 1)))
  end.

Inductive flres := FlOk | FlErr (e : io_err) | FlDropped | FlFuel.   (* Result<(), Error> of flush / future dropped *)
Inductive flpoll := FlReady (r : flres) | FlPending.

(* async_writer.rs:123-126  one Future::poll of the flush future: `self.writer.flush().await?; Ok(())`.
   futures_util's Flush future calls poll_flush once per poll and holds nothing but the writer reference
   (futures-util 0.3 src/io/flush.rs), so a fresh and a resumed flush future poll alike.  Neither
   self.buffer nor self.state nor self.max_len is read or written. *)
Definition aw_flush_poll (w : awriter) (s : osink) : flpoll * awriter * osink :=
  let '(t, s1) := osink_poll_flush s in
  match t with
  | KfReady => (FlReady FlOk, w, s1)
  | KfPend => (FlPending, w, s1)
  | KfErr => (FlReady (FlErr IoInner), w, s1)                          (* :124 `?` *)
  end.

(* one call of flush under a caller script: after every Pending poll again (CPoll, default) or drop the future *)
Fixpoint aw_flush_call (fuel : nat) (cs : list ctok) (w : awriter) (s : osink) : flres * awriter * osink :=
  match fuel with
  | O => (FlFuel, w, s)
  | S f =>
      match aw_flush_poll w s with
      | (FlReady r, w1, s1) => (r, w1, s1)
      | (FlPending, w1, s1) =>
          match cs with
          | CDrop :: _ => (FlDropped, w1, s1)
          | CPoll :: c => aw_flush_call f c w1 s1
          | [] => aw_flush_call f [] w1 s1
          end
      end
  end.

(* async_writer.rs:42-44  set_max_len(val: u32): self.max_len = val as usize  (64-bit usize: the cast is the identity) *)
Definition aw_set_max_len (w : awriter) (v : N) : awriter := mkawriter (aw_buf w) v (aw_state w).

(* a caller operation other than write / sync, issued while the caller holds no pending future *)
Inductive cop := OpFlush (cs : list ctok) | OpSetMax (v : N).
(* what the caller observes: the events of write / sync as before, the result of a flush call, a set_max_len call *)
Inductive oev := OEvW (e : wev) | OEvF (r : flres) | OEvM (v : N).

Definition aw_op (op : cop) (w : awriter) (s : osink) : oev * awriter * osink :=
  match op with
  | OpFlush cs => let '(r, w1, s1) := aw_flush_call (length (kf_sched (os_f s)) + 1) cs w s in (OEvF r, w1, s1)
  | OpSetMax v => (OEvM v, aw_set_max_len w v, s)
  end.

Fixpoint aw_ops (ops : list cop) (w : awriter) (s : osink) : list oev * awriter * osink :=
  match ops with
  | [] => ([], w, s)
  | op :: t => let '(ev, w1, s1) := aw_op op w s in
               let '(evs, w2, s2) := aw_ops t w1 s1 in (ev :: evs, w2, s2)
  end.

(* The caller's operations come as a stream of gaps: one entry (a list of operations, possibly empty) is
   consumed at every point at which the caller holds no pending future and is about to issue a call of the
   protocol - before each write, before each (re-)issued sync (after a dropped or failed write, after a dropped
   or failed sync), before the final sync.  An exhausted stream yields empty gaps. *)
Definition take_gap (gaps : list (list cop)) : list cop * list (list cop) :=
  match gaps with [] => ([], []) | g :: t => (g, t) end.

Definition with_sink (s : osink) (k : asink) : osink := mkosink k (os_f s).

(* aw_session with a gap before every (re-)issued sync.  `to_sync` is that step. *)
Fixpoint aw_session_ops (fuel : nat) (calls : list ctok) (gaps : list (list cop)) (m : wmode) (e : enc_res)
    (w : awriter) (s : osink) : list oev * list ctok * list (list cop) * awriter * osink :=
  match fuel with
  | O => ([OEvW (EvS SFuel)], calls, gaps, w, s)
  | S f =>
      let to_sync (pre : list oev) (c : list ctok) (w1 : awriter) (s1 : osink) :=
        let '(g, gaps1) := take_gap gaps in
        let '(gevs, w2, s2) := aw_ops g w1 s1 in
        let '(evs, c', g', w3, s3) := aw_session_ops f c gaps1 (MSync SStart) e w2 s2 in
        (pre ++ gevs ++ evs, c', g', w3, s3) in
      match m with
      | MWrite fu =>
          match aw_poll (asink_fuel (os_w s)) fu e w (os_w s) with
          | (WReady (WErr er), w1, k1) => to_sync [OEvW (EvW (WErr er))] calls w1 (with_sink s k1)
          | (WReady r, w1, k1) => ([OEvW (EvW r)], calls, gaps, w1, with_sink s k1)
          | (WPend, w1, k1) =>
              match calls with
              | CDrop :: c => to_sync [] c w1 (with_sink s k1)
              | CPoll :: c => aw_session_ops f c gaps (MWrite WfInSync) e w1 (with_sink s k1)
              | [] => aw_session_ops f [] gaps (MWrite WfInSync) e w1 (with_sink s k1)
              end
          end
      | MSync fu =>
          match sync_poll (asink_fuel (os_w s)) fu w (os_w s) with
          | (SyReady (SErr er), w1, k1) => to_sync [OEvW (EvS (SErr er))] calls w1 (with_sink s k1)
          | (SyReady r, w1, k1) => ([OEvW (EvS r)], calls, gaps, w1, with_sink s k1)
          | (SyPend, w1, k1) =>
              match calls with
              | CDrop :: c => to_sync [] c w1 (with_sink s k1)
              | CPoll :: c => aw_session_ops f c gaps (MSync SAtWrite) e w1 (with_sink s k1)
              | [] => aw_session_ops f [] gaps (MSync SAtWrite) e w1 (with_sink s k1)
              end
          end
      end
  end.

(* one value: the gap before the write, then the session.  Result: (events of the gap, events of the session) *)
Definition aw_write_call_ops (calls : list ctok) (gaps : list (list cop)) (e : enc_res) (w : awriter) (s : osink)
  : (list oev * list oev) * list ctok * list (list cop) * awriter * osink :=
  let '(g, gaps1) := take_gap gaps in
  let '(pre, w1, s1) := aw_ops g w s in
  let '(evs, c', g', w2, s2) := aw_session_ops (2 * length (k_sched (os_w s1)) + 4) calls gaps1 (MWrite WfStart) e w1 s1 in
  ((pre, evs), c', g', w2, s2).

(* all values in order, then a last gap and one sync on the idle writer *)
Fixpoint aw_run_ops (calls : list ctok) (gaps : list (list cop)) (es : list enc_res) (w : awriter) (s : osink)
  : list (list oev * list oev) * list oev * spoll * awriter * osink :=
  match es with
  | [] => let '(g, _) := take_gap gaps in
          let '(gevs, w1, s1) := aw_ops g w s in
          let '(sp, w2, k2) := sync_poll (asink_fuel (os_w s1)) SStart w1 (os_w s1) in
          ([], gevs, sp, w2, with_sink s1 k2)
  | e :: t =>
      let '(evs, c1, g1, w1, s1) := aw_write_call_ops calls gaps e w s in
      let '(rest, fin, sp, w2, s2) := aw_run_ops c1 g1 t w1 s1 in
      (evs :: rest, fin, sp, w2, s2)
  end.

(* ------------------------------------------------------------------------------------------ *)
(* Instances run by the correspondence driver *)
Definition aio_read_run (max : N) (ok : list bytes) (data : bytes) (sched : list atok) (calls : list ctok)
  : list (outcome bytes) * areader * asrc :=
  ar_stream bytes (dec_tab ok) calls (areader_new max) (mkasrc data sched 0).

Definition aio_write_run (max : N) (es : list enc_res) (sched : list ktok) (calls : list ctok)
  : list (list wev) * spoll * awriter * asink :=
  aw_run calls es (mkawriter [] max WNone) (mkasink [] sched 0).

Definition aio_write_run_ops (max : N) (es : list enc_res) (sched : list ktok) (fsched : list ftok)
    (calls : list ctok) (gaps : list (list cop))
  : list (list oev * list oev) * list oev * spoll * awriter * osink :=
  aw_run_ops calls gaps es (mkawriter [] max WNone) (mkosink (mkasink [] sched 0) (mkfsink fsched 0)).
