(* Model/Decoder.v — transliteration of minicbor/src/decode/decoder.rs.
   Each accessor is an M computation: it returns the outcome *and* the state (position, remaining
   input) it leaves behind, because callers continue from there after an error.
   Unsigned results are N, signed results Z, floats are bit patterns (N).
   The integer accessors are written once per signedness with the target maximum as a parameter:
   Rust omits the range check exactly in the arms where it cannot fail, so this is the same function. *)
From MC Require Export Monad Utf8 Half.
Local Open Scope N_scope.

Record cfg := mkcfg { c_alloc : bool; c_std : bool; c_half : bool }.
Definition cfg_full : cfg := mkcfg true true true.

(* ---- primitives (decoder.rs:665-705) ---- *)

(* Decoder::current — buf.get(pos) *)
Definition current : M N := fun s =>
  match drest s with b :: _ => (Ok b, s) | [] => (Err EndOfInput, s) end.

(* Decoder::read *)
Definition read : M N := fun s =>
  match drest s with
  | b :: r => (Ok b, mkdst (dpos s + 1) r (dlen s))
  | [] => (Err EndOfInput, s)
  end.

(* Decoder::peek — buf.get(pos + 1) with checked_add *)
Definition peek : M N := fun s =>
  match drest s with _ :: b :: _ => (Ok b, s) | _ => (Err EndOfInput, s) end.

(* Decoder::read_slice — pos.checked_add(n) and buf.get(pos .. end); a position beyond the end of
   the buffer (reachable only through set_position) fails even for n = 0 *)
Definition read_slice (n : N) : M bytes := fun s =>
  if dlen s <? dpos s then (Err EndOfInput, s)
  else match take (drest s) n with
       | Some (a, r) => (Ok a, mkdst (dpos s + n) r (dlen s))
       | None => (Err EndOfInput, s)
       end.

(* Decoder::read_array::<K> followed by uK::from_be_bytes *)
Definition read_be (k : nat) : M N := fmap of_be (read_slice (N.of_nat k)).

Definition position : M N := fun s => (Ok (dpos s), s).

(* ---- Decoder::type_of (decoder.rs:708) ---- *)
Definition type_of (n : N) : M ctype :=
  if n <=? 0x18 then ret TU8
  else if n =? 0x19 then ret TU16
  else if n =? 0x1a then ret TU32
  else if n =? 0x1b then ret TU64
  else if (0x20 <=? n) && (n <=? 0x37) then ret TI8
  else if n =? 0x38 then b <- peek ;; ret (if b <? 0x80 then TI8 else TI16)
  else if n =? 0x39 then b <- peek ;; ret (if b <? 0x80 then TI16 else TI32)
  else if n =? 0x3a then b <- peek ;; ret (if b <? 0x80 then TI32 else TI64)
  else if n =? 0x3b then b <- peek ;; ret (if b <? 0x80 then TI64 else TInt)
  else if (0x40 <=? n) && (n <=? 0x5b) then ret TBytes
  else if n =? 0x5f then ret TBytesIndef
  else if (0x60 <=? n) && (n <=? 0x7b) then ret TString
  else if n =? 0x7f then ret TStringIndef
  else if (0x80 <=? n) && (n <=? 0x9b) then ret TArray
  else if n =? 0x9f then ret TArrayIndef
  else if (0xa0 <=? n) && (n <=? 0xbb) then ret TMap
  else if n =? 0xbf then ret TMapIndef
  else if (0xc0 <=? n) && (n <=? 0xdb) then ret TTag
  else if ((0xe0 <=? n) && (n <=? 0xf3)) || (n =? 0xf8) then ret TSimple
  else if (n =? 0xf4) || (n =? 0xf5) then ret TBool
  else if n =? 0xf6 then ret TNull
  else if n =? 0xf7 then ret TUndefined
  else if n =? 0xf9 then ret TF16
  else if n =? 0xfa then ret TF32
  else if n =? 0xfb then ret TF64
  else if n =? 0xff then ret TBreak
  else ret (TUnknown n).

(* Err(Error::type_mismatch(self.type_of(b)?)) *)
Definition mismatch {A} (b : N) : M A := t <- type_of b ;; fail (TypeMismatch t).

(* decoder.rs:970,975 *)
Definition major (b : N) : N := (b / 32) * 32.
Definition info (b : N) : N := b mod 32.

(* Decoder::unsigned (decoder.rs:652) *)
Definition unsigned (b : N) : M N :=
  if b <=? 0x17 then ret b
  else if b =? 0x18 then read
  else if b =? 0x19 then read_be 2
  else if b =? 0x1a then read_be 4
  else if b =? 0x1b then read_be 8
  else mismatch b.

(* try_as (decoder.rs:983): uN -> target, fails iff n > target::MAX *)
Definition try_as (max n : N) : M N := if n <=? max then ret n else fail (Overflow n).

(* u8/u16/u32/u64 (decoder.rs:69-112) *)
Definition dec_uint (max : N) : M N :=
  b <- read ;; n <- unsigned b ;; try_as max n.
Definition dec_u8 := dec_uint 255.
Definition dec_u16 := dec_uint 65535.
Definition dec_u32 := dec_uint 4294967295.
Definition dec_u64 := dec_uint 18446744073709551615.

(* i8/i16/i32/i64 (decoder.rs:115-184); max = iN::MAX *)
Definition dec_sint (max : N) : M Z :=
  b <- read ;;
  if b <=? 0x1b then n <- unsigned b ;; n' <- try_as max n ;; ret (Z.of_N n')
  else if (0x20 <=? b) && (b <=? 0x3b) then
    n <- unsigned (b - 0x20) ;; n' <- try_as max n ;; ret (-1 - Z.of_N n')%Z
  else mismatch b.
Definition dec_i8 := dec_sint 127.
Definition dec_i16 := dec_sint 32767.
Definition dec_i32 := dec_sint 2147483647.
Definition dec_i64 := dec_sint 9223372036854775807.

(* int (decoder.rs:189): (negative?, magnitude) *)
Definition dec_int : M (bool * N) :=
  b <- read ;;
  if b <=? 0x1b then n <- unsigned b ;; ret (false, n)
  else if (0x20 <=? b) && (b <=? 0x3b) then n <- unsigned (b - 0x20) ;; ret (true, n)
  else mismatch b.

(* f16 (decoder.rs:210), result = f32 bits *)
Definition dec_f16 : M N :=
  b <- read ;;
  if negb (b =? 0xf9) then mismatch b
  else n <- read_be 2 ;; ret (f16_to_f32 n).

(* f32 (decoder.rs:220) *)
Definition dec_f32 (c : cfg) : M N :=
  b <- current ;;
  if c_half c && (b =? 0xf9) then dec_f16
  else if b =? 0xfa then read ;;; read_be 4
  else mismatch b.

(* f64 (decoder.rs:234) *)
Definition dec_f64 (c : cfg) : M N :=
  b <- current ;;
  if c_half c && (b =? 0xf9) then fmap f32_to_f64 dec_f16
  else if b =? 0xfa then fmap f32_to_f64 (dec_f32 c)
  else if b =? 0xfb then read ;;; read_be 8
  else mismatch b.

(* bool (decoder.rs:59) *)
Definition dec_bool : M bool :=
  b <- read ;;
  if b =? 0xf4 then ret false else if b =? 0xf5 then ret true else mismatch b.

(* char (decoder.rs:249) *)
Definition dec_char : M N :=
  n <- dec_u32 ;; if is_scalar n then ret n else fail (InvalidChar n).

(* bytes (decoder.rs:259); u64_to_usize is the identity on a 64-bit target *)
Definition dec_bytes : M bytes :=
  b <- read ;;
  if negb (major b =? 0x40) || (info b =? 31) then mismatch b
  else n <- unsigned (info b) ;; read_slice n.

(* str (decoder.rs:297) *)
Definition dec_str : M bytes :=
  b <- read ;;
  if negb (major b =? 0x60) || (info b =? 31) then mismatch b
  else n <- unsigned (info b) ;; d <- read_slice n ;;
       if utf8_valid d then ret d else fail Utf8.

(* bytes_iter / str_iter (decoder.rs:276,315) drained the way `for v in it { v?; }` does:
   the list of chunks, stopping at the first error.  fuel >= remaining bytes + 1 suffices. *)
Fixpoint chunks_until_break (one : M bytes) (fuel : nat) (acc : list bytes) : M (list bytes) :=
  match fuel with
  | O => fun s => (OutOfFuel, s)
  | S fuel =>
    b <- current ;;
    if b =? 0xff then read ;;; ret (rev acc)
    else c <- one ;; chunks_until_break one fuel (c :: acc)
  end.

Definition dec_bytes_iter (fuel : nat) : M (list bytes) :=
  b <- read ;;
  if negb (major b =? 0x40) then mismatch b
  else if info b =? 31 then chunks_until_break dec_bytes fuel []
  else n <- unsigned (info b) ;;
       if n =? 0 then ret [] else c <- read_slice n ;; ret [c].

Definition dec_str_iter (fuel : nat) : M (list bytes) :=
  b <- read ;;
  if negb (major b =? 0x60) then mismatch b
  else if info b =? 31 then chunks_until_break dec_str fuel []
  else n <- unsigned (info b) ;;
       if n =? 0 then ret []
       else c <- read_slice n ;; if utf8_valid c then ret [c] else fail Utf8.

(* array / map (decoder.rs:337,382): Some n / None (indefinite) *)
Definition dec_container (mt : N) : M (option N) :=
  b <- read ;;
  if negb (major b =? mt) then mismatch b
  else if info b =? 31 then ret None
  else n <- unsigned (info b) ;; ret (Some n).
Definition dec_array := dec_container 0x80.
Definition dec_map := dec_container 0xa0.

(* tag (decoder.rs:425) *)
Definition dec_tag : M N :=
  b <- read ;;
  if negb (major b =? 0xc0) then mismatch b else unsigned (info b).

(* null / undefined / simple (decoder.rs:437-468) *)
Definition dec_null : M unit := b <- read ;; if b =? 0xf6 then ret tt else mismatch b.
Definition dec_undefined : M unit := b <- read ;; if b =? 0xf7 then ret tt else mismatch b.
Definition dec_simple : M N :=
  b <- read ;;
  if (0xe0 <=? b) && (b <=? 0xf3) then ret (b - 0xe0)
  else if b =? 0xf8 then read
  else mismatch b.

(* datatype (decoder.rs:471) *)
Definition datatype : M ctype := b <- current ;; type_of b.

(* ---- skip (decoder.rs:483, feature alloc) ---- *)
Definition sat_add (a b : N) : N := N.min u64_max (a + b).
Definition sat_mul (a b : N) : N := N.min u64_max (a * b).

Inductive frame := FSome (n : N) | FNone.
Record skst := mksk { nr : N; ir : N; stk : list frame }.   (* head of stk = top of the Vec *)

Fixpoint pop_zeros (st : list frame) : list frame :=
  match st with
  | FSome n :: r => if n =? 0 then pop_zeros r else st
  | _ => st
  end.

Definition counting (c : skst) : bool := negb ((nr c =? 0) && (ir c =? 0)).

(* the code after the match (decoder.rs:576-587); None = `break` *)
Definition skip_after (c : skst) : option skst :=
  if counting c then Some (mksk (nr c - 1) (ir c) (stk c))
  else match pop_zeros (stk c) with
       | FSome n :: r => Some (mksk 0 0 (FSome (n - 1) :: r))
       | FNone :: r => Some (mksk 0 0 (FNone :: r))
       | [] => None
       end.

(* a definite header with n elements (n already doubled for maps) *)
Definition skip_definite (c : skst) (n : N) : skst :=
  if n =? 0 then c
  else if counting c then mksk (sat_add (nr c) n) (ir c) (stk c)
  else mksk 0 0 (FSome n :: stk c).

(* an indefinite array/map header (decoder.rs:514-527) *)
Definition skip_indefinite (c : skst) : skst :=
  if negb (counting c) then mksk 0 0 (FNone :: stk c)
  else if nr c <? 2 then mksk (nr c) (sat_add (ir c) 1) (stk c)
  else mksk 0 0 (FNone :: FSome (nr c - 1) :: repeat FNone (N.to_nat (ir c)) ++ stk c).

Definition skip_break (c : skst) : skst :=
  if counting c then mksk (nr c) (ir c - 1) (stk c)
  else match stk c with FNone :: r => mksk 0 0 r | _ => c end.

(* one iteration of the while loop; None = loop exited through `break` *)
Definition skip_step (fuel : nat) (c : skst) : M (option skst) :=
  b <- current ;;
  if b <=? 0x1b then dec_u64 ;;; ret (skip_after c)
  else if (0x20 <=? b) && (b <=? 0x3b) then dec_int ;;; ret (skip_after c)
  else if (0x40 <=? b) && (b <=? 0x5f) then dec_bytes_iter fuel ;;; ret (skip_after c)
  else if (0x60 <=? b) && (b <=? 0x7f) then dec_str_iter fuel ;;; ret (skip_after c)
  else if (0x80 <=? b) && (b <=? 0x9f) then
    r <- dec_array ;;
    ret (skip_after (match r with Some n => skip_definite c n | None => skip_indefinite c end))
  else if (0xa0 <=? b) && (b <=? 0xbf) then
    r <- dec_map ;;
    ret (skip_after (match r with Some n => skip_definite c (sat_mul n 2) | None => skip_indefinite c end))
  else if (0xc0 <=? b) && (b <=? 0xdb) then
    n <- read ;; unsigned (info n) ;;; ret (Some c)                     (* `continue` *)
  else if (0xe0 <=? b) && (b <=? 0xfb) then
    n <- read ;; unsigned (info n) ;;; ret (skip_after c)
  else if b =? 0xff then read ;;; ret (skip_after (skip_break c))
  else mismatch b.

Definition skip_running (c : skst) : bool :=
  negb ((nr c =? 0) && (ir c =? 0) && (match stk c with [] => true | _ => false end)).

Fixpoint skip_loop (fuel : nat) (c : skst) : M unit :=
  if skip_running c then
    match fuel with
    | O => fun s => (OutOfFuel, s)
    | S fuel' =>
      r <- skip_step fuel c ;;
      match r with Some c' => skip_loop fuel' c' | None => ret tt end
    end
  else ret tt.

Definition skip_alloc (fuel : nat) : M unit := skip_loop fuel (mksk 1 0 []).

(* ---- skip (decoder.rs:598, without feature alloc): counters only; Message = the documented
   "require feature flag alloc" error ---- *)
Record sknst := mkskn { nnr : N; nir : N }.

Definition skipn_step (fuel : nat) (c : sknst) : M sknst :=
  let dec1 (c : sknst) := mkskn (nnr c - 1) (nir c) in
  let cont (r : option N) (dbl : bool) : M sknst :=
    match r with
    | Some n => ret (dec1 (mkskn (sat_add (nnr c) (if dbl then sat_mul n 2 else n)) (nir c)))
    | None => if nnr c <? 2 then ret (dec1 (mkskn (nnr c) (sat_add (nir c) 1))) else fail Message
    end in
  b <- current ;;
  if b <=? 0x1b then dec_u64 ;;; ret (dec1 c)
  else if (0x20 <=? b) && (b <=? 0x3b) then dec_int ;;; ret (dec1 c)
  else if (0x40 <=? b) && (b <=? 0x5f) then dec_bytes_iter fuel ;;; ret (dec1 c)
  else if (0x60 <=? b) && (b <=? 0x7f) then dec_str_iter fuel ;;; ret (dec1 c)
  else if (0x80 <=? b) && (b <=? 0x9f) then r <- dec_array ;; cont r false
  else if (0xa0 <=? b) && (b <=? 0xbf) then r <- dec_map ;; cont r true
  else if (0xc0 <=? b) && (b <=? 0xdb) then n <- read ;; unsigned (info n) ;;; ret c
  else if (0xe0 <=? b) && (b <=? 0xfb) then n <- read ;; unsigned (info n) ;;; ret (dec1 c)
  else if b =? 0xff then read ;;; ret (dec1 (mkskn (nnr c) (nir c - 1)))
  else mismatch b.

Fixpoint skipn_loop (fuel : nat) (c : sknst) : M unit :=
  if negb ((nnr c =? 0) && (nir c =? 0)) then
    match fuel with
    | O => fun s => (OutOfFuel, s)
    | S fuel' => c' <- skipn_step fuel c ;; skipn_loop fuel' c'
    end
  else ret tt.

Definition skip_noalloc (fuel : nat) : M unit := skipn_loop fuel (mkskn 1 0).

Definition skip (c : cfg) (fuel : nat) : M unit :=
  if c_alloc c then skip_alloc fuel else skip_noalloc fuel.

(* fuel that always suffices: every loop iteration consumes at least one byte *)
Definition fuel_of (s : dst) : nat := S (length (drest s)).
Definition skip_auto (c : cfg) : M unit := fun s => skip c (fuel_of s) s.
