(* Model/IntConv.v — data::Int { neg, val } and its conversions (minicbor/src/data.rs:404-570).
   An i128/u128 argument is a Z; results of narrowing conversions are option (None = TryFromIntError). *)
From MC Require Export Bytes.
Local Open Scope Z_scope.

Definition int_t := (bool * N)%type.
Definition int_val (i : int_t) : Z := if fst i then -1 - Z.of_N (snd i) else Z.of_N (snd i).

(* From<u8|u16|u32|u64> (data.rs:406-428) *)
Definition int_of_unsigned (n : N) : int_t := (false, n).
(* From<i8|i16|i32|i64> via i64 (data.rs:438-464): (-1 - i) as u64 / i as u64 *)
Definition int_of_i64 (z : Z) : int_t := if z <? 0 then (true, Z.to_N (-1 - z)) else (false, Z.to_N z).
(* TryFrom<u128> (data.rs:430) *)
Definition int_of_u128 (z : Z) : option int_t := if z <=? 18446744073709551615 then Some (false, Z.to_N z) else None.
(* TryFrom<i128> (data.rs:466) *)
Definition int_of_i128 (z : Z) : option int_t :=
  if z <? 0 then (if z <? -18446744073709551616 then None else Some (true, Z.to_N (-1 - z)))
  else if 18446744073709551615 <? z then None else Some (false, Z.to_N z).

(* TryFrom<Int> for u64 (data.rs:510) then uN::try_from (data.rs:486-508) *)
Definition int_to_unsigned (max : Z) (i : int_t) : option Z :=
  if fst i then None else if Z.of_N (snd i) <=? max then Some (Z.of_N (snd i)) else None.
(* TryFrom<Int> for i64 (data.rs:556): j = i64::try_from(val)?; if neg { -1 - j } else { j }; then iN::try_from *)
Definition int_to_signed (max : Z) (i : int_t) : option Z :=
  if Z.of_N (snd i) <=? 9223372036854775807 then
    let j := Z.of_N (snd i) in
    let v := if fst i then -1 - j else j in
    if (-1 - max <=? v) && (v <=? max) then Some v else None
  else None.
(* From<Int> for i128 (data.rs:565), TryFrom<Int> for u128 (data.rs:521) *)
Definition int_to_i128 (i : int_t) : Z := int_val i.
Definition int_to_u128 (i : int_t) : option Z := if fst i then None else Some (Z.of_N (snd i)).
