(* Model/Sink.v — the Write sinks of minicbor/src/encode/write.rs.  A bounded sink is its capacity and
   the bytes accepted so far; write_all is all-or-nothing per chunk (write.rs:22-35: length test, then
   split_at_mut + copy_from_slice), the cursors add the position bookkeeping (write.rs:71-113). *)
From MC Require Export Encoder.
Local Open Scope N_scope.

Inductive sink_kind := KSlice | KCursorSlice | KCursorArray | KCursorBox | KVec | KIoVec
                     | KIoSlice      (* Writer<&mut [u8]>: std's bounded writer copies what fits, then fails (WriteZero) *)
                     | KIoTrickle.   (* Writer over an io::Write accepting one byte per write(): write_all loops *)

(* minicbor's own bounded sinks: all-or-nothing per chunk *)
Definition bounded (k : sink_kind) : bool :=
  match k with KVec | KIoVec | KIoSlice | KIoTrickle => false | _ => true end.
(* std's bounded writer behind the io adapter: partial chunk, then error *)
Definition partial (k : sink_kind) : bool := match k with KIoSlice => true | _ => false end.

Record sink := mksink { s_kind : sink_kind; s_cap : N; s_written : bytes; s_pos : N }.

Definition sink_new (k : sink_kind) (cap : N) : sink := mksink k cap [] 0.

(* impl Write for &mut [u8] (write.rs:22): fails, writing nothing, when the chunk does not fit *)
Definition write_all (s : sink) (c : chunk) : option sink :=
  if bounded (s_kind s) then
    (* cursors: `&mut self.0[self.1 ..]` then the slice impl; the plain slice: itself *)
    if len c <=? s_cap s - len (s_written s)
    then Some (mksink (s_kind s) (s_cap s) (s_written s ++ c) (s_pos s + len c))
    else None
  else if partial (s_kind s) then
    if len c <=? s_cap s - len (s_written s)
    then Some (mksink (s_kind s) (s_cap s) (s_written s ++ c) (s_pos s + len c))
    else None    (* the bytes that fit are written all the same: see write_all_partial *)
  else Some (mksink (s_kind s) (s_cap s) (s_written s ++ c) (s_pos s + len c)).   (* Vec::extend_from_slice *)

(* what a failing write_all leaves behind *)
Definition write_all_partial (s : sink) (c : chunk) : sink :=
  if partial (s_kind s) then
    let room := s_cap s - len (s_written s) in
    let fit := match take c room with Some (a, _) => a | None => c end in
    mksink (s_kind s) (s_cap s) (s_written s ++ fit) (s_pos s + len fit)
  else s.

(* Encoder::put for each chunk until the first write error (the `?` in every encoder method) *)
Fixpoint run_sink (s : sink) (cs : list chunk) : bool * sink :=
  match cs with
  | [] => (true, s)
  | c :: cs' => match write_all s c with
                | Some s' => run_sink s' cs'
                | None => (false, write_all_partial s c)
                end
  end.

(* the chunks before the first one that does not fit into `room` bytes *)
Fixpoint fitting (room : N) (cs : list chunk) : list chunk :=
  match cs with
  | [] => []
  | c :: cs' => if len c <=? room then c :: fitting (room - len c) cs' else []
  end.
