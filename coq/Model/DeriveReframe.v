(* Model/DeriveReframe.v — the re-framings of a derived encoding (property C09, "whether the input container is
   definite or indefinite"): the same value in the documented wire format (Spec/DeriveDoc.v; by C08_format the
   bytes of Model/DeriveEnc.v are its preferred serialisation), with the framing of the *derive layer* left free:

     (a) the array / map that is the body of a struct or of a variant (also the empty body `array(0)` / `map(0)`
         of a unit variant) is either definite with a head of any width that holds its length (>= the minimal
         one), or indefinite: 0x9f / 0xbf, the same items, 0xff;
     (b) every other head the generated code writes — the u32 keys of map encoding, the variant index, the tags
         at the four levels (struct / enum, variant, field), the head of the 2-element array `[index, body]` of
         an enum — has any width that holds its argument;
     (c) everything else stays as the encoder writes it: the gap nulls (0xf6 has one form only), the `Option`
         null, the header of a `Vec` field, and the leaves — what the built-in impl, `minicbor::bytes` or the
         codec `nz` writes (the parameter `leaf`; `rf_leaf_enc` is "as the encoder writes it").

   NOT free: the 2-element array of an enum must be definite.  The generated decoder demands
   `Some(2) == d.array()?` (decode.rs:217, Model/DeriveDec.v dec_def) and refuses `9f idx body ff` with a message
   error although that is a well-formed encoding of the same data item; `rf_def` therefore only varies the width of
   that head (see notes/derive.md 1.3 and the Example C09_enum_indefinite_pair_rejected).

   The choices are read off a list, one number per head in the order the bytes are written (0 = as the encoder:
   minimal / definite, 1..4 = argument in 1 / 2 / 4 / 8 bytes if it fits, else minimal; >= 5 on a body container =
   indefinite, on any other head = minimal); an exhausted list continues with 0, so `[]` is the encoder's own
   output (ReframeFacts: rf_nil).  `reframe Sc d v bs` = some choice list yields bs.
   Definitions only; proofs in Proofs/DeriveReframeFacts.v. *)
From MC Require Export DeriveEnc Cbor TypeSem.
Local Open Scope N_scope.

(* a computation that consumes choices *)
Definition RF (A : Type) := list N -> option (A * list N).
Definition rf_ret {A} (a : A) : RF A := fun ch => Some (a, ch).
Definition rf_fail {A} : RF A := fun _ => None.
Definition rf_bind {A B} (m : RF A) (f : A -> RF B) : RF B :=
  fun ch => match m ch with Some (a, ch') => f a ch' | None => None end.
Definition rf_lift {A} (o : option A) : RF A := fun ch => match o with Some a => Some (a, ch) | None => None end.
Definition rf_choice : RF N := fun ch => match ch with [] => Some (0, []) | k :: r => Some (k, r) end.
Definition rf_cat (a b : RF bytes) : RF bytes := rf_bind a (fun x => rf_bind b (fun y => rf_ret (x ++ y))).

(* the head width a choice selects for argument n *)
Definition rf_width_code (k : N) : width :=
  if k =? 1 then W1 else if k =? 2 then W2 else if k =? 3 then W4 else if k =? 4 then W8 else W0.
Definition rf_pick_width (n k : N) : width :=
  let w := rf_width_code k in if fits w n then w else min_width n.

(* (b) a head of the derive layer *)
Definition rf_head (mt n : N) : RF bytes :=
  rf_bind rf_choice (fun k => rf_ret (Cbor.head mt (rf_pick_width n k) n)).

Definition rf_tag_opt (t : option N) : RF bytes :=
  match t with Some n => rf_head 6 n | None => rf_ret [] end.

(* (a) a body container around its items (an item of a map body is one key-value entry) *)
Definition rf_frame (mt k : N) (items : list bytes) : bytes :=
  if 5 <=? k then (mt * 32 + 31) :: concat items ++ [255]
  else Cbor.head mt (rf_pick_width (len items) k) (len items) ++ concat items.
Definition rf_body (mt : N) (items : RF (list bytes)) : RF bytes :=
  rf_bind rf_choice (fun k => rf_bind items (fun its => rf_ret (rf_frame mt k its))).

(* (c) a leaf as the encoder writes it *)
Definition rf_leaf_enc (t : ty) (v : value) : RF bytes := rf_lift (option_map flat (encode_ty t v)).

Fixpoint rf_all (f : value -> RF bytes) (l : list value) : RF (list bytes) :=
  match l with
  | [] => rf_ret []
  | v :: r => rf_bind (f v) (fun b => rf_bind (rf_all f r) (fun bs => rf_ret (b :: bs)))
  end.

Section Rf.
Variable leaf : ty -> value -> RF bytes.          (* the built-in leaf types *)
Variable rec : nat -> value -> RF bytes.          (* another definition of the schema *)

Fixpoint rf_fty (f : fty) (v : value) {struct f} : RF bytes :=
  match f, v with
  | FTy t, _ => leaf t v
  | FRef d, _ => rec d v
  | FOpt _, VNone => rf_ret [246]
  | FOpt f', VSome v' => rf_fty f' v'
  | FSeq f', VList l =>                                          (* the Vec header stays; its elements may be definitions *)
      rf_bind (rf_all (rf_fty f') l) (fun items => rf_ret (flat (enc_array (len l)) ++ concat items))
  | _, _ => rf_fail
  end.

Definition rf_field_fn (f : field) (v : value) : RF bytes :=
  match f_codec f with
  | CoDefault => rf_fty (f_ty f) v
  | CoBytes => rf_fty (f_ty f) v
  | CoCustom _ => rf_lift (option_map flat (cust_encode v))
  end.

(* array body: the items at positions p, p+1, …, i — gap nulls, then [tag] value of the field (a nil field below the
   highest present index is written by its own encoder) *)
Fixpoint rf_arr_items (l : list pfield) (vs : list value) (p i : N) : RF (list bytes) :=
  match l with
  | [] => rf_ret []
  | pf :: r =>
      if pf_idx pf <=? i then
        rf_bind (rf_tag_opt (f_tag (pf_fld pf))) (fun t =>
        rf_bind (rf_field_fn (pf_fld pf) (pf_val vs pf)) (fun b =>
        rf_bind (rf_arr_items r vs (pf_idx pf + 1) i) (fun rest =>
        rf_ret (repeat [246] (N.to_nat (pf_idx pf - p)) ++ (t ++ b) :: rest))))
      else rf_ret []
  end.

Definition rf_as_array (l : list pfield) (vs : list value) : RF bytes :=
  match max_index l vs None with
  | Some i => rf_body 4 (rf_arr_items l vs 0 i)
  | None => rf_body 4 (rf_ret [])
  end.

(* map body: one entry key [tag] value per non-nil field, ascending keys *)
Fixpoint rf_map_items (l : list pfield) (vs : list value) : RF (list bytes) :=
  match l with
  | [] => rf_ret []
  | pf :: r =>
      if fld_is_nil (pf_fld pf) (pf_val vs pf) then rf_map_items r vs
      else
        rf_bind (rf_head 0 (pf_idx pf)) (fun k =>
        rf_bind (rf_tag_opt (f_tag (pf_fld pf))) (fun t =>
        rf_bind (rf_field_fn (pf_fld pf) (pf_val vs pf)) (fun b =>
        rf_bind (rf_map_items r vs) (fun rest =>
        rf_ret ((k ++ t ++ b) :: rest)))))
  end.

Definition rf_as_map (l : list pfield) (vs : list value) : RF bytes := rf_body 5 (rf_map_items l vs).

Definition rf_fields (e : encoding) (fs : list field) (vs : list value) : RF bytes :=
  if Nat.eqb (length vs) (length fs) then
    match e with
    | AsArray => rf_as_array (sorted_fields fs) vs
    | AsMap => rf_as_map (sorted_fields fs) vs
    end
  else rf_fail.

Definition rf_body_mt (e : encoding) : N := match e with AsArray => 4 | AsMap => 5 end.

Definition rf_def (df : def) (v : value) : RF bytes :=
  match df, v with
  | DStruct e tag transparent sh fs, VList vs =>
      if transparent then
        match sorted_fields fs, vs with
        | [pf], [_] => rf_field_fn (pf_fld pf) (pf_val vs pf)
        | _, _ => rf_fail
        end
      else rf_cat (rf_tag_opt tag) (rf_fields (struct_encoding e) fs vs)
  | DEnum e tag index_only vars, VVar i (VList vs) =>
      match find_variant vars i with
      | None => rf_fail
      | Some va =>
          rf_cat (rf_tag_opt tag)
            (if is_unit (v_shape va) then
               match vs with
               | [] =>
                 if index_only then rf_head 0 i
                 else rf_cat (rf_head 4 2)                      (* definite: the decoder demands Some(2) *)
                        (rf_cat (rf_head 0 i)
                           (rf_cat (rf_tag_opt (v_tag va)) (rf_body (rf_body_mt (variant_encoding e va)) (rf_ret []))))
               | _ => rf_fail
               end
             else if index_only then rf_fail
             else rf_cat (rf_head 4 2)
                    (rf_cat (rf_head 0 i)
                       (rf_cat (rf_tag_opt (v_tag va)) (rf_fields (variant_encoding e va) (v_fields va) vs))))
      end
  | _, _ => rf_fail
  end.
End Rf.

Fixpoint gen_reframe_f (leaf : ty -> value -> RF bytes) (k : nat) (Sc : schema) (d : nat) (v : value) : RF bytes :=
  match k with
  | O => rf_fail
  | S k' =>
      match nth_error Sc d with
      | Some df => rf_def leaf (fun d' v' => if Nat.ltb d' d then gen_reframe_f leaf k' Sc d' v' else rf_fail) df v
      | None => rf_fail
      end
  end.

(* the re-framing of (the derived encoding of) v that the choice list ch selects *)
Definition reframe_with (ch : list N) (Sc : schema) (d : nat) (v : value) : option bytes :=
  match gen_reframe_f rf_leaf_enc (S d) Sc d v ch with Some (bs, _) => Some bs | None => None end.

Definition reframe (Sc : schema) (d : nat) (v : value) (bs : bytes) : Prop :=
  exists ch, reframe_with ch Sc d v = Some bs.

(* ---- (c) generalised: the leaves re-framed too.  A leaf of built-in type t with value v is either what the encoder
   writes, or ANY well-formed item e to which the specification of the built-in types (Spec/TypeSem.v, the open-record
   reading spec_ty_lenient_at of property C04) assigns the value v and the whole item — any head widths, indefinite
   strings / arrays / maps, chunked byte strings, surplus record elements … below the derive layer.  alloc is the one
   feature the specification depends on (skip() of nested indefinite items without `alloc`). *)
Definition rf_leaf_item (alloc : bool) (t : ty) (v : value) (b : bytes) : Prop :=
  (exists cs, encode_ty t v = Some cs /\ b = flat cs) \/
  (exists e, b = ser e /\ wf e = true /\ spec_ty_lenient_at alloc t e = TXOk v (len (ser e))).

Definition rf_leaf_writer (alloc : bool) (leaf : ty -> value -> RF bytes) : Prop :=
  forall t v ch b ch', leaf t v ch = Some (b, ch') -> rf_leaf_item alloc t v b.

Definition reframe_leaves (alloc : bool) (Sc : schema) (d : nat) (v : value) (bs : bytes) : Prop :=
  exists leaf ch ch', rf_leaf_writer alloc leaf /\ gen_reframe_f leaf (S d) Sc d v ch = Some (bs, ch').

(* an instance: unsigned integer leaves with a head width taken from the choice list, everything else as written *)
Definition rf_leaf_wide (t : ty) (v : value) : RF bytes :=
  match t, v with
  | TyU w, VNat n => if n <=? umax w then rf_head 0 n else rf_fail
  | _, _ => rf_leaf_enc t v
  end.
