(* Model/Serde.v — the serde bridge (minicbor-serde 0.3.2: src/ser.rs, src/de.rs) as interpreters over the
   serde data model.

   Part A  sval   : the serde data model as a call tree, one constructor per `serde::Serializer` method.
           ser_s  : transliteration of ser.rs, method by method.
   Part B  shape  : what a `Deserialize` impl asks the `Deserializer` for (the hint sequence).
           SeqAccess / MapAccess / EnumAccess / VariantAccess of de.rs, deserialize_any's dispatch.
   Part C  SERDE-SIDE MODELLING (not minicbor code): what serde 1.0.229's derived visitors and its private
           `Content` buffer do with the calls the bridge makes (struct from map, unknown fields ignored,
           missing Option fields, untagged / internally tagged / adjacently tagged / flattened types, integer
           widening in primitive visitors).  Written from serde's source (serde-1.0.229/src/private/de.rs,
           serde_core-1.0.229/src/de/impls.rs, serde_derive-1.0.229/src/de/*.rs).  No theorem rests on it except
           where stated; it is validated only by the correspondence check (checks/C17.py).
   Part D  de_s   : cfg -> shape -> fuel -> M sval, putting B and C together.

   Definitions only; proofs are in Proofs/SerdeFacts.v. *)
From MC Require Export Types.
Local Open Scope N_scope.

(* ================================================================== Part A: serialisation *)

(* One constructor per Serializer method (ser.rs:64-264).  The integer methods are indexed by width:
   SI B8 = serialize_i8 … SU B64 = serialize_u64.  Names are the UTF-8 bytes of the `&'static str`.
   Lengths passed by the caller (`len: usize`, `Option<usize>`) are part of the call. *)
Inductive sval :=
| SBool (b : bool)
| SI (w : iw) (z : Z)
| SU (w : iw) (n : N)
| SF32 (bits : N)
| SF64 (bits : N)
| SChar (c : N)
| SStr (b : bytes)
| SCollectStr (b : bytes)                          (* collect_str(&v) where v's Display output is b *)
| SBytes (b : bytes)
| SNone
| SSome (v : sval)
| SUnit
| SUnitStruct
| SUnitVariant (idx : N) (name : bytes)
| SNewtypeStruct (v : sval)
| SNewtypeVariant (idx : N) (name : bytes) (v : sval)
| SSeq (n : option N) (l : list sval)              (* serialize_seq(n); serialize_element*; end *)
| STuple (n : N) (l : list sval)
| STupleStruct (n : N) (l : list sval)
| STupleVariant (idx : N) (name : bytes) (n : N) (l : list sval)
| SMap (n : option N) (kvs : list sval)            (* serialize_key, serialize_value alternating *)
| SStruct (n : N) (fs : list (bytes * sval))
| SStructVariant (idx : N) (name : bytes) (n : N) (fs : list (bytes * sval)).

(* serialize_element / serialize_field(tuple) / serialize_key / serialize_value: ser.rs:278,297,313,329,345,349 *)
Definition all_s (f : sval -> option (list chunk)) := fix go (l : list sval) : option (list chunk) :=
  match l with [] => Some [] | x :: r => ocat (f x) (go r) end.

(* SerializeStruct / SerializeStructVariant::serialize_field: key.serialize, val.serialize (ser.rs:368,388) *)
Definition fields_s (f : sval -> option (list chunk)) := fix go (fs : list (bytes * sval)) : option (list chunk) :=
  match fs with
  | [] => Some []
  | (k, x) :: r => ocat (Some (enc_str k)) (ocat (f x) (go r))
  end.

Fixpoint ser_s (c : cfg) (v : sval) {struct v} : option (list chunk) :=
  match v with
  | SBool b => Some (enc_bool b)                                        (* ser.rs:64 *)
  | SI w z => Some (enc_iw w z)                                         (* ser.rs:69-87 *)
  | SU w n => Some (enc_uw w n)                                         (* ser.rs:89-107 *)
  | SF32 b => Some (enc_f32 b)                                          (* ser.rs:109 *)
  | SF64 b => Some (enc_f64 b)                                          (* ser.rs:114 *)
  | SChar x => Some (enc_char x)                                        (* ser.rs:119 *)
  | SStr b => Some (enc_str b)                                          (* ser.rs:124 *)
  | SCollectStr b =>                                                    (* ser.rs:256; serde's default otherwise *)
      if c_alloc c then Some (enc_str b) else None
  | SBytes b => Some (enc_bytes b)                                      (* ser.rs:129 *)
  | SNone => Some enc_null                                              (* ser.rs:134 *)
  | SSome x => ser_s c x                                                (* ser.rs:139 *)
  | SUnit => Some (enc_array 0)                                         (* ser.rs:146, encode.rs:312 *)
  | SUnitStruct => Some (enc_array 0)                                   (* ser.rs:151 *)
  | SUnitVariant _ name => Some (enc_str name)                          (* ser.rs:155 *)
  | SNewtypeStruct x => ser_s c x                                       (* ser.rs:165 *)
  | SNewtypeVariant _ name x =>                                         (* ser.rs:176 *)
      ocat (Some (enc_map 1 ++ enc_str name)) (ser_s c x)
  | SSeq (Some n) l => ocat (Some (enc_array n)) (all_s (ser_s c) l)    (* ser.rs:190, end: 282 *)
  | SSeq None l => ocat (Some enc_begin_array) (ocat (all_s (ser_s c) l) (Some enc_end))
  | STuple n l => ocat (Some (enc_array n)) (all_s (ser_s c) l)         (* ser.rs:199 *)
  | STupleStruct n l => ocat (Some (enc_array n)) (all_s (ser_s c) l)   (* ser.rs:204 *)
  | STupleVariant _ name n l =>                                         (* ser.rs:213 *)
      ocat (Some (enc_map 1 ++ enc_str name ++ enc_array n)) (all_s (ser_s c) l)
  | SMap (Some n) kvs => ocat (Some (enc_map n)) (all_s (ser_s c) kvs)  (* ser.rs:225, end: 353 *)
  | SMap None kvs => ocat (Some enc_begin_map) (ocat (all_s (ser_s c) kvs) (Some enc_end))
  | SStruct n fs => ocat (Some (enc_map n)) (fields_s (ser_s c) fs)     (* ser.rs:234 *)
  | SStructVariant _ name n fs =>                                       (* ser.rs:244 *)
      ocat (Some (enc_map 1 ++ enc_str name ++ enc_map n)) (fields_s (ser_s c) fs)
  end.

(* the arguments are values of the Rust parameter types and the declared lengths are the true ones
   (what every serde-provided and derived Serialize impl guarantees) *)
Definition name_ok (b : bytes) : bool := bytes_ok b && utf8_valid b && (len b <? two64).

Fixpoint sval_ok (v : sval) : bool :=
  match v with
  | SBool _ | SNone | SUnit | SUnitStruct => true
  | SI w z => zin w z
  | SU w n => n <=? umax w
  | SF32 b => b <? 4294967296
  | SF64 b => b <? two64
  | SChar x => is_scalar x
  | SStr b | SCollectStr b => name_ok b
  | SBytes b => bytes_ok b && (len b <? two64)
  | SSome x | SNewtypeStruct x => sval_ok x
  | SUnitVariant i name => name_ok name && (i <? 4294967296)
  | SNewtypeVariant i name x => name_ok name && (i <? 4294967296) && sval_ok x
  | SSeq None l => forallb sval_ok l
  | SSeq (Some n) l => (n =? len l) && (n <? two64) && forallb sval_ok l
  | STuple n l | STupleStruct n l => (n =? len l) && (n <? two64) && forallb sval_ok l
  | STupleVariant i name n l => name_ok name && (i <? 4294967296) && (n =? len l) && (n <? two64) && forallb sval_ok l
  | SMap None kvs => N.even (len kvs) && forallb sval_ok kvs
  | SMap (Some n) kvs => N.even (len kvs) && (n =? len kvs / 2) && (n <? two64) && forallb sval_ok kvs
  | SStruct n fs => (n =? len fs) && (n <? two64) && forallb (fun p => name_ok (fst p) && sval_ok (snd p)) fs
  | SStructVariant i name n fs =>
      name_ok name && (i <? 4294967296) && (n =? len fs) && (n <? two64)
      && forallb (fun p => name_ok (fst p) && sval_ok (snd p)) fs
  end.

(* ================================================================== Part B: deserialisation, bridge side *)

Inductive vkind := KUnit | KNewtype | KTuple | KStruct.

(* What a Deserialize impl asks for.  `borrowed`/`known` flags do not change the bytes read; they record which
   method is called (deserialize_str vs deserialize_string, …) and which Serialize form the type has. *)
Inductive shape :=
| ShBool | ShI (w : iw) | ShU (w : iw) | ShF32 | ShF64 | ShChar
| ShStr (borrowed : bool)                     (* deserialize_str (&str) / deserialize_string (String) *)
| ShDisplayStr                                (* a type that serialises with collect_str and reads a String *)
| ShBytes (borrowed : bool)                   (* deserialize_bytes (&[u8]) / deserialize_byte_buf *)
| ShOption (s : shape)
| ShUnit | ShUnitStruct
| ShNewtypeStruct (s : shape)
| ShSeq (known : bool) (s : shape)            (* deserialize_seq; visitor takes elements until None *)
| ShTuple (ss : list shape)                   (* deserialize_tuple(n): tuples and [T; n] *)
| ShTupleStruct (ss : list shape)
| ShMap (known : bool) (k v : shape)          (* deserialize_map; visitor takes entries until None *)
| ShStruct (fs : list (bytes * shape))        (* deserialize_struct with a derived visitor *)
| ShEnum (vs : list (bytes * (vkind * shape)))       (* externally tagged (serde's default) *)
| ShInternal (tag : bytes) (vs : list (bytes * (vkind * shape)))          (* #[serde(tag = "t")] *)
| ShAdjacent (tag content : bytes) (vs : list (bytes * (vkind * shape))) (* #[serde(tag = "t", content = "c")] *)
| ShUntagged (vs : list (vkind * shape))                                 (* #[serde(untagged)] *)
| ShFlat (fs : list (bytes * (bool * shape))) (* struct with #[serde(flatten)] fields (flag true) *)
| ShAny                                       (* deserialize_any with a visitor that keeps everything *)
| ShIgnored.                                  (* IgnoredAny: deserialize_ignored_any *)
(* a variant's payload shape: KUnit -> ShUnit (unused), KNewtype -> the field's shape,
   KTuple -> ShTuple ss, KStruct -> ShStruct fs *)

Definition oof {A} : M A := fun s => (OutOfFuel, s).
Definition panic {A} : M A := fun s => (Panic, s).

(* ---- SeqAccess for Seq (de.rs:314-336): the remaining length is threaded explicitly ---- *)
Definition next_element {A} (d : M A) (ln : option N) : M (option A * option N) :=
  match ln with
  | None => b <- current ;;                                       (* de.rs:322 *)
            if b =? 0xff then read ;;; ret (None, None) else x <- d ;; ret (Some x, None)
  | Some n => if n =? 0 then ret (None, Some 0)                   (* de.rs:328 *)
              else x <- d ;; ret (Some x, Some (n - 1))           (* de.rs:329-333 *)
  end.

(* ---- MapAccess for Seq (de.rs:338-369) ---- *)
Definition next_key {A} (d : M A) (ln : option N) : M (option A) :=
  match ln with
  | None => b <- current ;; if b =? 0xff then read ;;; ret None else fmap Some d
  | Some n => if n =? 0 then ret None else fmap Some d
  end.

Definition next_value {A} (d : M A) (ln : option N) : M (A * option N) :=
  match ln with
  | Some n => x <- d ;; if n =? 0 then panic else ret (x, Some (n - 1))   (* de.rs:363: n - 1 on u64 *)
  | None => x <- d ;; ret (x, None)
  end.

(* a visitor that takes elements until the access says None (Vec, Content::Seq, …) *)
Fixpoint seq_collect {A} (d : M A) (ln : option N) (fuel : nat) (acc : list A) : M (list A) :=
  match fuel with
  | O => oof
  | S f => r <- next_element d ln ;;
           match r with
           | (None, _) => ret (rev acc)
           | (Some x, ln') => seq_collect d ln' f (x :: acc)
           end
  end.

(* a visitor that takes entries until None (BTreeMap, Content::Map): keys and values alternating *)
Fixpoint map_collect {A} (dk dv : M A) (ln : option N) (fuel : nat) (acc : list A) : M (list A) :=
  match fuel with
  | O => oof
  | S f => k <- next_key dk ln ;;
           match k with
           | None => ret (rev acc)
           | Some kk => r <- next_value dv ln ;; map_collect dk dv (snd r) f (fst r :: kk :: acc)
           end
  end.

(* a visitor that takes exactly one element per component (tuples, arrays, tuple structs);
   a missing element is serde's invalid_length error *)
Fixpoint tuple_collect {A} (ds : list (M A)) (ln : option N) : M (list A) :=
  match ds with
  | [] => ret []
  | d :: ds' => r <- next_element d ln ;;
                match r with
                | (Some x, ln') => xs <- tuple_collect ds' ln' ;; ret (x :: xs)
                | (None, _) => fail Message
                end
  end.

(* deserialize_seq (de.rs:221) / deserialize_map (de.rs:253) *)
Definition de_seq_of {A} (d : M A) (fuel : nat) : M (list A) :=
  ln <- dec_array ;; seq_collect d ln fuel [].
Definition de_map_of {A} (dk dv : M A) (fuel : nat) : M (list A) :=
  ln <- dec_map ;; map_collect dk dv ln fuel [].

(* deserialize_tuple (de.rs:226) *)
Definition de_tuple_of {A} (ds : list (M A)) : M (list A) :=
  n <- dec_array ;;
  if opt_eqb n (len ds) then tuple_collect ds n else fail Message.

(* deserialize_unit (de.rs:202): Decoder::decode::<()> (decode.rs:239) *)
Definition de_unit : M unit := r <- dec_array ;; if opt_eqb r 0 then ret tt else fail Message.

(* deserialize_option (de.rs:193) *)
Definition de_option {A} (c : cfg) (none : A) (some : M A) : M A :=
  t <- datatype ;; if ctype_is_null t then skip_auto c ;;; ret none else some.

(* deserialize_ignored_any (de.rs:293) *)
Definition de_ignored (c : cfg) : M unit := skip_auto c.

(* deserialize_enum up to visit_enum (de.rs:270-286) *)
Definition ctype_is_map (t : ctype) : bool := match t with TMap => true | _ => false end.
Definition de_enum_prelude : M unit :=
  t <- datatype ;;
  if ctype_is_map t then m <- dec_map ;; if opt_eqb m 1 then ret tt else fail Message
  else ret tt.

(* ---- deserialize_any (de.rs:66-127): what is consumed and which visit_* is called ---- *)
Inductive content :=
| CBool (b : bool) | CU (w : iw) (n : N) | CI (w : iw) (z : Z) | CF32 (bits : N) | CF64 (bits : N)
| CChar (c : N)
| CStr (owned : bool) (b : bytes)       (* Content::String / Content::Str *)
| CBytes (owned : bool) (b : bytes)     (* Content::ByteBuf / Content::Bytes *)
| CNone | CSome (x : content) | CUnit | CNewtype (x : content)
| CSeq (l : list content)
| CMap (kvs : list content).            (* keys and values alternating *)

(* the scalar arms of deserialize_any: the visitor call as a content value; containers: the header *)
Inductive any_ev := EvScalar (x : content) | EvSeq (ln : option N) | EvMap (ln : option N).

Definition any_head (c : cfg) (fuel : nat) : M any_ev :=
  t <- datatype ;;
  match t with
  | TBool => fmap (fun b => EvScalar (CBool b)) dec_bool
  | TU8 => fmap (fun n => EvScalar (CU B8 n)) dec_u8
  | TU16 => fmap (fun n => EvScalar (CU B16 n)) dec_u16
  | TU32 => fmap (fun n => EvScalar (CU B32 n)) dec_u32
  | TU64 => fmap (fun n => EvScalar (CU B64 n)) dec_u64
  | TI8 => fmap (fun z => EvScalar (CI B8 z)) dec_i8
  | TI16 => fmap (fun z => EvScalar (CI B16 z)) dec_i16
  | TI32 => fmap (fun z => EvScalar (CI B32 z)) dec_i32
  | TI64 => fmap (fun z => EvScalar (CI B64 z)) dec_i64
  | TF32 => fmap (fun b => EvScalar (CF32 b)) (dec_f32 c)
  | TF64 => fmap (fun b => EvScalar (CF64 b)) (dec_f64 c)
  | TBytes => fmap (fun b => EvScalar (CBytes false b)) dec_bytes          (* visit_borrowed_bytes *)
  | TString => fmap (fun b => EvScalar (CStr false b)) dec_str             (* visit_borrowed_str *)
  | TNull => skip_auto c ;;; ret (EvScalar CNone)                          (* de.rs:81 *)
  | TArray | TArrayIndef => fmap EvSeq dec_array
  | TMap | TMapIndef => fmap EvMap dec_map
  | TF16 => if c_half c then fmap (fun b => EvScalar (CF32 b)) dec_f16     (* de.rs:88 *)
            else fail (TypeMismatch TF16)
  | TBytesIndef => if c_alloc c                                            (* de.rs:97 *)
                   then fmap (fun l => EvScalar (CBytes true (concat l))) (dec_bytes_iter fuel)
                   else fail (TypeMismatch TBytesIndef)
  | TStringIndef => if c_alloc c                                           (* de.rs:106 *)
                    then fmap (fun l => EvScalar (CStr true (concat l))) (dec_str_iter fuel)
                    else fail (TypeMismatch TStringIndef)
  | TUndefined | TTag | TInt | TSimple | TBreak | TUnknown _ => fail (TypeMismatch t)   (* de.rs:118 *)
  end.

(* deserialize_any driven by serde's ContentVisitor (private/de.rs:313-513): elements and entries are
   themselves read through deserialize_any (`__deserialize_content_v1` defaults to it) *)
Fixpoint de_content (c : cfg) (fuel : nat) {struct fuel} : M content :=
  match fuel with
  | O => oof
  | S f =>
    ev <- any_head c f ;;
    match ev with
    | EvScalar x => ret x
    | EvSeq ln => fmap CSeq (seq_collect (de_content c f) ln f [])
    | EvMap ln => fmap CMap (map_collect (de_content c f) (de_content c f) ln f [])
    end
  end.

(* ================================================================== Part C: SERDE-SIDE MODELLING
   Everything from here to Part D describes serde code, not minicbor code. *)

Fixpoint find_idx {A} (name : bytes) (l : list (bytes * A)) (i : nat) : option (nat * A) :=
  match l with
  | [] => None
  | (n, a) :: r => if list_eq_dec N.eq_dec name n then Some (i, a) else find_idx name r (S i)
  end.

Definition beq (a b : bytes) : bool := if list_eq_dec N.eq_dec a b then true else false.

Fixpoint set_nth {A} (l : list A) (i : nat) (x : A) : list A :=
  match l, i with
  | [], _ => []
  | _ :: r, O => x :: r
  | y :: r, S j => y :: set_nth r j x
  end.

Definition is_option (s : shape) : bool := match s with ShOption _ => true | _ => false end.

(* after a derived struct visitor's key loop: a missing field is an error unless it is an Option
   (serde::__private::de::missing_field); the fields in declaration order *)
Fixpoint fill_missing (fs : list (bytes * shape)) (slots : list (option sval)) : option (list (bytes * sval)) :=
  match fs, slots with
  | [], _ => Some []
  | (n, s) :: fs', sl :: slots' =>
      match (match sl with Some v => Some v | None => if is_option s then Some SNone else None end) with
      | Some v => match fill_missing fs' slots' with Some r => Some ((n, v) :: r) | None => None end
      | None => None
      end
  | _ :: _, [] => None
  end.

(* the derived struct visitor's visit_map over the bridge's MapAccess (serde_derive de/struct_.rs:205-330):
   keys through deserialize_identifier = deserialize_str (de.rs:289); unknown keys: IgnoredAny *)
Fixpoint struct_loop (c : cfg) (ds : list (bytes * M sval)) (ln : option N) (fuel : nat)
         (slots : list (option sval)) : M (list (option sval)) :=
  match fuel with
  | O => oof
  | S f =>
    k <- next_key dec_str ln ;;
    match k with
    | None => ret slots
    | Some name =>
      match find_idx name ds 0 with
      | Some (i, d) =>
          match nth_error slots i with
          | Some (Some _) => fail Message                          (* duplicate_field *)
          | _ => r <- next_value d ln ;; struct_loop c ds (snd r) f (set_nth slots i (Some (fst r)))
          end
      | None => r <- next_value (de_ignored c) ln ;; struct_loop c ds (snd r) f slots
      end
    end
  end.

Definition struct_visit (c : cfg) (fs : list (bytes * shape)) (ds : list (bytes * M sval)) (ln : option N)
           (fuel : nat) : M sval :=
  slots <- struct_loop c ds ln fuel (map (fun _ => None) fs) ;;
  match fill_missing fs slots with
  | Some r => ret (SStruct (len r) r)
  | None => fail Message                                           (* missing_field *)
  end.

(* how the payload of a variant is re-labelled as the Serializer call of that variant *)
Definition wrap_variant (k : vkind) (i : N) (name : bytes) (x : sval) : sval :=
  match k, x with
  | KUnit, _ => SUnitVariant i name
  | KNewtype, _ => SNewtypeVariant i name x
  | KTuple, STuple n l => STupleVariant i name n l
  | KStruct, SStruct n fs => SStructVariant i name n fs
  | _, _ => x
  end.

(* ---- primitive visitors' integer widening (serde_core de/impls.rs impl_deserialize_num!): a visited integer
   is accepted iff it is representable in the target type ---- *)
Definition content_int (x : content) : option Z :=
  match x with CU _ n => Some (Z.of_N n) | CI _ z => Some z | _ => None end.

(* ---- a single char from a str (CharVisitor::visit_str): exactly one scalar value ---- *)
Definition utf8_single (b : bytes) : option N :=
  if negb (utf8_valid b) then None else
  match b with
  | [b0] => Some b0
  | [b0; b1] => Some ((b0 - 192) * 64 + (b1 - 128))
  | [b0; b1; b2] => Some ((b0 - 224) * 4096 + (b1 - 128) * 64 + (b2 - 128))
  | [b0; b1; b2; b3] => Some ((b0 - 240) * 262144 + (b1 - 128) * 4096 + (b2 - 128) * 64 + (b3 - 128))
  | _ => None
  end.
(* [b0] with utf8_valid is < 128; [b0;b1] valid means b0 in 194..223: a single 2-byte sequence (two 1-byte
   characters would need b0 < 128); likewise for 3 and 4. *)
Definition utf8_one (b : bytes) : option N :=
  match b with
  | [b0] => utf8_single b
  | [b0; _] => if 128 <=? b0 then utf8_single b else None
  | [b0; _; _] => if 224 <=? b0 then utf8_single b else None
  | [b0; _; _; _] => if 240 <=? b0 then utf8_single b else None
  | _ => None
  end.

(* Content -> the value a visitor that keeps everything would produce (ShAny) *)
Fixpoint sval_of_content (x : content) : sval :=
  match x with
  | CBool b => SBool b | CU w n => SU w n | CI w z => SI w z | CF32 b => SF32 b | CF64 b => SF64 b
  | CChar c => SChar c | CStr _ b => SStr b | CBytes _ b => SBytes b
  | CNone => SNone | CSome y => SSome (sval_of_content y) | CUnit => SUnit
  | CNewtype y => SNewtypeStruct (sval_of_content y)
  | CSeq l => SSeq (Some (len l)) (map sval_of_content l)
  | CMap kvs => SMap (Some (len kvs / 2)) (map sval_of_content kvs)
  end.

Definition content_name (x : content) : option bytes :=          (* content_as_str *)
  match x with
  | CStr _ b => Some b
  | CBytes _ b => if utf8_valid b then Some b else None
  | _ => None
  end.

Definition omap {A B} (f : A -> option B) := fix go (l : list A) : option (list B) :=
  match l with
  | [] => Some []
  | x :: r => match f x, go r with Some y, Some ys => Some (y :: ys) | _, _ => None end
  end.

Fixpoint ozip {A B} (fs : list (A -> option B)) (l : list A) : option (list B) :=
  match fs, l with
  | [], [] => Some []
  | f :: fs', x :: r => match f x, ozip fs' r with Some y, Some ys => Some (y :: ys) | _, _ => None end
  | _, _ => None
  end.

Definition oalt {A B} (fk fv : A -> option B) := fix go (l : list A) : option (list B) :=
  match l with
  | [] => Some []
  | k :: v :: r => match fk k, fv v, go r with Some a, Some b, Some t => Some (a :: b :: t) | _, _, _ => None end
  | _ => None
  end.

(* a derived field-identifier visitor on a Content key (ContentDeserializer::deserialize_identifier,
   private/de.rs:1462): strings and byte strings by name, u8 / u64 by index *)
Definition content_field {A} (k : content) (fs : list (bytes * A)) : option (option (nat * A)) :=
  match k with
  | CStr _ b | CBytes _ b => Some (find_idx b fs 0)
  | CU B8 n | CU B64 n =>
      (* visit_u64: the index is compared with the field count before anything is indexed *)
      Some (if n <? len fs then match nth_error fs (N.to_nat n) with Some (_, a) => Some (N.to_nat n, a) | None => None end
            else None)
  | _ => None
  end.

(* derived struct visitor's visit_map over buffered pairs (MapDeserializer) *)
Fixpoint cstruct_loop (ds : list (bytes * (content -> option sval))) (kvs : list content)
         (slots : list (option sval)) : option (list (option sval)) :=
  match kvs with
  | [] => Some slots
  | k :: v :: r =>
      match content_field k ds with
      | None => None
      | Some None => cstruct_loop ds r slots                       (* __ignore *)
      | Some (Some (i, d)) =>
          match nth_error slots i with
          | Some (Some _) => None                                  (* duplicate_field *)
          | _ => match d v with
                 | Some x => cstruct_loop ds r (set_nth slots i (Some x))
                 | None => None
                 end
          end
      end
  | _ => None
  end.

Definition cstruct_map (fs : list (bytes * shape)) (ds : list (bytes * (content -> option sval)))
           (kvs : list content) : option sval :=
  match cstruct_loop ds kvs (map (fun _ => None) fs) with
  | Some slots => match fill_missing fs slots with Some r => Some (SStruct (len r) r) | None => None end
  | None => None
  end.

(* derived struct visitor's visit_seq (one element per field, none missing, none left: SeqDeserializer::end) *)
Definition cstruct_seq (ds : list (bytes * (content -> option sval))) (l : list content) : option sval :=
  match ozip (map snd ds) l with
  | Some xs => Some (SStruct (len xs) (combine (map fst ds) xs))
  | None => None
  end.

(* ContentDeserializer (owned = true; private/de.rs:1120-1492) and ContentRefDeserializer (owned = false;
   private/de.rs:2074-2440) driving the visitor of a type of shape sh.  None = a serde error (custom). *)
Definition fc_unit (owned : bool) (x : content) : bool :=           (* <() as Deserialize> on Content *)
  match x with CUnit => true | CMap [] => owned | _ => false end.

(* an externally tagged variant's payload from a buffered value (EnumDeserializer / VariantDeserializer,
   private/de.rs:1890-1990; EnumRefDeserializer 2814-2925); fp = the payload shape's own fc *)
Definition variant_payload (owned : bool) (k : vkind) (fp : content -> option sval) (i : N) (name : bytes)
           (v : option content) : option sval :=
  match k, v with
  | KUnit, None => Some (SUnitVariant i name)
  | KUnit, Some y => if fc_unit owned y then Some (SUnitVariant i name) else None
  | KNewtype, Some y => match fp y with Some p => Some (SNewtypeVariant i name p) | None => None end
  | KTuple, Some (CSeq _ as y) => match fp y with Some p => Some (wrap_variant KTuple i name p) | None => None end
  | KStruct, Some (CSeq _ as y) | KStruct, Some (CMap _ as y) =>
      match fp y with Some p => Some (wrap_variant KStruct i name p) | None => None end
  | _, _ => None
  end.

Fixpoint fc (owned : bool) (sh : shape) (x : content) {struct sh} : option sval :=
  match sh with
  | ShBool => match x with CBool b => Some (SBool b) | _ => None end
  | ShU w => match content_int x with
             | Some z => if ((0 <=? z) && (z <=? Z.of_N (umax w)))%Z then Some (SU w (Z.to_N z)) else None
             | None => None end
  | ShI w => match content_int x with
             | Some z => if zin w z then Some (SI w z) else None
             | None => None end
  | ShF32 => match x with CF32 b => Some (SF32 b) | _ => None end            (* f64 -> f32 and int -> float: not modelled *)
  | ShF64 => match x with CF64 b => Some (SF64 b) | CF32 b => Some (SF64 (f32_to_f64 b)) | _ => None end
  | ShChar => match x with
              | CChar c => Some (SChar c)
              | CStr _ b => match utf8_one b with Some c => Some (SChar c) | None => None end
              | _ => None end
  | ShStr borrowed =>
      match x with
      | CStr o b => if borrowed && o then None else Some (SStr b)
      | CBytes o b => if borrowed && o then None else if utf8_valid b then Some (SStr b) else None
      | _ => None end
  | ShDisplayStr =>
      match x with
      | CStr _ b => Some (SCollectStr b)
      | CBytes _ b => if utf8_valid b then Some (SCollectStr b) else None
      | _ => None end
  | ShBytes borrowed =>
      match x with
      | CBytes o b => if borrowed && o then None else Some (SBytes b)
      | _ => None end
  | ShOption s =>
      match x with
      | CNone | CUnit => Some SNone
      | CSome y => match fc owned s y with Some v => Some (SSome v) | None => None end
      | _ => match fc owned s x with Some v => Some (SSome v) | None => None end
      end
  | ShUnit =>
      match x with
      | CUnit => Some SUnit
      | CMap [] => if owned then Some SUnit else None
      | _ => None end
  | ShUnitStruct =>
      match x with
      | CUnit => Some SUnitStruct
      | CMap [] | CSeq [] => if owned then Some SUnitStruct else None
      | _ => None end
  | ShNewtypeStruct s =>
      match x with
      | CNewtype y => match fc owned s y with Some v => Some (SNewtypeStruct v) | None => None end
      | _ => match fc owned s x with Some v => Some (SNewtypeStruct v) | None => None end
      end
  | ShSeq known s =>
      match x with
      | CSeq l => match omap (fc owned s) l with
                  | Some vs => Some (SSeq (if known then Some (len vs) else None) vs)
                  | None => None end
      | _ => None end
  | ShTuple ss =>
      match x with
      | CSeq l => match ozip (map (fc owned) ss) l with Some vs => Some (STuple (len vs) vs) | None => None end
      | _ => None end
  | ShTupleStruct ss =>
      match x with
      | CSeq l => match ozip (map (fc owned) ss) l with Some vs => Some (STupleStruct (len vs) vs) | None => None end
      | _ => None end
  | ShMap known k v =>
      match x with
      | CMap kvs => match oalt (fc owned k) (fc owned v) kvs with
                    | Some vs => Some (SMap (if known then Some (len vs / 2) else None) vs)
                    | None => None end
      | _ => None end
  | ShStruct fs =>
      let ds := map (fun p : bytes * shape => (fst p, fc owned (snd p))) fs in
      match x with
      | CMap kvs => cstruct_map fs ds kvs
      | CSeq l => cstruct_seq ds l
      | _ => None end
  | ShEnum vs =>
      (* deserialize_enum on Content (private/de.rs:1420): a one-entry map or a string *)
      let dvs := map (fun p : bytes * (vkind * shape) =>
                        let (n, ks) := p in let (k, s) := ks in (n, (n, (k, fc owned s)))) vs in
      let pick (key : content) (v : option content) : option sval :=
        match content_field key dvs with
        | Some (Some (i, (name, (k, fp)))) => variant_payload owned k fp (N.of_nat i) name v
        | _ => None end in
      match x with
      | CMap [key; v] => pick key (Some v)
      | CStr _ _ => pick x None
      | _ => None end
  | ShUntagged vs =>
      (* the content itself, then the variants in order through ContentRefDeserializer *)
      (fix try (l : list (vkind * shape)) : option sval :=
         match l with
         | [] => None
         | (k, s) :: r =>
             match (match k with
                    | KUnit => match x with CUnit | CNone => Some SUnit | _ => None end
                    | KNewtype => fc false s x
                    | KTuple => fc false s x
                    | KStruct => match x with CMap _ => fc false s x | _ => None end
                    end) with
             | Some v => Some v
             | None => try r
             end
         end) vs
  | ShAny => Some (sval_of_content x)
  | ShIgnored => Some SUnit
  | ShInternal _ _ | ShAdjacent _ _ _ | ShFlat _ => None          (* nested buffered tagging: not modelled *)
  end.

(* ---- internally tagged enums: how serde_derive's TaggedSerializer splices the tag into the content's
   own serialisation (serde-1.0.229/src/private/ser.rs TaggedSerializer) ---- *)
Definition tag_splice (tag name : bytes) (v : sval) : option sval :=
  match v with
  | SStruct n fs => Some (SStruct (n + 1) ((tag, SStr name) :: fs))
  | SMap (Some n) kvs => Some (SMap (Some (n + 1)) (SStr tag :: SStr name :: kvs))
  | SMap None kvs => Some (SMap None (SStr tag :: SStr name :: kvs))
  | SUnit | SUnitStruct => Some (SMap (Some 1) [SStr tag; SStr name])
  | SNewtypeStruct x =>
      match x with
      | SStruct n fs => Some (SStruct (n + 1) ((tag, SStr name) :: fs))
      | _ => None
      end
  | _ => None
  end.

Definition is_tag_key (tag : bytes) (k : content) : bool :=
  match k with CStr _ b | CBytes _ b => beq b tag | _ => false end.

(* the variant identifier visitor (`__Field`) through deserialize_identifier = deserialize_str *)
Definition variant_ident {A} (vs : list (bytes * A)) : M (nat * (bytes * A)) :=
  name <- dec_str ;;
  match find_idx name vs 0 with
  | Some (i, a) => ret (i, (name, a))
  | None => fail Message                                          (* unknown_variant *)
  end.

(* TaggedContentVisitor::visit_map (private/de.rs:859) over the bridge's MapAccess *)
Fixpoint tagged_loop {A} (c : cfg) (tag : bytes) (vs : list (bytes * A)) (ln : option N) (fuel : nat)
         (tg : option (nat * (bytes * A))) (acc : list content) : M (option (nat * (bytes * A)) * list content) :=
  match fuel with
  | O => oof
  | S f =>
    k <- next_key (de_content c fuel) ln ;;
    match k with
    | None => ret (tg, rev acc)
    | Some key =>
        if is_tag_key tag key then
          match tg with
          | Some _ => fail Message                                 (* duplicate_field *)
          | None => r <- next_value (variant_ident vs) ln ;; tagged_loop c tag vs (snd r) f (Some (fst r)) acc
          end
        else r <- next_value (de_content c fuel) ln ;; tagged_loop c tag vs (snd r) f tg (fst r :: key :: acc)
    end
  end.

(* the variant's own deserialisation from the buffered rest (serde_derive de/enum_internally.rs:70) *)
Definition internal_finish (tag : bytes) (i : nat) (name : bytes) (k : vkind) (s : shape) (x : content) : option sval :=
  match k with
  | KUnit => match x with
             | CSeq _ | CMap _ => Some (SStruct 1 [(tag, SStr name)])   (* InternallyTaggedUnitVisitor *)
             | _ => None end
  | KNewtype => match fc true s x with Some v => tag_splice tag name v | None => None end
  | KStruct => match x with
               | CSeq _ | CMap _ => match fc true s x with Some v => tag_splice tag name v | None => None end
               | _ => None end
  | KTuple => None                                                 (* rejected by serde_derive *)
  end.

(* ---- adjacently tagged enums (serde_derive de/enum_adjacently.rs) ---- *)
Inductive adj_key := AdjTag | AdjContent.

(* next_relevant_key: TagContentOtherFieldVisitor through deserialize_identifier; other keys are skipped *)
Fixpoint adj_next (c : cfg) (tag content : bytes) (ln : option N) (fuel : nat) : M (option adj_key * option N) :=
  match fuel with
  | O => oof
  | S f =>
    k <- next_key dec_str ln ;;
    match k with
    | None => ret (None, ln)
    | Some name =>
        if beq name tag then ret (Some AdjTag, ln)
        else if beq name content then ret (Some AdjContent, ln)
        else r <- next_value (de_ignored c) ln ;; adj_next c tag content (snd r) f
    end
  end.

(* the content read directly with the variant known (`__Seed`, enum_untagged::deserialize_variant);
   d is the payload's own deserialisation *)
Definition is_map_type (t : ctype) : bool := match t with TMap | TMapIndef => true | _ => false end.
Definition adj_direct (c : cfg) (fuel : nat) (k : vkind) (d : M sval) : M sval :=
  match k with
  | KUnit => ev <- any_head c fuel ;;                               (* deserialize_any(UntaggedUnitVisitor) *)
             match ev with EvScalar CNone => ret SUnit | _ => fail Message end
  | KNewtype | KTuple => d
  | KStruct =>                                                      (* deserialize_any(struct visitor without visit_seq): *)
      t <- datatype ;;                                              (* a map goes to deserialize_map -> visit_map = d *)
      if is_map_type t then d else any_head c fuel ;;; fail Message
  end.

(* … and from a buffered Content when the content key came first *)
Definition adj_buffered (k : vkind) (s : shape) (x : content) : option sval :=
  match k with
  | KUnit => match x with CUnit | CNone => Some SUnit | _ => None end
  | KNewtype | KTuple => fc true s x
  | KStruct => match x with CMap _ => fc true s x | _ => None end
  end.

Definition adj_value (tag content : bytes) (i : nat) (name : bytes) (k : vkind) (payload : option sval) : sval :=
  let t := (tag, SUnitVariant (N.of_nat i) name) in
  match k, payload with
  | KUnit, _ | _, None => SStruct 1 [t]
  | _, Some p => SStruct 2 [t; (content, p)]
  end.

(* ---- flattened structs (serde_derive de/struct_.rs deserialize_map with has_flatten; private/de.rs
   FlatMapDeserializer) ---- *)
(* the key loop: known, non-flattened fields are read directly; everything else is buffered *)
Fixpoint find_direct {A} (name : bytes) (l : list (bytes * (bool * A))) (i : nat) : option (nat * A) :=
  match l with
  | [] => None
  | (n, (fl, a)) :: r => if negb fl && beq name n then Some (i, a) else find_direct name r (S i)
  end.

Fixpoint flat_loop (c : cfg) (ds : list (bytes * (bool * M sval))) (ln : option N) (fuel : nat)
         (slots : list (option sval)) (acc : list (content * content)) : M (list (option sval) * list (content * content)) :=
  match fuel with
  | O => oof
  | S f =>
    k <- next_key dec_str ln ;;
    match k with
    | None => ret (slots, rev acc)
    | Some name =>
      match find_direct name ds 0 with
      | Some (i, d) =>
          match nth_error slots i with
          | Some (Some _) => fail Message
          | _ => r <- next_value d ln ;; flat_loop c ds (snd r) f (set_nth slots i (Some (fst r))) acc
          end
      | None => r <- next_value (de_content c fuel) ln ;; flat_loop c ds (snd r) f slots ((CStr false name, fst r) :: acc)
      end
    end
  end.

(* FlatStructAccess: claims the entries whose key is one of the struct's field names *)
Fixpoint flat_take (names : list bytes) (col : list (content * content)) : list content * list (content * content) :=
  match col with
  | [] => ([], [])
  | (k, v) :: r =>
      let (t, rest) := flat_take names r in
      match content_name k with
      | Some n => if existsb (beq n) names then (k :: v :: t, rest) else (t, (k, v) :: rest)
      | None => (t, (k, v) :: rest)
      end
  end.

Fixpoint unpair {A} (l : list (A * A)) : list A :=
  match l with [] => [] | (a, b) :: r => a :: b :: unpair r end.

Definition struct_entries (v : sval) : list sval :=
  match v with SStruct _ fs => flat_map (fun p : bytes * sval => [SStr (fst p); snd p]) fs | _ => [] end.

(* the fields of a flattened struct in declaration order, given the directly read slots and the buffer *)
Fixpoint flat_finish (fs : list (bytes * (bool * shape))) (slots : list (option sval))
         (col : list (content * content)) : option (list sval) :=
  match fs with
  | [] => Some []
  | (n, (false, s)) :: fs' =>
      match slots with
      | sl :: slots' =>
          match (match sl with Some v => Some v | None => if is_option s then Some SNone else None end) with
          | Some v => match flat_finish fs' slots' col with Some r => Some (SStr n :: v :: r) | None => None end
          | None => None
          end
      | [] => None
      end
  | (n, (true, s)) :: fs' =>
      match slots with
      | _ :: slots' =>
        match s with
        | ShStruct ifs =>
            let (taken, rest) := flat_take (map fst ifs) col in
            match cstruct_map ifs (map (fun p : bytes * shape => (fst p, fc true (snd p))) ifs) taken with
            | Some v => match flat_finish fs' slots' rest with Some r => Some (struct_entries v ++ r) | None => None end
            | None => None
            end
        | ShMap _ k v =>
            match oalt (fc false k) (fc false v) (unpair col) with
            | Some es => match flat_finish fs' slots' col with Some r => Some (es ++ r) | None => None end
            | None => None
            end
        | ShUnit => flat_finish fs' slots' col
        | _ => None                                                (* other flattened kinds: not modelled *)
        end
      | [] => None
      end
  end.

(* ================================================================== Part D: de_s *)
Fixpoint de_s (c : cfg) (sh : shape) (fuel : nat) {struct sh} : M sval :=
  match sh with
  | ShBool => fmap SBool dec_bool                                   (* de.rs:129 *)
  | ShI w => fmap (SI w) (dec_sint (imax w))                        (* de.rs:133-147 *)
  | ShU w => fmap (SU w) (dec_uint (umax w))                        (* de.rs:149-163 *)
  | ShF32 => fmap SF32 (dec_f32 c)                                  (* de.rs:165 *)
  | ShF64 => fmap SF64 (dec_f64 c)                                  (* de.rs:169 *)
  | ShChar => fmap SChar dec_char                                   (* de.rs:173 *)
  | ShStr _ => fmap SStr dec_str                                    (* de.rs:177,181 *)
  | ShDisplayStr => fmap SCollectStr dec_str
  | ShBytes _ => fmap SBytes dec_bytes                              (* de.rs:185,189 *)
  | ShOption s => de_option c SNone (fmap SSome (de_s c s fuel))    (* de.rs:193 *)
  | ShUnit => de_unit ;;; ret SUnit                                 (* de.rs:202 *)
  | ShUnitStruct => de_unit ;;; ret SUnitStruct                     (* de.rs:207 *)
  | ShNewtypeStruct s => fmap SNewtypeStruct (de_s c s fuel)        (* de.rs:214 *)
  | ShSeq known s =>                                                (* de.rs:221 *)
      l <- de_seq_of (de_s c s fuel) fuel ;; ret (SSeq (if known then Some (len l) else None) l)
  | ShTuple ss =>                                                   (* de.rs:226 *)
      l <- de_tuple_of (map (fun s => de_s c s fuel) ss) ;; ret (STuple (len l) l)
  | ShTupleStruct ss =>                                             (* de.rs:241 *)
      l <- de_tuple_of (map (fun s => de_s c s fuel) ss) ;; ret (STupleStruct (len l) l)
  | ShMap known k v =>                                              (* de.rs:253 *)
      l <- de_map_of (de_s c k fuel) (de_s c v fuel) fuel ;; ret (SMap (if known then Some (len l / 2) else None) l)
  | ShStruct fs =>                                                  (* de.rs:258 *)
      ln <- dec_map ;;
      struct_visit c fs (map (fun p : bytes * shape => let (n, s) := p in (n, de_s c s fuel)) fs) ln fuel
  | ShEnum vs =>                                                    (* de.rs:270, 381-420 *)
      de_enum_prelude ;;;
      r <- variant_ident (map (fun p : bytes * (vkind * shape) =>
                                 let (n, ks) := p in let (k, s) := ks in (n, (k, de_s c s fuel))) vs) ;;
      let i := fst r in let name := fst (snd r) in let k := fst (snd (snd r)) in let d := snd (snd (snd r)) in
      match k with
      | KUnit => ret (SUnitVariant (N.of_nat i) name)               (* unit_variant: de.rs:396 *)
      | _ => x <- d ;; ret (wrap_variant k (N.of_nat i) name x)     (* de.rs:400,407,414 *)
      end
  | ShInternal tag vs =>
      (* deserialize_any(TaggedContentVisitor) *)
      ev <- any_head c fuel ;;
      match ev with
      | EvScalar _ => fail Message
      | EvSeq ln =>
          r <- next_element (variant_ident vs) ln ;;
          match r with
          | (None, _) => fail Message
          | (Some t, ln') =>
              rest <- seq_collect (de_content c fuel) ln' fuel [] ;;
              match internal_finish tag (fst t) (fst (snd t)) (fst (snd (snd t))) (snd (snd (snd t))) (CSeq rest) with
              | Some v => ret v | None => fail Message end
          end
      | EvMap ln =>
          r <- tagged_loop c tag vs ln fuel None [] ;;
          match r with
          | (None, _) => fail Message                               (* missing_field(tag) *)
          | (Some t, kvs) =>
              match internal_finish tag (fst t) (fst (snd t)) (fst (snd (snd t))) (snd (snd (snd t))) (CMap kvs) with
              | Some v => ret v | None => fail Message end
          end
      end
  | ShAdjacent tag content vs =>
      (* deserialize_struct -> deserialize_map -> the derived visit_map *)
      let dvs := map (fun p : bytes * (vkind * shape) =>
                        let (n, ks) := p in let (k, s) := ks in (n, (k, (s, de_s c s fuel)))) vs in
      let tag_value (ln : option N) :=
        next_value (de_enum_prelude ;;; variant_ident dvs) ln in    (* AdjacentlyTaggedEnumVariantSeed: deserialize_enum *)
      let rest_ok (ln : option N) (v : sval) : M sval :=
        r <- adj_next c tag content ln fuel ;;
        match fst r with None => ret v | Some _ => fail Message end in
      ln0 <- dec_map ;;
      k1 <- adj_next c tag content ln0 fuel ;;
      match k1 with
      | (None, _) => fail Message
      | (Some AdjTag, ln1) =>
          tv <- tag_value ln1 ;;
          let t := fst tv in let i := fst t in let name := fst (snd t) in
          let k := fst (snd (snd t)) in let s := fst (snd (snd (snd t))) in let d := snd (snd (snd (snd t))) in
          k2 <- adj_next c tag content (snd tv) fuel ;;
          match k2 with
          | (Some AdjTag, _) => fail Message
          | (Some AdjContent, ln2) =>
              pv <- next_value (adj_direct c fuel k d) ln2 ;;
              rest_ok (snd pv) (adj_value tag content i name k (Some (fst pv)))
          | (None, _) =>
              match k with
              | KUnit => ret (adj_value tag content i name k None)
              | KNewtype => if is_option s then ret (adj_value tag content i name k (Some SNone)) else fail Message
              | _ => fail Message
              end
          end
      | (Some AdjContent, ln1) =>
          cv <- next_value (de_content c fuel) ln1 ;;
          k2 <- adj_next c tag content (snd cv) fuel ;;
          match k2 with
          | (Some AdjTag, ln2) =>
              tv <- tag_value ln2 ;;
              let t := fst tv in let i := fst t in let name := fst (snd t) in
              let k := fst (snd (snd t)) in let s := fst (snd (snd (snd t))) in
              match adj_buffered k s (fst cv) with
              | Some p => rest_ok (snd tv) (adj_value tag content i name k (Some p))
              | None => fail Message
              end
          | _ => fail Message
          end
      end
  | ShUntagged vs =>
      x <- de_content c fuel ;;
      match fc false (ShUntagged vs) x with Some v => ret v | None => fail Message end
  | ShFlat fs =>
      let ds := map (fun p : bytes * (bool * shape) =>
                       let (n, fs') := p in let (fl, s) := fs' in (n, (fl, de_s c s fuel))) fs in
      ln <- dec_map ;;
      r <- flat_loop c ds ln fuel (map (fun _ => None) fs) [] ;;
      match flat_finish fs (fst r) (snd r) with
      | Some es => ret (SMap None es)
      | None => fail Message
      end
  | ShAny => fmap sval_of_content (de_content c fuel)
  | ShIgnored => de_ignored c ;;; ret SUnit
  end.

Definition de_auto (c : cfg) (sh : shape) : M sval := fun s => de_s c sh (fuel_of s) s.
