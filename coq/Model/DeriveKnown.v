(* Model/DeriveKnown.v — the exactly delimited classes of values on which the derive output is known to
   deviate (confirmed finding F14; F6, F7, F9, F10 are repaired; DESIGN.md section 5).  Boolean functions over schema and value;
   the theorem C08_format is stated on its complement, the `_refuted` lemmas
   exhibit a witness inside each class. *)
From MC Require Export DeriveLen DeriveDoc.
Local Open Scope N_scope.

(* F14: the macro's presence test disagrees with the documented notion of an absent optional
   (an Option hidden behind a type alias, under a codec) *)
Definition f13_group (l : list pfield) (vs : list value) : bool :=
  existsb (fun pf => negb (Bool.eqb (fld_is_nil (pf_fld pf) (pf_val vs pf)) (absent (pf_fld pf) (pf_val vs pf)))) l.

Section Known.
Variable group : encoding -> list pfield -> list value -> bool.     (* the class at one struct / variant body *)
Variable rec : nat -> value -> bool.

Fixpoint known_fty (f : fty) (v : value) {struct f} : bool :=
  match f, v with
  | FRef d, _ => rec d v
  | FOpt f', VSome v' => known_fty f' v'
  | FSeq f', VList l => existsb (known_fty f') l
  | _, _ => false
  end.

Definition known_field (vs : list value) (pf : pfield) : bool :=
  match f_codec (pf_fld pf) with
  | CoDefault => known_fty (f_ty (pf_fld pf)) (pf_val vs pf)
  | _ => false
  end.

Definition known_fields (e : encoding) (fs : list field) (vs : list value) : bool :=
  group e (sorted_fields fs) vs || existsb (known_field vs) (sorted_fields fs).

Definition known_def (df : def) (v : value) : bool :=
  match df, v with
  | DStruct e _ transparent _ fs, VList vs =>
      if transparent then existsb (known_field vs) (sorted_fields fs)
      else known_fields (struct_encoding e) fs vs
  | DEnum e _ index_only vars, VVar i (VList vs) =>
      match find_variant vars i with
      | Some va => if is_unit (v_shape va) || index_only then false
                   else known_fields (variant_encoding e va) (v_fields va) vs
      | None => false
      end
  | _, _ => false
  end.
End Known.

Fixpoint known_f (group : encoding -> list pfield -> list value -> bool) (k : nat) (Sc : schema) (d : nat) (v : value) : bool :=
  match k with
  | O => false
  | S k' =>
      match nth_error Sc d with
      | Some df => known_def group (fun d' v' => if Nat.ltb d' d then known_f group k' Sc d' v' else false) df v
      | None => false
      end
  end.

Definition fmt_group (_ : encoding) (l : list pfield) (vs : list value) : bool := f13_group l vs.

(* the encoding of v passes through a struct / variant body in class F14 *)
Definition known_alias_nil (Sc : schema) (d : nat) (v : value) : bool := known_f fmt_group (S d) Sc d v.

(* ---- side condition of the round trip (C09): the payload of an Option field type is not itself nullable.
   Option<Option<_>>, Option<transparent newtype> can be lossy exactly as for the built-in impls (C01: ty_rt). *)
Fixpoint fty_rt (ntr : nat -> bool) (f : fty) : bool :=
  match f with
  | FTy _ | FRef _ => true
  | FSeq g => fty_rt ntr g
  | FOpt g => match g with
              | FRef d => ntr d
              | FSeq h => fty_rt ntr h
              | _ => false
              end
  end.

Definition non_transparent (Sc : schema) (d : nat) : bool :=
  match nth_error Sc d with Some (DStruct _ _ tr _ _) => negb tr | Some (DEnum _ _ _ _) => true | None => false end.

Definition def_rt (Sc : schema) (df : def) : bool :=
  match df with
  | DStruct _ _ _ _ fs => forallb (fun f => fty_rt (non_transparent Sc) (f_ty f)) fs
  | DEnum _ _ _ vs => forallb (fun v => forallb (fun f => fty_rt (non_transparent Sc) (f_ty f)) (v_fields v)) vs
  end.
Definition schema_rt (Sc : schema) : bool := forallb (def_rt Sc) Sc.
