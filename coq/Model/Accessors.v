(* Model/Acc.v — the decoder accessors under one dispatcher, with results in the common value type
   of Spec/Acc.v, so that model, specification and implementation can be compared case by case. *)
From MC Require Export Decoder Acc.
Local Open Scope N_scope.

Definition int_z (p : bool * N) : Z := if fst p then (-1 - Z.of_N (snd p))%Z else Z.of_N (snd p).

Definition run_acc (c : cfg) (a : acc) : M aval :=
  match a with
  | AU8 => fmap VN dec_u8 | AU16 => fmap VN dec_u16 | AU32 => fmap VN dec_u32 | AU64 => fmap VN dec_u64
  | AI8 => fmap VZ dec_i8 | AI16 => fmap VZ dec_i16 | AI32 => fmap VZ dec_i32 | AI64 => fmap VZ dec_i64
  | AInt => fmap (fun p => VZ (int_z p)) dec_int
  | AChar => fmap VN dec_char
  | ABool => fmap VB dec_bool
  | ANull => fmap (fun _ => VU) dec_null
  | AUndefined => fmap (fun _ => VU) dec_undefined
  | ASimple => fmap VN dec_simple
  | AF16 => if c_half c then fmap VF dec_f16 else fail Message   (* method absent without `half` *)
  | AF32 => fmap VF (dec_f32 c)
  | AF64 => fmap VF (dec_f64 c)
  | ABytes => fmap VBytes dec_bytes
  | AStr => fmap VBytes dec_str
  | ABytesIter => fun s => fmap VChunks (dec_bytes_iter (fuel_of s)) s
  | AStrIter => fun s => fmap VChunks (dec_str_iter (fuel_of s)) s
  | AArray => fmap VLen dec_array
  | AMap => fmap VLen dec_map
  | ATag => fmap VN dec_tag
  | ASkip => fmap (fun _ => VU) (skip_auto c)
  end.
