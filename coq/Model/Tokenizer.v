(* Model/Tokenizer.v — transliteration of minicbor/src/decode/tokenizer.rs: Tokenizer::token (drain on
   error), the Iterator impl (ends on end of input), and the Display stack machine over the *peekable*
   token iterator.  Definitions only (Proofs/TokenFacts.v, Proofs/DisplayFacts.v). *)
From MC Require Export Token.
Local Open Scope N_scope.

(* Iterator::Item = Result<Token, Error> *)
Inductive titem := IOk (t : token) | IErr (e : err).

(* tokenizer.rs:52 — Tokenizer::token: on any error the decoder is drained (position := input length) *)
Definition drained (L : N) : dst := mkdst L [] L.
Definition token_step (c : cfg) : M token := fun s =>
  match dec_token c s with
  | (Err e, s') => (Err e, drained (dlen s'))
  | r => r
  end.

(* tokenizer.rs:21 — Iterator::next: Ok t -> Some(Ok t); end of input -> None; other error -> Some(Err e) *)
Definition tok_next (c : cfg) (s : dst) : result (option titem) * dst :=
  match token_step c s with
  | (Ok t, s') => (Ok (Some (IOk t)), s')
  | (Err EndOfInput, s') => (Ok None, s')
  | (Err e, s') => (Ok (Some (IErr e)), s')
  | (Panic, s') => (Panic, s')
  | (OutOfFuel, s') => (OutOfFuel, s')
  end.

(* `tokenizer.collect::<Vec<_>>()`: call next() until it returns None *)
Fixpoint tokenise_from (c : cfg) (fuel : nat) (s : dst) : result (list titem) :=
  match fuel with
  | O => OutOfFuel
  | S fuel =>
    match tok_next c s with
    | (Ok None, _) => Ok []
    | (Ok (Some i), s') =>
        match tokenise_from c fuel s' with Ok l => Ok (i :: l) | r => r end
    | (Err e, _) => Err e
    | (Panic, _) => Panic
    | (OutOfFuel, _) => OutOfFuel
    end
  end.

(* Tokenizer::new(bytes).collect(); one call per token plus the final one *)
Definition tokenise (c : cfg) (bs : bytes) : result (list titem) :=
  tokenise_from c (S (length bs)) (start bs).

(* ---- Display for Tokenizer (tokenizer.rs:65-233, feature alloc) ---- *)

(* tokenizer.rs:68 — control stack element *)
Inductive elt :=
| EN                      (* get next token *)
| ET                      (* tag *)
| EA (o : option N)       (* array *)
| EM (o : option N)       (* map *)
| EB                      (* indefinite bytes *)
| ED                      (* indefinite text *)
| ES (s : bytes)          (* display string *)
| EX (s : bytes).         (* display string (unless next token is BREAK) *)

Inductive dres := DDone (out : list piece) | DPanic | DFuel.

(* f.write_str(..)? into a sink that accepts everything *)
Definition emit (p : list piece) (r : dres) : dres :=
  match r with DDone o => DDone (p ++ o) | _ => r end.

Definition l_comma : bytes := [44;32].         (* ", " *)
Definition l_colon : bytes := [58;32].         (* ": " *)
Definition l_err : bytes := [32;33;33;33;32;100;101;99;111;100;105;110;103;32;101;114;114;111;114;58;32].
                                               (* " !!! decoding error: " *)
Definition l_arr_open : bytes :=               (* " !!! indefinite array not closed" *)
  [32;33;33;33;32;105;110;100;101;102;105;110;105;116;101;32;97;114;114;97;121;32;110;111;116;32;99;108;111;115;101;100].
Definition l_map_open : bytes :=               (* " !!! indefinite map not closed" *)
  [32;33;33;33;32;105;110;100;101;102;105;110;105;116;101;32;109;97;112;32;110;111;116;32;99;108;111;115;101;100].
Definition l_bytes_open : bytes :=             (* " !!! indefinite byte string not closed" *)
  [32;33;33;33;32;105;110;100;101;102;105;110;105;116;101;32;98;121;116;101;32;115;116;114;105;110;103;32;110;111;116;32;99;108;111;115;101;100].
Definition l_str_open : bytes :=               (* " !!! indefinite string not closed" *)
  [32;33;33;33;32;105;110;100;101;102;105;110;105;116;101;32;115;116;114;105;110;103;32;110;111;116;32;99;108;111;115;101;100].

Section Peekable.
  (* the underlying iterator: here the Tokenizer (St = dst, nxt = tok_next c) *)
  Variable St : Type.
  Variable nxt : St -> result (option titem) * St.

  (* core::iter::Peekable { iter, peeked: Option<Option<Item>> } *)
  Definition pk := (option (option titem) * St)%type.

  (* Peekable::next: self.peeked.take() or iter.next() *)
  Definition pk_next (p : pk) : result (option titem) * pk :=
    match fst p with
    | Some v => (Ok v, (None, snd p))
    | None => match nxt (snd p) with (r, s') => (r, (None, s')) end
    end.

  (* Peekable::peek: self.peeked.get_or_insert_with(|| iter.next()) *)
  Definition pk_peek (p : pk) : result (option titem) * pk :=
    match fst p with
    | Some v => (Ok v, p)
    | None => match nxt (snd p) with
              | (Ok v, s') => (Ok v, (Some v, s'))
              | (r, s') => (r, (None, s'))
              end
    end.
End Peekable.

Section Machine.
  (* the peekable iterator the machine runs over: its state and its peek() / next() *)
  Variable P : Type.
  Variable ppeek : P -> result (option titem) * P.
  Variable pnext : P -> result (option titem) * P.

  (* continue with the iterator's answer; an iterator that panics / diverges makes the whole call do so *)
  Definition with_it (r : result (option titem) * P) (f : option titem -> P -> dres) : dres :=
    match r with
    | (Ok v, it) => f v it
    | (OutOfFuel, _) => DFuel
    | (_, _) => DPanic
    end.

  Definition is_break (v : option titem) : bool :=
    match v with Some (IOk TkBreak) => true | _ => false end.

  (* one fuel unit per iteration of either loop.  Stack: head = top of the Vec. *)
  Fixpoint mach (fuel : nat) (it : P) (stk : list elt) : dres :=
    match fuel with
    | O => DFuel
    | S fuel =>
      match stk with
      | [] =>                                               (* tokenizer.rs:82 while iter.peek().is_some() *)
          with_it (ppeek it) (fun v it =>
            match v with
            | Some _ => mach fuel it [EN]                   (* :83 stack.push(E::N) *)
            | None => DDone []                              (* :231 *)
            end)
      | EN :: k =>                                          (* :86 *)
          with_it (pnext it) (fun v it =>
            match v with
            | Some (IOk (TkArray n)) => emit [PLit [91]] (mach fuel it (EA (Some n) :: k))          (* "[" *)
            | Some (IOk (TkMap n)) => emit [PLit [123]] (mach fuel it (EM (Some n) :: k))           (* "{" *)
            | Some (IOk TkBeginArray) => emit [PLit [91;95;32]] (mach fuel it (EA None :: k))        (* "[_ " *)
            | Some (IOk TkBeginMap) => emit [PLit [123;95;32]] (mach fuel it (EM None :: k))         (* "{_ " *)
            | Some (IOk TkBeginBytes) =>                                                             (* :103 *)
                with_it (ppeek it) (fun v it =>
                  if is_break v
                  then with_it (pnext it) (fun _ it => emit [PLit [39;39;95]] (mach fuel it k))    (* "''_" *)
                  else emit [PLit [40;95;32]] (mach fuel it (EB :: k)))                              (* "(_ " *)
            | Some (IOk TkBeginString) =>                                                            (* :110 *)
                with_it (ppeek it) (fun v it =>
                  if is_break v
                  then with_it (pnext it) (fun _ it => emit [PLit [34;34;95]] (mach fuel it k))    (* "\"\"_" *)
                  else emit [PLit [40;95;32]] (mach fuel it (ED :: k)))
            | Some (IOk (TkTag t)) => emit [PLit (dec_n t ++ [40])] (mach fuel it (ET :: k))         (* "t(" *)
            | Some (IOk t) => emit (tok_text t) (mach fuel it k)                                     (* :121 *)
            | Some (IErr e) => DDone [PLit l_err; PErr e]                                            (* :122 *)
            | None => DDone []                                                                       (* :126 *)
            end)
      | ES s :: k => emit [PLit s] (mach fuel it k)                                                  (* :128 *)
      | EX s :: k =>                                                                                 (* :129 *)
          with_it (ppeek it) (fun v it =>
            match v with
            | None => mach fuel it k
            | Some (IOk TkBreak) => mach fuel it k
            | Some (IOk _) => emit [PLit s] (mach fuel it k)
            | Some (IErr e) => DDone [PLit l_err; PErr e]
            end)
      | ET :: k => mach fuel it (EN :: ES [41] :: k)                                                 (* :137 *)
      | EA (Some n) :: k =>
          if n =? 0 then emit [PLit [93]] (mach fuel it k)                                           (* :141 "]" *)
          else if n =? 1 then mach fuel it (EN :: EA (Some 0) :: k)                                  (* :142 *)
          else mach fuel it (EN :: ES l_comma :: EA (Some (n - 1)) :: k)                             (* :146 *)
      | EA None :: k =>                                                                              (* :151 *)
          with_it (ppeek it) (fun v it =>
            match v with
            | None => DDone [PLit l_arr_open]
            | Some (IOk TkBreak) => with_it (pnext it) (fun _ it => emit [PLit [93]] (mach fuel it k))
            | _ => mach fuel it (EN :: EX l_comma :: EA None :: k)
            end)
      | EM (Some n) :: k =>
          if n =? 0 then emit [PLit [125]] (mach fuel it k)                                          (* :166 "}" *)
          else if n =? 1 then mach fuel it (EN :: ES l_colon :: EN :: EM (Some 0) :: k)              (* :167 *)
          else mach fuel it (EN :: ES l_colon :: EN :: ES l_comma :: EM (Some (n - 1)) :: k)         (* :173 *)
      | EM None :: k =>                                                                              (* :180 *)
          with_it (ppeek it) (fun v it =>
            match v with
            | None => DDone [PLit l_map_open]
            | Some (IOk TkBreak) => with_it (pnext it) (fun _ it => emit [PLit [125]] (mach fuel it k))
            | _ => mach fuel it (EN :: ES l_colon :: EN :: EX l_comma :: EM None :: k)
            end)
      | EB :: k =>                                                                                   (* :197 *)
          with_it (ppeek it) (fun v it =>
            match v with
            | None => DDone [PLit l_bytes_open]
            | Some (IOk TkBreak) => with_it (pnext it) (fun _ it => emit [PLit [41]] (mach fuel it k))
            | _ => mach fuel it (EN :: EX l_comma :: EB :: k)
            end)
      | ED :: k =>                                                                                   (* :212 *)
          with_it (ppeek it) (fun v it =>
            match v with
            | None => DDone [PLit l_str_open]
            | Some (IOk TkBreak) => with_it (pnext it) (fun _ it => emit [PLit [41]] (mach fuel it k))
            | _ => mach fuel it (EN :: EX l_comma :: ED :: k)
            end)
      end
    end.
End Machine.

(* minicbor::display(bytes) written into a String: Tokenizer::new(bytes), cloned, made peekable *)
Definition display_fuel (c : cfg) (fuel : nat) (bs : bytes) : dres :=
  mach (pk dst) (pk_peek dst (tok_next c)) (pk_next dst (tok_next c)) fuel (None, start bs) [].

(* fuel that always suffices (Proofs/DisplayFacts.v): 8 loop iterations per input byte, plus 8 *)
Definition fuel_lin (bs : bytes) : nat := 8 * length bs + 8.
Definition display (c : cfg) (bs : bytes) : dres := display_fuel c (fuel_lin bs) bs.
