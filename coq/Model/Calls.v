(* Model/Calls.v — sequences of Encoder calls (methods writing whole items, tag/array/map headers,
   begin_* / end), and the calls that write a given encoding tree. *)
From MC Require Export Methods.
Local Open Scope N_scope.

Inductive call :=
| CMeth (m : meth) | CHead (h : hmeth)
| CBeginArray | CBeginMap | CBeginBytes | CBeginStr | CEnd.

Definition run_call (c : call) : option (list chunk) :=
  match c with
  | CMeth m => if arg_ok m then run_meth m else None      (* arguments outside the Rust type do not exist *)
  | CHead h => if hmeth_ok h then Some (run_hmeth h) else None
  | CBeginArray => Some enc_begin_array | CBeginMap => Some enc_begin_map
  | CBeginBytes => Some enc_begin_bytes | CBeginStr => Some enc_begin_str
  | CEnd => Some enc_end
  end.

(* every call returns Ok, or the sequence stops at the first error (`?`) *)
Fixpoint run_calls (cs : list call) : option (list chunk) :=
  match cs with
  | [] => Some []
  | c :: cs' => match run_call c, run_calls cs' with
                | Some a, Some b => Some (a ++ b)
                | _, _ => None
                end
  end.

(* the calls a user makes to write the tree e (head widths are not the caller's choice) *)
Fixpoint calls_of (e : enc) : list call :=
  match e with
  | EUInt _ n => [CMeth (MU64 n)]
  | ENInt _ n => [CMeth (MInt true n)]
  | EBytes _ b => [CMeth (MBytes b)]
  | EBytesI cs => CBeginBytes :: map (fun c => CMeth (MBytes (snd c))) cs ++ [CEnd]
  | EText _ b => [CMeth (MStr b)]
  | ETextI cs => CBeginStr :: map (fun c => CMeth (MStr (snd c))) cs ++ [CEnd]
  | EArray _ es => CHead (HArray (len es)) :: flat_map calls_of es
  | EArrayI es => CBeginArray :: flat_map calls_of es ++ [CEnd]
  | EMap _ es => CHead (HMap (len es / 2)) :: flat_map calls_of es
  | EMapI es => CBeginMap :: flat_map calls_of es ++ [CEnd]
  | ETag _ t e' => CHead (HTag t) :: calls_of e'
  | ESimple n => [CMeth (MSimple n)]
  | EF16 b => [CMeth (MF16bits b)]
  | EF32 b => [CMeth (MF32 b)]
  | EF64 b => [CMeth (MF64 b)]
  end.
