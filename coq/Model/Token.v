(* Model/Token.v — transliteration of minicbor/src/data/token.rs: the Token enum, Decode / Encode /
   CborLen for Token, skip_byte, and the per-token Display.  Definitions only (Proofs/TokenFacts.v).
   Integers are N / Z in the range of the Rust payload type, `Int` is (negative?, magnitude),
   floats are bit patterns — `TkF16` carries the bits of the *f32* the Rust variant holds —,
   byte and text strings are `bytes` (text: the UTF-8 bytes of the &str). *)
From MC Require Export Monad Decoder Encoder Half Text.
Local Open Scope N_scope.

(* token.rs:11 *)
Inductive token :=
| TkBool (b : bool)
| TkU8 (n : N) | TkU16 (n : N) | TkU32 (n : N) | TkU64 (n : N)
| TkI8 (z : Z) | TkI16 (z : Z) | TkI32 (z : Z) | TkI64 (z : Z)
| TkInt (i : bool * N)
| TkF16 (f32bits : N) | TkF32 (bits : N) | TkF64 (bits : N)
| TkBytes (b : bytes) | TkString (b : bytes)
| TkArray (n : N) | TkMap (n : N) | TkTag (n : N) | TkSimple (n : N)
| TkBreak | TkNull | TkUndefined
| TkBeginBytes | TkBeginString | TkBeginArray | TkBeginMap.

(* token.rs:167 — d.set_position(d.position() + 1); the usize addition panics on overflow (debug) *)
Definition skip_byte : M unit := fun s =>
  if dpos s + 1 <? two64 then (Ok tt, mkdst (dpos s + 1) (tl (drest s)) (dlen s))
  else (Panic, s).

(* token.rs:117 — Decode for Token.  Type::Unknown -> type mismatch; the two "missing length"
   errors both carry Type::Array (sic, token.rs:150) *)
Definition dec_token (c : cfg) : M token :=
  t <- datatype ;;
  match t with
  | TBool => fmap TkBool dec_bool
  | TU8 => fmap TkU8 dec_u8
  | TU16 => fmap TkU16 dec_u16
  | TU32 => fmap TkU32 dec_u32
  | TU64 => fmap TkU64 dec_u64
  | TI8 => fmap TkI8 dec_i8
  | TI16 => fmap TkI16 dec_i16
  | TI32 => fmap TkI32 dec_i32
  | TI64 => fmap TkI64 dec_i64
  | TInt => fmap TkInt dec_int
  | TF16 => fmap TkF16 dec_f16
  | TF32 => fmap TkF32 (dec_f32 c)
  | TF64 => fmap TkF64 (dec_f64 c)
  | TBytes => fmap TkBytes dec_bytes
  | TString => fmap TkString dec_str
  | TTag => fmap TkTag dec_tag
  | TSimple => fmap TkSimple dec_simple
  | TArray => o <- dec_array ;;
              match o with Some n => ret (TkArray n) | None => fail (TypeMismatch TArray) end
  | TMap => o <- dec_map ;;
            match o with Some n => ret (TkMap n) | None => fail (TypeMismatch TArray) end
  | TBytesIndef => skip_byte ;;; ret TkBeginBytes
  | TStringIndef => skip_byte ;;; ret TkBeginString
  | TArrayIndef => skip_byte ;;; ret TkBeginArray
  | TMapIndef => skip_byte ;;; ret TkBeginMap
  | TNull => skip_byte ;;; ret TkNull
  | TUndefined => skip_byte ;;; ret TkUndefined
  | TBreak => skip_byte ;;; ret TkBreak
  | TUnknown n => fail (TypeMismatch (TUnknown n))
  end.

(* token.rs:171 — Encode for Token.  No variant is refused (the option is kept for the callers; it is
   always Some): Token::Simple(24..=31) is written as f8 x like Encoder::simple does (finding F2b).
   Token::F16(x) goes through half::f16::from_f32 (encoder.rs:184). *)
Definition enc_token (t : token) : option (list chunk) :=
  match t with
  | TkBool b => Some (enc_bool b)
  | TkU8 n => Some (enc_u8 n) | TkU16 n => Some (enc_u16 n)
  | TkU32 n => Some (enc_u32 n) | TkU64 n => Some (enc_u64 n)
  | TkI8 z => Some (enc_i8 z) | TkI16 z => Some (enc_i16 z)
  | TkI32 z => Some (enc_i32 z) | TkI64 z => Some (enc_i64 z)
  | TkInt i => Some (enc_int (fst i) (snd i))
  | TkF16 x => Some (enc_f16_bits (f32_to_f16 x))
  | TkF32 x => Some (enc_f32 x) | TkF64 x => Some (enc_f64 x)
  | TkBytes b => Some (enc_bytes b) | TkString b => Some (enc_str b)
  | TkArray n => Some (enc_array n) | TkMap n => Some (enc_map n)
  | TkTag n => Some (enc_tag n)
  | TkSimple n => Some (enc_simple n)
  | TkBreak => Some enc_end
  | TkNull => Some enc_null | TkUndefined => Some enc_undefined
  | TkBeginBytes => Some enc_begin_bytes | TkBeginString => Some enc_begin_str
  | TkBeginArray => Some enc_begin_array | TkBeginMap => Some enc_begin_map
  end.

(* encoder.rs:274 — Encoder::tokens: `for t in tokens { self.encode(t)?; }`.
   None = some token was refused; no token is (enc_token is always Some), the shape follows the `?`. *)
Fixpoint enc_tokens (ts : list token) : option (list chunk) :=
  match ts with
  | [] => Some []
  | t :: r => match enc_token t with
              | None => None
              | Some c => match enc_tokens r with Some cs => Some (c ++ cs) | None => None end
              end
  end.

(* encode.rs:475-540 — CborLen for u8/u16/u32/u64 and the signed types *)
Definition len_u8 (x : N) : N := if x <=? 0x17 then 1 else 2.
Definition len_u16 (x : N) : N := if x <=? 0x17 then 1 else if x <=? 0xff then 2 else 3.
Definition len_u32 (x : N) : N :=
  if x <=? 0x17 then 1 else if x <=? 0xff then 2 else if x <=? 0xffff then 3 else 5.
Definition len_u64 (x : N) : N :=
  if x <=? 0x17 then 1 else if x <=? 0xff then 2 else if x <=? 0xffff then 3
  else if x <=? 0xffffffff then 5 else 9.
(* if *self >= 0 { *self as uN } else { (-1 - self) as uN } *)
Definition len_arg (z : Z) : N := if (0 <=? z)%Z then Z.to_N z else Z.to_N (-1 - z)%Z.

(* token.rs:205 — CborLen for Token.  (usize additions: a slice is at most isize::MAX long, so
   `n.cbor_len() + n` cannot overflow.) *)
Definition len_token (t : token) : N :=
  match t with
  | TkBool _ => 1
  | TkU8 n => len_u8 n | TkU16 n => len_u16 n | TkU32 n => len_u32 n | TkU64 n => len_u64 n
  | TkI8 z => len_u8 (len_arg z) | TkI16 z => len_u16 (len_arg z)
  | TkI32 z => len_u32 (len_arg z) | TkI64 z => len_u64 (len_arg z)
  | TkInt i => len_u64 (snd i)
  | TkF16 _ => 3
  | TkF32 _ => 5 | TkF64 _ => 9
  | TkBytes b => len_u64 (len b) + len b
  | TkString b => len_u64 (len b) + len b
  | TkArray n => len_u64 n | TkMap n => len_u64 n | TkTag n => len_u64 n
  | TkSimple n => len_u8 n
  | TkBreak | TkNull | TkUndefined | TkBeginBytes | TkBeginString | TkBeginArray | TkBeginMap => 1
  end.

(* ---- Display for Token (pieces and number formatting: Base/Text.v) ---- *)
(* i128::from(Int) (data.rs:398) *)
Definition int_val (i : bool * N) : Z := if fst i then (-1 - Z.of_N (snd i))%Z else Z.of_N (snd i).

(* token.rs:100-112: "h'" then the bytes as two hex digits each, separated by one space, then "'" *)
Fixpoint hex_spaced (b : bytes) : bytes :=
  match b with
  | [] => []
  | [x] => hex2 x
  | x :: r => hex2 x ++ 32 :: hex_spaced r
  end.

Definition s_true : bytes := [116;114;117;101].
Definition s_false : bytes := [102;97;108;115;101].
Definition s_null : bytes := [110;117;108;108].
Definition s_undefined : bytes := [117;110;100;101;102;105;110;101;100].
Definition s_simple : bytes := [115;105;109;112;108;101;40].      (* "simple(" *)

(* token.rs:72 — Display for Token *)
Definition tok_text (t : token) : list piece :=
  match t with
  | TkBool b => [PLit (if b then s_true else s_false)]
  | TkU8 n | TkU16 n | TkU32 n | TkU64 n => [PLit (dec_n n)]
  | TkI8 z | TkI16 z | TkI32 z | TkI64 z => [PLit (dec_z z)]
  | TkInt i => [PLit (dec_z (int_val i))]
  | TkF16 x => [PFloat 32 x]
  | TkF32 x => [PFloat 32 x]
  | TkF64 x => [PFloat 64 x]
  | TkString b => [PLit (34 :: b ++ [34])]
  | TkArray n => [PLit ([65;91] ++ dec_n n ++ [93])]               (* A[n] *)
  | TkMap n => [PLit ([77;91] ++ dec_n n ++ [93])]                 (* M[n] *)
  | TkTag n => [PLit ([84;40] ++ dec_n n ++ [41])]                 (* T(n) *)
  | TkSimple n => [PLit (s_simple ++ dec_n n ++ [41])]             (* simple(n) *)
  | TkBreak => [PLit [93]]                                         (* ] *)
  | TkNull => [PLit s_null]
  | TkUndefined => [PLit s_undefined]
  | TkBeginBytes => [PLit [63;66;91]]                              (* ?B[ *)
  | TkBeginString => [PLit [63;83;91]]                             (* ?S[ *)
  | TkBeginArray => [PLit [63;65;91]]                              (* ?A[ *)
  | TkBeginMap => [PLit [63;77;91]]                                (* ?M[ *)
  | TkBytes b => [PLit ([104;39] ++ hex_spaced b ++ [39])]         (* h'..' *)
  end.
