(* Model/FrameIo.v — transliteration of minicbor-io/src/reader.rs (Reader::read_with), writer.rs
   (Writer::write_with) and error.rs, plus the byte-level specification of the frame format.
   Definitions only (proofs: Proofs/FrameIoFacts.v).

   The value codec is abstract.  Reading: `dec : bytes -> option V` stands for
   `minicbor::decode_with(&self.buffer, ctx)` (None = Err(Error::Decode)).  Writing: the outcome of
   `minicbor::encode_with(val, &mut self.buffer, ctx)` is an `enc_res` — either the payload bytes it
   appended to the buffer, or a failure together with the bytes it had appended before failing.

   The byte source is a scripted `io::Read`: the bytes it still holds plus one scripted outcome per
   `read` call.  When the script is exhausted every further call delivers as much as was asked for
   (so every finite script is continued by a well-behaved reader and is fair by construction).
   `s_calls` counts the calls made (instrumentation, compared with the harness). *)
From MC Require Export Bytes.
Local Open Scope N_scope.

(* ------------------------------------------------------------------------------------------ *)
(* error.rs:6-16 — Error, by class.  Io is split by the io::ErrorKind the code itself produces
   (UnexpectedEof, WriteZero) versus an error handed up from the inner reader / writer. *)
Inductive io_err := IoInvalidLen | IoUnexpectedEof | IoInner | IoWriteZero | IoDecode | IoEncode.

(* Result<Option<T>, Error> of a read call, plus the two model-only outcomes *)
Inductive outcome (V : Type) :=
| OVal (v : V)          (* Ok(Some(v)) *)
| OEnd                  (* Ok(None) *)
| OErr (e : io_err)
| OPanic | OFuel.
Arguments OVal {V} v. Arguments OEnd {V}. Arguments OErr {V} e. Arguments OPanic {V}. Arguments OFuel {V}.

(* the first min(n,|l|) elements and the rest; structural on the list *)
Fixpoint splitN {A} (l : list A) (n : N) : list A * list A :=
  if n =? 0 then ([], l)
  else match l with
       | [] => ([], [])
       | x :: r => let '(a, b) := splitN r (N.pred n) in (x :: a, b)
       end.

(* buf[o .. o+|got|] = got   (what a read into &mut buf[o ..] that returns |got| leaves behind) *)
Definition write_at (buf : bytes) (o : N) (got : bytes) : bytes :=
  firstn (N.to_nat o) buf ++ got ++ skipn (N.to_nat o + length got) buf.

Definition zeros (n : N) : bytes := repeat 0 (N.to_nat n).

Fixpoint beq_bytes (a b : bytes) : bool :=
  match a, b with
  | [], [] => true
  | x :: a', y :: b' => (x =? y) && beq_bytes a' b'
  | _, _ => false
  end.

(* ------------------------------------------------------------------------------------------ *)
(* Specification of the wire format (independent of the machines below). *)
Definition frame_of (p : bytes) : bytes := be 4 (len p) ++ p.
Definition stream_of (ps : list bytes) : bytes := concat (map frame_of ps).

Inductive sitem := SFrame (p : bytes) | SEnd | SEof | SInvalidLen.

(* what the first read call on a source holding `data` has to produce, and what it leaves *)
Definition spec_read (max : N) (data : bytes) : sitem * bytes :=
  if len data =? 0 then (SEnd, [])
  else if len data <? 4 then (SEof, [])
  else let '(pre, rest) := splitN data 4 in
       let n := of_be pre in
       if max <? n then (SInvalidLen, rest)
       else if len rest <? n then (SEof, [])
       else let '(p, rest') := splitN rest n in (SFrame p, rest').

Fixpoint spec_all (fuel : nat) (max : N) (data : bytes) : list sitem :=
  match fuel with
  | O => []
  | S f => match spec_read max data with
           | (SFrame p, rest) => SFrame p :: spec_all f max rest
           | (i, _) => [i]
           end
  end.
Definition spec_stream (max : N) (data : bytes) : list sitem := spec_all (S (length data)) max data.

(* the bytes left in the source after the last of those calls *)
Fixpoint spec_rest (fuel : nat) (max : N) (data : bytes) : bytes :=
  match fuel with
  | O => data
  | S f => match spec_read max data with
           | (SFrame p, rest) => spec_rest f max rest
           | (_, rest) => rest
           end
  end.

(* ------------------------------------------------------------------------------------------ *)
(* The scripted io::Read *)
Inductive rtok := RData (k : N) | RIntr | RErr.
Record src := mksrc { s_data : bytes; s_sched : list rtok; s_calls : N }.
Inductive read_res := RdOk (got : bytes) | RdIntr | RdErr.

(* one call `self.reader.read(&mut b)` with |b| = want *)
Definition src_read (s : src) (want : N) : read_res * src :=
  match s_sched s with
  | [] => let '(got, rest) := splitN (s_data s) want in (RdOk got, mksrc rest [] (s_calls s + 1))
  | RData k :: t => let '(got, rest) := splitN (s_data s) (N.min k want) in (RdOk got, mksrc rest t (s_calls s + 1))
  | RIntr :: t => (RdIntr, mksrc (s_data s) t (s_calls s + 1))
  | RErr :: t => (RdErr, mksrc (s_data s) t (s_calls s + 1))
  end.

(* every loop iteration below makes exactly one read call; a call either consumes a script token or,
   with the script exhausted, delivers everything asked for or hits the end of the data *)
Definition src_fuel (s : src) : nat := length (s_sched s) + 3.

(* reader.rs:7-11.  r_peak is instrumentation: the largest argument ever passed to Vec::resize *)
Record reader := mkreader { r_buf : bytes; r_max : N; r_peak : N }.

Inductive prefix_res := PDone (buf : bytes) | PEnd | PEof | PErr | PFuel.

(* reader.rs:62-77: `while len < 4 { match self.reader.read(&mut buf[len ..]) … }` *)
Fixpoint prefix_loop (fuel : nat) (s : src) (buf : bytes) (ln : N) : prefix_res * src :=
  match fuel with
  | O => (PFuel, s)
  | S f =>
      if ln <? 4 then
        let '(r, s1) := src_read s (4 - ln) in
        match r with
        | RdOk got =>
            if len got =? 0 then
              (if ln =? 0 then (PEnd, s1)                (* reader.rs:66 Ok(0) if len == 0 => return Ok(None) *)
               else (PEof, s1))                           (* reader.rs:68 Ok(0) => UnexpectedEof *)
            else prefix_loop f s1 (write_at buf ln got) (ln + len got)   (* reader.rs:70 len += n *)
        | RdIntr => prefix_loop f s1 buf ln               (* reader.rs:72 Interrupted => continue *)
        | RdErr => (PErr, s1)                             (* reader.rs:74 *)
        end
      else (PDone buf, s)
  end.

Inductive exact_res := XrDone (buf : bytes) | XrEof (buf : bytes) | XrErr (buf : bytes) | XrPanic (buf : bytes) | XrFuel (buf : bytes).

(* std::io::default_read_exact (library/std/src/io/mod.rs), reached from reader.rs:84.
   o = number of bytes of buf already filled; the remaining slice is buf[o ..]. *)
Fixpoint read_exact (fuel : nat) (s : src) (buf : bytes) (o : N) : exact_res * src :=
  match fuel with
  | O => (XrFuel buf, s)
  | S f =>
      if o <? len buf then                                 (* while !buf.is_empty() *)
        let '(r, s1) := src_read s (len buf - o) in
        match r with
        | RdOk got =>
            if len got =? 0 then (XrEof buf, s1)            (* Ok(0) => break; then Err(UnexpectedEof) *)
            else if len buf - o <? len got then (XrPanic buf, s1)      (* buf = &mut buf[n ..] out of range *)
            else read_exact f s1 (write_at buf o got) (o + len got)
        | RdIntr => read_exact f s1 buf o                  (* is_interrupted => {} *)
        | RdErr => (XrErr buf, s1)
        end
      else (XrDone buf, s)
  end.

Section Codec.
Variable V : Type.
Variable dec : bytes -> option V.

(* reader.rs:85 minicbor::decode_with(&self.buffer, ctx).map_err(Error::Decode).map(Some) *)
Definition decode_outcome (p : bytes) : outcome V :=
  match dec p with Some v => OVal v | None => OErr IoDecode end.

Definition set_rbuf (r : reader) (b : bytes) : reader := mkreader b (r_max r) (r_peak r).

(* reader.rs:61-86 Reader::read_with *)
Definition read_with (r : reader) (s : src) : outcome V * reader * src :=
  match prefix_loop (src_fuel s) s [0; 0; 0; 0] 0 with               (* reader.rs:62-63 *)
  | (PEnd, s1) => (OEnd, r, s1)
  | (PEof, s1) => (OErr IoUnexpectedEof, r, s1)
  | (PErr, s1) => (OErr IoInner, r, s1)
  | (PFuel, s1) => (OFuel, r, s1)
  | (PDone buf, s1) =>
      let n := of_be buf in                                          (* reader.rs:78 u32::from_be_bytes(buf) as usize *)
      if r_max r <? n then (OErr IoInvalidLen, r, s1)                (* reader.rs:79-81 *)
      else
        let r1 := mkreader (zeros n) (r_max r) (N.max (r_peak r) n) in    (* reader.rs:82-83 clear(); resize(len, 0) *)
        match read_exact (src_fuel s1) s1 (zeros n) 0 with            (* reader.rs:84 *)
        | (XrDone b, s2) => (decode_outcome b, set_rbuf r1 b, s2)     (* reader.rs:85 *)
        | (XrEof b, s2) => (OErr IoUnexpectedEof, set_rbuf r1 b, s2)
        | (XrErr b, s2) => (OErr IoInner, set_rbuf r1 b, s2)
        | (XrPanic b, s2) => (OPanic, set_rbuf r1 b, s2)
        | (XrFuel b, s2) => (OFuel, set_rbuf r1 b, s2)
        end
  end.

(* A caller that keeps calling read until it gets Ok(None) or an error other than a decode error. *)
Definition terminal (o : outcome V) : bool :=
  match o with OVal _ => false | OErr IoDecode => false | _ => true end.

Fixpoint read_all (fuel : nat) (r : reader) (s : src) : list (outcome V) * reader * src :=
  match fuel with
  | O => ([OFuel], r, s)
  | S f =>
      let '(o, r1, s1) := read_with r s in
      if terminal o then ([o], r1, s1)
      else let '(os, r2, s2) := read_all f r1 s1 in (o :: os, r2, s2)
  end.

(* every non-terminal call consumes at least the 4 prefix bytes *)
Definition read_stream (r : reader) (s : src) : list (outcome V) * reader * src :=
  read_all (S (length (s_data s))) r s.

(* what the specification item means as a read result *)
Definition outcome_of_sitem (i : sitem) : outcome V :=
  match i with
  | SFrame p => decode_outcome p
  | SEnd => OEnd
  | SEof => OErr IoUnexpectedEof
  | SInvalidLen => OErr IoInvalidLen
  end.

End Codec.

(* ------------------------------------------------------------------------------------------ *)
(* Writer *)
Inductive enc_res := EncOk (payload : bytes) | EncFail (partial : bytes).

(* Vec::resize(4, 0u8): truncate to 4 or pad with zeros *)
Definition resize4 (b : bytes) : bytes := firstn 4 b ++ repeat 0 (4 - length b)%nat.

(* writer.rs:61 / async_writer.rs:87  `((self.buffer.len() - 4) as u32)`: the subtraction is on the usize length
   (None = underflow panic; unreachable, the buffer holds at least the 4 placeholder bytes), then the `as u32`
   truncation.  (Before the repair "fix: frame length prefix cannot underflow" this read `len as u32 - 4`, which
   panicked in overflow-checked builds for payloads of 2^32-4 .. 2^32-1 bytes: finding F13.) *)
Definition prefix_of (blen : N) : option N :=
  if blen <? 4 then None else Some ((blen - 4) mod 4294967296).

Inductive build_res := BOk (buf : bytes) | BErr (e : io_err) (buf : bytes) | BPanic (buf : bytes).

(* writer.rs:56-62 and, textually identical, async_writer.rs:82-88:
   resize(4,0); encode_with(val, &mut self.buffer)?; if len - 4 > max_len { InvalidLen };
   prefix = ((len - 4) as u32).to_be_bytes(); buffer[..4].copy_from_slice(&prefix) *)
Definition build_frame (buf0 : bytes) (max : N) (e : enc_res) : build_res :=
  let b0 := resize4 buf0 in
  match e with
  | EncFail part => BErr IoEncode (b0 ++ part)
  | EncOk p =>
      let b := b0 ++ p in
      if len b <? 4 then BPanic b                          (* usize `len - 4` underflow *)
      else if max <? len b - 4 then BErr IoInvalidLen b
      else match prefix_of (len b) with
           | None => BPanic b
           | Some n => BOk (be 4 n ++ skipn 4 b)
           end
  end.


Record writer := mkwriter { w_buf : bytes; w_max : N }.
Inductive wres := WOk (n : N) | WErr (e : io_err) | WPanic | WFuel.

(* writer.rs:55-65 Writer::write_with.  sink_ok = whether the inner writer's write_all succeeds;
   the third component is what that single write_all call hands to the inner writer. *)
Definition write_with (w : writer) (e : enc_res) (sink_ok : bool) : wres * writer * list bytes :=
  match build_frame (w_buf w) (w_max w) e with
  | BErr er b => (WErr er, mkwriter b (w_max w), [])
  | BPanic b => (WPanic, mkwriter b (w_max w), [])
  | BOk b =>
      if sink_ok then (WOk (len b - 4), mkwriter b (w_max w), [b])       (* writer.rs:63-64 *)
      else (WErr IoInner, mkwriter b (w_max w), [])
  end.

Fixpoint write_seq (w : writer) (es : list (enc_res * bool)) : list wres * writer * list bytes :=
  match es with
  | [] => ([], w, [])
  | (e, ok) :: t =>
      let '(r, w1, c1) := write_with w e ok in
      let '(rs, w2, c2) := write_seq w1 t in
      (r :: rs, w2, c1 ++ c2)
  end.

(* ------------------------------------------------------------------------------------------ *)
(* Instances run by the correspondence driver: values are their payloads, decoding succeeds exactly
   on the payloads listed in `ok`. *)
Definition dec_tab (ok : list bytes) (p : bytes) : option bytes :=
  if existsb (beq_bytes p) ok then Some p else None.

Definition fio_read_run (max : N) (ok : list bytes) (data : bytes) (sched : list rtok)
  : list (outcome bytes) * reader * src :=
  read_stream bytes (dec_tab ok) (mkreader [] max 0) (mksrc data sched 0).

Definition fio_write_run (max : N) (es : list (enc_res * bool)) : list wres * writer * list bytes :=
  write_seq (mkwriter [] max) es.
