(* Model/Encoder.v — transliteration of minicbor/src/encode/encoder.rs, method by method, arm by arm.
   Output is a list of chunks, one per Encoder::put (= one Write::write_all call).
   Arguments are N (unsigned) / Z (signed) in the range of the Rust type; `as` casts are written out. *)
From MC Require Export Bytes.
Local Open Scope N_scope.

Definition chunk := bytes.
Definition flat (cs : list chunk) : bytes := concat cs.

Definition SIGNED : N := 32.   Definition BYTES : N := 64.   Definition TEXT : N := 96.
Definition ARRAY : N := 128.   Definition MAP : N := 160.    Definition TAGGED : N := 192.
Definition SIMPLE : N := 224.  Definition BREAK : N := 255.

(* x as u8 / u16 / u32 *)
Definition as_u8 (x : N) : N := x mod 256.
Definition as_u16 (x : N) : N := x mod 65536.
Definition as_u32 (x : N) : N := x mod 4294967296.

(* encoder.rs:43 *)
Definition enc_u8 (x : N) : list chunk :=
  if x <=? 23 then [[x]] else [[24; x]].

(* encoder.rs:63 *)
Definition enc_u16 (x : N) : list chunk :=
  if x <=? 23 then [[as_u8 x]]
  else if x <=? 255 then [[24; as_u8 x]]
  else [[25]; be 2 x].

(* encoder.rs:84 *)
Definition enc_u32 (x : N) : list chunk :=
  if x <=? 23 then [[as_u8 x]]
  else if x <=? 255 then [[24; as_u8 x]]
  else if x <=? 65535 then [[25]; be 2 (as_u16 x)]
  else [[26]; be 4 x].

(* encoder.rs:107 *)
Definition enc_u64 (x : N) : list chunk :=
  if x <=? 23 then [[as_u8 x]]
  else if x <=? 255 then [[24; as_u8 x]]
  else if x <=? 65535 then [[25]; be 2 (as_u16 x)]
  else if x <=? 4294967295 then [[26]; be 4 (as_u32 x)]
  else [[27]; be 8 x].

(* (-1 - x) as uN for x < 0, computed in Z *)
Definition neg_arg (x : Z) : N := Z.to_N (-1 - x)%Z.

(* encoder.rs:52 *)
Definition enc_i8 (x : Z) : list chunk :=
  if (0 <=? x)%Z then enc_u8 (Z.to_N x)
  else let n := neg_arg x in
       if n <=? 23 then [[SIGNED + n]] else [[SIGNED + 24; n]].

(* encoder.rs:72 *)
Definition enc_i16 (x : Z) : list chunk :=
  if (0 <=? x)%Z then enc_u16 (Z.to_N x)
  else let n := neg_arg x in
       if n <=? 23 then [[SIGNED + as_u8 n]]
       else if n <=? 255 then [[SIGNED + 24; as_u8 n]]
       else [[SIGNED + 25]; be 2 n].

(* encoder.rs:94 *)
Definition enc_i32 (x : Z) : list chunk :=
  if (0 <=? x)%Z then enc_u32 (Z.to_N x)
  else let n := neg_arg x in
       if n <=? 23 then [[SIGNED + as_u8 n]]
       else if n <=? 255 then [[SIGNED + 24; as_u8 n]]
       else if n <=? 65535 then [[SIGNED + 25]; be 2 (as_u16 n)]
       else [[SIGNED + 26]; be 4 n].

(* the shared shape of i64 (encoder.rs:118) and int (encoder.rs:134) negative arms *)
Definition enc_neg64 (n : N) : list chunk :=
  if n <=? 23 then [[SIGNED + as_u8 n]]
  else if n <=? 255 then [[SIGNED + 24; as_u8 n]]
  else if n <=? 65535 then [[SIGNED + 25]; be 2 (as_u16 n)]
  else if n <=? 4294967295 then [[SIGNED + 26]; be 4 (as_u32 n)]
  else [[SIGNED + 27]; be 8 n].

(* encoder.rs:118 *)
Definition enc_i64 (x : Z) : list chunk :=
  if (0 <=? x)%Z then enc_u64 (Z.to_N x) else enc_neg64 (neg_arg x).

(* data::Int { neg, val }: denotes val if not neg, -1-val if neg.  encoder.rs:134 *)
Definition enc_int (neg : bool) (val : N) : list chunk :=
  if negb neg then enc_u64 val else enc_neg64 val.

(* encoder.rs:148,153 *)
Definition enc_null : list chunk := [[SIMPLE + 22]].
Definition enc_undefined : list chunk := [[SIMPLE + 23]].

(* encoder.rs:158 — one byte for 0..=23, the two bytes f8 x for every other value.  That includes
   24..=31, for which RFC 8949 3.3 forbids this form (open finding F2b; the crate's test rfc_tv_small
   pins the RFC 7049 vector simple(24) = f8 18). *)
Definition enc_simple (x : N) : list chunk :=
  if x <=? 23 then [[SIMPLE + x]] else [[SIMPLE + 24; x]].

(* encoder.rs:190,195 (bits of the float, big endian) *)
Definition enc_f32 (bits : N) : list chunk := [[SIMPLE + 26]; be 4 bits].
Definition enc_f64 (bits : N) : list chunk := [[SIMPLE + 27]; be 8 bits].
(* encoder.rs:184 with the conversion result given *)
Definition enc_f16_bits (bits : N) : list chunk := [[SIMPLE + 25]; be 2 bits].

(* encoder.rs:200 *)
Definition enc_bool (x : bool) : list chunk := [[SIMPLE + (if x then 21 else 20)]].

(* encoder.rs:205 — u32::from(char) *)
Definition enc_char (x : N) : list chunk := enc_u32 x.

(* encoder.rs:291 *)
Definition type_len (t : N) (x : N) : list chunk :=
  if x <=? 23 then [[t + as_u8 x]]
  else if x <=? 255 then [[t + 24; as_u8 x]]
  else if x <=? 65535 then [[t + 25]; be 2 (as_u16 x)]
  else if x <=? 4294967295 then [[t + 26]; be 4 (as_u32 x)]
  else [[t + 27]; be 8 x].

Definition enc_tag (x : N) : list chunk := type_len TAGGED x.                    (* encoder.rs:210 *)
Definition enc_bytes (b : bytes) : list chunk := type_len BYTES (len b) ++ [b]. (* encoder.rs:215 *)
Definition enc_str (b : bytes) : list chunk := type_len TEXT (len b) ++ [b].    (* encoder.rs:220 *)
Definition enc_array (n : N) : list chunk := type_len ARRAY n.                  (* encoder.rs:225 *)
Definition enc_map (n : N) : list chunk := type_len MAP n.                      (* encoder.rs:230 *)
Definition enc_begin_array : list chunk := [[159]].
Definition enc_begin_bytes : list chunk := [[95]].
Definition enc_begin_map : list chunk := [[191]].
Definition enc_begin_str : list chunk := [[127]].
Definition enc_end : list chunk := [[255]].
