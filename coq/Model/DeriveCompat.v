(* Model/DeriveCompat.v — the documented-compatible edits (minicbor-derive/src/lib.rs:8-45) of one struct /
   variant body as a relation between the writer's and the reader's field lists, and the reader's view
   (migrate) of a writer value.  Definitions only; the theorems are in Props/C10.v. *)
From MC Require Export DeriveDec DeriveDoc.
From Coq Require Export Permutation.
Local Open Scope N_scope.

(* a field without its n/b choice *)
Definition eraseb (f : field) : field := mkfield (f_idx f) false (f_tag f) (f_codec f) (f_synopt f) (f_skip f) (f_ty f).

(* Fields with the same index are the same field; a field only the reader knows is optional (guarantee 3: its
   nil() exists — also when it carries a tag and meets the null of an index gap, since the F10 repair).
   Fields only the writer knows are unconstrained (guarantee 2). *)
Definition body_compat (fsW fsR : list field) : Prop :=
  (forall fW fR, In fW fsW -> In fR fsR -> f_skip fW = false -> f_skip fR = false -> f_idx fW = f_idx fR -> eraseb fW = eraseb fR) /\
  (forall fR, In fR fsR -> f_skip fR = false ->
     (forall fW, In fW fsW -> f_skip fW = false -> f_idx fW <> f_idx fR) -> nil_of fR <> None).

Section Migrate.
Variable recV : nat -> value -> value.       (* what the nested definitions decode to (default_skipped of the same schema) *)

(* the value a field decodes to for the encoding of v (skipped fields of nested definitions defaulted) *)
Definition field_value (f : field) (v : value) : value :=
  match f_codec f with CoDefault => dflt_fty recV (f_ty f) v | _ => v end.

Definition nil_or_unit (f : field) : value := match nil_of f with Some nv => nv | None => VUnit end.

(* the reader's value of field f: the writer's value at the same index, else the field's nil value *)
Definition migrate_field (fsW : list field) (vsW : list value) (f : field) : value :=
  match at_index (decl fsW vsW) (f_idx f) with
  | Some (_, v) => field_value f v
  | None => nil_or_unit f
  end.

Definition migrate_fields (fsW : list field) (vsW : list value) (fsR : list field) : list value :=
  map (fun f => if f_skip f then match default_fty (f_ty f) with Some dv => dv | None => VUnit end
                else migrate_field fsW vsW f) fsR.
End Migrate.

(* ---- C08 invariance: a schema and a reordering of it (declaration order of fields and variants, n/b, named/tuple
   shape changed in any of its definitions simultaneously), with the values reordered accordingly ---- *)
Section Reorder.
Variable R : nat -> value -> value -> Prop.          (* the values of the nested definitions correspond *)

Fixpoint fty_rel (f : fty) (v v' : value) {struct f} : Prop :=
  match f with
  | FTy _ => v = v'
  | FRef d => R d v v'
  | FOpt g => match v, v' with VNone, VNone => True | VSome a, VSome b => fty_rel g a b | _, _ => False end
  | FSeq g => match v, v' with VList l, VList l' => Forall2 (fty_rel g) l l' | _, _ => False end
  end.

(* the same field (n/b aside) with corresponding values *)
Definition pair_rel (x x' : field * value) : Prop :=
  eraseb (fst x) = eraseb (fst x') /\
  match f_codec (fst x) with
  | CoDefault => fty_rel (f_ty (fst x)) (snd x) (snd x')
  | CoBytes => snd x = snd x' /\ exists t, f_ty (fst x) = FTy t        (* a byte-string leaf, as field_ok demands *)
  | CoCustom _ => snd x = snd x'
  end.

(* the declared, non-skipped (field, value) pairs of the one are a permutation of those of the other *)
Definition fields_reordered (fs fs' : list field) (vs vs' : list value) : Prop :=
  length vs = length fs /\ length vs' = length fs' /\
  exists P, Permutation (decl fs vs) P /\ Forall2 pair_rel P (decl fs' vs').

Inductive def_reordered : def -> def -> value -> value -> Prop :=
| ReStruct e tag sh sh' fs fs' vs vs' :
    is_unit sh = is_unit sh' -> fields_reordered fs fs' vs vs' ->
    def_reordered (DStruct e tag false sh fs) (DStruct e tag false sh' fs') (VList vs) (VList vs')
| ReTransparent e sh sh' f f' v v' :
    pair_rel (f, v) (f', v') ->
    def_reordered (DStruct e None true sh [f]) (DStruct e None true sh' [f']) (VList [v]) (VList [v'])
| ReEnum e tag io vars vars' i vs vs' :
    (forall j, match find_variant vars j, find_variant vars' j with
               | Some va, Some va' => v_enc va = v_enc va' /\ v_tag va = v_tag va' /\ is_unit (v_shape va) = is_unit (v_shape va')
                                     /\ (j = i -> fields_reordered (v_fields va) (v_fields va') vs vs')
               | None, None => True
               | _, _ => False
               end) ->
    def_reordered (DEnum e tag io vars) (DEnum e tag io vars') (VVar i (VList vs)) (VVar i (VList vs')).
End Reorder.

(* v' is the value v of definition d of Sc, seen through the reordered schema Sc' *)
Fixpoint reordered_f (k : nat) (Sc Sc' : schema) (d : nat) (v v' : value) : Prop :=
  match k with
  | O => False
  | S k' =>
      match nth_error Sc d, nth_error Sc' d with
      | Some df, Some df' => def_reordered (fun d' a b => Nat.ltb d' d = true /\ reordered_f k' Sc Sc' d' a b) df df' v v'
      | _, _ => False
      end
  end.
Definition reordered (Sc Sc' : schema) (d : nat) (v v' : value) : Prop := reordered_f (S d) Sc Sc' d v v'.
