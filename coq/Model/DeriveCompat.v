(* Model/DeriveCompat.v — the documented-compatible edits (minicbor-derive/src/lib.rs:8-45) of one struct /
   variant body as a relation between the writer's and the reader's field lists, and the reader's view
   (migrate) of a writer value.  Definitions only; the theorems are in Props/C10.v. *)
From MC Require Export DeriveDec DeriveDoc.
Local Open Scope N_scope.

(* a field without its n/b choice *)
Definition eraseb (f : field) : field := mkfield (f_idx f) false (f_tag f) (f_codec f) (f_synopt f) (f_skip f) (f_ty f).

(* Fields with the same index are the same field; a field only the reader knows is optional (guarantee 3) and,
   under array encoding, carries no tag (F10: a tagged field cannot read the null the writer puts into a gap).
   Fields only the writer knows are unconstrained (guarantee 2). *)
Definition body_compat (e : encoding) (fsW fsR : list field) : Prop :=
  (forall fW fR, In fW fsW -> In fR fsR -> f_skip fW = false -> f_skip fR = false -> f_idx fW = f_idx fR -> eraseb fW = eraseb fR) /\
  (forall fR, In fR fsR -> f_skip fR = false ->
     (forall fW, In fW fsW -> f_skip fW = false -> f_idx fW <> f_idx fR) ->
     nil_of fR <> None /\ (e = AsArray -> f_tag fR = None)).

Section Migrate.
Variable recV : nat -> value -> value.       (* what the nested definitions decode to (default_skipped of the same schema) *)

(* the value a field decodes to for the encoding of v (skipped fields of nested definitions defaulted) *)
Definition field_value (f : field) (v : value) : value :=
  match f_codec f with CoDefault => dflt_fty recV (f_ty f) v | _ => v end.

Definition nil_or_unit (f : field) : value := match nil_of f with Some nv => nv | None => VUnit end.

(* the reader's value of field f: the writer's value at the same index, else the field's nil value *)
Definition migrate_field (fsW : list field) (vsW : list value) (f : field) : value :=
  match at_index (decl fsW vsW) (f_idx f) with
  | Some (_, v) => field_value f v
  | None => nil_or_unit f
  end.

Definition migrate_fields (fsW : list field) (vsW : list value) (fsR : list field) : list value :=
  map (fun f => if f_skip f then match default_fty (f_ty f) with Some dv => dv | None => VUnit end
                else migrate_field fsW vsW f) fsR.
End Migrate.
