(* Model/DeriveLen.v — what `#[derive(CborLen)]` generates (minicbor-derive/src/cbor_len.rs), executed on a value.
   usize arithmetic is N (an overflow needs a value larger than the address space). *)
From MC Require Export DeriveEnc.
Local Open Scope N_scope.

(* the generated codec module `nz`: cbor_len: if x == 0 { 1 } else { v.cbor_len() } *)
Definition cust_len (v : value) : N := match v with VNat n => if n =? 0 then 1 else len_u64 n | _ => 0 end.

Definition len_tag_opt (t : option N) : N :=              (* cbor_len.rs:316 on_tag: Tag::new(t).cbor_len() / 0 *)
  match t with Some n => len_u64 n | None => 0 end.

Section Len.
Variable rec : nat -> value -> N.

Fixpoint len_fty (f : fty) (v : value) {struct f} : N :=
  match f, v with
  | FTy t, _ => len_ty t v
  | FRef d, _ => rec d v
  | FOpt _, VNone => 1                                   (* minicbor encode.rs:131 *)
  | FOpt f', VSome v' => len_fty f' v'
  | FSeq f', VList l => len_u64 (len l) + sum_map (len_fty f') l
  | _, _ => 0
  end.

(* cbor_len.rs:267: codec module's cbor_len, else the CborLen impl *)
Definition len_field_fn (f : field) (v : value) : N :=
  match f_codec f with
  | CoDefault => len_fty (f_ty f) v
  | CoBytes => len_fty (f_ty f) v       (* minicbor::bytes::cbor_len: CborLenBytes (bytes.rs:325-455) *)
  | CoCustom _ => cust_len v
  end.

(* cbor_len.rs:171-227: the header from the number of entries the encoder writes
   (`(0usize + usize::from(!is_nil(f0)) + …).cbor_len()`), then one summand per field *)
Fixpoint present (l : list pfield) (vs : list value) : N :=
  match l with
  | [] => 0
  | pf :: r => (if fld_is_nil (pf_fld pf) (pf_val vs pf) then 0 else 1) + present r vs
  end.
Fixpoint len_map_steps (l : list pfield) (vs : list value) : N :=
  match l with
  | [] => 0
  | pf :: r =>
      (if fld_is_nil (pf_fld pf) (pf_val vs pf) then 0
       else len_u32 (pf_idx pf) + len_tag_opt (f_tag (pf_fld pf)) + len_field_fn (pf_fld pf) (pf_val vs pf))
      + len_map_steps r vs
  end.
Definition len_as_map (l : list pfield) (vs : list value) : N := len_u64 (present l vs) + len_map_steps l vs.

(* cbor_len.rs:228-281: the running counters __num777 / __len777 and __pend777, the tags of the nil fields
   since the last non-nil one (a nil field below the highest present index is written as `tag null`) *)
Fixpoint len_array_steps (l : list pfield) (vs : list value) (num ln pend : N) : N * N :=
  match l with
  | [] => (num, ln)
  | pf :: r =>
      if fld_is_nil (pf_fld pf) (pf_val vs pf) then len_array_steps r vs num ln (pend + len_tag_opt (f_tag (pf_fld pf)))
      else len_array_steps r vs (pf_idx pf + 1)
             (ln + ((pf_idx pf - num) + pend + len_tag_opt (f_tag (pf_fld pf)) + len_field_fn (pf_fld pf) (pf_val vs pf))) 0
  end.
Definition len_as_array (l : list pfield) (vs : list value) : N :=
  let r := len_array_steps l vs 0 0 0 in len_u64 (fst r) + snd r.

Definition len_fields (e : encoding) (fs : list field) (vs : list value) : N :=
  match e with
  | AsArray => len_as_array (sorted_fields fs) vs
  | AsMap => len_as_map (sorted_fields fs) vs
  end.

(* on_struct (cbor_len.rs:21), make_transparent_impl (:280), on_enum (:69) *)
Definition len_def (df : def) (v : value) : N :=
  match df, v with
  | DStruct e tag transparent sh fs, VList vs =>
      if transparent then
        match sorted_fields fs with
        | [pf] => len_field_fn (pf_fld pf) (pf_val vs pf)
        | _ => 0
        end
      else len_tag_opt tag + len_fields (struct_encoding e) fs vs
  | DEnum e tag index_only vars, VVar i (VList vs) =>
      match find_variant vars i with
      | None => 0
      | Some va =>
          len_tag_opt tag +
          (if is_unit (v_shape va) then
             if index_only then len_u32 i                                  (* cbor_len.rs:91 *)
             else 1 + len_u32 i + len_tag_opt (v_tag va) + 1               (* cbor_len.rs:96 *)
           else match variant_encoding e va with
                | AsMap => 1 + len_u32 i + len_tag_opt (v_tag va) + len_fields AsMap (v_fields va) vs     (* :107,:122 *)
                | AsArray => len_fields AsArray (v_fields va) vs + len_tag_opt (v_tag va) + 1 + len_u32 i (* :110,:125 *)
                end)
      end
  | _, _ => 0
  end.
End Len.

Fixpoint gen_len_f (k : nat) (Sc : schema) (d : nat) (v : value) : N :=
  match k with
  | O => 0
  | S k' =>
      match nth_error Sc d with
      | Some df => len_def (fun d' v' => if Nat.ltb d' d then gen_len_f k' Sc d' v' else 0) df v
      | None => 0
      end
  end.

Definition gen_len (Sc : schema) (d : nat) (v : value) : N := gen_len_f (S d) Sc d v.
