(* Model/Methods.v — the Encoder methods that write one complete item, as one universe, with the
   argument range of the Rust parameter type and the data-model item the call denotes. *)
From MC Require Export Encoder Cbor Utf8.
Local Open Scope N_scope.

Inductive meth :=
| MU8 (x : N) | MU16 (x : N) | MU32 (x : N) | MU64 (x : N)
| MI8 (x : Z) | MI16 (x : Z) | MI32 (x : Z) | MI64 (x : Z)
| MInt (neg : bool) (v : N)
| MSimple (x : N) | MBool (b : bool) | MNull | MUndefined | MChar (x : N)
| MF16bits (b : N) | MF32 (b : N) | MF64 (b : N) | MBytes (b : bytes) | MStr (b : bytes).

Definition zrange (lo hi x : Z) : bool := ((lo <=? x) && (x <=? hi))%Z.

(* the values the Rust parameter type allows *)
Definition arg_ok (m : meth) : bool :=
  match m with
  | MU8 x => x <? 256 | MU16 x => x <? 65536 | MU32 x => x <? 4294967296
  | MU64 x => x <? 18446744073709551616
  | MI8 x => zrange (-128) 127 x | MI16 x => zrange (-32768) 32767 x
  | MI32 x => zrange (-2147483648) 2147483647 x
  | MI64 x => zrange (-9223372036854775808) 9223372036854775807 x
  | MInt _ v => v <? 18446744073709551616
  | MSimple x => x <? 256
  | MBool _ | MNull | MUndefined => true
  | MChar x => is_scalar x
  | MF16bits b => b <? 65536 | MF32 b => b <? 4294967296 | MF64 b => b <? 18446744073709551616
  | MBytes b => bytes_ok b && (len b <? 18446744073709551616)
  | MStr b => bytes_ok b && utf8_valid b && (len b <? 18446744073709551616)
  end.

Definition run_meth (m : meth) : option (list chunk) :=
  match m with
  | MU8 x => Some (enc_u8 x) | MU16 x => Some (enc_u16 x) | MU32 x => Some (enc_u32 x) | MU64 x => Some (enc_u64 x)
  | MI8 x => Some (enc_i8 x) | MI16 x => Some (enc_i16 x) | MI32 x => Some (enc_i32 x) | MI64 x => Some (enc_i64 x)
  | MInt neg v => Some (enc_int neg v)
  | MSimple x => Some (enc_simple x)
  | MBool b => Some (enc_bool b) | MNull => Some enc_null | MUndefined => Some enc_undefined
  | MChar x => Some (enc_char x)
  | MF16bits b => Some (enc_f16_bits b) | MF32 b => Some (enc_f32 b) | MF64 b => Some (enc_f64 b)
  | MBytes b => Some (enc_bytes b) | MStr b => Some (enc_str b)
  end.

Definition z_item (x : Z) : item := if (0 <=? x)%Z then IUInt (Z.to_N x) else INInt (Z.to_N (-1 - x)).

(* the data-model value the call is given *)
Definition item_of (m : meth) : item :=
  match m with
  | MU8 x | MU16 x | MU32 x | MU64 x | MChar x => IUInt x
  | MI8 x | MI16 x | MI32 x | MI64 x => z_item x
  | MInt neg v => if neg then INInt v else IUInt v
  | MSimple x => ISimple x
  | MBool b => ISimple (if b then 21 else 20)
  | MNull => ISimple 22 | MUndefined => ISimple 23
  | MF16bits b => IF16 b | MF32 b => IF32 b | MF64 b => IF64 b
  | MBytes b => IBytes b | MStr b => IText b
  end.

(* simple values 24..=31 have no well-formed encoding (RFC 8949 3.3: the two-byte forms f8 00..f8 1f
   are not well-formed); Encoder::simple does not refuse them but writes f8 x (open finding F2b), so the
   statements about well-formed / preferred output are made for the complement of this class *)
Definition simple_reserved (m : meth) : bool :=
  match m with MSimple x => (24 <=? x) && (x <? 32) | _ => false end.

(* header-only methods: tag, array, map *)
Inductive hmeth := HTag (x : N) | HArray (x : N) | HMap (x : N).
Definition run_hmeth (h : hmeth) : list chunk :=
  match h with HTag x => enc_tag x | HArray x => enc_array x | HMap x => enc_map x end.
Definition hmeth_head (h : hmeth) : bytes :=
  match h with HTag x => phead 6 x | HArray x => phead 4 x | HMap x => phead 5 x end.
Definition hmeth_ok (h : hmeth) : bool :=
  match h with HTag x | HArray x | HMap x => x <? 18446744073709551616 end.
