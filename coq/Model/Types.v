(* Model/Types.v — the built-in Encode / Decode / CborLen impls (minicbor/src/encode.rs, decode.rs,
   bytes.rs) as interpreters over a universe of type descriptors.  Each branch transliterates one impl
   (or one macro: encode_sequential!, decode_sequential!, encode_tuples!, decode_tuples!, decode_fields!).
   Transparent wrappers (Box, Cell, RefCell, Wrapping, Cow, atomics, references) are erased: their impls
   forward to the inner value.  Unordered collections are sequences in iteration order. *)
From MC Require Export Decoder Encoder.
Local Open Scope N_scope.

Inductive iw := B8 | B16 | B32 | B64.
Definition umax (w : iw) : N :=
  match w with B8 => 255 | B16 => 65535 | B32 => 4294967295 | B64 => 18446744073709551615 end.
Definition imax (w : iw) : N :=
  match w with B8 => 127 | B16 => 32767 | B32 => 2147483647 | B64 => 9223372036854775807 end.

Inductive ty :=
| TyU (w : iw) | TyI (w : iw)                 (* u8..u64 / usize, i8..i64 / isize *)
| TyInt | TyBool | TyChar | TyF32 | TyF64
| TyNZU (w : iw) | TyNZI (w : iw)             (* core::num::NonZero* *)
| TyStr                                       (* str, String, Box<str>, Cow<str>, Path, PathBuf *)
| TyBytes                                     (* ByteSlice, ByteVec *)
| TyByteArr (n : N)                           (* ByteArray<N>, Ipv4Addr (4), Ipv6Addr (16) *)
| TyCStr                                      (* CStr, CString: value = the bytes without the nul *)
| TyUnit                                      (* (), PhantomData *)
| TyOpt (t : ty)
| TySeq (t : ty)                              (* [T], Vec, VecDeque, LinkedList, BinaryHeap, BTreeSet, HashSet *)
| TyArr (n : N) (t : ty)                      (* [T; N] *)
| TyMap (k v : ty)                            (* BTreeMap, HashMap: keys and values alternating *)
| TyTuple (ts : list ty)                      (* (A,), (A,B), … up to 16 *)
| TyFields (ts : list ty)                     (* decode_fields!: ranges, SocketAddrV4/V6 *)
| TyEnum (vs : list ty)                       (* [index, payload]: Result, IpAddr, SocketAddr *)
| TyBound (t : ty)                            (* core::ops::Bound *)
| TyTag | TyTagged (n : N) (t : ty)
| TyDuration | TySystemTime.

Inductive value :=
| VNat (n : N) | VInt (z : Z) | VBool (b : bool) | VFloat (bits : N) | VBlob (b : bytes) | VUnit
| VNone | VSome (v : value)
| VList (l : list value)                        (* sequences, arrays, tuples, field structs; maps alternate key, value *)
| VVar (idx : N) (v : value).                   (* enum variant *)

(* ------------------------------------------------------------------ encode *)
Definition enc_uw (w : iw) (n : N) : list chunk :=
  match w with B8 => enc_u8 n | B16 => enc_u16 n | B32 => enc_u32 n | B64 => enc_u64 n end.
Definition enc_iw (w : iw) (z : Z) : list chunk :=
  match w with B8 => enc_i8 z | B16 => enc_i16 z | B32 => enc_i32 z | B64 => enc_i64 z end.

Definition zin (w : iw) (z : Z) : bool := ((-1 - Z.of_N (imax w) <=? z) && (z <=? Z.of_N (imax w)))%Z.

Definition ocat (a b : option (list chunk)) : option (list chunk) :=
  match a, b with Some x, Some y => Some (x ++ y) | _, _ => None end.

(* element-wise: encoders and values must have the same length *)
Fixpoint enc_zip (fs : list (value -> option (list chunk))) (vs : list value) : option (list chunk) :=
  match fs, vs with
  | [], [] => Some []
  | f :: fs', v :: vs' => ocat (f v) (enc_zip fs' vs')
  | _, _ => None
  end.

Fixpoint enc_all (f : value -> option (list chunk)) (vs : list value) : option (list chunk) :=
  match vs with [] => Some [] | v :: vs' => ocat (f v) (enc_all f vs') end.

Fixpoint enc_alt (fk fv : value -> option (list chunk)) (vs : list value) : option (list chunk) :=
  match vs with
  | [] => Some []
  | k :: v :: vs' => ocat (fk k) (ocat (fv v) (enc_alt fk fv vs'))
  | _ => None
  end.

Definition nanos_max : N := 999999999.

Fixpoint no_nul (b : bytes) : bool := match b with [] => true | x :: r => negb (x =? 0) && no_nul r end.

Fixpoint encode_ty (t : ty) (v : value) {struct t} : option (list chunk) :=
  match t, v with
  | TyU w, VNat n => if n <=? umax w then Some (enc_uw w n) else None
  | TyI w, VInt z => if zin w z then Some (enc_iw w z) else None
  | TyInt, VInt z =>                                                     (* encode.rs:392 *)
      if ((-18446744073709551616 <=? z) && (z <=? 18446744073709551615))%Z
      then Some (if (z <? 0)%Z then enc_int true (Z.to_N (-1 - z)) else enc_int false (Z.to_N z)) else None
  | TyBool, VBool b => Some (enc_bool b)
  | TyChar, VNat c => if is_scalar c then Some (enc_char c) else None
  | TyF32, VFloat b => if b <? 4294967296 then Some (enc_f32 b) else None
  | TyF64, VFloat b => if b <? 18446744073709551616 then Some (enc_f64 b) else None
  | TyNZU w, VNat n => if (n <=? umax w) && negb (n =? 0) then Some (enc_uw w n) else None   (* encode.rs:546 *)
  | TyNZI w, VInt z => if zin w z && negb (z =? 0)%Z then Some (enc_iw w z) else None
  | TyStr, VBlob b => if bytes_ok b && utf8_valid b then Some (enc_str b) else None       (* encode.rs:95 *)
  | TyBytes, VBlob b => if bytes_ok b then Some (enc_bytes b) else None                    (* bytes.rs:83 *)
  | TyByteArr n, VBlob b => if bytes_ok b && (len b =? n) then Some (enc_bytes b) else None (* bytes.rs:202 *)
  | TyCStr, VBlob b => if bytes_ok b && no_nul b then Some (enc_bytes (b ++ [0])) else None (* encode.rs:167 *)
  | TyUnit, VUnit => Some (enc_array 0)                                                     (* encode.rs:312 *)
  | TyOpt t', VNone => Some enc_null                                                        (* encode.rs:108 *)
  | TyOpt t', VSome v' => encode_ty t' v'
  | TySeq t', VList l => ocat (Some (enc_array (len l))) (enc_all (encode_ty t') l)         (* encode.rs:629 *)
  | TyArr n t', VList l => if len l =? n then ocat (Some (enc_array n)) (enc_all (encode_ty t') l) else None
  | TyMap tk tv, VList l =>                                                                 (* encode.rs:271 *)
      if N.even (len l) then ocat (Some (enc_map (len l / 2))) (enc_alt (encode_ty tk) (encode_ty tv) l) else None
  | TyTuple ts, VList l => ocat (Some (enc_array (len ts))) (enc_zip (map encode_ty ts) l)  (* encode.rs:679 *)
  | TyFields ts, VList l => ocat (Some (enc_array (len ts))) (enc_zip (map encode_ty ts) l) (* encode.rs:916… *)
  | TyEnum vs, VVar i v' =>                                                                 (* encode.rs:133 *)
      match nth_error (map encode_ty vs) (N.to_nat i) with
      | Some f => if i <? 4294967296 then ocat (Some (enc_array 2 ++ enc_u32 i)) (f v') else None
      | None => None
      end
  | TyBound t', VVar i v' =>                                                                (* encode.rs:988 *)
      if i <? 2 then ocat (Some (enc_array 2 ++ enc_u32 i)) (encode_ty t' v')
      else if i =? 2 then match v' with VUnit => Some (enc_array 2 ++ enc_u32 2 ++ enc_array 0) | _ => None end
      else None
  | TyTag, VNat n => if n <? 18446744073709551616 then Some (enc_tag n) else None           (* encode.rs:404 *)
  | TyTagged n t', v' => if n <? 18446744073709551616 then ocat (Some (enc_tag n)) (encode_ty t' v') else None
  | TyDuration, VList [VNat s; VNat ns] =>                                                  (* encode.rs:718 *)
      if (s <=? umax B64) && (ns <=? nanos_max) then Some (enc_array 2 ++ enc_u64 s ++ enc_u32 ns) else None
  | TySystemTime, VVar i (VList [VNat s; VNat ns]) =>                                       (* encode.rs:734 *)
      (* VVar 0 d: d after the epoch; VVar 1 d: d before the epoch — refused by the encoder *)
      if (i =? 0) && (s <=? imax B64) && (ns <=? nanos_max) then Some (enc_array 2 ++ enc_u64 s ++ enc_u32 ns) else None
  | _, _ => None
  end.

(* ------------------------------------------------------------------ decode *)
(* ArrayIter / MapIter with a definite length (decoder.rs:818-822): n more elements *)
Fixpoint dec_n (d : M value) (n : N) (fuel : nat) (acc : list value) : M (list value) :=
  if n =? 0 then ret (rev acc)
  else match fuel with
       | O => fun s => (OutOfFuel, s)
       | S fuel' => x <- d ;; dec_n d (N.pred n) fuel' (x :: acc)
       end.

(* … and with an indefinite length (decoder.rs:813-817): until the break byte *)
Fixpoint dec_until_break (d : M value) (fuel : nat) (acc : list value) : M (list value) :=
  match fuel with
  | O => fun s => (OutOfFuel, s)
  | S fuel' =>
    b <- current ;;
    if b =? 0xff then read ;;; ret (rev acc)
    else x <- d ;; dec_until_break d fuel' (x :: acc)
  end.

(* array_iter_with collected the way decode_sequential! does *)
Definition dec_seq (d : M value) (fuel : nat) : M (list value) :=
  r <- dec_array ;;
  match r with Some n => dec_n d n fuel [] | None => dec_until_break d fuel [] end.

(* [T; N] (decode.rs:471): ArrayVec push fails on element N+1, into_array fails when fewer than N *)
Fixpoint arr_n (d : M value) (cap : N) (n : N) (fuel : nat) (acc : list value) : M (list value) :=
  if n =? 0 then ret (rev acc)
  else match fuel with
       | O => fun s => (OutOfFuel, s)
       | S fuel' => x <- d ;; if len acc <? cap then arr_n d cap (N.pred n) fuel' (x :: acc) else fail Message
       end.
Fixpoint arr_until_break (d : M value) (cap : N) (fuel : nat) (acc : list value) : M (list value) :=
  match fuel with
  | O => fun s => (OutOfFuel, s)
  | S fuel' =>
    b <- current ;;
    if b =? 0xff then read ;;; ret (rev acc)
    else x <- d ;; if len acc <? cap then arr_until_break d cap fuel' (x :: acc) else fail Message
  end.
Definition dec_arr (d : M value) (cap : N) (fuel : nat) : M (list value) :=
  r <- dec_array ;;
  l <- match r with Some n => arr_n d cap n fuel [] | None => arr_until_break d cap fuel [] end ;;
  if len l =? cap then ret l else fail Message.

(* map_iter_with: pairs, flattened *)
Definition dec_pair (dk dv : M value) : M value := k <- dk ;; v <- dv ;; ret (VList [k; v]).
Definition flatten_pairs (l : list value) : list value :=
  flat_map (fun p => match p with VList kv => kv | x => [x] end) l.
Definition dec_map_seq (dk dv : M value) (fuel : nat) : M (list value) :=
  r <- dec_map ;;
  l <- match r with Some n => dec_n (dec_pair dk dv) n fuel [] | None => dec_until_break (dec_pair dk dv) fuel [] end ;;
  ret (flatten_pairs l).

(* decode_tuples! (decode.rs:495): exactly the elements in order *)
Fixpoint dec_each (ds : list (M value)) : M (list value) :=
  match ds with
  | [] => ret []
  | d :: ds' => x <- d ;; xs <- dec_each ds' ;; ret (x :: xs)
  end.

(* decode_fields! (decode.rs:531): slots, position i selects field i, anything else is skipped *)
Definition set_slot (slots : list (option value)) (i : N) (v : value) : list (option value) :=
  let k := N.to_nat i in firstn k slots ++ Some v :: skipn (S k) slots.

Definition field_step (c : cfg) (ds : list (M value)) (i : N) (slots : list (option value)) : M (list (option value)) :=
  if i <? len ds then
    match nth_error ds (N.to_nat i) with
    | Some d => x <- d ;; ret (set_slot slots i x)
    | None => ret slots
    end
  else skip_auto c ;;; ret slots.

Fixpoint fields_n (c : cfg) (ds : list (M value)) (i n : N) (fuel : nat) (slots : list (option value)) : M (list (option value)) :=
  if n =? 0 then ret slots
  else match fuel with
       | O => fun s => (OutOfFuel, s)
       | S fuel' => slots' <- field_step c ds i slots ;; fields_n c ds (i + 1) (N.pred n) fuel' slots'
       end.

Definition ctype_is_break (t : ctype) : bool := match t with TBreak => true | _ => false end.
Definition ctype_is_null (t : ctype) : bool := match t with TNull => true | _ => false end.

Fixpoint fields_until_break (c : cfg) (ds : list (M value)) (i : N) (fuel : nat) (slots : list (option value)) : M (list (option value)) :=
  match fuel with
  | O => fun s => (OutOfFuel, s)
  | S fuel' =>
    t <- datatype ;;
    if ctype_is_break t then skip_auto c ;;; ret slots
    else slots' <- field_step c ds i slots ;; fields_until_break c ds (i + 1) fuel' slots'
  end.

Fixpoint first_missing (slots : list (option value)) (i : N) : option N :=
  match slots with
  | [] => None
  | None :: _ => Some i
  | Some _ :: r => first_missing r (i + 1)
  end.

Fixpoint unslot (slots : list (option value)) : list value :=
  match slots with [] => [] | Some v :: r => v :: unslot r | None :: r => unslot r end.

Definition dec_fields (c : cfg) (ds : list (M value)) (fuel : nat) : M (list value) :=
  r <- dec_array ;;
  slots <- match r with
           | Some n => fields_n c ds 0 n fuel (map (fun _ => None) ds)
           | None => fields_until_break c ds 0 fuel (map (fun _ => None) ds)
           end ;;
  match first_missing slots 0 with
  | Some i => fail (MissingValue i)
  | None => ret (unslot slots)
  end.

(* [index, payload] enums (decode.rs:129, 619, 651) *)
Definition dec_enum (ds : list (M value)) : M value :=
  r <- dec_array ;;
  match r with
  | Some 2 => i <- dec_u32 ;;
              if i <? len ds then                       (* (the guard keeps N.to_nat small in the extracted code) *)
                match nth_error ds (N.to_nat i) with
                | Some d => x <- d ;; ret (VVar i x)
                | None => fail (UnknownVariant i)
                end
              else fail (UnknownVariant i)
  | _ => fail Message
  end.

Definition opt_eqb (a : option N) (b : N) : bool := match a with Some x => x =? b | None => false end.

(* CStr::from_bytes_with_nul *)
Definition cstr_of (b : bytes) : option bytes :=
  match rev b with
  | z :: r => if (z =? 0) && no_nul r then Some (rev r) else None
  | [] => None
  end.

(* Duration::new after the checked carry (decode.rs:565, as repaired) *)
Definition mk_duration (l : list value) : M value :=
  match l with
  | [VNat s; VNat ns] =>
      let s' := s + ns / 1000000000 in
      if s' <=? umax B64 then ret (VList [VNat s'; VNat (ns mod 1000000000)]) else fail Message
  | _ => fun st => (Panic, st)
  end.

Fixpoint decode_ty (c : cfg) (t : ty) (fuel : nat) {struct t} : M value :=
  match t with
  | TyU w => fmap VNat (dec_uint (umax w))
  | TyI w => fmap VInt (dec_sint (imax w))
  | TyInt => fmap (fun p : bool * N => VInt (if fst p then (-1 - Z.of_N (snd p))%Z else Z.of_N (snd p))) dec_int
  | TyBool => fmap VBool dec_bool
  | TyChar => fmap VNat dec_char
  | TyF32 => fmap VFloat (dec_f32 c)
  | TyF64 => fmap VFloat (dec_f64 c)
  | TyNZU w => n <- dec_uint (umax w) ;; if n =? 0 then fail Message else ret (VNat n)        (* decode.rs:324 *)
  | TyNZI w => z <- dec_sint (imax w) ;; if (z =? 0)%Z then fail Message else ret (VInt z)
  | TyStr => fmap VBlob dec_str
  | TyBytes => fmap VBlob dec_bytes
  | TyByteArr n => b <- dec_bytes ;; if len b =? n then ret (VBlob b) else fail Message         (* bytes.rs:191 *)
  | TyCStr => b <- dec_bytes ;; match cstr_of b with Some x => ret (VBlob x) | None => fail Message end
  | TyUnit => r <- dec_array ;; if opt_eqb r 0 then ret VUnit else fail Message                  (* decode.rs:239 *)
  | TyOpt t' =>                                                                                  (* decode.rs:115 *)
      dt <- datatype ;;
      if ctype_is_null dt then skip_auto c ;;; ret VNone else fmap VSome (decode_ty c t' fuel)
  | TySeq t' => fmap VList (dec_seq (decode_ty c t' fuel) fuel)                                  (* decode.rs:396 *)
  | TyArr n t' => fmap VList (dec_arr (decode_ty c t' fuel) n fuel)
  | TyMap tk tv => fmap VList (dec_map_seq (decode_ty c tk fuel) (decode_ty c tv fuel) fuel)     (* decode.rs:213 *)
  | TyTuple ts =>
      r <- dec_array ;;
      if opt_eqb r (len ts) then fmap VList (dec_each (map (fun t' => decode_ty c t' fuel) ts)) else fail Message
  | TyFields ts => fmap VList (dec_fields c (map (fun t' => decode_ty c t' fuel) ts) fuel)
  | TyEnum vs => dec_enum (map (fun t' => decode_ty c t' fuel) vs)
  | TyBound t' =>                                                                                (* decode.rs:735 *)
      r <- dec_array ;;
      if opt_eqb r 2 then
        i <- dec_u32 ;;
        if i <? 2 then x <- decode_ty c t' fuel ;; ret (VVar i x)
        else if i =? 2 then skip_auto c ;;; ret (VVar 2 VUnit)
        else fail (UnknownVariant i)
      else fail Message
  | TyTag => fmap VNat dec_tag
  | TyTagged n t' =>                                                                             (* decode.rs:295 *)
      tg <- dec_tag ;; if tg =? n then decode_ty c t' fuel else fail (TagMismatch tg)
  | TyDuration =>
      l <- dec_fields c [fmap VNat dec_u64; fmap VNat dec_u32] fuel ;; mk_duration l
  | TySystemTime =>                                                                              (* decode.rs:576 *)
      l <- dec_fields c [fmap VNat dec_u64; fmap VNat dec_u32] fuel ;; d <- mk_duration l ;;
      match d with
      | VList [VNat s; VNat ns] => if s <=? imax B64 then ret (VVar 0 d) else fail Message
      | _ => fun st => (Panic, st)
      end
  end.

Definition decode_auto (c : cfg) (t : ty) : M value := fun s => decode_ty c t (fuel_of s) s.

(* ------------------------------------------------------------------ CborLen *)
Definition len_u8 (n : N) : N := if n <=? 0x17 then 1 else 2.                       (* encode.rs:467 *)
Definition len_u16 (n : N) : N := if n <=? 0x17 then 1 else if n <=? 0xff then 2 else 3.
Definition len_u32 (n : N) : N := if n <=? 0x17 then 1 else if n <=? 0xff then 2 else if n <=? 0xffff then 3 else 5.
Definition len_u64 (n : N) : N :=
  if n <=? 0x17 then 1 else if n <=? 0xff then 2 else if n <=? 0xffff then 3 else if n <=? 0xffffffff then 5 else 9.
Definition len_uw (w : iw) (n : N) : N :=
  match w with B8 => len_u8 n | B16 => len_u16 n | B32 => len_u32 n | B64 => len_u64 n end.
(* encode.rs:506: x = if self >= 0 { self as uN } else { (-1 - self) as uN } *)
Definition len_iw (w : iw) (z : Z) : N := len_uw w (if (0 <=? z)%Z then Z.to_N z else Z.to_N (-1 - z)).

Definition sum_map (f : value -> N) (l : list value) : N := fold_right (fun v a => f v + a) 0 l.
Fixpoint sum_zip (fs : list (value -> N)) (vs : list value) : N :=
  match fs, vs with f :: fs', v :: vs' => f v + sum_zip fs' vs' | _, _ => 0 end.
Fixpoint sum_alt (fk fv : value -> N) (vs : list value) : N :=
  match vs with k :: v :: vs' => fk k + fv v + sum_alt fk fv vs' | _ => 0 end.

Fixpoint len_ty (t : ty) (v : value) {struct t} : N :=
  match t, v with
  | TyU w, VNat n | TyNZU w, VNat n => len_uw w n
  | TyI w, VInt z | TyNZI w, VInt z => len_iw w z
  | TyInt, VInt z => len_u64 (if (0 <=? z)%Z then Z.to_N z else Z.to_N (-1 - z))       (* encode.rs:398 *)
  | TyBool, _ => 1
  | TyChar, VNat c => len_u32 c
  | TyF32, _ => 5 | TyF64, _ => 9
  | TyStr, VBlob b | TyBytes, VBlob b | TyByteArr _, VBlob b => len_u64 (len b) + len b
  | TyCStr, VBlob b => len_u64 (len b + 1) + (len b + 1)
  | TyUnit, _ => 1
  | TyOpt t', VNone => 1
  | TyOpt t', VSome v' => len_ty t' v'
  | TySeq t', VList l => len_u64 (len l) + sum_map (len_ty t') l
  | TyArr n t', VList l => len_u64 n + sum_map (len_ty t') l
  | TyMap tk tv, VList l => len_u64 (len l / 2) + sum_alt (len_ty tk) (len_ty tv) l
  | TyTuple ts, VList l => len_u64 (len ts) + sum_zip (map len_ty ts) l    (* `$len.cbor_len()`: an i32 literal, < 24 *)
  | TyFields ts, VList l => len_u64 (len ts) + sum_zip (map len_ty ts) l   (* literally `1 +`: at most 2 fields *)
  | TyEnum vs, VVar i v' => 1 + (1 + match nth_error (map len_ty vs) (N.to_nat i) with Some f => f v' | None => 0 end)
  | TyBound t', VVar i v' => 1 + (if i <? 2 then 1 + len_ty t' v' else 2)
  | TyTag, VNat n => len_u64 n
  | TyTagged n t', v' => len_u64 n + len_ty t' v'
  | TyDuration, VList [VNat s; VNat ns] => 1 + len_u64 s + len_u32 ns
  | TySystemTime, VVar i (VList [VNat s; VNat ns]) => if i =? 0 then 1 + len_u64 s + len_u32 ns else 0
  | _, _ => 0
  end.

(* ------------------------------------------------------------------ encode::ArrayIter / MapIter (encode.rs:1022,1059)
   size_hint = (low, up); `exact` iff Some(low) == up; the items are whatever the iterator yields *)
Definition hint_exact (low : N) (up : option N) : bool := match up with Some u => u =? low | None => false end.

Definition enc_array_iter (low : N) (up : option N) (items : list (list chunk)) : list chunk :=
  if hint_exact low up then enc_array low ++ concat items
  else enc_begin_array ++ concat items ++ enc_end.

Definition enc_map_iter (low : N) (up : option N) (pairs : list (list chunk)) : list chunk :=
  if hint_exact low up then enc_map low ++ concat pairs
  else enc_begin_map ++ concat pairs ++ enc_end.
