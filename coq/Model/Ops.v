(* Model/Ops.v — sequences of decoder calls on one Decoder (C02): every accessor, typed decode,
   datatype, set_position / position, probe (a clone: the original position is untouched),
   Size::head / Size::tail (decode/info.rs). *)
From MC Require Export Accessors Types.
Local Open Scope N_scope.

Inductive dop :=
| OAcc (a : acc)                 (* d.<accessor>() *)
| OProbe (a : acc)               (* d.probe().<accessor>() *)
| OType (t : ty)                 (* d.decode::<T>() *)
| ODatatype
| OSetPos (p : N)                (* d.set_position(p), p < 2^64 *)
| OPosition.

Inductive oval := RV (v : aval) | RT (v : value) | RC (t : ctype) | RP (p : N) | RU.

Definition run_op (c : cfg) (inp : bytes) (o : dop) : M oval :=
  match o with
  | OAcc a => fmap RV (run_acc c a)
  | OProbe a => fun s => (fst (fmap RV (run_acc c a) s), s)
  | OType t => fmap RT (decode_auto c t)
  | ODatatype => fmap RC datatype
  | OSetPos p => fun _ => (Ok RU, at_pos inp p)
  | OPosition => fun s => (Ok (RP (dpos s)), s)
  end.

(* every call is made whatever the previous one returned, as a caller holding the Decoder can do *)
Fixpoint run_ops (c : cfg) (inp : bytes) (os : list dop) (s : dst) : list (result oval * N) :=
  match os with
  | [] => []
  | o :: os' => let r := run_op c inp o s in (fst r, dpos (snd r)) :: run_ops c inp os' (snd r)
  end.

(* ---- decode::info::Size (info.rs:40-78) ---- *)
Inductive size_t := SzHead | SzBytes (n : N) | SzItems (n : N) | SzIndef.

(* Size::head(fst): length of the head, or None = Error::message *)
Definition size_head (b : N) : option N :=
  let i := info b in
  if i <=? 0x17 then Some 1 else if i =? 0x18 then Some 2 else if i =? 0x19 then Some 3
  else if i =? 0x1a then Some 5 else if i =? 0x1b then Some 9
  else if i =? 0x1f then
    let m := major b in
    if (m =? 0x40) || (m =? 0x60) || (m =? 0x80) || (m =? 0xa0) || (m =? 0xe0) then Some 1 else None
  else None.

(* Size::tail(head): runs `unsigned` on a fresh decoder over head[1..] *)
Definition size_tail (hd : bytes) : result size_t :=
  match hd with
  | [] => Err EndOfInput
  | b :: r =>
    let m := major b in
    if (m =? 0x00) || (m =? 0x20) || (m =? 0xc0) || (m =? 0xe0) then Ok SzHead
    else if (m =? 0x40) || (m =? 0x60) then
      if info b =? 0x1f then Ok SzIndef
      else match unsigned (info b) (start r) with
           | (Ok n, _) => Ok (SzBytes n) | (Err e, _) => Err e | (Panic, _) => Panic | (OutOfFuel, _) => OutOfFuel end
    else
      if info b =? 0x1f then Ok SzIndef
      else match unsigned (info b) (start r) with
           | (Ok n, _) => Ok (SzItems n) | (Err e, _) => Err e | (Panic, _) => Panic | (OutOfFuel, _) => OutOfFuel end
  end.
