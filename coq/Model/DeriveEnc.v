(* Model/DeriveEnc.v — what `#[derive(Encode)]` generates (minicbor-derive/src/encode.rs), executed on a value.
   None = the value does not have the dshape of the definition, or a field encoder refuses it. *)
From MC Require Export DeriveSchema.
Local Open Scope N_scope.

Definition is_none (v : value) : bool := match v with VNone => true | _ => false end.

(* Encode::is_nil of the field's own type (minicbor/src/encode.rs:46 default false; :126 Option; :62,:78 references
   forward, so `&self.f` and a pattern-bound `&f` behave alike).  Derived impls do not override it. *)
Definition trait_is_nil (f : fty) (v : value) : bool :=
  match f with
  | FOpt _ | FTy (TyOpt _) => is_none v
  | _ => false
  end.

(* the generated codec module `nz` (u64, 0 is nil):
     encode: if x == 0 { e.null() } else { e.u64(x) }      is_nil: x == 0 *)
Definition cust_is_nil (v : value) : bool := match v with VNat n => n =? 0 | _ => false end.
Definition cust_encode (v : value) : option (list chunk) :=
  match v with
  | VNat n => if n <=? u64_max then Some (if n =? 0 then enc_null else enc_u64 n) else None
  | _ => None
  end.

(* encode::is_nil (encode.rs:543): which test the generated code applies to a field *)
Definition fld_is_nil (f : field) (v : value) : bool :=
  match f_codec f with
  | CoDefault => trait_is_nil (f_ty f) v                          (* minicbor::Encode::<Ctx>::is_nil *)
  | CoCustom true => cust_is_nil v                                (* to_is_nil_path *)
  | CoBytes | CoCustom false => if f_synopt f then is_none v else false   (* Option::is_none  /  (|_| false) *)
  end.

Definition ocat3 (a : list chunk) (b : option (list chunk)) : option (list chunk) := ocat (Some a) b.

Definition enc_tag_opt (t : option N) : list chunk :=            (* encode.rs:557 *)
  match t with Some n => enc_tag n | None => [] end.

Definition nulls (n : N) : list chunk := concat (repeat enc_null (N.to_nat n)).   (* for _ in 0 .. #gaps { e.null()? } *)

Section Enc.
Variable rec : nat -> value -> option (list chunk).     (* the derived Encode impl of another definition *)

Fixpoint enc_fty (f : fty) (v : value) {struct f} : option (list chunk) :=
  match f, v with
  | FTy t, _ => encode_ty t v
  | FRef d, _ => rec d v
  | FOpt _, VNone => Some enc_null                                         (* minicbor encode.rs:108 *)
  | FOpt f', VSome v' => enc_fty f' v'
  | FSeq f', VList l => ocat3 (enc_array (len l)) (enc_all (enc_fty f') l) (* minicbor encode.rs:629 *)
  | _, _ => None
  end.

(* the encode function the generated code calls for a field (encode.rs:321, 377) *)
Definition enc_field_fn (f : field) (v : value) : option (list chunk) :=
  match f_codec f with
  | CoDefault => enc_fty (f_ty f) v
  | CoBytes => enc_fty (f_ty f) v        (* minicbor::bytes::encode: EncodeBytes of Vec<u8> / [u8;N] / Option<_> (bytes.rs:310-440) *)
  | CoCustom _ => cust_encode v
  end.

Definition pf_val (vs : list value) (pf : pfield) : value := value_at vs (pf_pos pf).

(* encode.rs:231-264: the run-time `__max_index777` tests, fields in ascending index order *)
Fixpoint max_index (l : list pfield) (vs : list value) (acc : option N) : option N :=
  match l with
  | [] => acc
  | pf :: r => max_index r vs (if fld_is_nil (pf_fld pf) (pf_val vs pf) then acc else Some (pf_idx pf))
  end.

(* encode.rs:370-466: one statement per field; `first`/`k` are the expansion-time gap computation *)
Fixpoint enc_array_stmts (l : list pfield) (vs : list value) (first : bool) (k : N) (i : N) : option (list chunk) :=
  match l with
  | [] => Some []
  | pf :: r =>
      let idx := pf_idx pf in
      let gaps := if first then idx - k else idx - k - 1 in
      ocat (if idx <=? i
            then ocat3 (nulls gaps ++ enc_tag_opt (f_tag (pf_fld pf))) (enc_field_fn (pf_fld pf) (pf_val vs pf))
            else Some [])
           (enc_array_stmts r vs false idx i)
  end.

(* encode.rs:475-488 *)
Definition enc_as_array (l : list pfield) (vs : list value) : option (list chunk) :=
  match max_index l vs None with
  | Some i => ocat3 (enc_array (i + 1)) (enc_array_stmts l vs true 0 i)
  | None => Some (enc_array 0)
  end.

(* encode.rs:269-301: `__max_fields777 -= 1` for every nil field *)
Fixpoint max_fields (l : list pfield) (vs : list value) (acc : N) : N :=
  match l with
  | [] => acc
  | pf :: r => max_fields r vs (if fld_is_nil (pf_fld pf) (pf_val vs pf) then acc - 1 else acc)
  end.

(* encode.rs:316-366 *)
Fixpoint enc_map_stmts (l : list pfield) (vs : list value) : option (list chunk) :=
  match l with
  | [] => Some []
  | pf :: r =>
      ocat (if fld_is_nil (pf_fld pf) (pf_val vs pf) then Some []
            else ocat3 (enc_u32 (pf_idx pf) ++ enc_tag_opt (f_tag (pf_fld pf))) (enc_field_fn (pf_fld pf) (pf_val vs pf)))
           (enc_map_stmts r vs)
  end.

(* encode.rs:489-499 *)
Definition enc_as_map (l : list pfield) (vs : list value) : option (list chunk) :=
  ocat3 (enc_map (max_fields l vs (len l))) (enc_map_stmts l vs).

(* encode_fields (encode.rs:222) on the sorted, non-skipped fields *)
Definition enc_fields (e : encoding) (fs : list field) (vs : list value) : option (list chunk) :=
  if Nat.eqb (length vs) (length fs) then
    match e with
    | AsArray => enc_as_array (sorted_fields fs) vs
    | AsMap => enc_as_map (sorted_fields fs) vs
    end
  else None.

(* on_struct (encode.rs:26), make_transparent_impl (encode.rs:504), on_enum (encode.rs:83) *)
Definition enc_def (df : def) (v : value) : option (list chunk) :=
  match df, v with
  | DStruct e tag transparent sh fs, VList vs =>
      if transparent then
        match sorted_fields fs, vs with
        | [pf], [_] => enc_field_fn (pf_fld pf) (pf_val vs pf)        (* the field's tag is not emitted *)
        | _, _ => None
        end
      else ocat3 (enc_tag_opt tag) (enc_fields (struct_encoding e) fs vs)
  | DEnum e tag index_only vars, VVar i (VList vs) =>
      match find_variant vars i with
      | None => None
      | Some va =>
          ocat3 (enc_tag_opt tag)
            (if is_unit (v_shape va) then
               match vs with
               | [] =>
                 if index_only then Some (enc_u32 i)                                     (* encode.rs:112 *)
                 else Some (enc_array 2 ++ enc_u32 i ++ enc_tag_opt (v_tag va) ++
                            match variant_encoding e va with AsArray => enc_array 0 | AsMap => enc_map 0 end)
               | _ => None
               end
             else if index_only then None                                                (* rejected: encode.rs:137,152 *)
             else ocat3 (enc_array 2 ++ enc_u32 i ++ enc_tag_opt (v_tag va))
                        (enc_fields (variant_encoding e va) (v_fields va) vs))
      end
  | _, _ => None
  end.
End Enc.

(* definitions refer to earlier definitions only, so the definition index is the recursion measure *)
Fixpoint gen_encode_f (k : nat) (Sc : schema) (d : nat) (v : value) : option (list chunk) :=
  match k with
  | O => None
  | S k' =>
      match nth_error Sc d with
      | Some df => enc_def (fun d' v' => if Nat.ltb d' d then gen_encode_f k' Sc d' v' else None) df v
      | None => None
      end
  end.

Definition gen_encode (Sc : schema) (d : nat) (v : value) : option (list chunk) :=
  gen_encode_f (S d) Sc d v.

(* a value of definition d: the derived encoder accepts it *)
Definition typed (Sc : schema) (d : nat) (v : value) : bool :=
  match gen_encode Sc d v with Some _ => true | None => false end.
