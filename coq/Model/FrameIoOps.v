(* Model/FrameIoOps.v — the two other public operations of the blocking minicbor_io::Writer (writer.rs), as caller
   operations interleaved with write_with: flush (writer.rs:68-71) and set_max_len (writer.rs:28-30).
   Definitions only; run by the correspondence driver (IOW cases of C14); no theorem is stated about them. *)
From MC Require Export FrameIo.
Local Open Scope N_scope.

(* writer.rs:68-71  flush: `self.writer.flush()?; Ok(())` - neither the buffer nor max_len is read or written.
   sink_ok = whether the inner writer's flush succeeds. *)
Definition writer_flush (w : writer) (sink_ok : bool) : bool * writer := (sink_ok, w).

(* writer.rs:28-30  set_max_len(val: u32): self.max_len = val as usize  (64-bit usize) *)
Definition writer_set_max_len (w : writer) (v : N) : writer := mkwriter (w_buf w) v.

Inductive wop := WopVal (e : enc_res) (ok : bool) | WopFlush (ok : bool) | WopSetMax (v : N).
Inductive wopres := WrVal (r : wres) | WrFlush (ok : bool) | WrSetMax (v : N).

Fixpoint write_seq_ops (w : writer) (ops : list wop) : list wopres * writer * list bytes :=
  match ops with
  | [] => ([], w, [])
  | WopVal e ok :: t =>
      let '(r, w1, c1) := write_with w e ok in
      let '(rs, w2, c2) := write_seq_ops w1 t in
      (WrVal r :: rs, w2, c1 ++ c2)
  | WopFlush ok :: t =>
      let '(r, w1) := writer_flush w ok in
      let '(rs, w2, c2) := write_seq_ops w1 t in
      (WrFlush r :: rs, w2, c2)
  | WopSetMax v :: t =>
      let '(rs, w2, c2) := write_seq_ops (writer_set_max_len w v) t in
      (WrSetMax v :: rs, w2, c2)
  end.

Definition fio_write_run_ops (max : N) (ops : list wop) : list wopres * writer * list bytes :=
  write_seq_ops (mkwriter [] max) ops.
