(* Model/Half.v — the float conversions the decoder/encoder rely on, as functions on bit patterns.
   f16_to_f32 / f32_to_f16: transliteration of half 2.7.1 src/binary16/arch.rs (the software fallbacks,
   which is what `half` with default-features = false uses on this target; lines 556-614, 685-729).
   f32_to_f64: `f64::from(f32)` (IEEE 754 widening; NaNs quieted with the payload kept, as x86-64 cvtss2sd does). *)
From MC Require Export Bytes.
Local Open Scope N_scope.

(* u16::leading_zeros *)
Definition lz16 (x : N) : N := 16 - N.size x.

(* arch.rs:685 *)
Definition f16_to_f32 (i : N) : N :=
  if N.land i 0x7FFF =? 0 then i * 65536
  else
    let half_sign := N.land i 0x8000 in
    let half_exp := N.land i 0x7C00 in
    let half_man := N.land i 0x03FF in
    if half_exp =? 0x7C00 then
      if half_man =? 0 then N.lor (half_sign * 65536) 0x7F800000
      else N.lor (N.lor (half_sign * 65536) 0x7FC00000) (half_man * 8192)
    else
      let sign := half_sign * 65536 in
      if half_exp =? 0 then
        let e := lz16 half_man - 6 in
        let exp := (127 - 15 - e) * 2 ^ 23 in
        let man := N.land (half_man * 2 ^ (14 + e)) 0x7FFFFF in
        N.lor (N.lor sign exp) man
      else
        (* unbiased_exp + 127 = (half_exp >> 10) - 15 + 127; half_exp >> 10 >= 1 here *)
        let exp := (half_exp / 1024 + 112) * 2 ^ 23 in
        let man := N.land half_man 0x03FF * 8192 in
        N.lor (N.lor sign exp) man.

(* the rounding test of arch.rs:596 and :608 *)
Definition round_up_bits (man round_bit : N) : bool :=
  negb (N.land man round_bit =? 0) && negb (N.land man (3 * round_bit - 1) =? 0).

(* arch.rs:556 *)
Definition f32_to_f16 (x : N) : N :=
  let sign := N.land x 0x80000000 in
  let exp := N.land x 0x7F800000 in
  let man := N.land x 0x007FFFFF in
  if exp =? 0x7F800000 then
    let nan_bit := if man =? 0 then 0 else 0x0200 in
    (N.lor (N.lor (N.lor (sign / 65536) 0x7C00) nan_bit) (man / 8192)) mod 65536
  else
    let half_sign := sign / 65536 in
    let half_exp : Z := (Z.of_N (exp / 2 ^ 23) - 127 + 15)%Z in
    if (31 <=? half_exp)%Z then N.lor half_sign 0x7C00
    else if (half_exp <=? 0)%Z then
      if (24 <? 14 - half_exp)%Z then half_sign
      else
        let man := N.lor man 0x00800000 in
        let half_man := man / 2 ^ Z.to_N (14 - half_exp) in
        let round_bit := 2 ^ Z.to_N (13 - half_exp) in
        let half_man := if round_up_bits man round_bit then half_man + 1 else half_man in
        (N.lor half_sign half_man) mod 65536
    else
      let half_exp := Z.to_N half_exp * 1024 in
      let half_man := man / 8192 in
      if round_up_bits man 0x1000
      then (N.lor (N.lor half_sign half_exp) half_man + 1) mod 65536
      else (N.lor (N.lor half_sign half_exp) half_man) mod 65536.

(* f64::from(f32) *)
Definition f32_to_f64 (x : N) : N :=
  let sign := (x / 2 ^ 31) * 2 ^ 63 in
  let e := (x / 2 ^ 23) mod 256 in
  let m := x mod 2 ^ 23 in
  if e =? 255 then
    if m =? 0 then sign + 0x7FF0000000000000
    else sign + 0x7FF0000000000000 + N.lor (m * 2 ^ 29) (2 ^ 51)
  else if e =? 0 then
    if m =? 0 then sign
    else let k := N.size m in
         sign + (k + 873) * 2 ^ 52 + (m * 2 ^ (53 - k)) mod 2 ^ 52
  else sign + (e + 896) * 2 ^ 52 + m * 2 ^ 29.

Definition is_nan32 (x : N) : bool := ((x / 2 ^ 23) mod 256 =? 255) && negb (x mod 2 ^ 23 =? 0).
Definition is_nan64 (x : N) : bool := ((x / 2 ^ 52) mod 2048 =? 2047) && negb (x mod 2 ^ 52 =? 0).
Definition is_nan16 (x : N) : bool := ((x / 1024) mod 32 =? 31) && negb (x mod 1024 =? 0).
