(* Proofs/DeriveDocFacts.v — the derived encoder emits the documented wire format (C08). *)
From MC Require Import Bytes BytesFacts Cbor Encoder EncoderFacts Types DeriveSchema DeriveEnc DeriveLen DeriveDoc DeriveKnown DeriveFacts.
From Coq Require Import Lia Permutation.
Local Open Scope N_scope.

(* ---- heads ---- *)
Lemma flat_enc_array n : n < two64 -> flat (enc_array n) = Cbor.head 4 (min_width n) n.
Proof. intro H. unfold enc_array. change ARRAY with (4 * 32). now rewrite type_len_head. Qed.
Lemma flat_enc_map n : n < two64 -> flat (enc_map n) = Cbor.head 5 (min_width n) n.
Proof. intro H. unfold enc_map. change MAP with (5 * 32). now rewrite type_len_head. Qed.
Lemma flat_enc_tag n : n < two64 -> flat (enc_tag n) = Cbor.head 6 (min_width n) n.
Proof. intro H. unfold enc_tag. change TAGGED with (6 * 32). now rewrite type_len_head. Qed.
Lemma flat_enc_u32 n : n < 4294967296 -> flat (enc_u32 n) = Cbor.head 0 (min_width n) n.
Proof. intro H. now rewrite enc_u32_head. Qed.
Lemma flat_enc_u64 n : n < two64 -> flat (enc_u64 n) = Cbor.head 0 (min_width n) n.
Proof. intro H. now rewrite enc_u64_head. Qed.

Lemma ser_prefer_uint n : ser (prefer (t_uint n)) = Cbor.head 0 (min_width n) n.
Proof. reflexivity. Qed.
Lemma ser_prefer_null : ser (prefer t_null) = [246].
Proof. reflexivity. Qed.
Lemma len_map {A B} (f : A -> B) l : len (map f l) = len l.
Proof. unfold len. now rewrite map_length. Qed.
Lemma ser_prefer_array es : ser (prefer (EArray W0 es)) = Cbor.head 4 (min_width (len es)) (len es) ++ flat_map (fun e => ser (prefer e)) es.
Proof. cbn [prefer ser]. rewrite len_map. f_equal. now rewrite flat_map_concat_map, map_map, <- flat_map_concat_map. Qed.
Lemma ser_prefer_map es : ser (prefer (EMap W0 es)) = Cbor.head 5 (min_width (len es / 2)) (len es / 2) ++ flat_map (fun e => ser (prefer e)) es.
Proof. cbn [prefer ser]. rewrite len_map. f_equal. now rewrite flat_map_concat_map, map_map, <- flat_map_concat_map. Qed.
Lemma ser_prefer_tagged t e : tag_ok t = true ->
  ser (prefer (t_tagged t e)) = flat (enc_tag_opt t) ++ ser (prefer e).
Proof.
  destruct t as [n|]; cbn [t_tagged enc_tag_opt tag_ok]; [|reflexivity].
  intro H. apply N.leb_le in H. cbn [prefer ser]. rewrite flat_enc_tag; [reflexivity|unfold two64, u64_max in *; lia].
Qed.

Definition sp (e : enc) : bytes := ser (prefer e).

Lemma fits_min_width_doc n : n < two64 -> fits (min_width n) n = true.
Proof.
  unfold min_width, two64. intro H.
  destruct (N.ltb_spec n 24); [cbn; now apply N.ltb_lt|].
  destruct (N.ltb_spec n 256); [cbn; now apply N.ltb_lt|].
  destruct (N.ltb_spec n 65536); [cbn; now apply N.ltb_lt|].
  destruct (N.ltb_spec n 4294967296); cbn; now apply N.ltb_lt.
Qed.

Lemma sp_tagged t e : tag_ok t = true -> sp (t_tagged t e) = flat (enc_tag_opt t) ++ sp e.
Proof. apply ser_prefer_tagged. Qed.

Lemma flat_nulls n : flat (nulls n) = flat_map sp (repeat t_null (N.to_nat n)).
Proof.
  unfold nulls. induction (N.to_nat n) as [|k IH]; [reflexivity|].
  cbn [repeat concat flat_map]. rewrite flat_app, IH. reflexivity.
Qed.

(* ---- the declared fields with their values, looked up by index ---- *)
Definition fv (vs : list value) (pf : pfield) : field * value := (pf_fld pf, pf_val vs pf).
Definition fkey (x : field * value) : N := f_idx (fst x).

Lemma skipn_cons_nth {A} (l : list A) : forall p v rest d, skipn p l = v :: rest -> nth p l d = v /\ skipn (S p) l = rest.
Proof.
  induction l as [|x r IH]; intros [|p] v rest d; cbn [skipn nth]; try discriminate.
  - intros [= <- <-]. split; reflexivity.
  - intro H. now apply IH.
Qed.

Lemma decl_active_gen vs0 : forall fs p, length (skipn p vs0) = length fs ->
  decl fs (skipn p vs0) = map (fv vs0) (filter (fun pf => negb (f_skip (pf_fld pf))) (with_pos fs p)).
Proof.
  induction fs as [|f r IH]; intros p Hl; cbn [decl with_pos filter map].
  - destruct (skipn p vs0); reflexivity.
  - destruct (skipn p vs0) as [|v rest] eqn:E; [discriminate|]. cbn [length] in Hl.
    apply skipn_cons_nth with (d := VUnit) in E as [Hv Hr]. cbn [pf_fld].
    specialize (IH (S p)). rewrite Hr in IH. specialize (IH ltac:(congruence)).
    destruct (f_skip f); cbn [negb map]; [exact IH|]. rewrite IH. f_equal.
    unfold fv, pf_val, value_at. cbn [pf_fld pf_pos]. now rewrite Hv.
Qed.

Lemma decl_active fs vs : length vs = length fs -> decl fs vs = map (fv vs) (active fs).
Proof. intro H. apply (decl_active_gen vs fs 0%nat H). Qed.

Lemma decl_perm fs vs : length vs = length fs -> Permutation (decl fs vs) (map (fv vs) (sorted_fields fs)).
Proof. intro H. rewrite decl_active by assumption. apply Permutation_map. symmetry. apply sorted_fields_perm. Qed.

Lemma asc_nodup {A} (key : A -> N) p l : asc key p l -> NoDup (map key l).
Proof.
  revert p. induction l as [|x r IH]; intros p; cbn [asc map]; [constructor|].
  intros [H1 H2]. constructor; [|eapply IH, H2].
  intro Hin. apply in_map_iff in Hin as (y & Hy & Hin). pose proof (asc_keys_ge key _ _ _ H2 Hin). lia.
Qed.

Lemma at_index_in l i f v : at_index l i = Some (f, v) -> In (f, v) l /\ f_idx f = i.
Proof.
  induction l as [|[g w] r IH]; cbn [at_index]; [discriminate|].
  destruct (N.eqb_spec (f_idx g) i).
  - intros [= -> ->]. split; [now left|assumption].
  - intro H. apply IH in H as [H1 H2]. split; [now right|assumption].
Qed.

Lemma at_index_none l i : (forall x, In x l -> fkey x <> i) -> at_index l i = None.
Proof.
  induction l as [|[g w] r IH]; cbn [at_index]; [reflexivity|]. intro H.
  destruct (N.eqb_spec (f_idx g) i) as [E|E].
  - exfalso. apply (H (g, w)); [now left|exact E].
  - apply IH. intros x Hx. apply H. now right.
Qed.

Lemma at_index_unique l x : NoDup (map fkey l) -> In x l -> at_index l (fkey x) = Some x.
Proof.
  induction l as [|[g w] r IH]; cbn [at_index map]; [intros _ []|].
  intros Hnd [<-|Hin]; inversion Hnd as [|? ? Hni Hnd']; subst.
  - unfold fkey. cbn [fst]. now rewrite N.eqb_refl.
  - destruct (N.eqb_spec (f_idx g) (fkey x)) as [E|E]; [|now apply IH].
    exfalso. apply Hni. change (f_idx g) with (fkey (g, w)) in E. rewrite E. now apply in_map.
Qed.

Definition above (lo : option N) (k : N) : Prop := match lo with Some b => b < k | None => True end.

Lemma next_key_spec l lo : forall best,
  match doc_next_key l lo best with
  | Some k => (best = Some k \/ (In k (map fkey l) /\ above lo k)) /\ (forall b, best = Some b -> k <= b)
              /\ (forall k', In k' (map fkey l) -> above lo k' -> k <= k')
  | None => best = None /\ forall k', In k' (map fkey l) -> ~ above lo k'
  end.
Proof.
  induction l as [|[f v] r IH]; intro best; cbn [doc_next_key map].
  - destruct best as [b|]; [|split; [reflexivity|intros ? []]].
    split; [now left|]. split; [intros ? [= <-]; lia|intros ? []].
  - set (k0 := f_idx f).
    set (ab := match lo with Some b => b <? k0 | None => true end).
    set (bt := match best with Some b => k0 <? b | None => true end).
    assert (Hab : ab = true <-> above lo k0).
    { unfold ab, above. destruct lo; [apply N.ltb_lt|tauto]. }
    specialize (IH (if ab && bt then Some k0 else best)).
    destruct (doc_next_key r lo (if ab && bt then Some k0 else best)) as [k|].
    + destruct IH as (H1 & H2 & H3). change (fkey (f, v)) with k0. split; [|split].
      * destruct H1 as [H1|[H1 H1']]; [|right; split; [now right|assumption]].
        destruct (ab && bt) eqn:E; [|now left]. injection H1 as <-. apply andb_prop in E as [E _].
        right. split; [now left|now apply Hab].
      * intros b ->. destruct (ab && bt) eqn:E; [|now apply H2].
        apply andb_prop in E as [_ E]. cbn in E. apply N.ltb_lt in E. specialize (H2 k0 eq_refl). lia.
      * intros k' [<-|Hk'] Hk'a; [|now apply H3].
        destruct (ab && bt) eqn:E; [now apply H2|].
        apply Hab in Hk'a. rewrite Hk'a in E. cbn in E. unfold bt in E. destruct best as [b|]; [|discriminate].
        apply N.ltb_ge in E. specialize (H2 b eq_refl). lia.
    + destruct IH as (H1 & H2). destruct (ab && bt) eqn:E; [discriminate|]. split; [assumption|].
      change (fkey (f, v)) with k0. intros k' [<-|Hk'] Hk'a; [|now apply (H2 k')].
      apply Hab in Hk'a. rewrite Hk'a in E. cbn in E. unfold bt in E. rewrite H1 in E. discriminate.
Qed.

Definition cnt (vs : list value) (l : list pfield) : N := len (filter (fun pf => negb (nilp vs pf)) l).

Lemma max_fields_cnt vs l : forall n, max_fields l vs (n + len l) = n + cnt vs l.
Proof.
  unfold cnt. induction l as [|pf r IH]; intro n; cbn [max_fields filter]; [reflexivity|].
  rewrite len_cons. fold (nilp vs pf). destruct (nilp vs pf); cbn [negb].
  - replace (n + (1 + len r) - 1) with (n + len r) by lia. apply IH.
  - rewrite len_cons. replace (n + (1 + len r)) with (n + 1 + len r) by lia. rewrite IH. lia.
Qed.

Lemma cnt_le vs l : cnt vs l <= len l.
Proof.
  unfold cnt. induction l as [|pf r IH]; cbn [filter]; [lia|]. destruct (negb (nilp vs pf)); rewrite !len_cons; lia.
Qed.

Lemma asc_len_bound {A} (key : A -> N) M : forall l p, asc key p l -> (forall x, In x l -> key x <= M) -> l = [] \/ p + len l <= M + 1.
Proof.
  induction l as [|x r IH]; intros p; [now left|]. cbn [asc]. intros [H1 H2] HM. right. rewrite len_cons.
  destruct (IH _ H2 (fun y Hy => HM y (or_intror Hy))) as [->|H].
  - specialize (HM x (or_introl eq_refl)). change (len []) with 0. lia.
  - lia.
Qed.

(* well-formedness of the documented trees (needed to skip over them: C06) *)
Definition wfp (e : enc) : bool := wf (prefer e).
Lemma wfp_array es : len es < two64 -> forallb wfp es = true -> wfp (EArray W0 es) = true.
Proof.
  intros H1 H2. unfold wfp. cbn [prefer wf]. rewrite len_map, fits_min_width_doc by assumption. cbn [andb].
  rewrite forallb_forall in *. intros x Hx. apply in_map_iff in Hx as (y & <- & Hy). now apply H2.
Qed.
Lemma wfp_map es : N.even (len es) = true -> len es / 2 < two64 -> forallb wfp es = true -> wfp (EMap W0 es) = true.
Proof.
  intros H0 H1 H2. unfold wfp. cbn [prefer wf]. rewrite len_map, H0, fits_min_width_doc by assumption. cbn [andb].
  rewrite forallb_forall in *. intros x Hx. apply in_map_iff in Hx as (y & <- & Hy). now apply H2.
Qed.
Lemma wfp_tagged t e : tag_ok t = true -> wfp e = true -> wfp (t_tagged t e) = true.
Proof.
  destruct t as [n|]; cbn [t_tagged tag_ok]; [|auto]. intros H1 H2. apply N.leb_le in H1. unfold wfp in *. cbn [prefer wf].
  rewrite H2, fits_min_width_doc; [reflexivity|unfold two64, u64_max in *; lia].
Qed.
Lemma wfp_uint n : n < two64 -> wfp (t_uint n) = true.
Proof. intro H. unfold wfp. cbn [t_uint prefer wf]. now apply fits_min_width_doc. Qed.

Section DocOk.
Variable okty : ty -> Prop.
Hypothesis Hty : forall t, okty t -> forall v cs, encode_ty t v = Some cs -> len (flat cs) < two64 -> exists e, ty_tree t v = Some e /\ flat cs = sp e /\ wfp e = true.

Variable recE : nat -> value -> option (list chunk).
Variable recD : nat -> value -> option enc.
Variable recK : nat -> value -> bool.
Hypothesis Hrec : forall d v cs, recE d v = Some cs -> recK d v = false -> len (flat cs) < two64 -> exists e, recD d v = Some e /\ flat cs = sp e /\ wfp e = true.

Lemma sp_nonempty e : 1 <= len (sp e).
Proof.
  unfold sp. destruct (ser (prefer e)) eqn:E; [exfalso|rewrite len_cons; lia].
  destruct e; cbn [prefer ser] in E; rewrite ?DecoderFacts.head_split in E; try discriminate.
  destruct (n <? 24); discriminate.
Qed.

Lemma enc_all_doc (f : value -> option (list chunk)) (g : value -> option enc) (k : value -> bool) l cs :
  (forall v c, In v l -> f v = Some c -> k v = false -> len (flat c) < two64 -> exists e, g v = Some e /\ flat c = sp e /\ wfp e = true) ->
  enc_all f l = Some cs -> existsb k l = false -> len (flat cs) < two64 ->
  exists es, omap_list g l = Some es /\ flat cs = flat_map sp es /\ len es = len l /\ len l <= len (flat cs) /\ forallb wfp es = true.
Proof.
  revert cs. induction l as [|v r IH]; intros cs Hf; cbn [enc_all existsb].
  - intros [= <-] _ _. exists []. repeat split. apply N.le_refl.
  - intros H Hk Hb. apply ocat_some in H as (x & y & Hx & Hy & ->). apply orb_false_iff in Hk as [Hk1 Hk2].
    rewrite len_flat_app in Hb.
    assert (Hbx : len (flat x) < two64) by lia. assert (Hby : len (flat y) < two64) by lia.
    destruct (Hf v x (or_introl eq_refl) Hx Hk1 Hbx) as (e & He & Hxe & Hwe).
    destruct (IH y (fun v' c Hv => Hf v' c (or_intror Hv)) Hy Hk2 Hby) as (es & Hes & Hye & Hl & Hle & Hwes).
    exists (e :: es). unfold omap_list in *. rewrite He, Hes. split; [reflexivity|]. split; [|split; [|split]].
    + cbn [flat_map]. now rewrite flat_app, Hxe, Hye.
    + rewrite !len_cons. lia.
    + rewrite len_cons, len_flat_app, Hxe. pose proof (sp_nonempty e). lia.
    + cbn [forallb]. now rewrite Hwe, Hwes.
Qed.

Lemma doc_fty_ok f : forall v cs, fty_all okty f -> enc_fty recE f v = Some cs -> known_fty recK f v = false ->
  len (flat cs) < two64 -> exists e, fty_tree recD f v = Some e /\ flat cs = sp e /\ wfp e = true.
Proof.
  induction f as [t|d|f' IH|f' IH]; intros v cs Hall He Hk Hlen.
  - cbn in *. now apply Hty.
  - cbn in *. now apply Hrec.
  - destruct v; cbn in He; try discriminate.
    + injection He as <-. exists t_null. repeat split.
    + cbn in Hk |- *. now apply IH.
  - destruct v; cbn in He; try discriminate. cbn [fty_tree]. cbn [known_fty] in Hk.
    apply ocat3_some in He as (y & Hy & ->). rewrite len_flat_app in Hlen.
    destruct (enc_all_doc (enc_fty recE f') (fty_tree recD f') (known_fty recK f') l y) as (es & Hes & Hye & Hl & Hle & Hwes);
      [intros; now apply IH|assumption|assumption|lia|].
    rewrite Hes. cbn [oarr]. eexists. split; [reflexivity|]. split; [|apply wfp_array; [lia|assumption]].
    unfold sp at 1. rewrite ser_prefer_array, flat_app, Hye, Hl. f_equal. apply flat_enc_array. lia.
Qed.

Lemma doc_cust_ok v cs : cust_encode v = Some cs -> exists e, cust_tree v = Some e /\ flat cs = sp e /\ wfp e = true.
Proof.
  destruct v; cbn; try discriminate. destruct (N.leb_spec n u64_max); [|discriminate]. intros [= <-].
  assert (Hn : n < two64) by (unfold u64_max, two64 in *; lia).
  eexists. split; [reflexivity|]. destruct (n =? 0); [repeat split|]. split; [|now apply wfp_uint].
  unfold sp. rewrite ser_prefer_uint. now apply flat_enc_u64.
Qed.

Lemma doc_field_ok d vs pf cs : field_ok d (pf_fld pf) = true -> f_skip (pf_fld pf) = false -> fty_all okty (f_ty (pf_fld pf)) ->
  enc_field_fn recE (pf_fld pf) (pf_val vs pf) = Some cs -> known_field recK vs pf = false -> len (flat cs) < two64 ->
  exists e, field_tree recD (pf_fld pf) (pf_val vs pf) = Some e /\ flat cs = sp e /\ wfp e = true.
Proof.
  unfold enc_field_fn, field_tree, known_field, field_ok. intros Hok Hs Hall He Hk Hb. rewrite Hs in Hok.
  destruct (f_codec (pf_fld pf)) eqn:Ec.
  - now apply doc_fty_ok.
  - apply andb_prop in Hok as [_ Hok]. apply andb_prop in Hok as [_ Hok].
    destruct (f_ty (pf_fld pf)); try discriminate. cbn in *. now apply Hty.
  - now apply doc_cust_ok.
Qed.

(* ---- array encoding: the statements against the positions of the documented array ---- *)
Definition item (dl : list (field * value)) (j : N) : option enc :=
  match at_index dl j with Some (f, v) => field_item recD f v | None => Some t_null end.

Fixpoint pos_items (dl : list (field * value)) (p : N) (k : nat) : option (list enc) :=
  match k with
  | O => Some []
  | S k' => match item dl p, pos_items dl (p + 1) k' with Some e, Some es => Some (e :: es) | _, _ => None end
  end.

Definition oapp (a b : option (list enc)) : option (list enc) :=
  match a, b with Some x, Some y => Some (x ++ y) | _, _ => None end.

Lemma pos_items_app dl a : forall p b, pos_items dl p (a + b) = oapp (pos_items dl p a) (pos_items dl (p + N.of_nat a) b).
Proof.
  induction a as [|a IH]; intros p b.
  - cbn [Nat.add pos_items oapp]. rewrite N.add_0_r. destruct (pos_items dl p b); reflexivity.
  - cbn [Nat.add pos_items]. rewrite IH. replace (p + 1 + N.of_nat a) with (p + N.of_nat (S a)) by lia.
    destruct (item dl p); [|reflexivity]. destruct (pos_items dl (p + 1) a); [|reflexivity].
    cbn [oapp]. destruct (pos_items dl (p + N.of_nat (S a)) b); reflexivity.
Qed.

Lemma array_items_pos dl n : forall acc,
  array_items recD dl n acc = match pos_items dl 0 n with Some es => Some (es ++ acc) | None => None end.
Proof.
  induction n as [|n IH]; intro acc; [reflexivity|].
  cbn [array_items]. replace (S n) with (n + 1)%nat by lia. rewrite pos_items_app. cbn [pos_items]. rewrite N.add_0_l.
  unfold item at 1. destruct (at_index dl (N.of_nat n)) as [[f v]|].
  - destruct (field_item recD f v) as [e|].
    + rewrite IH. destruct (pos_items dl 0 n); cbn [oapp]; [|reflexivity]. now rewrite <- app_assoc.
    + destruct (pos_items dl 0 n); reflexivity.
  - rewrite IH. destruct (pos_items dl 0 n); cbn [oapp]; [|reflexivity]. now rewrite <- app_assoc.
Qed.

Lemma pos_items_gap dl : forall k p, (forall j, p <= j -> j < p + N.of_nat k -> at_index dl j = None) ->
  pos_items dl p k = Some (repeat t_null k).
Proof.
  induction k as [|k IH]; intros p H; [reflexivity|].
  cbn [pos_items repeat]. unfold item. rewrite H by lia. rewrite IH; [reflexivity|]. intros j H1 H2. apply H; lia.
Qed.

Lemma pos_items_length dl : forall k p es, pos_items dl p k = Some es -> length es = k.
Proof.
  induction k as [|k IH]; intros p es; cbn [pos_items].
  - intros [= <-]. reflexivity.
  - destruct (item dl p); [|discriminate]. destruct (pos_items dl (p + 1) k) as [es'|] eqn:E; [|discriminate].
    intros [= <-]. cbn [length]. f_equal. eapply IH, E.
Qed.

(* a field of the body: its own encoding is the documented one *)
Definition fields_doc (vs : list value) (l : list pfield) : Prop :=
  forall pf cs, In pf l -> enc_field_fn recE (pf_fld pf) (pf_val vs pf) = Some cs -> len (flat cs) < two64 ->
    pf_idx pf <= idx_max /\ tag_ok (f_tag (pf_fld pf)) = true /\ exists e, field_tree recD (pf_fld pf) (pf_val vs pf) = Some e /\ flat cs = sp e /\ wfp e = true.

Lemma arr_doc vs dl i : forall l p cs,
  asc pf_idx p l ->
  (forall pf, In pf l -> at_index dl (pf_idx pf) = Some (fv vs pf)) ->
  (forall j, p <= j -> (forall pf, In pf l -> pf_idx pf <> j) -> at_index dl j = None) ->
  ((exists pf, In pf l /\ pf_idx pf = i) \/ i + 1 <= p) ->
  fields_doc vs l ->
  arr_stmts recE l vs p i = Some cs -> len (flat cs) < two64 ->
  exists es, pos_items dl p (N.to_nat (i + 1 - p)) = Some es /\ flat cs = flat_map sp es /\ forallb wfp es = true.
Proof.
  induction l as [|pf r IH]; intros p cs Hasc Hsome Hnone Hlast Hdoc; cbn [arr_stmts].
  - intros [= <-] _. destruct Hlast as [(q & [] & _)|Hp]. replace (i + 1 - p) with 0 by lia. exists []. repeat split.
  - intros H Hb. apply ocat_some in H as (x & y & Hx & Hy & ->). cbn [asc] in Hasc. destruct Hasc as [Hp Hasc].
    rewrite len_flat_app in Hb. assert (Hby : len (flat y) < two64) by lia.
    assert (Hsome' : forall q, In q r -> at_index dl (pf_idx q) = Some (fv vs q)) by (intros; apply Hsome; now right).
    assert (Hnone' : forall j, pf_idx pf + 1 <= j -> (forall q, In q r -> pf_idx q <> j) -> at_index dl j = None).
    { intros j Hj Hq. apply Hnone; [lia|]. intros q [<-|Hin]; [lia|now apply Hq]. }
    assert (Hdoc' : fields_doc vs r) by (intros q c Hq; apply Hdoc; now right).
    destruct (N.leb_spec (pf_idx pf) i) as [Hi|Hi].
    + apply ocat3_some in Hx as (z & Hz & ->).
      assert (Hlast' : (exists q, In q r /\ pf_idx q = i) \/ i + 1 <= pf_idx pf + 1).
      { destruct Hlast as [(q & [<-|Hq] & Hqi)|Hp']; [right; lia|left; eauto|right; lia]. }
      destruct (IH (pf_idx pf + 1) y Hasc Hsome' Hnone' Hlast' Hdoc' Hy Hby) as (es & Hes & Hyes & Hwes).
      assert (Hbz : len (flat z) < two64) by (rewrite !len_flat_app in Hb; lia).
      destruct (Hdoc pf z (or_introl eq_refl) Hz Hbz) as (Hidx & Htag & e & He & Hze & Hwe).
      replace (N.to_nat (i + 1 - p)) with (N.to_nat (pf_idx pf - p) + (1 + N.to_nat (i + 1 - (pf_idx pf + 1))))%nat by lia.
      rewrite pos_items_app, pos_items_gap.
      2:{ intros j H1 H2. apply Hnone; [assumption|]. intros q [<-|Hq]; [lia|].
          pose proof (asc_keys_ge pf_idx _ _ _ Hasc Hq). lia. }
      replace (p + N.of_nat (N.to_nat (pf_idx pf - p))) with (pf_idx pf) by lia.
      cbn [Nat.add pos_items]. unfold item. rewrite (Hsome pf (or_introl eq_refl)). unfold fv, field_item. rewrite He, Hes.
      cbn [oapp]. eexists. split; [reflexivity|]. split.
      { rewrite !flat_app, flat_map_app. cbn [flat_map]. rewrite flat_nulls, Hyes.
        rewrite sp_tagged by assumption. rewrite Hze, <- !app_assoc. reflexivity. }
      rewrite forallb_app. cbn [forallb]. rewrite Hwes, (wfp_tagged _ _ Htag Hwe), andb_true_r.
      clear. induction (N.to_nat (pf_idx pf - p)); [reflexivity|assumption].
    + injection Hx as <-.
      assert (Hp' : i + 1 <= p).
      { destruct Hlast as [(q & [<-|Hq] & Hqi)|Hp']; [lia| |assumption].
        pose proof (asc_keys_ge pf_idx _ _ _ Hasc Hq). lia. }
      assert (Hp2 : i + 1 <= pf_idx pf + 1) by lia.
      destruct (IH (pf_idx pf + 1) y Hasc Hsome' Hnone' (or_intror Hp2) Hdoc' Hy Hby) as (es & Hes & Hyes & Hwes).
      replace (i + 1 - p) with 0 by lia. replace (i + 1 - (pf_idx pf + 1)) with 0 in Hes by lia.
      cbn [N.to_nat pos_items] in *. injection Hes as <-. exists []. split; [reflexivity|]. cbn [app]. split; [exact Hyes|reflexivity].
Qed.

(* ---- map encoding: the statements against the ascending-key walk of the documented map ---- *)
Definition lower (lo : option N) : N := match lo with Some b => b + 1 | None => 0 end.

Lemma map_doc vs dl : forall l lo fuel cs,
  asc pf_idx (lower lo) l ->
  (forall pf, In pf l -> at_index dl (pf_idx pf) = Some (fv vs pf)) ->
  (forall pf, In pf l -> In (pf_idx pf) (map fkey dl)) ->
  (forall k, In k (map fkey dl) -> above lo k -> exists pf, In pf l /\ pf_idx pf = k) ->
  (length l <= fuel)%nat ->
  fields_doc vs l ->
  (forall pf, In pf l -> absent (pf_fld pf) (pf_val vs pf) = nilp vs pf) ->
  enc_map_stmts recE l vs = Some cs -> len (flat cs) < two64 ->
  exists es, map_entries recD dl lo fuel = Some es /\ flat cs = flat_map sp es /\ len es = 2 * cnt vs l /\ forallb wfp es = true.
Proof.
  induction l as [|pf r IH]; intros lo fuel cs Hasc Hsome Hin Hkeys Hfuel Hdoc Habs; cbn [enc_map_stmts].
  - intros [= <-] _. exists []. split; [|repeat split].
    destruct fuel; [reflexivity|]. cbn [map_entries].
    pose proof (next_key_spec dl lo None) as Hs. destruct (doc_next_key dl lo None) as [k|]; [|reflexivity].
    destruct Hs as ([?|[H1 H2]] & _); [discriminate|]. destruct (Hkeys k H1 H2) as (? & [] & _).
  - intros H Hb. apply ocat_some in H as (x & y & Hx & Hy & ->). cbn [asc] in Hasc. destruct Hasc as [Hp Hasc].
    rewrite len_flat_app in Hb. assert (Hby : len (flat y) < two64) by lia.
    destruct fuel as [|fuel]; [cbn in Hfuel; lia|]. cbn [map_entries].
    assert (Hfuel' : (length r <= fuel)%nat) by (cbn in Hfuel; lia).
    assert (Hab : above lo (pf_idx pf)) by (unfold above, lower in *; destruct lo; [lia|exact I]).
    pose proof (next_key_spec dl lo None) as Hs. destruct (doc_next_key dl lo None) as [k|].
    2:{ destruct Hs as [_ Hs]. exfalso. apply (Hs (pf_idx pf)); [apply Hin; now left|assumption]. }
    destruct Hs as ([?|[H1 H2]] & _ & H3); [discriminate|].
    assert (Hk : k = pf_idx pf).
    { specialize (H3 (pf_idx pf) (Hin pf (or_introl eq_refl)) Hab).
      destruct (Hkeys k H1 H2) as (q & [<-|Hq] & Hqk); [now symmetry|].
      pose proof (asc_keys_ge pf_idx _ _ _ Hasc Hq). lia. }
    subst k. rewrite (Hsome pf (or_introl eq_refl)). unfold fv.
    assert (Hkeys' : forall k, In k (map fkey dl) -> above (Some (pf_idx pf)) k -> exists q, In q r /\ pf_idx q = k).
    { intros k Hk Hka. cbn [above] in Hka. destruct (Hkeys k Hk) as (q & [<-|Hq] & Hqk); [|lia|eauto].
      unfold above, lower in *. destruct lo; [lia|exact I]. }
    destruct (IH (Some (pf_idx pf)) fuel y Hasc (fun q Hq => Hsome q (or_intror Hq)) (fun q Hq => Hin q (or_intror Hq)) Hkeys'
                 Hfuel' (fun q c Hq => Hdoc q c (or_intror Hq)) (fun q Hq => Habs q (or_intror Hq)) Hy Hby) as (es & Hes & Hyes & Hl & Hwes).
    rewrite (Habs pf (or_introl eq_refl)). unfold cnt. cbn [filter]. unfold nilp at 1 2. fold (nilp vs pf).
    destruct (fld_is_nil (pf_fld pf) (pf_val vs pf)) eqn:En; fold (nilp vs pf) in En; rewrite En; cbn [negb].
    + injection Hx as <-. exists es. split; [assumption|]. split; [assumption|]. split; [exact Hl|exact Hwes].
    + apply ocat3_some in Hx as (z & Hz & ->).
      assert (Hbz : len (flat z) < two64) by (rewrite !len_flat_app in Hb; lia).
      destruct (Hdoc pf z (or_introl eq_refl) Hz Hbz) as (Hidx & Htag & e & He & Hze & Hwe).
      unfold field_item. rewrite He, Hes. eexists. split; [reflexivity|]. split; [|split].
      * cbn [flat_map]. rewrite !flat_app, sp_tagged by assumption. rewrite Hze, Hyes, <- !app_assoc. f_equal.
        unfold sp. rewrite ser_prefer_uint. apply flat_enc_u32. unfold idx_max in Hidx. lia.
      * rewrite !len_cons. fold (cnt vs r). lia.
      * cbn [forallb]. rewrite Hwes, (wfp_tagged _ _ Htag Hwe), wfp_uint; [reflexivity|unfold idx_max, two64 in *; lia].
Qed.

(* ---- one struct / variant body ---- *)
Lemma array_len_perm a b : Permutation a b -> array_len a = array_len b.
Proof.
  induction 1 as [|[f v] a b _ IH|[f v] [g w] a|a b c _ IH1 _ IH2]; cbn [array_len]; try congruence.
  - now rewrite IH.
  - destruct (absent f v), (absent g w); try reflexivity. lia.
Qed.

Lemma array_len_sorted vs l : (forall pf, In pf l -> absent (pf_fld pf) (pf_val vs pf) = nilp vs pf) ->
  forall p, asc pf_idx p l ->
  array_len (map (fv vs) l) = match max_index l vs None with Some i => i + 1 | None => 0 end.
Proof.
  assert (G : forall l, (forall pf, In pf l -> absent (pf_fld pf) (pf_val vs pf) = nilp vs pf) -> forall p, asc pf_idx p l -> forall acc,
     (forall a, acc = Some a -> a < p) ->
     N.max (array_len (map (fv vs) l)) (match acc with Some a => a + 1 | None => 0 end)
     = match max_index l vs acc with Some i => i + 1 | None => 0 end).
  { clear l. induction l as [|pf r IH]; intros Habs p Hasc acc Hacc; cbn [map array_len max_index].
    - destruct acc; lia.
    - cbn [asc] in Hasc. destruct Hasc as [Hp Hasc]. unfold fv at 1. rewrite (Habs pf (or_introl eq_refl)). fold (nilp vs pf).
      destruct (nilp vs pf).
      + apply (IH (fun q Hq => Habs q (or_intror Hq)) _ Hasc). intros a Ha. specialize (Hacc a Ha). lia.
      + assert (Hacc' : forall a, Some (pf_idx pf) = Some a -> a < pf_idx pf + 1) by (intros a Ha; injection Ha as Ha; lia).
        rewrite <- (IH (fun q Hq => Habs q (or_intror Hq)) _ Hasc (Some (pf_idx pf)) Hacc').
        cbn [fst]. unfold pf_idx in *. destruct acc as [a|]; [specialize (Hacc a eq_refl)|]; lia. }
  intros Habs p Hasc. rewrite <- (G l Habs p Hasc None) by discriminate. lia.
Qed.

Lemma f13_false vs l : f13_group l vs = false -> forall pf, In pf l -> absent (pf_fld pf) (pf_val vs pf) = nilp vs pf.
Proof.
  unfold f13_group. intros H pf Hpf. unfold nilp.
  destruct (Bool.eqb (fld_is_nil (pf_fld pf) (pf_val vs pf)) (absent (pf_fld pf) (pf_val vs pf))) eqn:E.
  - apply eqb_prop in E. now symmetry.
  - exfalso. assert (existsb (fun pf0 => negb (Bool.eqb (fld_is_nil (pf_fld pf0) (pf_val vs pf0)) (absent (pf_fld pf0) (pf_val vs pf0)))) l = true); [|congruence].
    apply existsb_exists. exists pf. split; [assumption|]. now rewrite E.
Qed.

Lemma doc_fields_ok d e fs vs cs : fields_ok d fs = true -> fields_all okty fs ->
  enc_fields recE e fs vs = Some cs -> known_fields fmt_group recK e fs vs = false -> len (flat cs) < two64 ->
  exists b, doc_fields recD e fs vs = Some b /\ flat cs = sp b /\ wfp b = true.
Proof.
  unfold enc_fields, known_fields, doc_fields. intros Hok Hall He Hk Hb.
  destruct (Nat.eqb (length vs) (length fs)) eqn:El; [|discriminate]. apply Nat.eqb_eq in El.
  apply orb_false_iff in Hk as [Hk1 Hk2]. cbn [fmt_group] in Hk1.
  set (l := sorted_fields fs) in *. set (dl := decl fs vs).
  pose proof (sorted_fields_asc d fs Hok) as Hasc. fold l in Hasc.
  pose proof (decl_perm fs vs El) as Hperm. fold l dl in Hperm.
  pose proof (f13_false vs l Hk1) as Habs.
  assert (Hfo : forall pf, In pf l -> field_ok d (pf_fld pf) = true /\ f_skip (pf_fld pf) = false /\ fty_all okty (f_ty (pf_fld pf))).
  { intros pf Hpf. apply in_sorted_fields in Hpf as [Hin Hs]. unfold fields_ok in Hok. apply andb_prop in Hok as [Hok _].
    rewrite forallb_forall in Hok. unfold fields_all in Hall. rewrite Forall_forall in Hall. auto. }
  assert (Hidx : forall pf, In pf l -> pf_idx pf <= idx_max /\ tag_ok (f_tag (pf_fld pf)) = true).
  { intros pf Hpf. destruct (Hfo pf Hpf) as (H1 & H2 & _). unfold field_ok in H1. rewrite H2 in H1.
    apply andb_prop in H1 as [_ H1]. apply andb_prop in H1 as [H1 _]. apply andb_prop in H1 as [H1 _]. apply andb_prop in H1 as [H1 H1'].
    split; [now apply N.leb_le|exact H1']. }
  assert (Hnd : NoDup (map fkey dl)).
  { eapply Permutation_NoDup; [apply Permutation_map; symmetry; exact Hperm|]. rewrite map_map. apply (asc_nodup pf_idx 0 l Hasc). }
  assert (Hsome : forall pf, In pf l -> at_index dl (pf_idx pf) = Some (fv vs pf)).
  { intros pf Hpf. apply (at_index_unique dl (fv vs pf) Hnd). eapply Permutation_in; [symmetry; exact Hperm|]. now apply in_map. }
  assert (Hkeys : forall k, In k (map fkey dl) -> exists pf, In pf l /\ pf_idx pf = k).
  { intros k Hk. apply in_map_iff in Hk as (x & <- & Hx). eapply Permutation_in in Hx; [|exact Hperm].
    apply in_map_iff in Hx as (pf & <- & Hpf). eauto. }
  assert (Hdoc : fields_doc vs l).
  { intros pf c Hpf Hc Hbc. destruct (Hidx pf Hpf) as [H1 H2]. split; [assumption|]. split; [assumption|].
    destruct (Hfo pf Hpf) as (F1 & F2 & F3). eapply doc_field_ok; try eassumption.
    destruct (known_field recK vs pf) eqn:E; [|reflexivity]. exfalso.
    assert (existsb (known_field recK vs) l = true); [|congruence]. apply existsb_exists. eauto. }
  assert (Hnone : forall j, (forall pf, In pf l -> pf_idx pf <> j) -> at_index dl j = None).
  { intros j Hj. apply at_index_none. intros x Hx E. destruct (Hkeys (fkey x) (in_map fkey _ _ Hx)) as (pf & Hpf & Hk).
    apply (Hj pf Hpf). congruence. }
  destruct e.
  - (* array *)
    unfold enc_as_array in He. unfold doc_array.
    rewrite (array_len_perm _ _ Hperm), (array_len_sorted vs l Habs 0 Hasc).
    destruct (max_index l vs None) as [i|] eqn:Em.
    + apply ocat3_some in He as (y & Hy & ->). rewrite enc_array_stmts_eq in Hy. rewrite len_flat_app in Hb.
      assert (Hbi : i <= idx_max /\ exists pf, In pf l /\ pf_idx pf = i).
      { apply max_index_some in Em as [[_ ?]|(l1 & pf & l2 & El' & _ & Hpi & _)]; [discriminate|].
        assert (Hpf : In pf l) by (rewrite El'; apply in_or_app; right; now left).
        split; [rewrite <- Hpi; apply Hidx, Hpf|eauto]. }
      destruct Hbi as [Hbi Hex].
      destruct (arr_doc vs dl i l 0 y Hasc Hsome (fun j _ Hj => Hnone j Hj) (or_introl Hex) Hdoc Hy ltac:(lia)) as (es & Hes & Hyes & Hwes).
      rewrite N.sub_0_r in Hes. rewrite array_items_pos, Hes, app_nil_r. cbn [oarr].
      assert (Hl : len es = i + 1).
      { apply pos_items_length in Hes. unfold len. rewrite Hes. lia. }
      eexists. split; [reflexivity|]. split; [|apply wfp_array; [rewrite Hl; unfold idx_max, two64 in *; lia|assumption]].
      unfold sp at 1. rewrite ser_prefer_array, flat_app, Hyes. f_equal.
      rewrite Hl. apply flat_enc_array. unfold idx_max, two64 in *. lia.
    + injection He as <-. cbn [N.to_nat array_items oarr]. eexists. repeat split.
  - (* map *)
    unfold enc_as_map in He. unfold doc_map. apply ocat3_some in He as (y & Hy & ->). rewrite len_flat_app in Hb.
    assert (Hlen : length dl = length l) by (rewrite (Permutation_length Hperm); apply map_length).
    assert (Hin : forall pf, In pf l -> In (pf_idx pf) (map fkey dl)).
    { intros pf Hpf. change (pf_idx pf) with (fkey (fv vs pf)). apply in_map. eapply Permutation_in; [symmetry; exact Hperm|]. now apply in_map. }
    destruct (map_doc vs dl l None (length dl) y Hasc Hsome Hin (fun k Hk _ => Hkeys k Hk) ltac:(lia) Hdoc Habs Hy ltac:(lia)) as (es & Hes & Hyes & Hl & Hwes).
    rewrite Hes.
    assert (Hcb : cnt vs l < two64).
    { pose proof (cnt_le vs l). destruct (asc_len_bound pf_idx idx_max l 0 Hasc (fun pf Hpf => proj1 (Hidx pf Hpf))) as [El'|Hbound].
      - rewrite El' in *. change (len []) with 0 in *. unfold two64. lia.
      - unfold idx_max, two64 in *. lia. }
    assert (Hhalf : len es / 2 = cnt vs l) by (rewrite Hl, N.mul_comm, N.div_mul; lia).
    eexists. split; [reflexivity|]. split; [|apply wfp_map; [rewrite Hl, N.even_mul; reflexivity|now rewrite Hhalf|assumption]].
    unfold sp at 1. rewrite ser_prefer_map, flat_app, Hyes, Hl. f_equal.
    replace (2 * cnt vs l / 2) with (cnt vs l) by (rewrite N.mul_comm, N.div_mul; lia).
    pose proof (max_fields_cnt vs l 0) as Hm. rewrite !N.add_0_l in Hm. rewrite Hm.
    now apply flat_enc_map.
Qed.

Lemma sp_enum_body i t b : i <= idx_max -> tag_ok t = true ->
  sp (EArray W0 [t_uint i; t_tagged t b]) = flat (enc_array 2 ++ enc_u32 i ++ enc_tag_opt t) ++ sp b.
Proof.
  intros Hi Ht. unfold sp at 1. rewrite ser_prefer_array. cbn [flat_map]. fold (sp (t_tagged t b)). rewrite sp_tagged by assumption.
  rewrite !flat_app, app_nil_r. change (ser (prefer (t_uint i))) with (Cbor.head 0 (min_width i) i).
  rewrite flat_enc_u32 by (unfold idx_max in Hi; lia). rewrite <- !app_assoc. reflexivity.
Qed.

Lemma doc_def_ok d df v cs : def_ok d df = true -> def_all okty df ->
  enc_def recE df v = Some cs -> known_def fmt_group recK df v = false -> len (flat cs) < two64 ->
  exists e, doc_def recD df v = Some e /\ flat cs = sp e /\ wfp e = true.
Proof.
  destruct df as [e tag tr sh fs|e tag io vars]; intros Hok Hall He Hk Hb.
  - destruct v as [| | | | | | | |vs|]; try discriminate. cbn [enc_def doc_def known_def def_ok def_all] in *.
    apply andb_prop in Hok as [Hok Htr]. apply andb_prop in Hok as [Hok _]. apply andb_prop in Hok as [Htag Hfs].
    destruct tr.
    + destruct tag; [discriminate|]. destruct fs as [|f [|? ?]]; try discriminate.
      unfold sorted_fields, active in He, Hk. cbn [with_pos filter pf_fld] in He, Hk. rewrite Htr in He, Hk. cbn [sort_by insert_by] in He, Hk.
      destruct vs as [|x [|? ?]]; try discriminate. cbn [decl]. apply negb_true_iff in Htr. rewrite Htr.
      cbn [existsb] in Hk. apply orb_false_iff in Hk as [Hk _].
      unfold fields_ok in Hfs. apply andb_prop in Hfs as [Hfs _]. cbn [forallb] in Hfs. apply andb_prop in Hfs as [Hf _].
      unfold fields_all in Hall. apply Forall_inv in Hall.
      eapply (doc_field_ok d [x] (mkpf 0 f)); eassumption.
    + apply ocat3_some in He as (y & Hy & ->). rewrite len_flat_app in Hb.
      destruct (doc_fields_ok d (struct_encoding e) fs vs y Hfs Hall Hy Hk ltac:(lia)) as (b & Hb' & Hyb & Hwb).
      rewrite Hb'. eexists. split; [reflexivity|]. split; [|now apply wfp_tagged]. rewrite sp_tagged, flat_app by assumption. now rewrite Hyb.
  - destruct v as [| | | | | | | | |i [| | | | | | | |vs|]]; try discriminate. cbn [enc_def doc_def known_def def_ok def_all] in *.
    destruct (find_variant vars i) as [va|] eqn:Ef; [|discriminate].
    apply find_variant_in in Ef as [Hin Hi].
    apply andb_prop in Hok as [Hok _]. apply andb_prop in Hok as [Hok Hvs]. apply andb_prop in Hok as [Htag Hio].
    rewrite forallb_forall in Hvs. specialize (Hvs va Hin).
    rewrite Forall_forall in Hall. specialize (Hall va Hin).
    unfold variant_ok in Hvs. apply andb_prop in Hvs as [Hvs Hsh]. apply andb_prop in Hvs as [Hvs Hfs]. apply andb_prop in Hvs as [Hvi Hvt].
    apply N.leb_le in Hvi. rewrite Hi in Hvi.
    apply ocat3_some in He as (y & Hy & ->). rewrite len_flat_app in Hb.
    destruct (is_unit (v_shape va)) eqn:Eu.
    + destruct (v_fields va); [|discriminate]. destruct vs; [|discriminate]. destruct io.
      * injection Hy as <-. destruct tag; [discriminate|]. eexists. split; [reflexivity|]. cbn [enc_tag_opt app t_tagged].
        split; [|apply wfp_uint; unfold idx_max, two64 in *; lia].
        unfold sp. rewrite ser_prefer_uint. apply flat_enc_u32. unfold idx_max in Hvi. lia.
      * apply (f_equal (fun o => match o with Some x => x | None => [] end)) in Hy. cbv beta iota in Hy. subst y.
        eexists. split; [reflexivity|]. split.
        { rewrite sp_tagged, sp_enum_body by assumption.
          rewrite !flat_app. rewrite <- !app_assoc. do 4 f_equal. destruct (variant_encoding e va); reflexivity. }
        apply wfp_tagged; [assumption|]. apply wfp_array; [reflexivity|]. cbn [forallb]. rewrite wfp_uint by (unfold idx_max, two64 in *; lia).
        rewrite wfp_tagged; [reflexivity|assumption|destruct (variant_encoding e va); reflexivity].
    + destruct io; [discriminate|]. cbn [orb] in Hk.
      apply ocat3_some in Hy as (z & Hz & ->). rewrite len_flat_app in Hb.
      destruct (doc_fields_ok d (variant_encoding e va) (v_fields va) vs z Hfs Hall Hz Hk ltac:(lia)) as (b & Hb' & Hzb & Hwb).
      rewrite Hb'. eexists. split; [reflexivity|]. split.
      { rewrite sp_tagged, sp_enum_body by assumption. rewrite !flat_app, Hzb. rewrite <- !app_assoc. reflexivity. }
      apply wfp_tagged; [assumption|]. apply wfp_array; [reflexivity|]. cbn [forallb]. rewrite wfp_uint by (unfold idx_max, two64 in *; lia).
      now rewrite wfp_tagged.
Qed.
End DocOk.

Section Top.
Variable okty : ty -> Prop.
Hypothesis Hty : forall t, okty t -> forall v cs, encode_ty t v = Some cs -> len (flat cs) < two64 ->
  exists e, ty_tree t v = Some e /\ flat cs = ser (prefer e) /\ wf (prefer e) = true.

Lemma doc_tree_f_ok Sc : schema_ok Sc = true -> schema_all okty Sc ->
  forall k d v cs, gen_encode_f k Sc d v = Some cs -> known_f fmt_group k Sc d v = false -> len (flat cs) < two64 ->
  exists e, doc_tree_f k Sc d v = Some e /\ flat cs = ser (prefer e) /\ wf (prefer e) = true.
Proof.
  intros Hok Hall. induction k as [|k IH]; intros d v cs; cbn [gen_encode_f doc_tree_f known_f]; [discriminate|].
  destruct (nth_error Sc d) as [df|] eqn:En; [|discriminate].
  intros He Hk Hb. eapply (doc_def_ok okty Hty) with (d := d) (recK := fun d' v' => if Nat.ltb d' d then known_f fmt_group k Sc d' v' else false); try eassumption.
  - intros d' v' cs'. cbn beta. destruct (Nat.ltb d' d); [apply IH|discriminate].
  - eapply schema_ok_nth; eassumption.
  - eapply schema_all_nth; eassumption.
Qed.

(* C08: outside the class F14 the bytes of the derived encoder are the documented format — provided every
   built-in field type of the schema encodes as its documented tree (hypothesis Hty) and the encoding is
   shorter than 2^64 bytes (every Rust slice is). *)
Theorem gen_encode_doc Sc d v cs : schema_ok Sc = true -> schema_all okty Sc ->
  gen_encode Sc d v = Some cs -> known_alias_nil Sc d v = false -> len (flat cs) < two64 ->
  exists e, doc_tree Sc d v = Some e /\ flat cs = ser (prefer e) /\ wf (prefer e) = true.
Proof. intros Hok Hall. apply doc_tree_f_ok; assumption. Qed.
End Top.

(* ---- the witness of class F14 ---- *)
Definition f13_schema : schema :=
  [DStruct (Some AsMap) None false DsNamed
     [mkfield 0 false None CoBytes false false (FTy (TyOpt TyBytes)); mkfield 1 false None CoDefault false false (FTy (TyU B8))]].
Definition f13_value : value := VList [VNone; VNat 0].

Lemma f13_refuted : schema_ok f13_schema = true /\ known_alias_nil f13_schema 0 f13_value = true /\
  exists cs, gen_encode f13_schema 0 f13_value = Some cs /\ flat cs = [162; 0; 246; 1; 0] /\
             doc_bytes f13_schema 0 f13_value = Some [161; 1; 0].
Proof. vm_compute. repeat split. eexists. repeat split. Qed.

