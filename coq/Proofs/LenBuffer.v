(* Proofs/LenBuffer.v — the consequence stated in C07: a bounded sink of exactly len_ty t v bytes accepts
   the encoding of v, any smaller one refuses it. *)
From MC Require Import Bytes Monad Cbor Decoder Encoder Types TypesEnc TypesLen TypesFacts Sink SinkFacts.
From Coq Require Import Lia.
Local Open Scope N_scope.

Lemma len_buffer : forall k t v cs, bounded k = true -> ty_ok t = true -> encode_ty t v = Some cs ->
  fst (run_sink (sink_new k (len_ty t v)) cs) = true
  /\ s_written (snd (run_sink (sink_new k (len_ty t v)) cs)) = flat cs
  /\ (forall cap, cap < len_ty t v -> fst (run_sink (sink_new k cap) cs) = false).
Proof.
  intros k t v cs Hb Ht He.
  pose proof (len_ty_is_exact t v cs Ht He) as Hl.
  destruct (sinks_bounded k (len_ty t v) cs Hb) as (Hiff & _ & _ & _ & _ & Hfull).
  assert (Hok : fst (run_sink (sink_new k (len_ty t v)) cs) = true) by (apply Hiff; lia).
  split; [exact Hok|]. split; [exact (Hfull Hok)|].
  intros cap Hc. destruct (sinks_bounded k cap cs Hb) as (Hiff' & _).
  destruct (fst (run_sink (sink_new k cap) cs)) eqn:E; [|reflexivity].
  exfalso. assert (len (flat cs) <= cap) by (apply Hiff'; reflexivity). lia.
Qed.
