(* Proofs/DeriveFacts.v — facts shared by the derive proofs: the sorted field list, lookups in it,
   option-concatenation, lengths of heads. *)
From MC Require Import Bytes BytesFacts Cbor Encoder EncoderFacts DecoderFacts Types DeriveSchema DeriveEnc DeriveLen.
From Coq Require Import Lia Permutation.
Local Open Scope N_scope.

(* ---- ocat ---- *)
Lemma ocat_some a b c : ocat a b = Some c -> exists x y, a = Some x /\ b = Some y /\ c = x ++ y.
Proof. destruct a as [x|], b as [y|]; cbn; intro H; try discriminate. injection H as <-. eauto. Qed.
Lemma ocat3_some a b c : ocat3 a b = Some c -> exists y, b = Some y /\ c = a ++ y.
Proof. unfold ocat3. intro H. apply ocat_some in H as (x & y & Hx & Hy & ->). injection Hx as <-. eauto. Qed.

Lemma len_flat_app a b : len (flat (a ++ b)) = len (flat a) + len (flat b).
Proof. now rewrite flat_app, len_app. Qed.

Lemma len_flat_cons c r : len (flat (c :: r)) = len c + len (flat r).
Proof. unfold flat. cbn [concat]. now rewrite len_app. Qed.

(* ---- sorting ---- *)
Section Sort.
Context {A : Type} (key : A -> N).

Fixpoint asc (p : N) (l : list A) : Prop :=
  match l with [] => True | x :: r => p <= key x /\ asc (key x + 1) r end.

Lemma asc_weaken p q l : q <= p -> asc p l -> asc q l.
Proof. destruct l; cbn; [auto|]. intros H [H1 H2]. split; [lia|assumption]. Qed.

Lemma asc_not_in p l x : asc p l -> key x < p -> ~ In x l.
Proof.
  revert p. induction l as [|y r IH]; cbn; intros p Ha Hx; [tauto|].
  destruct Ha as [H1 H2]. intros [->|Hin]; [lia|]. apply (IH (key y + 1)); [assumption|lia|assumption].
Qed.

Lemma asc_keys_ge p l x : asc p l -> In x l -> p <= key x.
Proof.
  revert p. induction l as [|y r IH]; cbn; intros p Ha Hin; [tauto|].
  destruct Ha as [H1 H2]. destruct Hin as [->|Hin]; [assumption|]. specialize (IH _ H2 Hin). lia.
Qed.

Lemma insert_by_perm x l : Permutation (insert_by key x l) (x :: l).
Proof.
  induction l as [|y r IH]; cbn [insert_by]; [reflexivity|].
  destruct (key x <=? key y); [reflexivity|].
  rewrite IH. apply perm_swap.
Qed.

Lemma sort_by_perm l : Permutation (sort_by key l) l.
Proof.
  induction l as [|x r IH]; cbn [sort_by]; [reflexivity|].
  rewrite insert_by_perm. now constructor.
Qed.

Lemma asc_insert p x l : asc p l -> p <= key x -> (forall y, In y l -> key y <> key x) -> asc p (insert_by key x l).
Proof.
  revert p. induction l as [|y r IH]; intros p Ha Hp Hne; cbn [insert_by].
  - cbn. split; [assumption|exact I].
  - cbn in Ha. destruct Ha as [H1 H2].
    assert (Hy : key y <> key x) by (apply Hne; now left).
    destruct (N.leb_spec (key x) (key y)).
    + cbn. split; [assumption|]. split; [lia|assumption].
    + cbn. split; [assumption|]. apply IH; [assumption|lia|]. intros z Hz. apply Hne. now right.
Qed.

Fixpoint keys_nodup (l : list A) : Prop :=
  match l with [] => True | x :: r => (forall y, In y r -> key y <> key x) /\ keys_nodup r end.

Lemma asc_sort l : keys_nodup l -> asc 0 (sort_by key l).
Proof.
  induction l as [|x r IH]; cbn [sort_by keys_nodup]; [intros; exact I|].
  intros [Hx Hr]. apply asc_insert; [now apply IH|lia|].
  intros y Hy. apply Hx. eapply Permutation_in; [apply sort_by_perm|exact Hy].
Qed.
End Sort.

Lemma nodupN_spec {A} (key : A -> N) l : nodupN (map key l) = true -> keys_nodup key l.
Proof.
  induction l as [|x r IH]; cbn [map nodupN keys_nodup]; [auto|].
  intro H. apply andb_prop in H as [H1 H2]. split; [|now apply IH].
  intros y Hy E. apply negb_true_iff in H1.
  assert (existsb (N.eqb (key x)) (map key r) = true); [|congruence].
  apply existsb_exists. exists (key y). split; [now apply in_map|]. apply N.eqb_eq. now symmetry.
Qed.

Lemma sorted_fields_asc d fs : fields_ok d fs = true -> asc pf_idx 0 (sorted_fields fs).
Proof.
  unfold fields_ok. intro H. apply andb_prop in H as [_ H]. apply asc_sort. now apply nodupN_spec.
Qed.

Lemma sorted_fields_perm fs : Permutation (sorted_fields fs) (active fs).
Proof. apply sort_by_perm. Qed.

(* ---- lengths of heads ---- *)
Lemma len_type_len t x : len (flat (type_len t x)) = len_u64 x.
Proof.
  unfold type_len, len_u64.
  repeat match goal with |- context [?a <=? ?b] => destruct (a <=? b) end; cbn [flat concat app]; rewrite ?app_nil_r;
  repeat rewrite ?len_cons, ?len_app, ?len_be, ?len_nil; reflexivity.
Qed.
Lemma len_enc_array n : len (flat (enc_array n)) = len_u64 n. Proof. apply len_type_len. Qed.
Lemma len_enc_map n : len (flat (enc_map n)) = len_u64 n. Proof. apply len_type_len. Qed.
Lemma len_enc_tag n : len (flat (enc_tag n)) = len_u64 n. Proof. apply len_type_len. Qed.
Lemma len_enc_tag_opt t : len (flat (enc_tag_opt t)) = len_tag_opt t.
Proof. destruct t; cbn [enc_tag_opt len_tag_opt]; [apply len_enc_tag|reflexivity]. Qed.
Lemma len_enc_u32 x : len (flat (enc_u32 x)) = len_u32 x.
Proof.
  unfold enc_u32, len_u32.
  repeat match goal with |- context [?a <=? ?b] => destruct (a <=? b) end; cbn [flat concat app]; rewrite ?app_nil_r;
  repeat rewrite ?len_cons, ?len_app, ?len_be, ?len_nil; reflexivity.
Qed.
Lemma len_enc_u64 x : len (flat (enc_u64 x)) = len_u64 x.
Proof.
  unfold enc_u64, len_u64.
  repeat match goal with |- context [?a <=? ?b] => destruct (a <=? b) end; cbn [flat concat app]; rewrite ?app_nil_r;
  repeat rewrite ?len_cons, ?len_app, ?len_be, ?len_nil; reflexivity.
Qed.
Lemma len_nulls n : len (flat (nulls n)) = n.
Proof.
  unfold nulls. rewrite <- (N2Nat.id n) at 2. induction (N.to_nat n) as [|k IH]; [reflexivity|].
  cbn [repeat concat]. rewrite len_flat_app, IH. change (len (flat enc_null)) with 1. lia.
Qed.

(* ---- the array statements with the number of positions already emitted ---- *)
Section Stmts.
Variable rec : nat -> value -> option (list chunk).

Fixpoint arr_stmts (l : list pfield) (vs : list value) (p i : N) : option (list chunk) :=
  match l with
  | [] => Some []
  | pf :: r =>
      ocat (if pf_idx pf <=? i
            then ocat3 (nulls (pf_idx pf - p) ++ enc_tag_opt (f_tag (pf_fld pf))) (enc_field_fn rec (pf_fld pf) (pf_val vs pf))
            else Some [])
           (arr_stmts r vs (pf_idx pf + 1) i)
  end.

Lemma enc_array_stmts_eq l vs first k i :
  enc_array_stmts rec l vs first k i = arr_stmts l vs (if first then k else k + 1) i.
Proof.
  revert first k. induction l as [|pf r IH]; intros first k; cbn [enc_array_stmts arr_stmts]; [reflexivity|].
  rewrite IH. cbn [negb]. replace (if first then pf_idx pf - k else pf_idx pf - k - 1) with (pf_idx pf - (if first then k else k + 1)).
  - reflexivity.
  - destruct first; lia.
Qed.
End Stmts.

(* max_index: the index of the last non-nil field, if any *)
Lemma max_index_app l1 l2 vs acc : max_index (l1 ++ l2) vs acc = max_index l2 vs (max_index l1 vs acc).
Proof. revert acc. induction l1 as [|pf r IH]; intro acc; cbn [app max_index]; [reflexivity|apply IH]. Qed.

Definition nilp (vs : list value) (pf : pfield) : bool := fld_is_nil (pf_fld pf) (pf_val vs pf).

Lemma max_index_all_nil l vs acc : forallb (nilp vs) l = true -> max_index l vs acc = acc.
Proof.
  revert acc. induction l as [|pf r IH]; intro acc; cbn [forallb max_index]; [reflexivity|].
  intro H. apply andb_prop in H as [H1 H2]. unfold nilp in H1. rewrite H1. now apply IH.
Qed.

Lemma max_index_some l vs acc i : max_index l vs acc = Some i ->
  (forallb (nilp vs) l = true /\ acc = Some i) \/
  (exists l1 pf l2, l = l1 ++ pf :: l2 /\ nilp vs pf = false /\ pf_idx pf = i /\ forallb (nilp vs) l2 = true).
Proof.
  revert acc. induction l as [|pf r IH]; intro acc; cbn [max_index forallb].
  - intro H. left. split; [reflexivity|assumption].
  - intro H. apply IH in H as [[H1 H2]|(l1 & pf' & l2 & -> & Hn & Hi & Hl2)].
    + fold (nilp vs pf) in H2. destruct (nilp vs pf) eqn:E.
      * left. split; [now rewrite H1|assumption].
      * right. exists [], pf, r. injection H2 as H2. repeat split; assumption.
    + right. exists (pf :: l1), pf', l2. repeat split; assumption.
Qed.

Lemma max_index_none_gen l vs acc : max_index l vs acc = None -> acc = None /\ forallb (nilp vs) l = true.
Proof.
  revert acc. induction l as [|pf r IH]; intro acc; cbn [max_index forallb]; [auto|].
  intro H. apply IH in H as [H1 H2]. fold (nilp vs pf) in H1. destruct (nilp vs pf); [|discriminate].
  split; [assumption|now rewrite H2].
Qed.
Lemma max_index_none l vs : max_index l vs None = None -> forallb (nilp vs) l = true.
Proof. intro H. now apply max_index_none_gen in H. Qed.

(* ---- every built-in leaf type of a schema satisfies P ---- *)
Section All.
Variable P : ty -> Prop.
Fixpoint fty_all (f : fty) : Prop :=
  match f with FTy t => P t | FRef _ => True | FOpt f' | FSeq f' => fty_all f' end.
Definition fields_all (fs : list field) : Prop := Forall (fun f => fty_all (f_ty f)) fs.
Definition def_all (df : def) : Prop :=
  match df with
  | DStruct _ _ _ _ fs => fields_all fs
  | DEnum _ _ _ vs => Forall (fun v => fields_all (v_fields v)) vs
  end.
Definition schema_all (Sc : schema) : Prop := Forall def_all Sc.
End All.

Lemma in_with_pos fs p pf : In pf (with_pos fs p) -> nth_error fs (pf_pos pf - p) = Some (pf_fld pf) /\ (p <= pf_pos pf)%nat.
Proof.
  revert p. induction fs as [|f r IH]; intros p; cbn [with_pos]; [intros []|].
  intros [<-|H].
  - cbn [pf_pos pf_fld]. rewrite Nat.sub_diag. split; [reflexivity|lia].
  - apply IH in H as [H1 H2]. split; [|lia].
    replace (pf_pos pf - p)%nat with (S (pf_pos pf - S p)) by lia. exact H1.
Qed.

Lemma in_sorted_fields fs pf : In pf (sorted_fields fs) -> In (pf_fld pf) fs /\ f_skip (pf_fld pf) = false.
Proof.
  intro H. eapply Permutation_in in H; [|apply sorted_fields_perm].
  unfold active in H. apply filter_In in H as [H1 H2]. apply in_with_pos in H1 as [H1 _].
  split; [eapply nth_error_In, H1|]. now apply negb_true_iff in H2.
Qed.

Lemma find_variant_in vars i va : find_variant vars i = Some va -> In va vars /\ v_idx va = i.
Proof.
  induction vars as [|v r IH]; cbn [find_variant]; [discriminate|].
  destruct (N.eqb_spec (v_idx v) i).
  - intros [= <-]. split; [now left|assumption].
  - intro H. apply IH in H as [H1 H2]. split; [now right|assumption].
Qed.

Lemma defs_ok_nth S0 : forall d0 d df, defs_ok S0 d0 = true -> nth_error S0 d = Some df -> def_ok (d0 + d) df = true.
Proof.
  induction S0 as [|x r IH]; intros d0 d df; cbn [defs_ok]; [destruct d; discriminate|].
  intro H. apply andb_prop in H as [H1 H2]. destruct d as [|d]; cbn [nth_error].
  - intros [= <-]. now rewrite Nat.add_0_r.
  - intro Hn. replace (d0 + S d)%nat with (S d0 + d)%nat by lia. eapply IH; eassumption.
Qed.
Lemma schema_ok_nth Sc d df : schema_ok Sc = true -> nth_error Sc d = Some df -> def_ok d df = true.
Proof. intros H Hn. apply (defs_ok_nth Sc 0 d df H Hn). Qed.
Lemma schema_all_nth P Sc d df : schema_all P Sc -> nth_error Sc d = Some df -> def_all P df.
Proof. unfold schema_all. rewrite Forall_forall. intros H Hn. eapply H, nth_error_In, Hn. Qed.
