(* Proofs/Float16Flocq.v — optional cross-check of Spec/Float16.v against Flocq 4.1 (the only file of the
   development that imports anything outside the standard library).
     * fdecode (what a pattern denotes) = Flocq's binary_float_of_bits, constructor by constructor
       (sign, integer significand, exponent), on all 2^16 binary16 patterns and on a boundary set of
       binary32 / binary64 patterns;
     * rne16 = Flocq's binary_normalize 11 16 mode_NE (round to nearest even into binary16, overflow to
       infinity) followed by bits_of_binary_float, on the same boundary set of binary32 patterns.
   The theorems are finite (forallb ... = true by vm_compute).  Their Print Assumptions lists the axioms
   Flocq's definitions rest on (classical reals); they are not used by anything pinned in Props/C12.v. *)
From Flocq Require Import IEEE754.Binary IEEE754.Bits.
From MC Require Import Bytes Half Float16 HalfFacts.
Local Open Scope N_scope.

Definition of_flocq {prec emax} (f : binary_float prec emax) : fval :=
  match f with
  | B754_zero _ _ s => FZero s
  | B754_infinity _ _ s => FInf s
  | B754_nan _ _ _ _ _ => FNan
  | B754_finite _ _ s m e _ => FFin s (Zpos m) e
  end.

(* identical representation, not just the same value *)
Definition fval_eqb (a b : fval) : bool :=
  match a, b with
  | FNan, FNan => true
  | FInf s, FInf s' => Bool.eqb s s'
  | FZero s, FZero s' => Bool.eqb s s'
  | FFin s m e, FFin s' m' e' => Bool.eqb s s' && (m =? m')%Z && (e =? e')%Z
  | _, _ => false
  end.

Definition flocq16 (h : N) : binary_float 11 16 :=
  binary_float_of_bits 10 5 (refl_equal _) (refl_equal _) (refl_equal _) (Z.of_N h).
Definition flocq32 (x : N) : binary_float 24 128 := b32_of_bits (Z.of_N x).
Definition flocq64 (x : N) : binary_float 53 1024 := b64_of_bits (Z.of_N x).

(* binary32 pattern -> binary16 pattern through Flocq; None for NaN operands *)
Definition flocq_rne16 (x : N) : option Z :=
  match flocq32 x with
  | B754_nan _ _ _ _ _ => None
  | B754_zero _ _ s => Some (bits_of_binary_float 10 5 (B754_zero 11 16 s))
  | B754_infinity _ _ s => Some (bits_of_binary_float 10 5 (B754_infinity 11 16 s))
  | B754_finite _ _ s m e _ =>
      Some (bits_of_binary_float 10 5
              (binary_normalize 11 16 (refl_equal _) (refl_equal _) BinarySingleNaN.mode_NE
                 (if s then Zneg m else Zpos m) e s))
  end.

(* boundary set of binary32 patterns: both signs x all 256 exponent fields x
   { the mantissas of checks/C12.py } + { 2^k, 2^k +- 1, 3 * 2^k, 3 * 2^k +- 1 : k < 23 } (every rounding tie
   of every subnormal result, and the neighbours of every tie) *)
Definition pows : list N := map (fun k => 2 ^ k) (nseq 23 0).
Definition mants : list N :=
  [0; 1; 0xfff; 0x1000; 0x1001; 0x1fff; 0x2000; 0x3000; 0x7fffff; 0x7fe000; 0x7fefff; 0x7ff000; 0x7ff001; 0x400000; 0x3fffff]
  ++ flat_map (fun p => [p; p + 1; p - 1; 3 * p; 3 * p + 1; 3 * p - 1]) pows.
Definition boundary32 : list N :=
  flat_map (fun s => flat_map (fun e => map (fun m => s * 2 ^ 31 + e * 2 ^ 23 + m mod 2 ^ 23) mants) (nseq 256 0)) [0; 1].

Definition agree_round (x : N) : bool :=
  match flocq_rne16 x with
  | Some z => (z =? Z.of_N (rne16 x))%Z
  | None => fv_is_nan (fdecode binary32 x)
  end.

Lemma flocq_decode16 : forall h, h < 65536 -> fval_eqb (of_flocq (flocq16 h)) (fdecode binary16 h) = true.
Proof. apply forall16. vm_compute. reflexivity. Qed.

Lemma flocq_decode32 : forall x, In x boundary32 -> fval_eqb (of_flocq (flocq32 x)) (fdecode binary32 x) = true.
Proof. apply forallb_forall. vm_compute. reflexivity. Qed.

Lemma flocq_decode64 : forall x, In x boundary32 ->
  fval_eqb (of_flocq (flocq64 (f32_to_f64 x))) (fdecode binary64 (f32_to_f64 x)) = true.
Proof. apply forallb_forall. vm_compute. reflexivity. Qed.

Lemma flocq_round : forall x, In x boundary32 -> agree_round x = true.
Proof. apply forallb_forall. vm_compute. reflexivity. Qed.

(* the boundary set is what it is meant to be *)
Example boundary32_size :
  len boundary32 = 78336 /\
  forallb (fun x => existsb (N.eqb x) boundary32) [0x477ff000; 0x477fefff; 0x33000001; 0xb3000000; 0x7f800001; 0x387fffff] = true.
Proof. vm_compute. split; reflexivity. Qed.
